package main

import (
	"encoding/json"
	"fmt"
	"os"
	"path/filepath"
	"sort"
	"strings"
)

type Status string

const (
	Discharged Status = "discharged"
	Violated   Status = "violated"
	Undecided  Status = "undecided"
)

// Ob is one obligation: a rule instance decided on the current tree.
type Ob struct {
	Rule   string   `json:"rule"`
	Inst   string   `json:"instance"` // stable key: rule-specific, never a line number
	Props  []string `json:"properties"`
	Pos    string   `json:"pos"`
	Func   string   `json:"function,omitempty"`
	Status Status   `json:"status"`
	Msg    string   `json:"message"`
	Path   []string `json:"path,omitempty"` // call chain / CFG edges / protecting constructs
	// Nontrivial: discharging it needed a dominance / path / flow query across
	// at least two basic blocks or one call edge.
	Nontrivial bool `json:"nontrivial"`
	// Guard positions (file:line of the protecting constructs) used by the
	// directed mutation tier.
	Guards []string `json:"guards,omitempty"`
}

func (o Ob) key() string { return o.Rule + "/" + o.Inst }

func (o Ob) serves(prop string) bool {
	for _, p := range o.Props {
		if p == prop {
			return true
		}
	}
	return false
}

// Rule is one entry of the rule catalogue.
type Rule struct {
	ID    string
	Title string
	Props []string // properties any of its obligations may serve
	Run   func(p *Prog) []Ob
}

// Finding is an entry of known_findings.json.
type Finding struct {
	State    string `json:"state"` // "known" or "fixed"
	Property string `json:"property"`
	Rule     string `json:"rule"`
	Instance string `json:"instance"` // exact obligation key (rule/instance)
	Commit   string `json:"commit,omitempty"`
	What     string `json:"what"`
}

type FindingsFile struct {
	Comment  string    `json:"comment"`
	Findings []Finding `json:"findings"`
}

func loadFindings(path string) FindingsFile {
	var ff FindingsFile
	data, err := os.ReadFile(path)
	if err != nil {
		if os.IsNotExist(err) {
			return ff
		}
		fatal("read %s: %v", path, err)
	}
	if err := json.Unmarshal(data, &ff); err != nil {
		fatal("parse %s: %v", path, err)
	}
	return ff
}

// Floors: minimal number of obligations per rule/property confirmed by reading.
type Floors map[string]int // key "R1" or "R1@C06"

func loadFloors(path string) Floors {
	f := Floors{}
	data, err := os.ReadFile(path)
	if err != nil {
		fatal("read %s: %v", path, err)
	}
	var raw map[string]any
	if err := json.Unmarshal(data, &raw); err != nil {
		fatal("parse %s: %v", path, err)
	}
	for k, v := range raw {
		if n, ok := v.(float64); ok {
			f[k] = int(n)
		}
	}
	return f
}

type Evidence struct {
	PropertyID  string         `json:"property_id"`
	Tier        string         `json:"tier"`
	Seed        int            `json:"seed"`
	Level       string         `json:"level"`
	Coverage    map[string]any `json:"coverage"`
	Assumptions []string       `json:"assumptions"`
	WallS       float64        `json:"wall_s"`
	Violations  int            `json:"violations"`
}

func writeJSON(path string, v any) {
	if err := os.MkdirAll(filepath.Dir(path), 0o755); err != nil {
		fatal("mkdir %s: %v", filepath.Dir(path), err)
	}
	data, err := json.MarshalIndent(v, "", " ")
	if err != nil {
		fatal("marshal: %v", err)
	}
	if err := os.WriteFile(path, append(data, '\n'), 0o644); err != nil {
		fatal("write %s: %v", path, err)
	}
}

func sortObs(obs []Ob) {
	sort.SliceStable(obs, func(i, j int) bool {
		if obs[i].Rule != obs[j].Rule {
			return ruleNum(obs[i].Rule) < ruleNum(obs[j].Rule)
		}
		return obs[i].Inst < obs[j].Inst
	})
}

func ruleNum(id string) int {
	n := 0
	fmt.Sscanf(strings.TrimLeft(id, "R"), "%d", &n)
	return n
}

func diag(o Ob) string {
	s := fmt.Sprintf("%s: %s[%s] %s: %s", o.Pos, o.Rule, o.Inst, o.Status, o.Msg)
	if o.Func != "" {
		s += " (in " + o.Func + ")"
	}
	for _, p := range o.Path {
		s += "\n    " + p
	}
	return s
}
