package main

import (
	"fmt"
	"go/ast"
	"go/token"
	"go/types"
	"regexp"
	"sort"
	"strconv"
	"strings"

	"golang.org/x/tools/go/ssa"
)

// R16 INDEX-OPTIONAL — an index file may always be missing (C11, C07)
// R13 SEGMENT-NAMES — what New prints, Find parses, and sorts (C01, C02)
// R19 VERSION-DISPATCH exhaustive (C17, C13)

// derivesFromErr: does the returned error v derive from error value e (bare, via phi, or wrapped)?
func derivesFromErr(v, e ssa.Value, depth int) bool {
	if depth > 8 {
		return false
	}
	if v == e {
		return true
	}
	switch x := v.(type) {
	case *ssa.Phi:
		for _, ed := range x.Edges {
			if derivesFromErr(ed, e, depth+1) {
				return true
			}
		}
	case *ssa.Call:
		nm := calleeName(x.Common())
		if nm == "fmt.Errorf" && len(x.Call.Args) > 1 {
			for _, a := range variadicArgs(x.Call.Args[1]) {
				if a != nil && derivesFromErr(stripConv(a), e, depth+1) {
					return true
				}
			}
		}
		if nm == "errors.Join" && len(x.Call.Args) > 0 {
			for _, a := range variadicArgs(x.Call.Args[0]) {
				if a != nil && derivesFromErr(a, e, depth+1) {
					return true
				}
			}
		}
	case *ssa.MakeInterface:
		return derivesFromErr(x.X, e, depth+1)
	case *ssa.ChangeInterface:
		return derivesFromErr(x.X, e, depth+1)
	case *ssa.UnOp:
		if al, ok := x.X.(*ssa.Alloc); ok && x.Op == token.MUL {
			for _, st := range allocStores(al) {
				if derivesFromErr(st.Val, e, depth+1) {
					return true
				}
			}
		}
	}
	return false
}

func isNotExistTarget(t string) bool {
	return t == "X:os.ErrNotExist" || t == "X:io/fs.ErrNotExist"
}

// notExistEdges returns, for error value e, the (block, successor index) edges on which e is known
// NOT to be "file does not exist".
func notExistTests(fn *ssa.Function, e ssa.Value) (tests []*ssa.If, notIdx []int) {
	for _, b := range fn.Blocks {
		iff, ok := terminator(b).(*ssa.If)
		if !ok {
			continue
		}
		t, ok := classifyErrCond(iff.Cond, e)
		if !ok || t.kind != "is" || !isNotExistTarget(t.target) {
			continue
		}
		if t.noUnwrap && wrapsItsErrors(e) {
			continue // os.IsNotExist does not see through %w: this test never matches a wrapped error
		}
		idx := 1
		if !t.trueMeans {
			idx = 0
		}
		tests = append(tests, iff)
		notIdx = append(notIdx, idx)
	}
	return
}

// toleratesNotExist: no return hands error e on along a path on which e has not been tested
// for os.ErrNotExist (and found to be something else).  Edge-sensitive: a phi only carries e
// along the incoming edges that really come from an untested region.
func (p *Prog) toleratesNotExist(fn *ssa.Function, e ssa.Value) (bool, string) {
	if e == nil {
		return true, "error result dropped"
	}
	ei := errResultIndex(fn)
	tests, notIdx := notExistTests(fn, e)
	testedAt := func(b *ssa.BasicBlock) bool {
		for i, t := range tests {
			if edgeDominates(t.Block(), notIdx[i], b) {
				return true
			}
		}
		return false
	}
	testedEdge := func(pred, to *ssa.BasicBlock) bool {
		if testedAt(pred) {
			return true
		}
		for i, t := range tests {
			if t.Block() == pred && pred.Succs[notIdx[i]] == to && pred.Succs[1-notIdx[i]] != to {
				return true
			}
		}
		return false
	}
	var untested func(v ssa.Value, at *ssa.BasicBlock, depth int) bool
	untested = func(v ssa.Value, at *ssa.BasicBlock, depth int) bool {
		if depth > 8 {
			return true
		}
		if v == e {
			return !testedAt(at)
		}
		switch x := v.(type) {
		case *ssa.Phi:
			for i, ed := range x.Edges {
				pred := x.Block().Preds[i]
				if ed == e {
					if !testedEdge(pred, x.Block()) {
						return true
					}
					continue
				}
				if derivesFromErr(ed, e, 0) && untested(ed, pred, depth+1) {
					return true
				}
			}
			return false
		case *ssa.Call:
			nm := calleeName(x.Common())
			var args []ssa.Value
			if nm == "fmt.Errorf" && len(x.Call.Args) > 1 {
				args = variadicArgs(x.Call.Args[1])
			}
			if nm == "errors.Join" && len(x.Call.Args) > 0 {
				args = variadicArgs(x.Call.Args[0])
			}
			for _, a := range args {
				if a != nil && derivesFromErr(stripConv(a), e, 0) && untested(stripConv(a), x.Block(), depth+1) {
					return true
				}
			}
			return false
		case *ssa.MakeInterface:
			return untested(x.X, at, depth+1)
		case *ssa.ChangeInterface:
			return untested(x.X, at, depth+1)
		case *ssa.UnOp:
			if al, ok := x.X.(*ssa.Alloc); ok && x.Op == token.MUL {
				for _, st := range allocStores(al) {
					if derivesFromErr(st.Val, e, 0) && untested(st.Val, st.Block(), depth+1) {
						return true
					}
				}
			}
			return false
		}
		return false
	}
	for _, rt := range returnsOf(fn) {
		if ei < 0 || ei >= len(rt.Results) {
			continue
		}
		v := returnOperand(rt, ei)
		if !derivesFromErr(v, e, 0) {
			continue
		}
		if untested(v, rt.Block(), 0) {
			return false, "the error is returned at " + p.posStr(rt.Pos()) + " without a preceding errors.Is(err, os.ErrNotExist) / os.IsNotExist test"
		}
	}
	return true, ""
}

type indexSite struct {
	fn   *ssa.Function
	call *ssa.Call
	what string
	pc   pathClass
}

// indexConsumers: calls that need the index file at a Segment's Index path to exist.
func (p *Prog) indexConsumers() []indexSite {
	var out []indexSite
	copyFile := p.copyFileFunc()
	for _, fn := range p.Funcs {
		if !srcFunc(fn) || funcPkgPath(fn) == pkgIndex {
			continue
		}
		for _, b := range fn.Blocks {
			for _, ins := range b.Instrs {
				c, ok := ins.(*ssa.Call)
				if !ok {
					continue
				}
				nm := calleeName(c.Common())
				argIdx := -1
				switch nm {
				case "os.Remove", "os.Stat", "os.Open", "os.Lstat", "os.ReadFile", "os.Rename", "os.Truncate", "os.Chtimes":
					argIdx = 0
				case pkgIndex + ".Read", pkgIndex + ".Stat", pkgIndex + ".GetVersion":
					argIdx = 0
				default:
					if copyFile != nil && c.Common().StaticCallee() == copyFile {
						argIdx = 0
					}
				}
				if argIdx < 0 || argIdx >= len(c.Call.Args) {
					continue
				}
				pc := p.classifyPath(c.Call.Args[argIdx])
				if pc.kind == "seg" && pc.fld == "Index" {
					out = append(out, indexSite{fn: fn, call: c, what: strings.TrimPrefix(nm, modPath+"/pkg/"), pc: pc})
				}
			}
		}
	}
	return out
}

// copyFileFunc: the module function that copies a file (calls io.Copy and opens its first string parameter).
func (p *Prog) copyFileFunc() *ssa.Function {
	if fn := p.copyFileFuncBy(func(nm string) bool { return nm == "io.Copy" }); fn != nil {
		return fn
	}
	// a copy loop of the module's own: the function that opens its first path and creates its second
	var cand *ssa.Function
	for _, fn := range p.Funcs {
		if !srcFunc(fn) || funcPkgPath(fn) != pkgSegment || fn.Signature.Params().Len() != 2 || fn.Parent() != nil {
			continue
		}
		opens, creates := false, false
		for _, b := range fn.Blocks {
			for _, ins := range b.Instrs {
				if c, ok := ins.(*ssa.Call); ok && len(c.Call.Args) > 0 {
					switch calleeName(c.Common()) {
					case "os.Open":
						opens = opens || canon(c.Call.Args[0]) == ssa.Value(fn.Params[0])
					case "os.OpenFile", "os.Create":
						creates = creates || canon(c.Call.Args[0]) == ssa.Value(fn.Params[1])
					}
				}
			}
		}
		if opens && creates {
			cand = fn
		}
	}
	return cand
}

func (p *Prog) copyFileFuncBy(isCopy func(string) bool) *ssa.Function {
	for _, fn := range p.Funcs {
		if !srcFunc(fn) || funcPkgPath(fn) != pkgSegment || fn.Signature.Params().Len() != 2 {
			continue
		}
		for _, b := range fn.Blocks {
			for _, ins := range b.Instrs {
				if c, ok := ins.(*ssa.Call); ok && isCopy(calleeName(c.Common())) {
					return fn
				}
			}
		}
	}
	return nil
}

func ruleR16(p *Prog) []Ob {
	var obs []Ob
	ea := p.ErrAtomsCached()
	_ = ea
	r := p.R
	sites := p.indexConsumers()
	ord := map[string]int{}
	for _, s := range sites {
		fn := s.fn
		k := funcLabel(fn) + ":" + s.what
		ord[k]++
		inst := k
		if ord[k] > 1 {
			inst = fmt.Sprintf("%s#%d", k, ord[k])
		}
		ob := Ob{Rule: "R16", Inst: inst, Props: []string{"C11"}, Pos: p.at(s.call), Func: funcLabel(fn), Nontrivial: true}
		if g := s.call.Common().StaticCallee(); g != nil && g == p.copyFileFunc() {
			ob.Props = append(ob.Props, "C20") // the backup of a segment whose index is missing
		}
		if strings.Contains(funcLabel(fn), "Check") || strings.Contains(funcLabel(fn), "Recover") {
			ob.Props = []string{"C11", "C07"}
		}
		e := errResultOfCall(s.call)
		// (1) tolerant
		if ok, _ := p.toleratesNotExist(fn, e); ok {
			ob.Status, ob.Msg = Discharged, "a missing index file is tolerated: the error is only handed on after an os.ErrNotExist test"
			obs = append(obs, ob)
			continue
		}
		// (2) ensured
		if why := p.indexEnsured(s, sites); why != "" {
			ob.Status, ob.Msg = Discharged, "the index file is known to exist here: "+why
			obs = append(obs, ob)
			continue
		}
		_, why := p.toleratesNotExist(fn, e)
		ob.Status = Violated
		ob.Msg = fmt.Sprintf("%s on a segment's Index path fails when the index file is missing, although index files are derived data that may always be absent (%s)", s.what, why)
		// call chain from an API entry
		for name, m := range r.ImplMethods {
			if p.reaches(m, func(g *ssa.Function) bool { return g == fn }) {
				ob.Path = append(ob.Path, "reachable from Log."+name)
			}
		}
		sort.Strings(ob.Path)
		obs = append(obs, ob)
	}
	if len(sites) == 0 {
		obs = append(obs, Ob{Rule: "R16", Inst: "sites", Props: []string{"C11", "C07"}, Pos: "-", Status: Undecided, Msg: "no file operation on a Segment's Index path found"})
	}
	return obs
}

// indexEnsured: reasons why the index file must exist at the site.
func (p *Prog) indexEnsured(s indexSite, all []indexSite) string {
	fn := s.fn
	r := p.R
	// (a) the segment is the receiver of a Segment method that is only ever called on rewrite
	// products (whose index is written by the rewrite, R1 I6), directly or through other methods
	// called on their own receiver
	if recvNamed(fn) == r.Segment && len(fn.Params) > 0 && p.isReceiverValue(fn, s.call.Call.Args[0]) {
		if n, ok := p.onlyCalledOnRewriteProducts(fn, 0); ok {
			return fmt.Sprintf("the receiver is a rewrite product at all %d call sites, and a rewrite writes its index before it returns", n)
		}
	}
	// (b) an earlier operation on the same path whose ErrNotExist outcome branched away, or that creates the file
	for _, b := range fn.Blocks {
		for _, ins := range b.Instrs {
			c, ok := ins.(*ssa.Call)
			if !ok || c == s.call || !instrDominates(c, s.call) {
				continue
			}
			nm := calleeName(c.Common())
			if len(c.Call.Args) == 0 {
				continue
			}
			pc := p.classifyPath(c.Call.Args[0])
			samePath := pc.kind == "seg" && pc.fld == "Index" && pc.seg == s.pc.seg
			if samePath && (nm == pkgIndex+".Write" || nm == pkgIndex+".OpenWriter") && p.failureEdgeLeaves(p.ErrAtomsCached(), c, s.call) {
				return "created by " + strings.TrimPrefix(nm, modPath+"/pkg/") + " at " + p.at(c)
			}
			if samePath {
				e := errResultOfCall(c)
				if e == nil {
					continue
				}
				tests, notIdx := notExistTests(fn, e)
				for i, t := range tests {
					if edgeDominates(t.Block(), notIdx[i], s.call.Block()) {
						return "an earlier operation on the same path at " + p.at(c) + " already branched away on os.ErrNotExist"
					}
				}
				// the earlier op succeeded (err == nil edge dominates): the file existed
				if nm != "os.Remove" && p.failureEdgeLeaves(p.ErrAtomsCached(), c, s.call) {
					return "an earlier operation on the same path at " + p.at(c) + " succeeded"
				}
			}
			// (c) the "exists" outcome of NeedsReindex on the same segment
			if g := c.Common().StaticCallee(); g != nil && recvNamed(g) == r.Segment && p.isNeedsReindex(g) {
				if descr(segBaseOf(c.Call.Args[0])) == s.pc.seg || sameSegValue(c.Call.Args[0], s.call, p) {
					// result #0 (bool) false edge dominates
					for _, rf := range *c.Referrers() {
						ex, ok := rf.(*ssa.Extract)
						if !ok || ex.Index != 0 {
							continue
						}
						if domByBoolEdge(ex, false, s.call.Block()) {
							return "dominated by the 'index exists' outcome of " + funcLabel(g)
						}
					}
				}
			}
		}
	}
	return ""
}

func segBaseOf(v ssa.Value) ssa.Value {
	v = canon(v)
	if _, base := loadedField(v); base != nil {
		return base
	}
	return v
}

// sameSegValue: the segment value passed as receiver (a struct load) comes from the same local as the site's path.
func sameSegValue(recv ssa.Value, site *ssa.Call, p *Prog) bool {
	u, ok := recv.(*ssa.UnOp)
	if !ok || u.Op != token.MUL {
		return false
	}
	pcBase := segBaseOf(site.Call.Args[0])
	return rootValue(u.X) == rootValue(pcBase)
}

// isNeedsReindex: a Segment method returning (bool, error) that stats the Index path and
// answers true when it does not exist.
func (p *Prog) isNeedsReindex(g *ssa.Function) bool {
	res := g.Signature.Results()
	if res.Len() != 2 {
		return false
	}
	if b, ok := res.At(0).Type().Underlying().(*types.Basic); !ok || b.Kind() != types.Bool {
		return false
	}
	for _, b := range g.Blocks {
		for _, ins := range b.Instrs {
			if c, ok := ins.(*ssa.Call); ok && calleeName(c.Common()) == "os.Stat" {
				pc := p.classifyPath(c.Call.Args[0])
				if pc.kind == "seg" && pc.fld == "Index" {
					return true
				}
			}
		}
	}
	return false
}

// ---------------------------------------------------------------------------
// R13

var nameFormatRE = regexp.MustCompile(`^%0(\d+)d(\.[A-Za-z0-9_]+)$`)

func ruleR13(p *Prog) []Ob {
	var obs []Ob
	newFn := p.pkgFunc(pkgSegment, "New")
	findFn := p.pkgFunc(pkgSegment, "Find")
	props := []string{"C01", "C02"}
	logSuffix := ""
	// the Log field format in segment.New
	{
		ob := Ob{Rule: "R13", Inst: "format:segment.New", Props: props, Pos: "-", Func: "segment.New"}
		if newFn == nil {
			ob.Status, ob.Msg = Undecided, "segment.New not found"
			obs = append(obs, ob)
		} else {
			ob.Pos = p.posStr(newFn.Pos())
			formats := map[string]string{} // field -> format
			for _, b := range newFn.Blocks {
				for _, ins := range b.Instrs {
					st, ok := ins.(*ssa.Store)
					if !ok {
						continue
					}
					fa, ok := st.Addr.(*ssa.FieldAddr)
					if !ok || namedOf(fa.X.Type()) != p.R.Segment {
						continue
					}
					if f := sprintfFormatIn(st.Val, 0); f != "" {
						formats[fieldVarOfAddr(fa).Name()] = f
					}
				}
			}
			lf, xf := formats["Log"], formats["Index"]
			m := nameFormatRE.FindStringSubmatch(lf)
			mx := nameFormatRE.FindStringSubmatch(xf)
			switch {
			case lf == "":
				ob.Status, ob.Msg = Undecided, "the construction of the log file name in segment.New is not recognised (expected fmt.Sprintf with a constant format)"
			case m == nil:
				ob.Status, ob.Msg = Violated, fmt.Sprintf("the log file name format %q is not a zero-padded decimal offset plus suffix: directory order is then not numeric order (Find relies on it and never sorts)", lf)
			default:
				n, _ := strconv.Atoi(m[1])
				logSuffix = m[2]
				switch {
				case n < 19:
					ob.Status, ob.Msg = Violated, fmt.Sprintf("the offset in the log file name is padded to %d digits; a non-negative int64 needs 19 for lexical order to equal numeric order", n)
				case mx == nil || mx[2] == logSuffix:
					ob.Status, ob.Msg = Violated, fmt.Sprintf("the index file name format %q must be a padded offset with a suffix different from %q", xf, logSuffix)
				case mx[1] != m[1]:
					ob.Status, ob.Msg = Violated, "log and index names pad the offset differently"
				default:
					ob.Status, ob.Msg = Discharged, fmt.Sprintf("log name %q, index name %q: %d-digit zero padding, distinct suffixes", lf, xf, n)
				}
			}
			obs = append(obs, ob)
		}
	}
	// Find cuts the same suffix and parses base 10, 64 bit
	{
		ob := Ob{Rule: "R13", Inst: "parse:segment.Find", Props: append(append([]string{}, props...), "C20"), Pos: "-", Func: "segment.Find"}
		if findFn == nil {
			ob.Status, ob.Msg = Undecided, "segment.Find not found"
		} else {
			ob.Pos = p.posStr(findFn.Pos())
			cut, parseOK, sorted := "", false, false
			for _, b := range findFn.Blocks {
				for _, ins := range b.Instrs {
					c, ok := ins.(*ssa.Call)
					if !ok {
						continue
					}
					switch calleeName(c.Common()) {
					case "strings.CutSuffix", "strings.TrimSuffix", "strings.HasSuffix":
						if s, ok := constString(c.Call.Args[1]); ok {
							cut = s
						}
					case "strconv.ParseInt":
						b10, _ := constInt(c.Call.Args[1])
						b64, _ := constInt(c.Call.Args[2])
						parseOK = b10 == 10 && b64 == 64
					case "os.ReadDir":
						sorted = true // os.ReadDir returns entries sorted by filename
					}
					if strings.HasPrefix(calleeName(c.Common()), "sort.") || strings.HasPrefix(calleeName(c.Common()), "slices.Sort") {
						sorted = true
					}
				}
			}
			switch {
			case logSuffix == "":
				ob.Status, ob.Msg = Undecided, "log suffix unknown"
			case cut != logSuffix:
				ob.Status, ob.Msg = Violated, fmt.Sprintf("Find recognises segments by suffix %q but New names them with %q", cut, logSuffix)
			case !parseOK:
				ob.Status, ob.Msg = Violated, "Find does not parse the offset with strconv.ParseInt(s, 10, 64)"
			case !sorted:
				ob.Status, ob.Msg = Violated, "Find lists the directory with something other than os.ReadDir (sorted by name) and does not sort"
			default:
				ob.Status, ob.Msg = Discharged, fmt.Sprintf("Find cuts %q, parses base 10 / 64 bit, over os.ReadDir's name-sorted listing", cut)
			}
		}
		obs = append(obs, ob)
	}
	// temp names never end in the log suffix
	n := 0
	ordT := map[string]int{}
	for _, fn := range p.Funcs {
		if !srcFunc(fn) {
			continue
		}
		for _, b := range fn.Blocks {
			for _, ins := range b.Instrs {
				var v ssa.Value
				var at ssa.Instruction
				switch x := ins.(type) {
				case *ssa.Call:
					if calleeName(x.Common()) == pkgMessage+".OpenWriter" {
						v, at = x.Call.Args[0], x
					}
				case *ssa.Store:
					if fa, ok := x.Addr.(*ssa.FieldAddr); ok && namedOf(fa.X.Type()) == p.R.Segment && fieldVarOfAddr(fa).Name() == "Log" && fn != newFn {
						v, at = x.Val, x
					}
				}
				if v == nil {
					continue
				}
				pc := p.classifyPath(v)
				if pc.kind == "seg" && pc.fld == "Log" {
					continue // a segment's own log
				}
				n++
				ordT[funcLabel(fn)]++
				ob := Ob{Rule: "R13", Inst: fmt.Sprintf("temp-name:%s#%d", funcLabel(fn), ordT[funcLabel(fn)]), Props: append(append([]string{}, props...), "C05", "C12"), Pos: p.at(at), Func: funcLabel(fn)}
				switch {
				case logSuffix == "":
					ob.Status, ob.Msg = Undecided, "log suffix unknown"
				case pc.kind == "concat":
					_, isStore := at.(*ssa.Store)
					if strings.HasSuffix(pc.suf, logSuffix) || pc.suf == "" {
						ob.Status, ob.Msg = Violated, fmt.Sprintf("temp file name ends in %q: Find would adopt it as a segment", logSuffix)
					} else if isStore && !p.staleTempRemovedByUsers(fn) {
						// a deterministic name kept in a Segment value: whoever opens it appends to it
						ob.Props = append(ob.Props, "C06")
						ob.Status, ob.Msg = Violated, fmt.Sprintf("the temporary log of a rewrite gets the fixed name <segment log> + %q and is opened in append mode without a stale one being removed first: what a crashed earlier rewrite left there is kept in front of the new records and renamed in with them", pc.suf)
					} else {
						ob.Status, ob.Msg = Discharged, fmt.Sprintf("temp name = <segment log> + %q, which does not end in %q", pc.suf, logSuffix)
					}
				default:
					f := sprintfFormatIn(v, 0)
					okName, why := p.tempFormatSafe(f, v, logSuffix)
					if okName && !p.tempNextToSegment(v) {
						okName, why = false, "the temporary file is not created next to the segment (its directory is not the segment's): the rename that puts it in place can cross file systems and fail, after the delete has already changed the segment"
					}
					if okName {
						ob.Status, ob.Msg = Discharged, why
					} else if f == "" {
						ob.Status, ob.Msg = Undecided, "a log file is created under a name whose construction is not recognised"
					} else {
						ob.Status, ob.Msg = Violated, why
					}
				}
				obs = append(obs, ob)
			}
		}
	}
	return obs
}

// sprintfFormatIn: the constant format of the fmt.Sprintf call that produces v (looking through
// filepath.Join's last element).
func sprintfFormatIn(v ssa.Value, depth int) string {
	if depth > 4 {
		return ""
	}
	v = canon(v)
	if bo, ok := v.(*ssa.BinOp); ok && bo.Op == token.ADD {
		// Sprintf(...) + "literal"
		if suf, isS := constString(bo.Y); isS {
			if f := sprintfFormatIn(bo.X, depth+1); f != "" {
				return f + strings.ReplaceAll(suf, "%", "%%")
			}
		}
		return ""
	}
	c, ok := v.(*ssa.Call)
	if !ok {
		return ""
	}
	switch calleeName(c.Common()) {
	case "fmt.Sprintf":
		if f, ok := constString(c.Call.Args[0]); ok {
			return f
		}
	case "path/filepath.Join":
		el := variadicArgs(c.Call.Args[0])
		if len(el) > 0 && el[len(el)-1] != nil {
			return sprintfFormatIn(el[len(el)-1], depth+1)
		}
	}
	return ""
}

func sprintfCall(v ssa.Value, depth int) *ssa.Call {
	if depth > 4 {
		return nil
	}
	v = canon(v)
	c, ok := v.(*ssa.Call)
	if !ok {
		return nil
	}
	switch calleeName(c.Common()) {
	case "fmt.Sprintf":
		return c
	case "path/filepath.Join":
		el := variadicArgs(c.Call.Args[0])
		if len(el) > 0 && el[len(el)-1] != nil {
			return sprintfCall(el[len(el)-1], depth+1)
		}
	}
	return nil
}

// tempFormatSafe: a Sprintf-built temp name cannot end in the log suffix.
func (p *Prog) tempFormatSafe(format string, v ssa.Value, suffix string) (bool, string) {
	if format == "" {
		return false, "not a Sprintf-built name"
	}
	last := strings.LastIndex(format, "%")
	if last < 0 {
		if strings.HasSuffix(format, suffix) {
			return false, fmt.Sprintf("temp name %q ends in %q", format, suffix)
		}
		return true, fmt.Sprintf("constant temp name %q", format)
	}
	tail := format[last+2:]
	if tail != "" {
		if strings.HasSuffix(tail, suffix) {
			return false, fmt.Sprintf("temp name format %q ends in %q: Find would adopt the temp file as a segment", format, suffix)
		}
		return true, fmt.Sprintf("temp name format %q ends in the literal %q", format, tail)
	}
	// ends in a verb: its argument must come from a helper whose alphabet has no '.'
	sc := sprintfCall(v, 0)
	if sc == nil || len(sc.Call.Args) < 2 {
		return false, "format ends in a verb whose argument is unknown"
	}
	args := variadicArgs(sc.Call.Args[1])
	if len(args) == 0 || args[len(args)-1] == nil {
		return false, "format ends in a verb whose argument is unknown"
	}
	arg := canon(stripConv(args[len(args)-1]))
	ex, ok := arg.(*ssa.Extract)
	if !ok {
		return false, fmt.Sprintf("temp name format %q ends in a verb fed by a value that could end in %q", format, suffix)
	}
	call, ok := ex.Tuple.(*ssa.Call)
	if !ok {
		return false, "format ends in a verb whose argument is unknown"
	}
	g := call.Common().StaticCallee()
	if g == nil || !inModule(g) {
		return false, "the random suffix does not come from a module helper"
	}
	// every string constant reachable in the helper and the globals it uses must lack '.'
	if alpha := p.alphabetOf(g); alpha != "" && !strings.Contains(alpha, ".") {
		if !strings.Contains(format[:last], ".") {
			return false, fmt.Sprintf("temp name format %q has no literal separator before the random part", format)
		}
		return true, fmt.Sprintf("temp name format %q ends in a random string over the alphabet %q (no '.'), so it cannot end in %q", format, alpha, suffix)
	}
	return false, "cannot determine the alphabet of the random suffix helper"
}

// alphabetOf: the base32/base64 alphabet constant used by the encoding global the helper calls.
func (p *Prog) alphabetOf(g *ssa.Function) string {
	for _, b := range g.Blocks {
		for _, ins := range b.Instrs {
			c, ok := ins.(*ssa.Call)
			if !ok {
				continue
			}
			if !strings.Contains(calleeName(c.Common()), "Encoding).EncodeToString") {
				continue
			}
			u, ok := c.Call.Args[0].(*ssa.UnOp)
			if !ok {
				continue
			}
			gl, ok := u.X.(*ssa.Global)
			if !ok {
				continue
			}
			init := gl.Pkg.Func("init")
			if init == nil {
				continue
			}
			for _, ib := range init.Blocks {
				for _, ii := range ib.Instrs {
					nc, ok := ii.(*ssa.Call)
					if !ok || !strings.HasSuffix(calleeName(nc.Common()), ".NewEncoding") {
						continue
					}
					if s, ok := constString(nc.Call.Args[0]); ok {
						return s
					}
				}
			}
		}
	}
	return ""
}

// ---------------------------------------------------------------------------
// R19

func ruleR19(p *Prog) []Ob {
	var obs []Ob
	n := 0
	ordR19 := map[string]int{}
	for _, path := range []string{pkgRoot, pkgMessage, pkgIndex, pkgSegment} {
		pk := p.ByPath[path]
		if pk == nil {
			continue
		}
		for _, file := range pk.Syntax {
			if strings.HasSuffix(p.Fset.Position(file.Pos()).Filename, "_test.go") {
				continue
			}
			var encl string
			ast.Inspect(file, func(nd ast.Node) bool {
				switch x := nd.(type) {
				case *ast.FuncDecl:
					encl = x.Name.Name
					if x.Recv != nil && len(x.Recv.List) > 0 {
						encl = types.ExprString(x.Recv.List[0].Type) + "." + encl
					}
				case *ast.SwitchStmt:
					if x.Tag == nil {
						return true
					}
					tv, ok := pk.TypesInfo.Types[x.Tag]
					if !ok {
						return true
					}
					named := namedOf(tv.Type)
					if named == nil || named.Obj().Name() != "Version" || named.Obj().Pkg() == nil || !inModulePath(named.Obj().Pkg().Path()) {
						return true
					}
					n++
					kk := fmt.Sprintf("switch:%s.%s:%s", pk.Types.Name(), encl, typeName(named))
					ordR19[kk]++
					if ordR19[kk] > 1 {
						kk = fmt.Sprintf("%s#%d", kk, ordR19[kk])
					}
					ob := Ob{Rule: "R19", Inst: kk, Props: []string{"C17", "C13"}, Pos: p.posStr(x.Pos()), Func: encl}
					required := p.versionVars(named)
					covered := map[string]bool{}
					var def *ast.CaseClause
					for _, st := range x.Body.List {
						cc := st.(*ast.CaseClause)
						if cc.List == nil {
							def = cc
							continue
						}
						for _, e := range cc.List {
							var id *ast.Ident
							switch y := e.(type) {
							case *ast.Ident:
								id = y
							case *ast.SelectorExpr:
								id = y.Sel
							}
							if id != nil {
								if obj := pk.TypesInfo.Uses[id]; obj != nil {
									covered[p.resolveVersionAlias(obj)] = true
								}
							}
						}
					}
					var missing []string
					for _, rq := range required {
						if !covered[rq] {
							missing = append(missing, rq)
						}
					}
					switch {
					case len(missing) == 0:
						ob.Status, ob.Msg = Discharged, fmt.Sprintf("covers every version %v", required)
					case def != nil && clauseFails(def, pk.TypesInfo):
						ob.Status, ob.Msg = Discharged, fmt.Sprintf("versions %v fall into a default that fails (error or panic)", missing)
					case def != nil:
						// a default clause may legitimately handle the version (e.g. `default: return 0`): what it
						// computes is judged by R9 (Size, InitialPosition, headers), not here
						ob.Status, ob.Msg = Discharged, fmt.Sprintf("versions %v are handled by the default clause (its value is judged by the format tables, R9)", missing)
					default:
						ob.Status, ob.Msg = Violated, fmt.Sprintf("the switch on a format version has no clause at all for %v (no default either): for data in that version the switch silently does nothing", missing)
					}
					obs = append(obs, ob)
				}
				return true
			})
		}
	}
	if n == 0 {
		obs = append(obs, Ob{Rule: "R19", Inst: "switches", Props: []string{"C17", "C13"}, Pos: "-", Status: Undecided, Msg: "no switch over a format Version found"})
	}
	return obs
}

// versionVars: the package-level variables of the Version type that denote real versions
// (not the zero value, not aliases of another variable).
func (p *Prog) versionVars(named *types.Named) []string {
	var out []string
	pkg := named.Obj().Pkg()
	pk := p.ByPath[pkg.Path()]
	if pk == nil {
		return nil
	}
	for _, nm := range pkg.Scope().Names() {
		v, ok := pkg.Scope().Lookup(nm).(*types.Var)
		if !ok || !types.Identical(v.Type(), named) {
			continue
		}
		key := p.resolveVersionAlias(v)
		if key != pkg.Path()+"."+nm {
			continue // alias of another variable
		}
		if p.isZeroVersion(pk, v) {
			continue
		}
		out = append(out, key)
	}
	sort.Strings(out)
	return out
}

func (p *Prog) initExprOf(obj types.Object) ast.Expr {
	if obj == nil || obj.Pkg() == nil {
		return nil
	}
	pk := p.ByPath[obj.Pkg().Path()]
	if pk == nil {
		return nil
	}
	for _, file := range pk.Syntax {
		for _, d := range file.Decls {
			gd, ok := d.(*ast.GenDecl)
			if !ok || gd.Tok != token.VAR {
				continue
			}
			for _, sp := range gd.Specs {
				vs := sp.(*ast.ValueSpec)
				for i, nm := range vs.Names {
					if pk.TypesInfo.Defs[nm] == obj && i < len(vs.Values) {
						return vs.Values[i]
					}
				}
			}
		}
	}
	return nil
}

func (p *Prog) resolveVersionAlias(obj types.Object) string {
	for i := 0; i < 5; i++ {
		e := p.initExprOf(obj)
		pk := p.ByPath[obj.Pkg().Path()]
		var id *ast.Ident
		switch y := e.(type) {
		case *ast.Ident:
			id = y
		case *ast.SelectorExpr:
			id = y.Sel
		}
		if id == nil || pk == nil {
			break
		}
		tgt, ok := pk.TypesInfo.Uses[id].(*types.Var)
		if !ok || tgt.Parent() != tgt.Pkg().Scope() {
			break
		}
		obj = tgt
	}
	return obj.Pkg().Path() + "." + obj.Name()
}

func (p *Prog) isZeroVersion(pk interface{}, v *types.Var) bool {
	e := p.initExprOf(v)
	if e == nil {
		return true // no initialiser: zero value
	}
	cl, ok := e.(*ast.CompositeLit)
	return ok && len(cl.Elts) == 0
}

// clauseFails: the clause body ends in a return whose last result is not nil, or in a panic.
func clauseFails(cc *ast.CaseClause, info *types.Info) bool {
	if len(cc.Body) == 0 {
		return false
	}
	switch last := cc.Body[len(cc.Body)-1].(type) {
	case *ast.ReturnStmt:
		if len(last.Results) == 0 {
			return false
		}
		res := last.Results[len(last.Results)-1]
		if id, ok := res.(*ast.Ident); ok && id.Name == "nil" {
			return false
		}
		tv, ok := info.Types[res]
		return ok && isErrType(tv.Type) || (ok && types.Implements(tv.Type, errType.Underlying().(*types.Interface)))
	case *ast.ExprStmt:
		if call, ok := last.X.(*ast.CallExpr); ok {
			if id, ok := call.Fun.(*ast.Ident); ok && id.Name == "panic" {
				return true
			}
		}
	}
	return false
}

// isReceiverValue: the path operand v is a field of fn's receiver.
func (p *Prog) isReceiverValue(fn *ssa.Function, v ssa.Value) bool {
	root := rootValue(segBaseOf(v))
	if root == nil || len(fn.Params) == 0 {
		return false
	}
	if root == ssa.Value(fn.Params[0]) {
		return true
	}
	if al, ok := root.(*ssa.Alloc); ok {
		for _, st := range allocStores(al) {
			if st.Val == fn.Params[0] {
				return true
			}
		}
	}
	return false
}

// onlyCalledOnRewriteProducts: at every call site of the Segment method fn the receiver is the
// embedded Segment of a RewriteSegment, or the caller's own receiver where the caller has the same property.
func (p *Prog) onlyCalledOnRewriteProducts(fn *ssa.Function, depth int) (int, bool) {
	if depth > 3 {
		return 0, false
	}
	r := p.R
	n := 0
	for _, g := range p.Funcs {
		if !srcFunc(g) {
			continue
		}
		for _, b := range g.Blocks {
			for _, ins := range b.Instrs {
				c, ok := ins.(*ssa.Call)
				if !ok || c.Common().StaticCallee() != fn {
					continue
				}
				n++
				recv := c.Call.Args[0]
				f, base := loadedField(recv)
				if f != nil && f.Embedded() && namedOf(base.Type()) == r.RewriteSegment {
					continue
				}
				// the caller's own receiver
				if recvNamed(g) == r.Segment && len(g.Params) > 0 {
					own := recv == ssa.Value(g.Params[0])
					if u, ok := recv.(*ssa.UnOp); ok && p.isReceiverAlloc(g, u.X) {
						own = true
					}
					if own {
						if _, ok2 := p.onlyCalledOnRewriteProducts(g, depth+1); ok2 {
							continue
						}
					}
				}
				return n, false
			}
		}
	}
	return n, n > 0
}

func (p *Prog) isReceiverAlloc(fn *ssa.Function, addr ssa.Value) bool {
	al, ok := addr.(*ssa.Alloc)
	if !ok || len(fn.Params) == 0 {
		return false
	}
	for _, st := range allocStores(al) {
		if st.Val == fn.Params[0] {
			return true
		}
	}
	return false
}

// wrapsItsErrors: error value e is the result of a module function some of whose error returns are
// fmt.Errorf("%w") wrappers (os.IsNotExist / os.IsExist do not unwrap those).
func wrapsItsErrors(e ssa.Value) bool {
	var call *ssa.Call
	switch x := e.(type) {
	case *ssa.Call:
		call = x
	case *ssa.Extract:
		call, _ = x.Tuple.(*ssa.Call)
	}
	if call == nil {
		return false
	}
	g := call.Common().StaticCallee()
	if g == nil || !inModule(g) || g.Blocks == nil {
		return false
	}
	ei := errResultIndex(g)
	for _, rt := range returnsOf(g) {
		if ei < 0 || ei >= len(rt.Results) {
			continue
		}
		if c, ok := returnOperand(rt, ei).(*ssa.Call); ok && calleeName(c.Common()) == "fmt.Errorf" {
			return true
		}
	}
	return false
}

// tempNextToSegment: the name is built from the segment's own path (Sprintf("%s...", seg.Log, ...)) or
// joined onto the segment's directory; a name joined onto anything else lives elsewhere.
func (p *Prog) tempNextToSegment(v ssa.Value) bool {
	v = canon(v)
	c, ok := v.(*ssa.Call)
	if !ok {
		return true
	}
	switch calleeName(c.Common()) {
	case "path/filepath.Join":
		args := variadicArgs(c.Call.Args[0])
		if len(args) == 0 || args[0] == nil {
			return true
		}
		pc := p.classifyPath(args[0])
		return pc.kind == "seg" && pc.fld == "Dir"
	case "fmt.Sprintf":
		if len(c.Call.Args) < 2 {
			return true
		}
		args := variadicArgs(c.Call.Args[1])
		if len(args) == 0 || args[0] == nil {
			return true
		}
		a := args[0]
		if mi, ok := a.(*ssa.MakeInterface); ok {
			a = mi.X
		}
		pc := p.classifyPath(a)
		if pc.kind == "seg" {
			return true
		}
		// a call such as filepath.Base(seg.Log) strips the directory
		if _, isCall := canon(a).(*ssa.Call); isCall {
			return false
		}
	}
	return true
}

// staleTempRemovedByUsers: every function that calls mk (which builds a Segment with a fixed temporary
// name) and opens that segment's log for writing removes the name first.
func (p *Prog) staleTempRemovedByUsers(mk *ssa.Function) bool {
	users := 0
	for _, fn := range p.Funcs {
		if !srcFunc(fn) {
			continue
		}
		calls := false
		for _, b := range fn.Blocks {
			for _, ins := range b.Instrs {
				if c, ok := ins.(*ssa.Call); ok && c.Common().StaticCallee() == mk {
					calls = true
				}
			}
		}
		if !calls {
			continue
		}
		ops := p.fsOps(fn)
		for i := range ops {
			o := &ops[i]
			if o.op != "OPENW" || o.a.kind != "seg" || o.a.fld != "Log" {
				continue
			}
			users++
			removed := false
			for j := range ops {
				r := &ops[j]
				if r.op == "REMOVE" && r.a.kind == "seg" && r.a.fld == "Log" && r.a.seg == o.a.seg && instrDominates(r.call, o.call) {
					removed = true
				}
			}
			if !removed {
				return false
			}
		}
	}
	return users > 0
}
