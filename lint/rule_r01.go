package main

import (
	"fmt"
	"go/token"
	"go/types"

	"golang.org/x/tools/go/ssa"
)

// R1 MUST-FSYNC — durable before acknowledged (C06; also C05, C11, C17).

// fileParamEffects: module functions that write / fsync a *os.File they receive as a parameter
// (helpers such as `func fsync(f *os.File) error { return f.Sync() }`), to a fixpoint.
func (p *Prog) fileParamEffects() map[*ssa.Function]map[int][2]bool {
	if p.fileParamFx != nil {
		return p.fileParamFx
	}
	fx := map[*ssa.Function]map[int][2]bool{}
	set := func(fn *ssa.Function, i int, w, s bool) bool {
		if fx[fn] == nil {
			fx[fn] = map[int][2]bool{}
		}
		old := fx[fn][i]
		nw := [2]bool{old[0] || w, old[1] || s}
		fx[fn][i] = nw
		return nw != old
	}
	for iter := 0; iter < 6; iter++ {
		changed := false
		for _, fn := range p.Funcs {
			for _, b := range fn.Blocks {
				for _, ins := range b.Instrs {
					c, ok := ins.(ssa.CallInstruction)
					if !ok {
						continue
					}
					cc := c.Common()
					name := calleeName(cc)
					isWrite := name == "(*os.File).Write" || name == "(*os.File).WriteAt" || name == "(*os.File).WriteString" || name == "(*os.File).ReadFrom"
					isSync := name == "(*os.File).Sync"
					for ai, a := range cc.Args {
						pr, isParam := canon(a).(*ssa.Parameter)
						if !isParam || !typeIs(pr.Type(), "os", "File") {
							continue
						}
						pi := paramIdx(fn, pr)
						if ai == 0 && (isWrite || isSync) {
							if set(fn, pi, isWrite, isSync) {
								changed = true
							}
						}
						if g := cc.StaticCallee(); g != nil && inModule(g) {
							if e, ok := fx[g][ai]; ok && set(fn, pi, e[0], e[1]) {
								changed = true
							}
						}
					}
				}
			}
		}
		if !changed {
			break
		}
	}
	p.fileParamFx = fx
	return fx
}

// fileEffect classifies a call as a write to / fsync of the *os.File held in
// field fileField (of message.Writer or index.Writer).
func (p *Prog) fileEffect(call ssa.CallInstruction, fileField *types.Var) (gen, kill bool) {
	c := call.Common()
	name := calleeName(c)
	// helpers that take the file as a parameter
	if g := c.StaticCallee(); g != nil && inModule(g) {
		for ai, a := range c.Args {
			if f, _ := loadedField(a); f != nil && f == fileField {
				if e, ok := p.fileParamEffects()[g][ai]; ok {
					return e[0], e[1] && !e[0]
				}
			}
		}
	}
	// syscall-level fsync of the file's descriptor
	switch name {
	case "syscall.Fsync", "syscall.Fdatasync", "golang.org/x/sys/unix.Fsync", "golang.org/x/sys/unix.Fdatasync":
		if len(c.Args) > 0 {
			if fd, ok := stripConv(c.Args[0]).(*ssa.Call); ok && calleeName(fd.Common()) == "(*os.File).Fd" {
				if f, _ := loadedField(fd.Call.Args[0]); f != nil && f == fileField {
					return false, true
				}
			}
		}
	}
	isWrite := name == "(*os.File).Write" || name == "(*os.File).WriteAt" || name == "(*os.File).WriteString" || name == "(*os.File).ReadFrom"
	isSync := name == "(*os.File).Sync"
	if !isWrite && !isSync || len(c.Args) == 0 {
		return false, false
	}
	recv := c.Args[0]
	if f, _ := loadedField(recv); f != nil && f == fileField {
		return isWrite, isSync
	}
	// a local *os.File that is stored into that field in this function
	// (the constructor writes the file header through it)
	if recv.Referrers() != nil {
		for _, r := range *recv.Referrers() {
			if st, ok := r.(*ssa.Store); ok && st.Val == recv {
				if fa, ok := st.Addr.(*ssa.FieldAddr); ok && fieldVarOfAddr(fa) == fileField {
					return isWrite, isSync
				}
			}
		}
	}
	return false, false
}

func (p *Prog) fsyncFlow(ea *ErrAtoms, name string, fileField *types.Var) *bitFlow {
	a := &bitFlow{p: p, ea: ea, name: name}
	a.effect = func(call ssa.CallInstruction) (bool, bool) { return p.fileEffect(call, fileField) }
	a.solve()
	return a
}

func isFunc(full string) func(*ssa.Function) bool {
	return func(f *ssa.Function) bool { return fullName(f) == full }
}

func ruleR1(p *Prog) []Ob {
	var obs []Ob
	r := p.R
	ea := p.ErrAtomsCached()
	logF := p.fsyncFlow(ea, "LOG", r.MsgWriterFile)
	idxF := p.fsyncFlow(ea, "IDX", r.IdxWriterFile)
	openWriterLog := isFunc(pkgMessage + ".OpenWriter")
	indexWrite := p.pkgFunc(pkgIndex, "Write")

	unpruned := p.optionsStored("Readonly", "AutoSync")

	// writeReachable: a W(token) is reachable from fn (non-vacuity of the obligation)
	writeReachable := func(fn *ssa.Function, a *bitFlow) bool {
		return p.reaches(fn, func(g *ssa.Function) bool {
			if g.Blocks == nil || !inModule(g) {
				return false
			}
			for _, b := range g.Blocks {
				for _, ins := range b.Instrs {
					if c, ok := ins.(ssa.CallInstruction); ok {
						if gen, _ := a.effect(c); gen {
							return true
						}
					}
				}
			}
			return false
		})
	}

	exitClean := func(inst string, props []string, fn *ssa.Function, a *bitFlow, entryBad bool, assume Assume, needWrite bool) {
		ob := Ob{Rule: "R1", Inst: inst, Props: props, Func: funcLabel(fn), Nontrivial: true}
		if fn == nil {
			ob.Status, ob.Msg = Undecided, "anchor function not found"
			obs = append(obs, ob)
			return
		}
		ob.Pos = p.posStr(fn.Pos())
		if len(unpruned) > 0 && len(assume) > 0 {
			ob.Status, ob.Msg = Undecided, fmt.Sprintf("option field(s) %v are assigned inside the module, option pruning is not sound", unpruned)
			obs = append(obs, ob)
			return
		}
		if needWrite && !writeReachable(fn, a) {
			ob.Status, ob.Msg = Undecided, fmt.Sprintf("no write to the %s file is reachable from %s: the analysis lost track of the writer", a.name, funcLabel(fn))
			obs = append(obs, ob)
			return
		}
		bad, rets := a.run(fn, entryBad, assume, nil)
		if bad {
			ob.Status = Violated
			ob.Msg = fmt.Sprintf("under [%s] a success return is reachable with the %s file possibly written after its last fsync", assume, a.name)
			for _, rt := range rets {
				ob.Path = append(ob.Path, "success return at "+p.at(rt))
				ob.Pos = p.at(rt)
			}
		} else {
			ob.Status = Discharged
			ob.Msg = fmt.Sprintf("under [%s] every success return is preceded by an fsync of the %s file after its last write (summary fixpoint in %d rounds)", assume, a.name, a.Rounds)
			// the protecting constructs: calls whose effect/summary cleans the state
			a.run(fn, entryBad, assume, func(ins ssa.Instruction, st bool) {
				call, ok := ins.(*ssa.Call)
				if !ok || !st {
					return
				}
				if _, kill := a.effect(call); kill {
					ob.Guards = append(ob.Guards, p.at(ins))
					return
				}
				for _, g := range p.callees(call) {
					if s, ok := a.sums[g]; ok && !s.onBad {
						ob.Guards = append(ob.Guards, p.at(ins))
						ob.Path = append(ob.Path, fmt.Sprintf("%s: %s is ToClean(%s)", p.at(ins), funcLabel(g), a.name))
						return
					}
				}
			})
		}
		obs = append(obs, ob)
	}

	rw := Assume{"Readonly": false}
	exitClean("I1:Log.Sync:LOG", []string{"C06"}, r.ImplMethods["Sync"], logF, true, rw, false)
	exitClean("I2:Log.Publish[AutoSync]:LOG", []string{"C06"}, r.ImplMethods["Publish"], logF, true, Assume{"Readonly": false, "AutoSync": true}, true)
	exitClean("I3:Log.Close:LOG", []string{"C06"}, r.ImplMethods["Close"], logF, true, rw, false)

	// I4: a new head file is only created when the old head is durable (log and index)
	i4 := 0
	ord := map[string]int{}
	for _, fn := range p.Funcs {
		if !srcFunc(fn) || fn.Parent() != nil {
			continue
		}
		isPublish := fn == r.ImplMethods["Publish"]
		isHW := recvNamed(fn) == r.HeadWriter
		if !isPublish && !isHW {
			continue
		}
		for _, fl := range []*bitFlow{logF, idxF} {
			fl.run(fn, true, rw, func(ins ssa.Instruction, st bool) {
				call, ok := ins.(*ssa.Call)
				if !ok || !p.callReaches(call, openWriterLog) {
					return
				}
				// the constructor of the head writer itself is not a roll-over
				if isHW && fn.Signature.Recv() == nil {
					return
				}
				i4++
				ord[fn.String()+fl.name]++
				ob := Ob{Rule: "R1", Inst: fmt.Sprintf("I4:%s:new-head#%d:%s", funcLabel(fn), ord[fn.String()+fl.name], fl.name), Props: []string{"C06", "C05"},
					Pos: p.at(ins), Func: funcLabel(fn), Nontrivial: true}
				if st {
					ob.Status = Violated
					ob.Msg = fmt.Sprintf("a new head segment is created (call reaches message.OpenWriter) while the %s file of the old head may be written but not fsynced", fl.name)
				} else {
					ob.Status = Discharged
					ob.Msg = fmt.Sprintf("the %s file of the old head is fsynced on every path before the new head is created", fl.name)
				}
				obs = append(obs, ob)
			})
		}
	}
	obs = dedupObs(obs)

	// I5: a temp log is fsynced before it is renamed in
	for _, fn := range p.Funcs {
		for _, b := range fn.Blocks {
			for _, ins := range b.Instrs {
				call, ok := ins.(*ssa.Call)
				if !ok || calleeName(call.Common()) != "os.Rename" {
					continue
				}
				f, base := loadedField(call.Call.Args[0])
				if f == nil || f != r.MsgWriterPath {
					continue
				}
				ob := Ob{Rule: "R1", Inst: fmt.Sprintf("I5:%s:rename(W.Path)", funcLabel(fn)), Props: []string{"C06", "C05", "C17"},
					Pos: p.at(ins), Func: funcLabel(fn), Nontrivial: true}
				found := ""
				for _, b2 := range fn.Blocks {
					for _, ins2 := range b2.Instrs {
						c2, ok := ins2.(*ssa.Call)
						if !ok || len(c2.Call.Args) == 0 || c2.Call.IsInvoke() || canon(c2.Call.Args[0]) != canon(base) {
							continue
						}
						cs := p.callees(c2)
						clean := len(cs) > 0
						for _, g := range cs {
							if s, ok := logF.sums[g]; !ok || s.onBad {
								clean = false
							}
						}
						if clean && instrDominates(c2, call) && p.failureEdgeLeaves(ea, c2, call) {
							found = p.at(c2)
							ob.Guards = append(ob.Guards, found)
						}
					}
				}
				if found != "" {
					ob.Status, ob.Msg = Discharged, "the renamed temp log is fsynced by a dominating call on the same writer at "+found
				} else {
					ob.Status, ob.Msg = Violated, "os.Rename of a message.Writer's file is not dominated by a call on that writer that fsyncs it"
				}
				obs = append(obs, ob)
			}
		}
	}

	// I6: functions producing a *RewriteSegment leave log and index durable
	idxWritePass := &bitFlow{p: p, ea: ea, name: "index.Write"}
	idxWritePass.effect = func(call ssa.CallInstruction) (bool, bool) {
		return false, call.Common().StaticCallee() == indexWrite && indexWrite != nil
	}
	idxWritePass.solve()
	for _, fn := range p.Funcs {
		if !srcFunc(fn) || fn.Parent() != nil {
			continue
		}
		res := fn.Signature.Results()
		if res.Len() == 0 || namedOf(res.At(0).Type()) != r.RewriteSegment {
			continue
		}
		if !p.reaches(fn, openWriterLog) {
			continue
		}
		exitClean(fmt.Sprintf("I6:%s:temp-log", funcLabel(fn)), []string{"C06", "C05"}, fn, logF, false, nil, true)
		ob := Ob{Rule: "R1", Inst: fmt.Sprintf("I6:%s:index-written", funcLabel(fn)), Props: []string{"C06", "C11"}, Pos: p.posStr(fn.Pos()), Func: funcLabel(fn), Nontrivial: true}
		if bad, rets := idxWritePass.run(fn, true, nil, nil); bad {
			ob.Status, ob.Msg = Violated, "a success return is reachable without a call of index.Write for the rewritten segment"
			for _, rt := range rets {
				ob.Path = append(ob.Path, "success return at "+p.at(rt))
			}
		} else {
			ob.Status, ob.Msg = Discharged, "index.Write is called on every success path"
		}
		obs = append(obs, ob)
	}
	// I6 receivers: only rewrite segments are renamed / overridden in
	for _, fn := range p.Funcs {
		for _, b := range fn.Blocks {
			for _, ins := range b.Instrs {
				call, ok := ins.(*ssa.Call)
				if !ok {
					continue
				}
				nm := calleeName(call.Common())
				if nm != "("+pkgSegment+".Segment).Rename" && nm != "("+pkgSegment+".Segment).Override" {
					continue
				}
				if fn.Synthetic != "" {
					continue // promoted-method wrapper
				}
				ob := Ob{Rule: "R1", Inst: fmt.Sprintf("I6r:%s:%s-receiver", funcLabel(fn), call.Common().StaticCallee().Name()), Props: []string{"C06", "C05"},
					Pos: p.at(ins), Func: funcLabel(fn)}
				f, base := loadedField(call.Call.Args[0])
				if f != nil && f.Embedded() && namedOf(base.Type()) == r.RewriteSegment {
					ob.Status, ob.Msg = Discharged, "receiver is the Segment of a RewriteSegment (files fsynced by the rewrite)"
				} else if namedOf(call.Call.Args[0].Type()) == r.RewriteSegment {
					ob.Status, ob.Msg = Discharged, "receiver is a RewriteSegment"
				} else {
					ob.Status, ob.Msg = Violated, "Segment.Rename/Override is called on a segment that is not the product of a rewrite; its files are not known to be fsynced"
				}
				obs = append(obs, ob)
			}
		}
	}
	// RewriteSegment values are only built on the way to a rewrite
	for _, fn := range p.Funcs {
		for _, b := range fn.Blocks {
			for _, ins := range b.Instrs {
				al, ok := ins.(*ssa.Alloc)
				if !ok || namedOf(al.Type()) != r.RewriteSegment || !al.Heap {
					continue
				}
				ob := Ob{Rule: "R1", Inst: fmt.Sprintf("I6c:%s:constructs-RewriteSegment", funcLabel(fn)), Props: []string{"C06", "C05"}, Pos: p.at(ins), Func: funcLabel(fn)}
				okc := false
				for _, g := range p.Funcs {
					if res := g.Signature.Results(); res.Len() > 0 && namedOf(res.At(0).Type()) == r.RewriteSegment && p.reaches(g, openWriterLog) {
						if p.reaches(g, func(h *ssa.Function) bool { return h == fn }) {
							okc = true
						}
					}
				}
				if okc {
					ob.Status, ob.Msg = Discharged, "constructed only on the way to a rewrite that fsyncs its files"
				} else {
					ob.Status, ob.Msg = Violated, "a RewriteSegment is constructed outside the rewrite functions; Rename/Override would move files that were never fsynced"
				}
				obs = append(obs, ob)
			}
		}
	}

	// I7: index.Write leaves the index file durable
	{
		ob := Ob{Rule: "R1", Inst: "I7:index.Write:IDX", Props: []string{"C06", "C11"}, Nontrivial: true}
		if indexWrite == nil {
			ob.Status, ob.Msg = Undecided, "index.Write not found"
		} else {
			ob.Pos, ob.Func = p.posStr(indexWrite.Pos()), funcLabel(indexWrite)
			if !writeReachable(indexWrite, idxF) {
				ob.Status, ob.Msg = Undecided, "no write to the index file reachable from index.Write"
			} else if bad, rets := idxF.run(indexWrite, true, nil, nil); bad {
				ob.Status, ob.Msg = Violated, "index.Write can return successfully with the index file written but not fsynced"
				for _, rt := range rets {
					ob.Path = append(ob.Path, "success return at "+p.at(rt))
				}
			} else {
				ob.Status, ob.Msg = Discharged, "every success return of index.Write follows an fsync of the index file"
			}
		}
		obs = append(obs, ob)
	}
	obs = append(obs, p.syncUnderWriterLock(logF)...)
	return obs
}

// errResultOfCall returns the error value produced by a call, if any.
func errResultOfCall(c *ssa.Call) ssa.Value {
	if isErrType(c.Type()) {
		return c
	}
	if tup, ok := c.Type().(*types.Tuple); ok && c.Referrers() != nil {
		for _, ref := range *c.Referrers() {
			if ex, ok := ref.(*ssa.Extract); ok && ex.Index == tup.Len()-1 && isErrType(ex.Type()) {
				return ex
			}
		}
	}
	return nil
}

// failureEdgeLeaves: `before` only runs when call c succeeded: the error result
// of c (if any) is tested and the edge on which it is nil dominates `before`.
func (p *Prog) failureEdgeLeaves(ea *ErrAtoms, c *ssa.Call, before ssa.Instruction) bool {
	errv := errResultOfCall(c)
	if errv == nil {
		if tup, ok := c.Type().(*types.Tuple); ok && tup.Len() > 0 && isErrType(tup.At(tup.Len()-1).Type()) {
			return false // error result dropped
		}
		return !isErrType(c.Type())
	}
	bb := before.Block()
	for d := bb.Idom(); d != nil; d = d.Idom() {
		iff, ok := terminator(d).(*ssa.If)
		if !ok {
			continue
		}
		t, ok := classifyErrCond(iff.Cond, errv)
		if !ok || t.kind != "nil" {
			continue
		}
		okEdge := 1
		if t.trueMeans {
			okEdge = 0
		}
		if edgeDominates(d, okEdge, bb) {
			return true
		}
	}
	return false
}

func dedupObs(obs []Ob) []Ob {
	seen := map[string]int{}
	var out []Ob
	for _, o := range obs {
		k := o.key() + "@" + o.Pos
		if i, ok := seen[k]; ok {
			// keep the worse status
			if out[i].Status == Discharged && o.Status != Discharged {
				out[i] = o
			}
			continue
		}
		seen[k] = len(out)
		out = append(out, o)
	}
	return out
}

// optionsStored returns those of the named Options fields that are assigned
// anywhere in the module (other than whole-struct copies).
func (p *Prog) optionsStored(names ...string) []string {
	want := map[string]bool{}
	for _, n := range names {
		want[n] = true
	}
	found := map[string]bool{}
	for _, fn := range p.Funcs {
		for _, b := range fn.Blocks {
			for _, ins := range b.Instrs {
				st, ok := ins.(*ssa.Store)
				if !ok {
					continue
				}
				fa, ok := st.Addr.(*ssa.FieldAddr)
				if !ok || namedOf(fa.X.Type()) != p.R.Options {
					continue
				}
				if f := fieldVarOfAddr(fa); f != nil && want[f.Name()] {
					found[f.Name()] = true
				}
			}
		}
	}
	return sortedKeys(found)
}

var _ = token.NoPos
