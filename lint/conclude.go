package main

import (
	"encoding/json"
	"fmt"
	"os"
	"path/filepath"
	"sort"
	"strings"
	"time"
)

type replayFile struct {
	Property   string `json:"property"`
	Tier       string `json:"tier"`
	Violations []Ob   `json:"violations"`
	Howto      string `json:"howto"`
}

func conclude(p *Prog, prop, tier, outDir, verifDir string, obs []Ob, ran []string, start time.Time, extra map[string]any) int {
	floors := loadFloors(filepath.Join(verifDir, "lint", "spec", "floors.json"))
	ff := loadFindings(filepath.Join(verifDir, "known_findings.json"))

	// keep the obligations serving this property
	var mine []Ob
	for _, o := range obs {
		if o.serves(prop) || o.Inst == "roles" {
			mine = append(mine, o)
		}
	}
	// floors: instance counts must not fall below what was confirmed by reading
	perRule := map[string]int{}
	for _, o := range mine {
		perRule[o.Rule]++
	}
	for _, rid := range ran {
		k := rid + "@" + prop
		want, ok := floors[k]
		if !ok {
			continue
		}
		if perRule[rid] < want {
			mine = append(mine, Ob{Rule: rid, Inst: "floor@" + prop, Props: []string{prop}, Pos: "-", Status: Undecided,
				Msg: fmt.Sprintf("rule %s matched %d instances for %s, fewer than the %d confirmed by reading the code: an anchored construct disappeared or is no longer recognised", rid, perRule[rid], prop, want)})
		}
	}
	sortObs(mine)

	known := map[string]Finding{}
	for _, f := range ff.Findings {
		if f.State == "known" && f.Property == prop {
			known[f.Instance] = f
		}
	}
	var viol []Ob
	knownMatched := []string{}
	discharged, nontrivial := 0, 0
	distinct := map[string]bool{}
	for _, o := range mine {
		switch o.Status {
		case Discharged:
			discharged++
		default:
			if f, ok := known[o.key()]; ok {
				fmt.Printf("KNOWN-FINDING: property=%s %s: %s\n", prop, o.key(), f.What)
				knownMatched = append(knownMatched, o.key())
				continue
			}
			viol = append(viol, o)
		}
		if o.Nontrivial && !distinct[o.key()] {
			distinct[o.key()] = true
			nontrivial++
		}
	}

	// evidence
	samples := []any{}
	seenRule := map[string]int{}
	for _, o := range mine {
		// every obligation is listed: the instance space is small, and a reader of the evidence
		// should see exactly which constructs were judged and why each was discharged
		samples = append(samples, o)
		seenRule[o.Rule]++
	}
	info := propInfo[prop]
	cov := map[string]any{
		"explanation": fmt.Sprintf("Static analysis of /repo's current source (go/packages + go/types + go/ssa + VTA call graph); nothing is executed. "+
			"DECIDED (structural clauses that are necessary for %s): %s  NOT DECIDED: %s  A pass means the decided clauses hold on every path of the analysed program, not that the behavioural property holds.",
			prop, info.Decided, info.NotDecided),
		"obligations":         len(mine),
		"discharged":          discharged,
		"checker_cmd":         fmt.Sprintf("./check.sh %s %s", prop, tier),
		"trusted_base":        []string{"go/types, go/ssa and the VTA call graph of golang.org/x/tools v0.50.0 are faithful to the compiler", "the effect tables for standard-library and third-party calls (os, sync, sync/atomic, flock, mmap, art) in /verif/lint", "the documented layout tables in /verif/lint/spec"},
		"evaluations":         len(mine),
		"distinct_nontrivial": nontrivial,
		"rule": "Obligations are the rule instances enumerated from the role-resolved program (all of them: the instance space is finite). " +
			"An obligation counts as non-trivial when discharging it needed a dominance, path or data-flow query across at least two basic blocks or one call edge; table comparisons do not count. Distinct = distinct rule/instance keys.",
		"samples":                samples,
		"exhaustive":             true,
		"rules_run":              ran,
		"instances_per_rule":     perRule,
		"packages":               p.Stats.Packages,
		"functions":              p.Stats.Functions,
		"call_sites":             p.Stats.CallSites,
		"callgraph_nodes":        p.Stats.CGNodes,
		"configs":                []string{"linux/amd64 -tags verif"},
		"known_findings_matched": knownMatched,
		"violations":             viol,
	}
	regress := 0
	for k, v := range extra {
		cov[k] = v
	}
	if extra != nil {
		if n, ok := extra["config_differences"].(int); ok && n > 0 {
			for _, v := range extra["variants"].([]variantResult) {
				if strings.HasPrefix(v.Name, "config:") && v.Loaded && !v.Same {
					for _, o := range v.obs {
						if o.serves(prop) && o.Status != Discharged {
							o.Inst = o.Inst + "@" + strings.TrimPrefix(v.Name, "config:")
							if _, isKnown := known[o.key()]; !isKnown {
								viol = append(viol, o)
							}
						}
					}
				}
			}
			cov["violations"] = viol
		}
		regress, _ = extra["checker_regressions"].(int)
		cov["evaluations"] = len(mine)*(1+len(extra["variants"].([]variantResult))) + extra["mutants_generated"].(int)
	}
	ev := Evidence{
		PropertyID: prop, Tier: tier, Seed: seedFromEnv(), Level: "other", Coverage: cov,
		Assumptions: []string{
			"go/types + go/ssa + VTA are faithful to the compiler for this module (no reflection, unsafe or cgo in the module: asserted by the loader)",
			"standard-library and third-party functions behave as the effect tables say (e.g. (*os.File).Sync makes earlier writes durable; ReadAt reports a short read as (n>0, io.EOF))",
			"one abstract instance per lock field and per writer type (type-level tokens)",
			"objects under construction are not yet shared",
		},
		WallS: time.Since(start).Seconds(), Violations: len(viol),
	}
	writeJSON(filepath.Join(outDir, prop+".json"), ev)

	for _, o := range mine {
		if o.Status != Discharged {
			if _, isKnown := known[o.key()]; isKnown {
				continue // printed above as KNOWN-FINDING
			}
			fmt.Println(diag(o))
		}
	}
	fmt.Printf("klevlint: property=%s tier=%s rules=%s obligations=%d discharged=%d violations=%d known=%d (%.2fs; %d packages, %d functions)\n",
		prop, tier, strings.Join(ran, ","), len(mine), discharged, len(viol), len(knownMatched), time.Since(start).Seconds(), p.Stats.Packages, p.Stats.Functions)
	if regress > 0 && len(viol) == 0 {
		for _, v := range extra["variants"].([]variantResult) {
			if strings.HasPrefix(v.Name, "benign:") && v.Loaded && !v.Same {
				fmt.Printf("CHECKER-REGRESSION: %s changes the verdict: %s\n", v.Name, strings.Join(v.Diff, "; "))
			}
		}
		fmt.Println("klevlint: a behaviour-preserving transformation of the source changed the checker's verdict: the checker, not /repo, is at fault (exit 2, no verdict)")
		return 2
	}
	if len(viol) > 0 {
		rp := filepath.Join(outDir, "replay", prop+".json")
		writeJSON(rp, replayFile{Property: prop, Tier: tier, Violations: viol, Howto: "./check.sh replay " + rp + "  (prints these records as compiler-style diagnostics; re-run ./check.sh " + prop + " quick to re-decide them on the current tree)"})
		fmt.Printf("VIOLATION property=%s replay=%s\n", prop, rp)
		return 1
	}
	return 0
}

func seedFromEnv() int {
	var n int
	fmt.Sscanf(os.Getenv("VERIF_SEED"), "%d", &n)
	return n
}

func doReplayFile(path string) int {
	data, err := os.ReadFile(path)
	if err != nil {
		fmt.Fprintln(os.Stderr, err)
		return 2
	}
	var rf replayFile
	if err := json.Unmarshal(data, &rf); err != nil {
		fmt.Fprintln(os.Stderr, err)
		return 2
	}
	for _, o := range rf.Violations {
		fmt.Println(diag(o))
	}
	fmt.Printf("%d violation record(s) for property %s; re-decide on the current tree with: ./check.sh %s quick\n", len(rf.Violations), rf.Property, rf.Property)
	return 0
}

type propText struct{ Decided, NotDecided string }

var propInfo = map[string]propText{}

func init() {
	_ = sort.Strings
}
