package main

import (
	"fmt"
	"go/token"
	"go/types"
	"strings"

	"golang.org/x/tools/go/ssa"
)

// R10 DECODER-VALIDATION — nothing is returned before it is checked (C14, C07)

func isBigEndianGet(c *ssa.CallCommon) bool {
	n := calleeName(c)
	return strings.HasPrefix(n, "(encoding/binary.bigEndian).Uint") || strings.HasPrefix(n, "(encoding/binary.littleEndian).Uint")
}

// dependsOn: does v data-depend on src through arithmetic / conversions / phis?
func dependsOn(v, src ssa.Value, depth int) bool {
	if v == src {
		return true
	}
	if depth > 12 {
		return false
	}
	switch x := v.(type) {
	case *ssa.Convert:
		return dependsOn(x.X, src, depth+1)
	case *ssa.ChangeType:
		return dependsOn(x.X, src, depth+1)
	case *ssa.BinOp:
		return dependsOn(x.X, src, depth+1) || dependsOn(x.Y, src, depth+1)
	case *ssa.UnOp:
		if x.Op == token.MUL {
			if al, ok := x.X.(*ssa.Alloc); ok {
				for _, st := range allocStores(al) {
					if dependsOn(st.Val, src, depth+1) {
						return true
					}
				}
			}
			return false
		}
		return dependsOn(x.X, src, depth+1)
	case *ssa.Phi:
		for _, e := range x.Edges {
			if dependsOn(e, src, depth+1) {
				return true
			}
		}
	case *ssa.Call:
		if isBuiltinCall(x.Common(), "len") || isBuiltinCall(x.Common(), "min") || isBuiltinCall(x.Common(), "max") {
			for _, a := range x.Call.Args {
				if dependsOn(a, src, depth+1) {
					return true
				}
			}
		}
	case *ssa.Extract:
		return dependsOn(x.Tuple, src, depth+1)
	}
	return false
}

// additive: v is src possibly converted, or a sum of non-negative terms one of which is additive in
// src.  A sum only counts when it is computed in a type wider than the decoded field (two 32-bit
// sizes added in 32 bits wrap around and slip under the bound).
func additiveIn(v, src ssa.Value, depth int) bool {
	if v == src {
		return true
	}
	if depth > 10 {
		return false
	}
	switch x := v.(type) {
	case *ssa.Convert:
		return additiveIn(x.X, src, depth+1)
	case *ssa.ChangeType:
		return additiveIn(x.X, src, depth+1)
	case *ssa.BinOp:
		if x.Op == token.ADD {
			if intBits(x.Type()) <= intBits(src.Type()) {
				if _, isK := constInt(x.Y); !isK {
					if _, isK2 := constInt(x.X); !isK2 {
						return false
					}
				}
			}
			return additiveIn(x.X, src, depth+1) || additiveIn(x.Y, src, depth+1)
		}
	}
	return false
}

// intBits: width of an integer type under the analysed configuration (linux/amd64: int is 64 bit).
func intBits(t types.Type) int {
	b, ok := t.Underlying().(*types.Basic)
	if !ok {
		return 0
	}
	switch b.Kind() {
	case types.Int8, types.Uint8:
		return 8
	case types.Int16, types.Uint16:
		return 16
	case types.Int32, types.Uint32:
		return 32
	case types.Int64, types.Uint64, types.Int, types.Uint, types.Uintptr:
		return 64
	}
	return 0
}

// convOf: v is src through conversions only.
func convOf(v, src ssa.Value) bool {
	for i := 0; i < 6; i++ {
		if v == src {
			return true
		}
		switch x := v.(type) {
		case *ssa.Convert:
			v = x.X
		case *ssa.ChangeType:
			v = x.X
		default:
			return false
		}
	}
	return false
}

// signedView returns the values that are `src` converted to a signed integer type
// (the decoded size as the code sees it), including src itself.
func relCond(cond ssa.Value) (x, y ssa.Value, op token.Token, ok bool) {
	bo, isB := cond.(*ssa.BinOp)
	if !isB {
		return nil, nil, 0, false
	}
	switch bo.Op {
	case token.LSS, token.GTR, token.LEQ, token.GEQ, token.EQL, token.NEQ:
		return bo.X, bo.Y, bo.Op, true
	}
	return nil, nil, 0, false
}

func (p *Prog) codecVersion(fn *ssa.Function) string {
	// the version whose dispatch installs fn: a MakeClosure of (a bound wrapper of) fn in a
	// block dominated by the equal edge of `v == <Version global>`.
	for _, g := range p.Funcs {
		for _, b := range g.Blocks {
			for _, ins := range b.Instrs {
				mc, ok := ins.(*ssa.MakeClosure)
				if !ok || unwrapSynthetic(mc.Fn.(*ssa.Function)) != fn {
					continue
				}
				for d := b; d != nil; d = d.Idom() {
					id := d.Idom()
					if id == nil {
						break
					}
					iff, ok := terminator(id).(*ssa.If)
					if !ok {
						continue
					}
					bo, ok := iff.Cond.(*ssa.BinOp)
					if !ok || bo.Op != token.EQL {
						continue
					}
					for _, side := range []ssa.Value{bo.X, bo.Y} {
						if u, ok := side.(*ssa.UnOp); ok && u.Op == token.MUL {
							if gl, ok := u.X.(*ssa.Global); ok && inModulePkg(gl.Pkg) && edgeDominates(id, 0, b) {
								return gl.Name()
							}
						}
					}
				}
			}
		}
	}
	return "?"
}

func ruleR10(p *Prog) []Ob {
	var obs []Ob
	ea := p.ErrAtomsCached()
	for _, fn := range p.R.RecDecoders {
		ver := p.codecVersion(fn)
		label := fmt.Sprintf("%s[%s]", funcLabel(fn), ver)
		props := []string{"C14", "C07"}

		// decoded values
		var decoded []*ssa.Call
		for _, b := range fn.Blocks {
			for _, ins := range b.Instrs {
				if c, ok := ins.(*ssa.Call); ok && isBigEndianGet(c.Common()) {
					decoded = append(decoded, c)
				}
			}
		}

		// (a) bounded allocation
		nMake := 0
		var boundExtra []string
		for _, b := range fn.Blocks {
			for _, ins := range b.Instrs {
				mk, ok := ins.(*ssa.MakeSlice)
				if !ok {
					continue
				}
				var deps []*ssa.Call
				for _, d := range decoded {
					if dependsOn(mk.Len, d, 0) || dependsOn(mk.Cap, d, 0) {
						deps = append(deps, d)
					}
				}
				if len(deps) == 0 {
					continue
				}
				nMake++
				ob := Ob{Rule: "R10", Inst: fmt.Sprintf("a:bounded-alloc:%s#%d", label, nMake), Props: props, Pos: p.at(ins), Func: funcLabel(fn), Nontrivial: true}
				var missing []string
				for _, d := range deps {
					neg, upper := false, false
					for dom := b.Idom(); dom != nil; dom = dom.Idom() {
						iff, ok := terminator(dom).(*ssa.If)
						if !ok {
							continue
						}
						x, y, op, ok := relCond(iff.Cond)
						if !ok {
							continue
						}
						// normalise to expr OP const
						k, isK := constInt(y)
						expr := x
						if !isK {
							if k2, isK2 := constInt(x); isK2 {
								k, isK, expr = k2, true, y
								switch op {
								case token.LSS:
									op = token.GTR
								case token.GTR:
									op = token.LSS
								case token.LEQ:
									op = token.GEQ
								case token.GEQ:
									op = token.LEQ
								}
							}
						}
						if !isK {
							continue
						}
						// which edge means "expr is fine"
						passEdge := -1
						kind := ""
						switch {
						case op == token.LSS && k == 0 && convOf(expr, d) && isSigned(expr.Type()):
							passEdge, kind = 1, "neg" // expr < 0 fails
						case op == token.GEQ && k == 0 && convOf(expr, d) && isSigned(expr.Type()):
							passEdge, kind = 0, "neg"
						case (op == token.GTR || op == token.GEQ) && k > 0 && k <= 1<<30 && additiveIn(expr, d, 0):
							passEdge, kind = 1, "upper"
						case (op == token.LEQ || op == token.LSS) && k > 0 && k <= 1<<30 && additiveIn(expr, d, 0):
							passEdge, kind = 0, "upper"
						}
						if passEdge < 0 || !edgeDominates(dom, passEdge, b) {
							continue
						}
						// the failing edge must not fall through to the allocation: it leaves with an error
						if kind == "neg" {
							neg = true
						} else {
							upper = true
							if c := constTerms(expr, 0); c != 0 {
								boundExtra = append(boundExtra, fmt.Sprintf("%s: the bound is applied to the decoded sizes plus %d", p.at(iff), c))
							}
						}
						ob.Guards = append(ob.Guards, p.at(iff))
					}
					// an unsigned decoded value needs no negative test if it is never viewed as signed
					if !neg && !usedSigned(d) {
						neg = true
					}
					if !neg {
						missing = append(missing, fmt.Sprintf("decoded size at %s is not rejected when negative", p.at(d)))
					}
					if !upper {
						missing = append(missing, fmt.Sprintf("decoded size at %s has no constant upper bound (<= 2^30) before the allocation", p.at(d)))
					}
				}
				if len(missing) > 0 {
					ob.Status, ob.Msg, ob.Path = Violated, "an allocation is sized by bytes read from the file without a dominating sanity bound: a damaged length field can demand gigabytes or panic", missing
				} else {
					ob.Status, ob.Msg = Discharged, fmt.Sprintf("the allocation depends on %d decoded size(s), each rejected when negative and bounded by a constant before it", len(deps))
				}
				obs = append(obs, ob)
			}
		}
		{
			ob := Ob{Rule: "R10", Inst: "a2:bound-counts-key-and-value-only:" + label, Props: append(append([]string{}, props...), "C17", "C01", "C13"), Pos: p.posStr(fn.Pos()), Func: funcLabel(fn), Nontrivial: true}
			if len(boundExtra) > 0 {
				ob.Status, ob.Msg, ob.Path = Violated, "the decoder's size limit counts bytes (header, trailer) that the writers' limit on key + value does not: a record the writers accept is rejected as corrupted when read back in this format", uniqStrings(boundExtra)
			} else {
				ob.Status, ob.Msg = Discharged, "the size limit is applied to the decoded key and value sizes alone, as on the writing side"
			}
			obs = append(obs, ob)
		}
		if nMake == 0 {
			obs = append(obs, Ob{Rule: "R10", Inst: "a:bounded-alloc:" + label, Props: props, Pos: p.posStr(fn.Pos()), Func: funcLabel(fn), Status: Undecided, Msg: "no allocation sized by decoded bytes found in the record decoder (decoder not recognised)"})
		}

		// (b) CRC (and trailer) dominate every success return
		var succ []*ssa.Return
		for _, rt := range returnsOf(fn) {
			if !ea.isFailureReturn(fn, rt) {
				succ = append(succ, rt)
			}
		}
		crcOb := Ob{Rule: "R10", Inst: "b:crc:" + label, Props: props, Pos: p.posStr(fn.Pos()), Func: funcLabel(fn), Nontrivial: true}
		crcFound := false
		crcOK := len(succ) > 0
		for _, b := range fn.Blocks {
			iff, ok := terminator(b).(*ssa.If)
			if !ok {
				continue
			}
			bo, ok := iff.Cond.(*ssa.BinOp)
			if !ok || (bo.Op != token.NEQ && bo.Op != token.EQL) {
				continue
			}
			isCRC := func(v ssa.Value) bool {
				c, ok := v.(*ssa.Call)
				return ok && calleeName(c.Common()) == "hash/crc32.Checksum"
			}
			isDec := func(v ssa.Value) bool {
				for _, d := range decoded {
					if convOf(v, d) {
						return true
					}
				}
				return false
			}
			if !(isCRC(bo.X) && isDec(bo.Y) || isCRC(bo.Y) && isDec(bo.X)) {
				continue
			}
			crcFound = true
			crcOb.Pos = p.at(iff)
			eq := 0
			if bo.Op == token.NEQ {
				eq = 1
			}
			for _, rt := range succ {
				if !edgeDominates(b, eq, rt.Block()) {
					crcOK = false
					crcOb.Path = append(crcOb.Path, "success return at "+p.at(rt)+" is not dominated by the CRC-equal edge")
				}
			}
		}
		switch {
		case !crcFound:
			crcOb.Status, crcOb.Msg = Violated, "the record decoder never compares the stored CRC with crc32.Checksum of what it read: damaged bytes are returned as data"
		case !crcOK:
			crcOb.Status, crcOb.Msg = Violated, "a success return of the record decoder is reachable without passing the CRC comparison"
		default:
			crcOb.Status, crcOb.Msg = Discharged, fmt.Sprintf("all %d success return(s) are dominated by the equal edge of stored CRC == crc32.Checksum(...)", len(succ))
		}
		obs = append(obs, crcOb)

		// trailer: if the paired encoder writes a module []byte constant after the payload, the decoder must test it
		var enc *ssa.Function
		for _, e := range p.R.RecEncoders {
			if p.codecVersion(e) == ver {
				enc = e
			}
		}
		if tg := trailerGlobal(enc); tg != nil {
			tob := Ob{Rule: "R10", Inst: "b:trailer:" + label, Props: props, Pos: p.posStr(fn.Pos()), Func: funcLabel(fn), Nontrivial: true}
			found, okAll := false, len(succ) > 0
			for _, b := range fn.Blocks {
				iff, ok := terminator(b).(*ssa.If)
				if !ok {
					continue
				}
				x, y, trueEq, ok := byteEqualityTest(iff.Cond)
				if !ok {
					continue
				}
				isG := func(v ssa.Value) bool {
					u, ok := v.(*ssa.UnOp)
					return ok && u.Op == token.MUL && u.X == tg
				}
				if !isG(x) && !isG(y) {
					continue
				}
				found = true
				tob.Pos = p.at(iff)
				e := 0
				if !trueEq {
					e = 1
				}
				for _, rt := range succ {
					if !edgeDominates(b, e, rt.Block()) {
						okAll = false
					}
				}
			}
			switch {
			case !found:
				tob.Status, tob.Msg = Violated, "the encoder of this version writes the trailer constant but the decoder never compares it"
			case !okAll:
				tob.Status, tob.Msg = Violated, "a success return of the decoder is reachable without passing the trailer comparison"
			default:
				tob.Status, tob.Msg = Discharged, "all success returns are dominated by the equal edge of the trailer comparison"
			}
			obs = append(obs, tob)
		}

		// (c) short header read
		obs = append(obs, p.shortReadObligation(ea, fn, label, props))
		// (c2) a short payload read is never a clean end
		obs = append(obs, p.payloadReadObligation(ea, fn, label, props))
	}

	// (d) may-be-empty results are not indexed without a length test
	obs = append(obs, p.emptyResultObligations(ea)...)
	// (e) the log file is only read through the decoders
	obs = append(obs, p.rawReadObligations()...)
	// (f) decoder errors fail the call
	obs = append(obs, p.decoderErrorsPropagate()...)
	return obs
}

func isSigned(t types.Type) bool {
	b, ok := t.Underlying().(*types.Basic)
	return ok && b.Info()&types.IsInteger != 0 && b.Info()&types.IsUnsigned == 0
}

// usedSigned: is the decoded (unsigned) value ever converted to a signed type?
func usedSigned(d ssa.Value) bool {
	if d.Referrers() == nil {
		return false
	}
	for _, r := range *d.Referrers() {
		if cv, ok := r.(*ssa.Convert); ok && isSigned(cv.Type()) {
			return true
		}
	}
	return false
}

// trailerGlobal: the module-level []byte the encoder copies into its buffer (nil if none).
func trailerGlobal(enc *ssa.Function) *ssa.Global {
	if enc == nil {
		return nil
	}
	for _, b := range enc.Blocks {
		for _, ins := range b.Instrs {
			c, ok := ins.(*ssa.Call)
			if !ok || !isBuiltinCall(c.Common(), "copy") {
				continue
			}
			if u, ok := c.Call.Args[1].(*ssa.UnOp); ok && u.Op == token.MUL {
				if g, ok := u.X.(*ssa.Global); ok && inModulePkg(g.Pkg) {
					return g
				}
			}
		}
	}
	return nil
}

// shortReadObligation: the ReadAt that fills the fixed-size record header reports a torn
// header as (0 < n < len, io.EOF).  No return that hands that error on may be reached
// while EOF is still possible and n has not been looked at.
func (p *Prog) shortReadObligation(ea *ErrAtoms, fn *ssa.Function, label string, props []string) Ob {
	ob := Ob{Rule: "R10", Inst: "c:short-read:" + label, Props: append(append([]string{}, props...), "C05", "C02", "C06"), Pos: p.posStr(fn.Pos()), Func: funcLabel(fn), Nontrivial: true}
	// header reads: ReadAt into a slice of a fixed-size local array
	var reads []*ssa.Call
	for _, b := range fn.Blocks {
		for _, ins := range b.Instrs {
			c, ok := ins.(*ssa.Call)
			if !ok {
				continue
			}
			nm := calleeName(c.Common())
			if !strings.HasSuffix(nm, ").ReadAt") || len(c.Call.Args) < 2 {
				continue
			}
			if sl, ok := c.Call.Args[1].(*ssa.Slice); ok {
				if al, ok := sl.X.(*ssa.Alloc); ok {
					if pt, ok := al.Type().(*types.Pointer); ok {
						if _, isArr := pt.Elem().Underlying().(*types.Array); isArr {
							reads = append(reads, c)
						}
					}
				}
			}
		}
	}
	if len(reads) == 0 {
		ob.Status, ob.Msg = Undecided, "no ReadAt into a fixed-size header array found in the record decoder"
		return ob
	}
	var hdrLen int64
	if sl, ok := reads[0].Call.Args[1].(*ssa.Slice); ok {
		if al, ok := sl.X.(*ssa.Alloc); ok {
			if arr, ok := al.Type().(*types.Pointer).Elem().Underlying().(*types.Array); ok {
				hdrLen = arr.Len()
			}
		}
	}
	ob.Pos = p.at(reads[0])
	// the (n, err) values: extracts of the calls and phis merging them
	isFrom := func(v ssa.Value, idx int) bool {
		var chk func(v ssa.Value, d int) bool
		chk = func(v ssa.Value, d int) bool {
			if d > 6 {
				return false
			}
			switch x := v.(type) {
			case *ssa.Extract:
				if c, ok := x.Tuple.(*ssa.Call); ok && x.Index == idx {
					for _, r := range reads {
						if r == c {
							return true
						}
					}
				}
			case *ssa.Phi:
				for _, e := range x.Edges {
					if chk(e, d+1) {
						return true
					}
				}
			case *ssa.UnOp:
				if al, ok := x.X.(*ssa.Alloc); ok && x.Op == token.MUL {
					for _, st := range allocStores(al) {
						if chk(st.Val, d+1) {
							return true
						}
					}
				}
			}
			return false
		}
		return chk(v, 0)
	}
	isErrV := func(v ssa.Value) bool { return isFrom(v, 1) }
	dependsOnN := func(v ssa.Value) bool {
		var chk func(v ssa.Value, d int) bool
		chk = func(v ssa.Value, d int) bool {
			if d > 8 {
				return false
			}
			if isFrom(v, 0) {
				return true
			}
			switch x := v.(type) {
			case *ssa.BinOp:
				return chk(x.X, d+1) || chk(x.Y, d+1)
			case *ssa.Convert:
				return chk(x.X, d+1)
			case *ssa.UnOp:
				return chk(x.X, d+1)
			}
			return false
		}
		return chk(v, 0)
	}
	// does a returned error derive from the read's error?
	var derives func(v ssa.Value, d int) bool
	derives = func(v ssa.Value, d int) bool {
		if d > 8 {
			return false
		}
		if isErrV(v) {
			return true
		}
		switch x := v.(type) {
		case *ssa.Phi:
			for _, e := range x.Edges {
				if derives(e, d+1) {
					return true
				}
			}
		case *ssa.Call:
			if calleeName(x.Common()) == "fmt.Errorf" && len(x.Call.Args) > 1 {
				for _, a := range variadicArgs(x.Call.Args[1]) {
					if a != nil && derives(stripConv(a), d+1) {
						return true
					}
				}
			}
			if calleeName(x.Common()) == "errors.Join" {
				for _, a := range variadicArgs(x.Call.Args[0]) {
					if a != nil && derives(a, d+1) {
						return true
					}
				}
			}
		case *ssa.MakeInterface:
			return derives(x.X, d+1)
		case *ssa.ChangeInterface:
			return derives(x.X, d+1)
		}
		return false
	}

	const (
		PU = 1 << iota // eof possible, n untested
		PT             // eof possible, n tested
		IM             // eof impossible
	)
	in := map[*ssa.BasicBlock]int{}
	var work []*ssa.BasicBlock
	push := func(b *ssa.BasicBlock, st int) {
		if in[b]|st != in[b] {
			in[b] |= st
			work = append(work, b)
		}
	}
	// start: successors of the blocks containing the reads (the state applies after the read)
	for _, r := range reads {
		for _, s := range r.Block().Succs {
			push(s, PU)
		}
		if len(r.Block().Succs) == 0 {
			push(r.Block(), PU)
		}
	}
	ei := errResultIndex(fn)
	var bad []string
	seenBad := map[string]bool{}
	for len(work) > 0 {
		b := work[len(work)-1]
		work = work[:len(work)-1]
		st := in[b]
		switch t := terminator(b).(type) {
		case *ssa.Return:
			if b != fn.Recover && ei >= 0 && st&PU != 0 && derives(returnOperand(t, ei), 0) {
				k := p.at(t)
				if !seenBad[k] {
					seenBad[k] = true
					bad = append(bad, k+": returns the ReadAt error while it may still be io.EOF and the byte count was never examined")
				}
			}
		case *ssa.If:
			s0, s1 := st, st
			// find the error value the condition tests
			var tst errTest
			okT := false
			for _, cand := range condOperands(t.Cond) {
				if isErrV(cand) {
					if tt, ok := classifyErrCond(t.Cond, cand); ok {
						tst, okT = tt, true
					}
				}
			}
			if okT {
				apply := func(holds bool, s int) int {
					switch tst.kind {
					case "nil":
						if holds {
							return IM
						}
					case "eq", "is":
						if tst.target == "X:io.EOF" {
							if !holds {
								return IM
							}
						} else if holds {
							return IM // it is some other error, so it is not io.EOF
						}
					}
					return s
				}
				s0, s1 = apply(tst.trueMeans, st), apply(!tst.trueMeans, st)
			} else if dependsOnN(t.Cond) && nTestIsBoundary(t.Cond, hdrLen) {
				conv := func(s int) int {
					if s&PU != 0 {
						s = s&^PU | PT
					}
					return s
				}
				s0, s1 = conv(st), conv(st)
			}
			push(b.Succs[0], s0)
			push(b.Succs[1], s1)
		default:
			for _, s := range b.Succs {
				push(s, st)
			}
		}
	}
	if len(bad) > 0 {
		ob.Status = Violated
		ob.Msg = "a torn record header (0 < n < header size, io.EOF) is handed on as io.EOF, which every scan treats as the clean end of the segment"
		ob.Path = bad
	} else {
		ob.Status = Discharged
		ob.Msg = fmt.Sprintf("%d header read(s): no return hands the ReadAt error on while it may be io.EOF with the byte count unexamined", len(reads))
	}
	return ob
}

// condOperands lists the values a branch condition mentions (for error tests).
func condOperands(cond ssa.Value) []ssa.Value {
	for {
		u, ok := cond.(*ssa.UnOp)
		if ok && u.Op == token.NOT {
			cond = u.X
			continue
		}
		break
	}
	switch c := cond.(type) {
	case *ssa.BinOp:
		return []ssa.Value{c.X, c.Y}
	case *ssa.Call:
		return c.Call.Args
	}
	return nil
}

func (p *Prog) emptyResultObligations(ea *ErrAtoms) []Ob {
	var obs []Ob
	// summary: module functions that may return an empty slice with a nil error
	mayEmpty := map[*ssa.Function]int{} // fn -> result index
	for _, fn := range p.Funcs {
		if !srcFunc(fn) {
			continue
		}
		res := fn.Signature.Results()
		for i := 0; i < res.Len(); i++ {
			if _, ok := res.At(i).Type().Underlying().(*types.Slice); !ok {
				continue
			}
			for _, rt := range returnsOf(fn) {
				if ea.isFailureReturn(fn, rt) {
					continue
				}
				v := returnOperand(rt, i)
				if sl, ok := v.(*ssa.Slice); ok && sl.High != nil {
					if phi, ok := sl.High.(*ssa.Phi); ok {
						for _, e := range phi.Edges {
							if k, isK := constInt(e); isK && k == 0 {
								mayEmpty[fn] = i
							}
						}
					}
				}
			}
		}
	}
	nSummary := 0
	for _, fn := range p.Funcs {
		if _, ok := mayEmpty[fn]; ok && fn.Pkg != nil && fn.Pkg.Pkg.Path() == pkgMessage {
			nSummary++
		}
	}
	for _, fn := range p.Funcs {
		if !srcFunc(fn) {
			continue
		}
		for _, b := range fn.Blocks {
			for _, ins := range b.Instrs {
				c, ok := ins.(*ssa.Call)
				if !ok {
					continue
				}
				for _, g := range p.callees(c) {
					ri, ok := mayEmpty[g]
					if !ok {
						continue
					}
					// the slice value
					var sv ssa.Value
					if c.Referrers() != nil {
						for _, r := range *c.Referrers() {
							if ex, ok := r.(*ssa.Extract); ok && ex.Index == ri {
								sv = ex
							}
						}
					}
					if sv == nil || sv.Referrers() == nil {
						continue
					}
					for _, r := range *sv.Referrers() {
						ia, ok := r.(*ssa.IndexAddr)
						if !ok {
							if ix, ok2 := r.(*ssa.Index); ok2 {
								_ = ix
							} else {
								continue
							}
						}
						var at ssa.Instruction = r
						if ia != nil && isRangeIndex(ia) {
							continue // `for i := range s { s[i] }` is bounded by construction
						}
						ob := Ob{Rule: "R10", Inst: fmt.Sprintf("d:index-of-maybe-empty:%s<-%s", funcLabel(fn), funcLabel(g)), Props: []string{"C14"}, Pos: p.at(at), Func: funcLabel(fn), Nontrivial: true}
						if lenGuarded(sv, at.Block()) {
							ob.Status, ob.Msg = Discharged, fmt.Sprintf("%s may return an empty slice with a nil error; the indexing is dominated by a length test", funcLabel(g))
						} else {
							ob.Status, ob.Msg = Violated, fmt.Sprintf("%s may return an empty slice with a nil error (file shorter than the index says) and the result is indexed without a length test: index out of range panic", funcLabel(g))
						}
						obs = append(obs, ob)
					}
				}
			}
		}
	}
	sum := Ob{Rule: "R10", Inst: "d:may-return-empty-summary", Props: []string{"C14"}, Pos: "-", Nontrivial: false}
	if nSummary == 0 {
		sum.Status, sum.Msg = Undecided, "no range-read function of pkg/message was summarised as may-return-empty (the loop shape is no longer recognised)"
	} else {
		sum.Status, sum.Msg = Discharged, fmt.Sprintf("%d function(s) summarised as may-return-empty (returned slice x[:i] with i possibly 0)", len(mayEmpty))
	}
	obs = append(obs, sum)
	return dedupObs(obs)
}

func isRangeIndex(ia *ssa.IndexAddr) bool {
	phi, ok := ia.Index.(*ssa.Phi)
	if !ok {
		if bo, ok := ia.Index.(*ssa.BinOp); ok {
			phi, _ = bo.X.(*ssa.Phi)
		}
	}
	return phi != nil && strings.Contains(phi.Comment, "rangeindex")
}

// lenGuarded: block b is dominated by an edge on which len(s) > 0.
func lenGuarded(s ssa.Value, b *ssa.BasicBlock) bool {
	isLen := func(v ssa.Value) bool {
		c, ok := v.(*ssa.Call)
		return ok && isBuiltinCall(c.Common(), "len") && c.Call.Args[0] == s
	}
	for d := b.Idom(); d != nil; d = d.Idom() {
		iff, ok := terminator(d).(*ssa.If)
		if !ok {
			continue
		}
		x, y, op, ok := relCond(iff.Cond)
		if !ok {
			continue
		}
		var k int64
		var isK bool
		if isLen(x) {
			k, isK = constInt(y)
		} else if isLen(y) {
			k, isK = constInt(x)
			switch op {
			case token.LSS:
				op = token.GTR
			case token.GTR:
				op = token.LSS
			case token.LEQ:
				op = token.GEQ
			case token.GEQ:
				op = token.LEQ
			}
		} else {
			continue
		}
		if !isK {
			continue
		}
		nonEmptyEdge := -1
		switch {
		case op == token.EQL && k == 0:
			nonEmptyEdge = 1
		case op == token.NEQ && k == 0:
			nonEmptyEdge = 0
		case op == token.GTR && k >= 0:
			nonEmptyEdge = 0
		case op == token.GEQ && k >= 1:
			nonEmptyEdge = 0
		case op == token.LSS && k >= 1:
			nonEmptyEdge = 1
		case op == token.LEQ && k >= 0:
			nonEmptyEdge = 1
		}
		if nonEmptyEdge >= 0 && edgeDominates(d, nonEmptyEdge, b) {
			return true
		}
	}
	return false
}

// nTestIsBoundary: the condition compares the byte count with 0, 1 or the header
// length (the only comparisons that separate "nothing read" from "partly read").
func nTestIsBoundary(cond ssa.Value, hdrLen int64) bool {
	for {
		u, ok := cond.(*ssa.UnOp)
		if ok && u.Op == token.NOT {
			cond = u.X
			continue
		}
		break
	}
	x, y, _, ok := relCond(cond)
	if !ok {
		return false
	}
	for _, side := range []ssa.Value{x, y} {
		if k, isK := constInt(side); isK && (k == 0 || k == 1 || k == hdrLen || k == hdrLen-1) {
			return true
		}
		if c, isC := side.(*ssa.Call); isC && isBuiltinCall(c.Common(), "len") {
			return true
		}
	}
	return false
}

// payloadReadObligation: a ReadAt that fills the (variable-size) payload of a record whose header
// was already read can never legitimately hit the end of the file, whatever the byte count: no
// return may hand its error on while it may still be io.EOF (every scan treats io.EOF as the clean
// end of the segment).
func (p *Prog) payloadReadObligation(ea *ErrAtoms, fn *ssa.Function, label string, props []string) Ob {
	ob := Ob{Rule: "R10", Inst: "c2:payload-read:" + label, Props: append(append([]string{}, props...), "C05"), Pos: p.posStr(fn.Pos()), Func: funcLabel(fn), Nontrivial: true}
	var reads []*ssa.Call
	for _, b := range fn.Blocks {
		for _, ins := range b.Instrs {
			c, ok := ins.(*ssa.Call)
			if !ok || !strings.HasSuffix(calleeName(c.Common()), ").ReadAt") || len(c.Call.Args) < 2 {
				continue
			}
			// destination is not a slice of a fixed-size local array
			fixed := false
			if sl, ok := c.Call.Args[1].(*ssa.Slice); ok {
				if al, ok := sl.X.(*ssa.Alloc); ok && al.Comment != "makeslice" {
					if _, isArr := derefPtr(al.Type()).Underlying().(*types.Array); isArr {
						fixed = true
					}
				}
			}
			if !fixed {
				reads = append(reads, c)
			}
		}
	}
	if len(reads) == 0 {
		ob.Status, ob.Msg = Undecided, "no payload ReadAt found in the record decoder"
		return ob
	}
	ob.Pos = p.at(reads[0])
	isErrV := func(v ssa.Value) bool {
		var chk func(v ssa.Value, d int) bool
		chk = func(v ssa.Value, d int) bool {
			if d > 6 {
				return false
			}
			switch x := v.(type) {
			case *ssa.Extract:
				if c, ok := x.Tuple.(*ssa.Call); ok && x.Index == 1 {
					for _, r := range reads {
						if r == c {
							return true
						}
					}
				}
			case *ssa.Phi:
				for _, e := range x.Edges {
					if chk(e, d+1) {
						return true
					}
				}
			}
			return false
		}
		return chk(v, 0)
	}
	var errVals []ssa.Value
	for _, b := range fn.Blocks {
		for _, ins := range b.Instrs {
			if v, ok := ins.(ssa.Value); ok && isErrType(v.Type()) && isErrV(v) {
				errVals = append(errVals, v)
			}
		}
	}
	const (
		EP = 1 << iota // eof possible
		IM             // eof impossible
	)
	in := map[*ssa.BasicBlock]int{}
	var work []*ssa.BasicBlock
	push := func(b *ssa.BasicBlock, st int) {
		if in[b]|st != in[b] {
			in[b] |= st
			work = append(work, b)
		}
	}
	for _, r := range reads {
		for _, s := range r.Block().Succs {
			push(s, EP)
		}
	}
	ei := errResultIndex(fn)
	var bad []string
	seen := map[string]bool{}
	for len(work) > 0 {
		b := work[len(work)-1]
		work = work[:len(work)-1]
		st := in[b]
		switch t := terminator(b).(type) {
		case *ssa.Return:
			if b != fn.Recover && ei >= 0 && st&EP != 0 {
				v := returnOperand(t, ei)
				for _, ev := range errVals {
					if derivesFromErr(v, ev, 0) {
						if k := p.at(t); !seen[k] {
							seen[k] = true
							bad = append(bad, k+": returns the payload ReadAt error while it may still be io.EOF")
						}
					}
				}
			}
		case *ssa.If:
			s0, s1 := st, st
			for _, cand := range condOperands(t.Cond) {
				if !isErrV(cand) {
					continue
				}
				if tt, ok := classifyErrCond(t.Cond, cand); ok {
					apply := func(holds bool, s int) int {
						switch tt.kind {
						case "nil":
							if holds {
								return IM
							}
						case "eq", "is":
							if tt.target == "X:io.EOF" {
								if !holds {
									return IM
								}
							} else if holds {
								return IM
							}
						}
						return s
					}
					s0, s1 = apply(tt.trueMeans, st), apply(!tt.trueMeans, st)
				}
			}
			push(b.Succs[0], s0)
			push(b.Succs[1], s1)
		default:
			for _, s := range b.Succs {
				push(s, st)
			}
		}
	}
	if len(bad) > 0 {
		ob.Status, ob.Msg, ob.Path = Violated, "a record whose header is present but whose payload is cut off is handed on as io.EOF, i.e. as the clean end of the segment", bad
	} else {
		ob.Status, ob.Msg = Discharged, fmt.Sprintf("%d payload read(s): the io.EOF outcome is always turned into a corruption sentinel", len(reads))
	}
	return ob
}

// constTerms: the sum of the constant leaves of an additive expression.
func constTerms(v ssa.Value, d int) int64 {
	if d > 8 {
		return 0
	}
	v = stripConv(v)
	if k, ok := constInt(v); ok {
		return k
	}
	if bo, ok := v.(*ssa.BinOp); ok {
		switch bo.Op {
		case token.ADD:
			return constTerms(bo.X, d+1) + constTerms(bo.Y, d+1)
		case token.SUB:
			return constTerms(bo.X, d+1) - constTerms(bo.Y, d+1)
		}
	}
	return 0
}
