package main

import (
	"fmt"
	"go/token"
	"go/types"
	"sort"

	"golang.org/x/tools/go/ssa"
)

// R14 NOTIFY — publish-then-set, probe-under-token (C18)

func (p *Prog) notifyBarrierField() *types.Var {
	s := structOf(p.R.NotifyOffset)
	var out *types.Var
	for i := 0; i < s.NumFields(); i++ {
		if ch, ok := s.Field(i).Type().Underlying().(*types.Chan); ok {
			if _, inner := ch.Elem().Underlying().(*types.Chan); inner {
				if out != nil {
					return nil
				}
				out = s.Field(i)
			}
		}
	}
	return out
}

func isFieldLoad(v ssa.Value, f *types.Var) bool {
	g, _ := loadedField(v)
	return g != nil && g == f
}

type tokenEvent struct {
	ins   ssa.Instruction
	kind  string // RECV, SEND, CLOSEBAR
	state int    // token states possible before the instruction (bitmask 1=no, 2=yes)
}

// tokenFlow runs the token-state dataflow over a method of notify.Offset.
// States: 1 = token not held, 2 = token held.
func (p *Prog) tokenFlow(fn *ssa.Function, bar *types.Var) (stateAt map[ssa.Instruction]int, problems []string, recvs []*ssa.UnOp) {
	stateAt = map[ssa.Instruction]int{}
	in := map[*ssa.BasicBlock]int{}
	var work []*ssa.BasicBlock
	push := func(b *ssa.BasicBlock, st int) {
		if in[b]|st != in[b] {
			in[b] |= st
			work = append(work, b)
		}
	}
	push(fn.Blocks[0], 1)
	seenProblem := map[string]bool{}
	report := func(s string) {
		if !seenProblem[s] {
			seenProblem[s] = true
			problems = append(problems, s)
		}
	}
	// pending: the ok value of a comma-ok receive decides the state on the branch
	for len(work) > 0 {
		b := work[len(work)-1]
		work = work[:len(work)-1]
		st := in[b]
		var pendingOK ssa.Value
		for _, ins := range b.Instrs {
			stateAt[ins] |= st
			switch x := ins.(type) {
			case *ssa.UnOp:
				if x.Op == token.ARROW && isFieldLoad(x.X, bar) {
					if st&2 != 0 {
						report(p.at(x) + ": the barrier token is received while it may already be held (self-deadlock)")
					}
					recvs = append(recvs, x)
					if x.CommaOk {
						for _, r := range *x.Referrers() {
							if ex, ok := r.(*ssa.Extract); ok && ex.Index == 1 {
								pendingOK = ex
							}
						}
					}
					st = 2
				}
			case *ssa.Send:
				if isFieldLoad(x.Chan, bar) {
					if st&1 != 0 {
						report(p.at(x) + ": a value is sent on the barrier without holding its token (two tokens in flight, or a blocked send)")
					}
					st = 1
				}
			case *ssa.Call:
				if isBuiltinCall(x.Common(), "close") && isFieldLoad(x.Call.Args[0], bar) {
					if st&1 != 0 {
						report(p.at(x) + ": the barrier is closed without holding its token")
					}
					st = 1
				}
			case *ssa.Select:
				for _, sst := range x.States {
					if isFieldLoad(sst.Chan, bar) {
						report(p.at(x) + ": the barrier is used in a select (not an accepted token idiom)")
					}
				}
			case *ssa.Defer:
				// a deferred closure that puts a channel back on the barrier (or closes it) releases
				// the token when the function's deferred calls run
				if g := deferredClosure(x); g != nil && releasesBarrier(g, bar) {
					st |= 4
				}
			case *ssa.RunDefers:
				if st&4 != 0 {
					if st&1 != 0 && st&2 == 0 {
						report(p.at(x) + ": a deferred release of the barrier runs without the token being held")
					}
					st = 1
				}
			case *ssa.Return:
				if st&2 != 0 && b != fn.Recover {
					report(p.at(x) + ": the function can return while still holding the barrier token (every later Wait/Set/Close blocks forever)")
				}
			}
		}
		if iff, ok := terminator(b).(*ssa.If); ok && pendingOK != nil && iff.Cond == pendingOK {
			push(b.Succs[0], 2) // ok: token received
			push(b.Succs[1], 1) // closed: no token
			continue
		}
		for _, s := range b.Succs {
			push(s, st)
		}
	}
	return
}

func ruleR14(p *Prog) []Ob {
	var obs []Ob
	ea := p.ErrAtomsCached()
	r := p.R
	props := []string{"C18"}
	notifyMethods := map[string]*ssa.Function{}
	for _, nm := range []string{"Wait", "Set", "Close"} {
		notifyMethods[nm] = p.methodOf(r.NotifyOffset, nm)
	}

	// (a) wrappers
	isNotifyCall := func(c *ssa.CallCommon, name string) bool {
		f := c.StaticCallee()
		return f != nil && f == notifyMethods[name]
	}
	nWrappers := 0
	for _, fn := range p.Funcs {
		if !srcFunc(fn) || fn.Signature.Recv() == nil {
			continue
		}
		rn := recvNamed(fn)
		if rn == nil {
			continue
		}
		isWrapper := false
		for _, w := range r.Wrappers {
			if rn.Origin() == w.Origin() || rn == w {
				isWrapper = true
			}
		}
		if !isWrapper {
			continue
		}
		if len(fn.TypeArgs()) > 0 {
			continue // instantiation of a generic wrapper: the generic body is analysed once
		}
		label := funcLabel(fn)
		var waits, sets, closes []*ssa.Call
		var inner []*ssa.Call // invoke of a method with the same name on the embedded log
		for _, b := range fn.Blocks {
			for _, ins := range b.Instrs {
				c, ok := ins.(*ssa.Call)
				if !ok {
					continue
				}
				switch {
				case isNotifyCall(c.Common(), "Wait"):
					waits = append(waits, c)
				case isNotifyCall(c.Common(), "Set"):
					sets = append(sets, c)
				case isNotifyCall(c.Common(), "Close"):
					closes = append(closes, c)
				case c.Common().IsInvoke():
					if f, _ := loadedField(c.Common().Value); f != nil && f.Embedded() {
						inner = append(inner, c)
					}
				}
			}
		}
		name := fn.Name()
		switch {
		case name == "Publish":
			nWrappers++
			ob := Ob{Rule: "R14", Inst: "a:publish-then-set:" + label, Props: props, Pos: p.posStr(fn.Pos()), Func: label, Nontrivial: true}
			var pub *ssa.Call
			for _, c := range inner {
				if c.Common().Method.Name() == "Publish" {
					pub = c
				}
			}
			if pub == nil {
				ob.Status, ob.Msg = Undecided, "the wrapper's Publish does not call the embedded log's Publish"
				obs = append(obs, ob)
				continue
			}
			var next ssa.Value
			for _, rf := range *pub.Referrers() {
				if ex, ok := rf.(*ssa.Extract); ok && ex.Index == 0 {
					next = ex
				}
			}
			// every path from the inner Publish to a success return calls Set(next), except paths on
			// which the published batch is empty (nothing moved, nobody needs waking)
			isSet := func(ins ssa.Instruction) bool {
				c, ok := ins.(*ssa.Call)
				return ok && isNotifyCall(c.Common(), "Set") && len(c.Call.Args) >= 2 && next != nil && canon(c.Call.Args[1]) == next
			}
			emptyEdge := func(b *ssa.BasicBlock, si int) bool {
				iff, ok := terminator(b).(*ssa.If)
				if !ok {
					return false
				}
				x, y, op, ok := relCond(iff.Cond)
				if !ok {
					return false
				}
				c, isC := x.(*ssa.Call)
				k, isK := constInt(y)
				if !isC || !isK || k != 0 || !isBuiltinCall(c.Common(), "len") {
					return false
				}
				if _, isParam := canon(c.Call.Args[0]).(*ssa.Parameter); !isParam {
					return false
				}
				switch op {
				case token.GTR, token.NEQ: // len > 0: the false edge is the empty one
					return si == 1
				case token.EQL, token.LEQ: // len == 0: the true edge is the empty one
					return si == 0
				}
				return false
			}
			var missing []string
			seen := map[*ssa.BasicBlock]bool{}
			var walk func(b *ssa.BasicBlock, from int)
			walk = func(b *ssa.BasicBlock, from int) {
				for i := from; i < len(b.Instrs); i++ {
					if isSet(b.Instrs[i]) {
						return
					}
					if rt, ok := b.Instrs[i].(*ssa.Return); ok {
						if b != fn.Recover && !ea.isFailureReturn(fn, rt) {
							missing = append(missing, "success return at "+p.at(rt))
						}
						return
					}
				}
				for si, sc := range b.Succs {
					if emptyEdge(b, si) || seen[sc] {
						continue
					}
					seen[sc] = true
					walk(sc, 0)
				}
			}
			for i, ins := range pub.Block().Instrs {
				if ins == pub {
					walk(pub.Block(), i+1)
				}
			}
			if len(missing) > 0 {
				ob.Status, ob.Msg, ob.Path = Violated, "a publish of a non-empty batch can succeed without the notifier being set to the offset the inner Publish returned: blocked consumers are not woken", missing
			} else {
				ob.Status, ob.Msg = Discharged, "every success path of a non-empty publish calls notify.Set(next offset returned by the inner Publish)"
			}
			obs = append(obs, ob)
		case name == "Close":
			ob := Ob{Rule: "R14", Inst: "a:close-notifies:" + label, Props: props, Pos: p.posStr(fn.Pos()), Func: label, Nontrivial: true}
			fl := &bitFlow{p: p, ea: ea, name: "notify.Close"}
			fl.effect = func(call ssa.CallInstruction) (bool, bool) { return false, isNotifyCall(call.Common(), "Close") }
			fl.solve()
			if bad, _ := fl.run(fn, true, nil, nil); bad {
				ob.Status, ob.Msg = Violated, "Close can succeed without closing the notifier: blocked consumers never wake and later waits do not fail"
			} else {
				ob.Status, ob.Msg = Discharged, "every success return of Close is preceded by notify.Close()"
			}
			obs = append(obs, ob)
		case len(waits) > 0:
			ob := Ob{Rule: "R14", Inst: "a:wait-before-consume:" + label, Props: props, Pos: p.at(waits[0]), Func: label, Nontrivial: true}
			var bad []string
			for _, w := range waits {
				// one wait, then one consume whose result is the answer: a wrapper that goes back to
				// waiting when the consume had nothing spins wherever the wait returns at once
				// (relative offsets, offsets below the next offset) and never hands an empty result on
				if _, loop := innermostLoop(w.Block()); loop != nil {
					bad = append(bad, p.at(w)+": the wait is inside a loop: the call does not return what Consume returns when it is woken")
				}
				args := w.Call.Args // recv, ctx, offset
				okCtx, okOff := false, false
				for _, pr := range fn.Params {
					if len(args) >= 3 && stripConv(args[1]) == pr && typeIs(pr.Type(), "context", "Context") {
						okCtx = true
					}
					if len(args) >= 3 && args[2] == pr {
						okOff = true
					}
				}
				if !okCtx {
					bad = append(bad, p.at(w)+": Wait is not given the caller's context")
				}
				if !okOff {
					bad = append(bad, p.at(w)+": Wait is not given the caller's offset")
				}
				for _, c := range inner {
					if !instrDominates(w, c) || !p.failureEdgeLeaves(ea, w, c) {
						bad = append(bad, fmt.Sprintf("%s: the inner %s is not preceded by a successful Wait", p.at(c), c.Common().Method.Name()))
					}
					// the inner consume gets the same offset
					same := false
					for _, a := range c.Call.Args {
						if len(args) >= 3 && a == args[2] {
							same = true
						}
					}
					if !same {
						bad = append(bad, fmt.Sprintf("%s: the inner %s is not given the offset that was waited for", p.at(c), c.Common().Method.Name()))
					}
				}
				if len(inner) == 0 {
					bad = append(bad, "no inner consume call after Wait")
				}
			}
			if len(bad) > 0 {
				ob.Status, ob.Msg, ob.Path = Violated, "the blocking consume does not wait on the caller's offset/context before consuming", bad
			} else {
				ob.Status, ob.Msg = Discharged, "Wait(ctx, offset) with the caller's own arguments dominates the inner consume, its error is returned"
			}
			obs = append(obs, ob)
		}
		_ = sets
		_ = closes
	}
	// (e) who may broadcast: the notifier is set only behind a publish of the wrapped log; a
	// broadcast for anything else (a Sync, a Delete, a timer) wakes parked consumers for nothing
	if setFn := notifyMethods["Set"]; setFn != nil {
		ob := Ob{Rule: "R14", Inst: "e:who-may-set", Props: props, Pos: p.posStr(setFn.Pos()), Nontrivial: true}
		n := 0
		var bad []string
		for _, fn := range p.Funcs {
			if !srcFunc(fn) || fn.Pkg == nil || fn.Pkg.Pkg.Path() == setFn.Pkg.Pkg.Path() {
				continue
			}
			for _, b := range fn.Blocks {
				for _, ins := range b.Instrs {
					c, ok := ins.(ssa.CallInstruction)
					if !ok || !isNotifyCall(c.Common(), "Set") {
						continue
					}
					n++
					behindPublish := false
					for _, b2 := range fn.Blocks {
						for _, i2 := range b2.Instrs {
							pc, ok := i2.(*ssa.Call)
							if !ok || !pc.Common().IsInvoke() || pc.Common().Method.Name() != "Publish" {
								continue
							}
							if f, _ := loadedField(pc.Common().Value); f != nil && f.Embedded() {
								if cc, isCall := ins.(*ssa.Call); isCall && instrDominates(pc, cc) {
									behindPublish = true
								}
							}
						}
					}
					if !behindPublish {
						bad = append(bad, fmt.Sprintf("%s: %s sets the notifier without having published through the wrapped log", p.at(ins), funcLabel(fn)))
					}
				}
			}
		}
		switch {
		case len(bad) > 0:
			sort.Strings(bad)
			ob.Status, ob.Msg, ob.Path = Violated, "the notifier is set (every Set is a broadcast) where nothing was published: parked blocking consumers return with no message, no Close and no cancellation", bad
		case n == 0:
			ob.Status, ob.Msg = Undecided, "no call of the notifier's Set found outside its package"
		default:
			ob.Status, ob.Msg = Discharged, fmt.Sprintf("%d call(s) of Set outside the notifier, each dominated by the wrapped log's Publish", n)
		}
		obs = append(obs, ob)
	}
	// (f) the notifier starts at the log's own next offset, whatever the mode of the log
	{
		ob := Ob{Rule: "R14", Inst: "f:notifier-starts-at-next-offset", Props: props, Pos: "-", Nontrivial: true}
		n := 0
		var bad []string
		for _, fn := range p.Funcs {
			if !srcFunc(fn) || funcPkgPath(fn) == pkgNotify {
				continue
			}
			for _, b := range fn.Blocks {
				for _, ins := range b.Instrs {
					c, ok := ins.(*ssa.Call)
					if !ok || len(c.Call.Args) != 1 {
						continue
					}
					g := c.Common().StaticCallee()
					if g == nil || funcPkgPath(g) != pkgNotify || g.Signature.Recv() != nil || g.Signature.Results().Len() != 1 {
						continue
					}
					if pt, ok := g.Signature.Results().At(0).Type().(*types.Pointer); !ok || namedOf(pt.Elem()) != r.NotifyOffset {
						continue
					}
					n++
					if ob.Pos == "-" {
						ob.Pos = p.at(c)
					}
					seen := map[ssa.Value]bool{}
					var fromNext func(v ssa.Value, d int) bool
					fromNext = func(v ssa.Value, d int) bool {
						if v == nil || seen[v] || d > 6 {
							return false
						}
						seen[v] = true
						switch x := v.(type) {
						case *ssa.Extract:
							if cc, ok := x.Tuple.(*ssa.Call); ok && x.Index == 0 {
								if cc.Common().IsInvoke() && cc.Common().Method.Name() == "NextOffset" {
									return true
								}
							}
						case *ssa.Phi:
							for _, e := range x.Edges {
								if !fromNext(e, d+1) {
									return false
								}
							}
							return len(x.Edges) > 0
						}
						return false
					}
					if !fromNext(c.Call.Args[0], 0) {
						bad = append(bad, fmt.Sprintf("%s: %s creates the notifier from %s, not from the wrapped log's NextOffset", p.at(c), funcLabel(fn), c.Call.Args[0].String()))
					}
				}
			}
		}
		switch {
		case len(bad) > 0:
			sort.Strings(bad)
			ob.Status, ob.Msg, ob.Path = Violated, "a notifier that does not start at the log's next offset lets a blocking consume at or past the end return at once with nothing (or park although there is something)", bad
		case n == 0:
			ob.Status, ob.Msg = Undecided, "no construction of the notifier found outside its package"
		default:
			ob.Status, ob.Msg = Discharged, fmt.Sprintf("%d construction(s) of the notifier, each from the wrapped log's NextOffset", n)
		}
		obs = append(obs, ob)
	}
	if nWrappers == 0 {
		obs = append(obs, Ob{Rule: "R14", Inst: "a:wrappers", Props: props, Pos: "-", Status: Undecided, Msg: "no blocking wrapper (struct embedding a log with a *notify.Offset field) with a Publish method found"})
	}

	// (b) token discipline, (c) probe / broadcast
	bar := p.notifyBarrierField()
	if bar == nil {
		obs = append(obs, Ob{Rule: "R14", Inst: "b:token", Props: props, Pos: "-", Status: Undecided, Msg: "notify.Offset has no unique chan-of-chan field: the notifier no longer uses the channel token protocol"})
		return obs
	}
	var names []string
	byName := map[string]*ssa.Function{}
	for _, fn := range p.Funcs {
		if srcFunc(fn) && recvNamed(fn) == r.NotifyOffset && fn.Parent() == nil {
			names = append(names, fn.Name())
			byName[fn.Name()] = fn
		}
	}
	sort.Strings(names)
	for _, nm := range names {
		fn := byName[nm]
		stateAt, problems, recvs := p.tokenFlow(fn, bar)
		touches := len(recvs) > 0
		for ins := range stateAt {
			if s, ok := ins.(*ssa.Send); ok && isFieldLoad(s.Chan, bar) {
				touches = true
			}
		}
		if !touches {
			continue
		}
		ob := Ob{Rule: "R14", Inst: "b:token:" + funcLabel(fn), Props: props, Pos: p.posStr(fn.Pos()), Func: funcLabel(fn), Nontrivial: true}
		if len(problems) > 0 {
			sort.Strings(problems)
			ob.Status, ob.Msg, ob.Path = Violated, "the barrier token is not paired: every receive of the token must be followed on every path by exactly one send/close of the barrier", problems
		} else {
			ob.Status, ob.Msg = Discharged, fmt.Sprintf("%d token section(s): every receive is followed on all paths by exactly one send or close of the barrier before returning", len(recvs))
		}
		obs = append(obs, ob)

		inToken := func(ins ssa.Instruction) bool { return stateAt[ins]&3 == 2 }
		received := func(v ssa.Value) bool {
			ex, ok := v.(*ssa.Extract)
			if !ok || ex.Index != 0 {
				return false
			}
			for _, rc := range recvs {
				if ex.Tuple == rc {
					return true
				}
			}
			return false
		}
		var sel *ssa.Select
		var stores, loads []*ssa.Call
		var closesB []*ssa.Call
		var sends []*ssa.Send
		var closeBar []*ssa.Call
		for _, b := range fn.Blocks {
			for _, ins := range b.Instrs {
				switch x := ins.(type) {
				case *ssa.Select:
					sel = x
				case *ssa.Send:
					if isFieldLoad(x.Chan, bar) {
						sends = append(sends, x)
					}
				case *ssa.Call:
					switch calleeName(x.Common()) {
					case "(*sync/atomic.Int64).Store":
						stores = append(stores, x)
					case "(*sync/atomic.Int64).Load":
						loads = append(loads, x)
					}
					if isBuiltinCall(x.Common(), "close") {
						if isFieldLoad(x.Call.Args[0], bar) {
							closeBar = append(closeBar, x)
						} else {
							closesB = append(closesB, x)
						}
					}
				}
			}
		}
		for _, b := range fn.Blocks {
			for _, ins := range b.Instrs {
				d, ok := ins.(*ssa.Defer)
				if !ok || !inToken(d) {
					continue
				}
				if g := deferredClosure(d); g != nil {
					for _, gb := range g.Blocks {
						for _, gi := range gb.Instrs {
							if sd, ok := gi.(*ssa.Send); ok && isFieldLoad(sd.Chan, bar) {
								sends = append(sends, sd)
							}
						}
					}
				}
			}
		}
		switch {
		case sel != nil: // the waiting method
			ob := Ob{Rule: "R14", Inst: "c:probe-under-token:" + funcLabel(fn), Props: props, Pos: p.at(sel), Func: funcLabel(fn), Nontrivial: true}
			var bad []string
			// the select waits on the channel received from the barrier in this call
			onReceived := false
			for _, st := range sel.States {
				if st.Dir == types.RecvOnly && received(st.Chan) {
					onReceived = true
				}
			}
			if !onReceived {
				bad = append(bad, p.at(sel)+": the select does not wait on the broadcast channel obtained under the token in this call")
			}
			if !sel.Blocking {
				bad = append(bad, p.at(sel)+": the select is not blocking")
			}
			// a probe of the offset inside the token section, compared with a parameter, deciding an early success
			probeOK := false
			for _, ld := range loads {
				if !inToken(ld) {
					continue
				}
				for _, rf := range *ld.Referrers() {
					bo, ok := rf.(*ssa.BinOp)
					if !ok {
						continue
					}
					var other ssa.Value
					if bo.X == ld {
						other = bo.Y
					} else {
						other = bo.X
					}
					if _, isParam := other.(*ssa.Parameter); !isParam {
						continue
					}
					// `updated` edge: load > offset (or offset < load)
					updatedEdge := -1
					switch {
					case bo.Op == token.GTR && bo.X == ld, bo.Op == token.LSS && bo.Y == ld:
						updatedEdge = 0
					case bo.Op == token.LEQ && bo.X == ld, bo.Op == token.GEQ && bo.Y == ld:
						updatedEdge = 1
					}
					if updatedEdge < 0 {
						continue
					}
					// the comparison decides a branch: one edge returns success without selecting, the other reaches the select
					for _, rf2 := range *bo.Referrers() {
						iff, ok := rf2.(*ssa.If)
						if !ok {
							continue
						}
						upd, notUpd := iff.Block().Succs[updatedEdge], iff.Block().Succs[1-updatedEdge]
						rt, isRet := terminator(upd).(*ssa.Return)
						if isRet && !ea.isFailureReturn(fn, rt) && (pureBlock(upd) || onlyReleases(upd, bar)) && reachableFrom(notUpd)[sel.Block()] {
							probeOK = true
						}
					}
				}
			}
			if !probeOK {
				bad = append(bad, "no probe of the current offset (atomic Load compared with the awaited offset) inside the token section decides between returning at once and parking: a publish between an earlier probe and taking the broadcast channel is lost")
			}
			if len(bad) > 0 {
				ob.Status, ob.Msg, ob.Path = Violated, "lost wake-up window in the waiting method", bad
			} else {
				ob.Status, ob.Msg = Discharged, "the offset is probed while holding the token; the call parks on the broadcast channel received in the same token section"
			}
			obs = append(obs, ob)
			// d: a parked waiter is released only by the broadcast or by its own context
			{
				ob := Ob{Rule: "R14", Inst: "d:park-cases:" + funcLabel(fn), Props: props, Pos: p.at(sel), Func: funcLabel(fn), Nontrivial: true}
				var bad []string
				for i, st := range sel.States {
					switch {
					case st.Dir == types.RecvOnly && received(st.Chan):
					case st.Dir == types.RecvOnly && isCtxDone(st.Chan):
					default:
						bad = append(bad, fmt.Sprintf("%s: case %d of the parking select is neither the broadcast channel nor Done() of the caller's context", p.at(sel), i))
					}
				}
				if len(bad) > 0 {
					ob.Status, ob.Msg, ob.Path = Violated, "a parked waiter can be released by something other than a publish, a close or the end of its own context: the blocking call then returns for nothing", bad
				} else {
					ob.Status, ob.Msg = Discharged, fmt.Sprintf("the parking select has %d cases: the broadcast channel and Done() of the caller's context", len(sel.States))
				}
				obs = append(obs, ob)
			}
		case len(stores) > 0: // the setting method
			ob := Ob{Rule: "R14", Inst: "c:broadcast:" + funcLabel(fn), Props: props, Pos: p.at(stores[0]), Func: funcLabel(fn), Nontrivial: true}
			var bad []string
			for _, st := range stores {
				if !inToken(st) {
					bad = append(bad, p.at(st)+": the offset is stored outside the token section")
				}
				// monotone: dominated by the true edge of Load() < new
				mono := false
				for d := st.Block().Idom(); d != nil; d = d.Idom() {
					iff, ok := terminator(d).(*ssa.If)
					if !ok {
						continue
					}
					bo, ok := iff.Cond.(*ssa.BinOp)
					if !ok {
						continue
					}
					isLoad := func(v ssa.Value) bool {
						c, ok := v.(*ssa.Call)
						return ok && calleeName(c.Common()) == "(*sync/atomic.Int64).Load"
					}
					newV := st.Call.Args[1]
					edge := -1
					switch {
					case bo.Op == token.LSS && isLoad(bo.X) && bo.Y == newV, bo.Op == token.GTR && bo.X == newV && isLoad(bo.Y):
						edge = 0
					case bo.Op == token.GEQ && isLoad(bo.X) && bo.Y == newV, bo.Op == token.LEQ && bo.X == newV && isLoad(bo.Y):
						edge = 1
					}
					if edge >= 0 && edgeDominates(d, edge, st.Block()) {
						mono = true
					}
				}
				if !mono {
					bad = append(bad, p.at(st)+": the stored offset is not guarded by Load() < new (the notifier's offset can move backwards)")
				}
			}
			closedReceived := false
			for _, c := range closesB {
				if received(c.Call.Args[0]) && inToken(c) {
					closedReceived = true
				}
			}
			if !closedReceived {
				bad = append(bad, "the broadcast channel received under the token is not closed inside the token section: parked waiters are not woken")
			}
			fresh := false
			for _, s := range sends {
				if _, ok := s.X.(*ssa.MakeChan); ok {
					fresh = true
				} else if received(s.X) && closedReceived {
					bad = append(bad, p.at(s)+": the closed broadcast channel is put back on the barrier: every later waiter returns at once")
				}
			}
			if !fresh {
				bad = append(bad, "no fresh broadcast channel is installed after the broadcast")
			}
			// close(b) must come after the store on every path (store-then-broadcast)
			for _, st := range stores {
				for _, c := range closesB {
					if received(c.Call.Args[0]) && canReach(c, st) {
						bad = append(bad, p.at(c)+": waiters are woken before the new offset is stored")
					}
				}
			}
			if len(bad) > 0 {
				ob.Status, ob.Msg, ob.Path = Violated, "the broadcast in the setting method can lose or spuriously satisfy waiters", bad
			} else {
				ob.Status, ob.Msg = Discharged, "monotone store, close of the received broadcast channel and installation of a fresh one all happen inside the token section"
			}
			obs = append(obs, ob)
		case len(closeBar) > 0: // the closing method
			ob := Ob{Rule: "R14", Inst: "c:close:" + funcLabel(fn), Props: props, Pos: p.at(closeBar[0]), Func: funcLabel(fn), Nontrivial: true}
			closedReceived := false
			for _, c := range closesB {
				if received(c.Call.Args[0]) && inToken(c) {
					closedReceived = true
				}
			}
			if !closedReceived {
				ob.Status, ob.Msg = Violated, "the notifier is closed without closing the current broadcast channel: parked waiters stay blocked after Close"
			} else {
				ob.Status, ob.Msg = Discharged, "the current broadcast channel is closed before the barrier is closed"
			}
			obs = append(obs, ob)
		}
	}
	return obs
}

// isCtxDone: v is Done() invoked on a context.Context parameter of the enclosing function.
func isCtxDone(v ssa.Value) bool {
	c, ok := v.(*ssa.Call)
	if !ok || !c.Common().IsInvoke() || c.Common().Method.Name() != "Done" {
		return false
	}
	pr, ok := c.Common().Value.(*ssa.Parameter)
	return ok && typeIs(pr.Type(), "context", "Context")
}

// deferredClosure: the anonymous function a defer statement runs, if it is one.
func deferredClosure(d *ssa.Defer) *ssa.Function {
	switch v := d.Call.Value.(type) {
	case *ssa.MakeClosure:
		if g, ok := v.Fn.(*ssa.Function); ok {
			return g
		}
	case *ssa.Function:
		return v
	}
	return nil
}

// releasesBarrier: every path of g sends on / closes the barrier field exactly... at least once, and g
// never receives from it.
func releasesBarrier(g *ssa.Function, bar *types.Var) bool {
	n := 0
	for _, b := range g.Blocks {
		for _, ins := range b.Instrs {
			switch x := ins.(type) {
			case *ssa.Send:
				if isFieldLoad(x.Chan, bar) {
					if len(g.Blocks) != 1 {
						return false
					}
					n++
				}
			case *ssa.UnOp:
				if x.Op == token.ARROW && isFieldLoad(x.X, bar) {
					return false
				}
			}
		}
	}
	return n == 1
}

// onlyReleases: apart from putting the token back the block does nothing before it returns.
func onlyReleases(b *ssa.BasicBlock, bar *types.Var) bool {
	for _, ins := range b.Instrs {
		switch x := ins.(type) {
		case *ssa.Send:
			if !isFieldLoad(x.Chan, bar) {
				return false
			}
		case *ssa.Return, *ssa.FieldAddr, *ssa.UnOp, *ssa.DebugRef:
			if u, ok := x.(*ssa.UnOp); ok && u.Op == token.ARROW {
				return false
			}
		default:
			return false
		}
	}
	return true
}
