package main

import (
	"fmt"
	"go/token"
	"go/types"
	"sort"
	"strings"

	"golang.org/x/tools/go/ssa"
)

// R9 FORMAT-TABLES — encoder = decoder = documented layout (C13; C17, C11)

type specField struct {
	Off  string `json:"off"`
	W    int    `json:"w"`
	What string `json:"what"`
}

type specRecord struct {
	Marker          int64       `json:"marker"`
	FileHeaderSize  int64       `json:"file_header_size"`
	InitialPosition int64       `json:"initial_position"`
	Fields          []specField `json:"fields"`
	KeyAt           string      `json:"key_at"`
	ValueAt         string      `json:"value_at"`
	TrailerAt       string      `json:"trailer_at"`
	TrailerBytes    []int       `json:"trailer_bytes"`
	CRCFrom         string      `json:"crc_from"`
	Total           string      `json:"total"`
	CRCTable        string      `json:"crc_table"`
}

type specHeader struct {
	Magic      []int `json:"magic"`
	VersionAt  int64 `json:"version_at"`
	ReservedAt int64 `json:"reserved_at"`
	ParamsAt   int64 `json:"params_at"`
	Size       int64 `json:"size"`
	TimesBit   int64 `json:"times_bit"`
	KeysBit    int64 `json:"keys_bit"`
	V1Marker   int64 `json:"v1_marker"`
	V2Marker   int64 `json:"v2_marker"`
}

type specItem struct {
	Size   int64       `json:"size"`
	Fields []specField `json:"fields"`
}

type layoutSpec struct {
	Record          map[string]specRecord `json:"record"`
	LogFileHeader   specHeader            `json:"log_file_header"`
	IndexFileHeader specHeader            `json:"index_file_header"`
	IndexItem       map[string]specItem   `json:"index_item"`
}

func fieldSet(fs []specField) []string {
	var out []string
	for _, f := range fs {
		out = append(out, fmt.Sprintf("%s@%s/%d", f.What, f.Off, f.W))
	}
	sort.Strings(out)
	return out
}

func diffSets(got, want []string, side string) []string {
	var out []string
	g, w := map[string]bool{}, map[string]bool{}
	for _, x := range got {
		g[x] = true
	}
	for _, x := range want {
		w[x] = true
	}
	for _, x := range want {
		if !g[x] {
			out = append(out, fmt.Sprintf("%s: documented %s is missing", side, x))
		}
	}
	for _, x := range got {
		if !w[x] {
			out = append(out, fmt.Sprintf("%s: has %s, which the documented layout does not", side, x))
		}
	}
	return out
}

func bytesEq(a []byte, b []int) bool {
	if len(a) != len(b) {
		return false
	}
	for i := range a {
		if int(a[i]) != b[i] {
			return false
		}
	}
	return true
}

// versionDecide prunes branches that compare a Version value with the package-level version variables.
func versionDecide(assumed string) func(cond ssa.Value) (bool, bool) {
	return func(cond ssa.Value) (bool, bool) {
		bo, ok := cond.(*ssa.BinOp)
		if !ok || (bo.Op != token.EQL && bo.Op != token.NEQ) {
			return false, false
		}
		for _, side := range []ssa.Value{bo.X, bo.Y} {
			if g := globalOf(side); g != nil && inModulePkg(g.Pkg) && strings.HasPrefix(g.Name(), "V") {
				eq := g.Name() == assumed
				if bo.Op == token.NEQ {
					eq = !eq
				}
				return true, eq
			}
		}
		return false, false
	}
}

// paramsDecide prunes branches on index.Params{Times,Keys}.
func (p *Prog) paramsDecide(times, keys bool) func(cond ssa.Value) (bool, bool) {
	return func(cond ssa.Value) (bool, bool) {
		neg := false
		for {
			u, ok := cond.(*ssa.UnOp)
			if ok && u.Op == token.NOT {
				neg = !neg
				cond = u.X
				continue
			}
			break
		}
		f, base := loadedField(cond)
		if f == nil || namedOf(base.Type()) != p.R.Params {
			return false, false
		}
		var v bool
		switch f.Name() {
		case "Times":
			v = times
		case "Keys":
			v = keys
		default:
			return false, false
		}
		return true, v != neg
	}
}

func reachUnder(fn *ssa.Function, decide func(ssa.Value) (bool, bool)) map[*ssa.BasicBlock]bool {
	return reachableBlocks(fn, func(b *ssa.BasicBlock) []*ssa.BasicBlock {
		if iff, ok := terminator(b).(*ssa.If); ok {
			if known, val := decide(iff.Cond); known {
				if val {
					return b.Succs[:1]
				}
				return b.Succs[1:2]
			}
		}
		return b.Succs
	})
}

func ruleR9(p *Prog) []Ob {
	var obs []Ob
	var spec layoutSpec
	p.loadSpec("layout.json", &spec)
	props := []string{"C13", "C17", "C01"}

	for _, ver := range sortedKeys(spec.Record) {
		sr := spec.Record[ver]
		var enc, dec *ssa.Function
		for _, e := range p.R.RecEncoders {
			if p.codecVersion(e) == ver {
				enc = e
			}
		}
		for _, d := range p.R.RecDecoders {
			if p.codecVersion(d) == ver {
				dec = d
			}
		}
		// ---- encoder
		ob := Ob{Rule: "R9", Inst: "record-encoder:" + ver, Props: props, Pos: "-", Nontrivial: true}
		if enc == nil {
			ob.Status, ob.Msg = Violated, "no record encoder is installed for version "+ver
			obs = append(obs, ob)
		} else {
			ob.Pos, ob.Func = p.posStr(enc.Pos()), funcLabel(enc)
			x := p.extractLayout(enc)
			var got []string
			var bad []string
			keyAt, valAt, trailAt, crcFrom, crcTable, crcStoredFrom := "", "", "", "", "", ""
			var trailBytes []byte
			totals := map[string]bool{}
			writes := 0
			for _, r := range x.rows {
				switch {
				case r.Op == "putLE":
					bad = append(bad, r.Pos+": little-endian encoding of "+r.What)
				case r.Op == "putBE" && strings.HasPrefix(r.What, "CRC["):
					got = append(got, fmt.Sprintf("CRC@%s/%d", r.Off, r.W))
					crcStoredFrom = strings.TrimSuffix(strings.TrimPrefix(r.What, "CRC["), ":]")
				case r.Op == "putBE":
					got = append(got, fmt.Sprintf("%s@%s/%d", r.What, r.Off, r.W))
				case r.Op == "copy" && r.What == "Key":
					keyAt = r.Off
				case r.Op == "copy" && r.What == "Value":
					valAt = r.Off
				case r.Op == "copy" && strings.HasPrefix(r.What, "global:"):
					trailAt = r.Off
					if g := p.moduleGlobal(enc, strings.TrimPrefix(r.What, "global:")); g != nil {
						trailBytes = p.globalBytes(g)
					}
				case r.Op == "crc":
					crcFrom, crcTable = r.Off, r.What
				case r.Op == "buflen":
					totals[r.What] = true
				case r.Op == "write":
					writes++
					if r.Off != "0" {
						bad = append(bad, r.Pos+": the record buffer is not written from its start")
					}
				}
			}
			sort.Strings(got)
			bad = append(bad, diffSets(got, fieldSet(sr.Fields), "encoder")...)
			chk := func(name, got, want string) {
				if got != want {
					bad = append(bad, fmt.Sprintf("encoder: %s is %q, documented %q", name, got, want))
				}
			}
			chk("key position", keyAt, sr.KeyAt)
			chk("value position", valAt, sr.ValueAt)
			chk("trailer position", trailAt, sr.TrailerAt)
			chk("CRC coverage start", crcFrom, sr.CRCFrom)
			chk("CRC table", crcTable, sr.CRCTable)
			if crcStoredFrom != crcFrom {
				bad = append(bad, "encoder: the stored CRC is not the one computed over the covered range")
			}
			if sr.TrailerAt != "" && !bytesEq(trailBytes, sr.TrailerBytes) {
				bad = append(bad, fmt.Sprintf("encoder: trailer bytes %v differ from the documented %v", trailBytes, sr.TrailerBytes))
			}
			if len(totals) != 1 || !totals[sr.Total] {
				bad = append(bad, fmt.Sprintf("encoder: record length %v, documented %q", sortedKeys(totals), sr.Total))
			}
			if writes != 1 {
				bad = append(bad, fmt.Sprintf("encoder: %d writes per record (expected one write of the whole buffer: records back to back)", writes))
			}
			// every path writes every field: the put/copy rows must not be conditional on the message
			bad = append(bad, p.conditionalRows(enc, x)...)
			if len(bad) > 0 {
				ob.Status, ob.Msg, ob.Path = Violated, "the "+ver+" record encoder does not produce the documented layout (files written by it are unreadable for any independent reader, or for this reader after an upgrade)", bad
			} else {
				ob.Status, ob.Msg = Discharged, fmt.Sprintf("%d fixed fields, key/value/trailer positions, CRC table+coverage and total length %s match the documented %s layout", len(sr.Fields), sr.Total, ver)
			}
			obs = append(obs, ob)
		}
		// ---- decoder
		ob = Ob{Rule: "R9", Inst: "record-decoder:" + ver, Props: props, Pos: "-", Nontrivial: true}
		if dec == nil {
			ob.Status, ob.Msg = Violated, "no record decoder is installed for version "+ver
			obs = append(obs, ob)
		} else {
			ob.Pos, ob.Func = p.posStr(dec.Pos()), funcLabel(dec)
			bad := p.checkDecoder(dec, sr)
			if len(bad) > 0 {
				ob.Status, ob.Msg, ob.Path = Violated, "the "+ver+" record decoder does not read the documented layout", bad
			} else {
				ob.Status, ob.Msg = Discharged, "fixed fields, key/value/trailer positions, CRC coverage and the next position match the documented "+ver+" layout"
			}
			obs = append(obs, ob)
		}
		// ---- Size() and InitialPosition()
		ob = Ob{Rule: "R9", Inst: "size:" + ver, Props: []string{"C13"}, Pos: "-", Nontrivial: true}
		if sz := p.pkgFunc(pkgMessage, "Size"); sz == nil {
			ob.Status, ob.Msg = Undecided, "message.Size not found"
		} else {
			ob.Pos = p.posStr(sz.Pos())
			l, ok := p.evalUnder(sz, 0, versionDecide(ver))
			switch {
			case !ok:
				ob.Status, ob.Msg = Undecided, "cannot evaluate message.Size for "+ver+": "+l.String()
			case l.String() != sr.Total:
				ob.Status, ob.Msg = Violated, fmt.Sprintf("message.Size(m, %s) = %s, but a record occupies %s bytes", ver, l, sr.Total)
			default:
				ob.Status, ob.Msg = Discharged, fmt.Sprintf("message.Size(m, %s) = %s = bytes a record occupies", ver, l)
			}
		}
		obs = append(obs, ob)
		ob = Ob{Rule: "R9", Inst: "initial-position:" + ver, Props: props, Pos: "-", Nontrivial: true}
		if ip := p.methodOf(p.R.MsgReader, "InitialPosition"); ip == nil {
			ob.Status, ob.Msg = Undecided, "message.Reader.InitialPosition not found"
		} else {
			ob.Pos = p.posStr(ip.Pos())
			l, ok := p.evalUnder(ip, 0, versionDecide(ver))
			switch {
			case !ok:
				ob.Status, ob.Msg = Undecided, "cannot evaluate InitialPosition for "+ver+": "+l.String()
			case !l.isConst() || l.c != sr.InitialPosition:
				ob.Status, ob.Msg = Violated, fmt.Sprintf("the first record of a %s file is read at %s, documented at %d", ver, l, sr.InitialPosition)
			default:
				ob.Status, ob.Msg = Discharged, fmt.Sprintf("first record at %d", l.c)
			}
		}
		obs = append(obs, ob)
	}

	obs = append(obs, p.headerObligations(spec)...)
	obs = append(obs, p.indexItemObligations(spec)...)
	return obs
}

func (p *Prog) moduleGlobal(fn *ssa.Function, name string) *ssa.Global {
	if fn.Pkg == nil {
		return nil
	}
	g, _ := fn.Pkg.Members[name].(*ssa.Global)
	return g
}

// conditionalRows: an encoder row that does not execute on every path to the write.
func (p *Prog) conditionalRows(enc *ssa.Function, x *extractor) []string {
	var bad []string
	var writeBlk *ssa.BasicBlock
	for _, r := range x.rows {
		if r.Op == "write" {
			writeBlk = r.blk
		}
	}
	if writeBlk == nil {
		return nil
	}
	for _, r := range x.rows {
		switch r.Op {
		case "putBE", "copy", "crc":
			if r.blk != writeBlk && !r.blk.Dominates(writeBlk) {
				bad = append(bad, fmt.Sprintf("%s: %s of %s at offset %s is conditional: on some paths the buffer (which is reused) keeps stale bytes there", r.Pos, r.Op, r.What, r.Off))
			}
		}
	}
	return bad
}

type fill struct {
	buf string
	lo  lin
	w   int
	rec lin
}

func (p *Prog) checkDecoder(dec *ssa.Function, sr specRecord) []string {
	var bad []string
	x := p.extractLayout(dec)
	pos := "param:position"
	for _, pr := range dec.Params {
		if b, ok := pr.Type().Underlying().(interface{ Kind() int }); ok {
			_ = b
		}
	}
	if len(dec.Params) >= 2 {
		pos = "param:" + dec.Params[1].Name()
	}
	// fills
	var fills []fill
	for _, r := range x.rows {
		if r.Op == "readat" {
			rec := linAdd(r.aux, linSym(pos), -1)
			fills = append(fills, fill{buf: r.Buf, lo: r.lo, rec: rec})
		}
	}
	mapOff := func(buf string, off lin) (lin, bool) {
		var best *fill
		for i := range fills {
			f := &fills[i]
			if f.buf != buf || !f.lo.isConst() || f.lo.c > off.c {
				continue
			}
			if f.w > 0 && off.isConst() && off.c >= f.lo.c+int64(f.w) {
				continue
			}
			if best == nil || f.lo.c > best.lo.c {
				best = f
			}
		}
		if best == nil {
			return lin{bad: "unmapped " + buf + "@" + off.String()}, false
		}
		return linAdd(best.rec, linAdd(off, best.lo, -1), 1), true
	}
	for iter := 0; iter < 3; iter++ {
		for _, r := range x.rows {
			if r.Op == "copy" && r.src != "" {
				if rec, ok := mapOff(r.src, r.slo); ok {
					dup := false
					for _, f := range fills {
						if f.buf == r.Buf && f.lo.String() == r.lo.String() {
							dup = true
						}
					}
					if !dup {
						fills = append(fills, fill{buf: r.Buf, lo: r.lo, w: r.W, rec: rec})
					}
				}
			}
		}
	}
	// decoded symbols -> record offsets
	symRec := map[string]string{} // "dec:buf@off" -> "dec@<rec>"
	var got []string
	crcFieldAt := ""
	for _, r := range x.rows {
		if r.Op != "getBE" && r.Op != "getLE" {
			continue
		}
		rec, ok := mapOff(r.Buf, r.lo)
		if !ok {
			bad = append(bad, r.Pos+": a decoded field cannot be mapped to a record offset")
			continue
		}
		symRec[fmt.Sprintf("dec:%s@%s", r.Buf, r.lo)] = "dec@" + rec.String()
		if r.Op == "getLE" {
			bad = append(bad, r.Pos+": little-endian decoding")
		}
		what := r.What
		switch {
		case strings.Contains(what, "CRC-compare"):
			what = "CRC"
			crcFieldAt = rec.String()
		case what == "Offset", what == "Time.UnixMicro":
		default:
			what = "len?"
		}
		got = append(got, fmt.Sprintf("%s@%s/%d", what, rec.String(), r.W))
	}
	_ = crcFieldAt
	// which decoded symbols are the key / value lengths: per the documented offsets
	lenSym := map[string]string{}
	for _, f := range sr.Fields {
		switch f.What {
		case "len(Key)":
			lenSym["dec@"+f.Off] = "klen"
		case "len(Value)":
			lenSym["dec@"+f.Off] = "vlen"
		}
	}
	ren := map[string]string{}
	for k, v := range symRec {
		if n, ok := lenSym[v]; ok {
			ren[k] = n
		} else {
			ren[k] = v
		}
	}
	// the length fields, named by how the Key / Value slices use them
	keyAt, valAt, trailAt, crcFrom, crcTable := "", "", "", "", ""
	keyLen, valLen := "", ""
	crcEnd := ""
	mk := map[string]lin{}
	for _, r := range x.rows {
		if r.Op == "mklen" {
			mk[r.Buf] = r.aux
		}
	}
	for _, r := range x.rows {
		switch r.Op {
		case "field":
			rec, ok := mapOff(r.Buf, r.lo)
			if !ok {
				bad = append(bad, r.Pos+": "+r.What+" cannot be mapped to a record offset")
				continue
			}
			at := rec.rename(ren).String()
			// length = hi - lo
			name := r.What[:strings.Index(r.What, "[")]
			hiS := r.What[strings.Index(r.What, ":")+1 : len(r.What)-1]
			_ = hiS
			if name == "Key" {
				keyAt = at
			} else if name == "Value" {
				valAt = at
			}
		case "equal":
			if rec, ok := mapOff(r.Buf, r.lo); ok {
				trailAt = rec.rename(ren).String()
				if g := p.moduleGlobal(dec, strings.TrimPrefix(r.What, "global:")); g != nil {
					if !bytesEq(p.globalBytes(g), sr.TrailerBytes) {
						bad = append(bad, "decoder: trailer bytes differ from the documented ones")
					}
				}
			}
		case "crc":
			if rec, ok := mapOff(r.Buf, r.lo); ok {
				crcFrom = rec.rename(ren).String()
				crcTable = r.What
				if l, ok := mk[r.Buf]; ok {
					crcEnd = linAdd(rec, linAdd(l, r.lo, -1), 1).rename(ren).String()
				}
			}
		}
	}
	// slice lengths of Key / Value from the ssa Slice stores
	keyLen, valLen = p.fieldSliceLen(dec, x, "Key", ren), p.fieldSliceLen(dec, x, "Value", ren)
	// fixed fields
	var want []string
	for _, f := range sr.Fields {
		w := f.What
		if strings.HasPrefix(w, "len(") {
			w = "len?"
		}
		want = append(want, fmt.Sprintf("%s@%s/%d", w, f.Off, f.W))
	}
	sort.Strings(want)
	sort.Strings(got)
	bad = append(bad, diffSets(uniqStrings(got), want, "decoder")...)
	chk := func(name, got, want string) {
		if got != want {
			bad = append(bad, fmt.Sprintf("decoder: %s is %q, documented %q", name, got, want))
		}
	}
	chk("key position", keyAt, sr.KeyAt)
	chk("value position", valAt, sr.ValueAt)
	chk("key length", keyLen, "klen")
	chk("value length", valLen, "vlen")
	chk("trailer position", trailAt, sr.TrailerAt)
	chk("CRC coverage start", crcFrom, sr.CRCFrom)
	chk("CRC coverage end", crcEnd, sr.Total)
	chk("CRC table", crcTable, sr.CRCTable)
	// next position
	nx, ok := p.evalUnder(dec, 0, func(ssa.Value) (bool, bool) { return false, false })
	if !ok {
		// failure returns yield -1: evaluate only the success return
		nx, ok = p.successNext(dec)
	}
	if ok {
		rel := linAdd(nx, linSym(pos), -1).rename(ren).String()
		chk("next position - position", rel, sr.Total)
	} else {
		bad = append(bad, "decoder: cannot evaluate the next position: "+nx.String())
	}
	return bad
}

// successNext evaluates result 0 of the success return(s).
func (p *Prog) successNext(dec *ssa.Function) (lin, bool) {
	ea := p.ErrAtomsCached()
	x := &extractor{p: p, fn: dec}
	var res *lin
	for _, rt := range returnsOf(dec) {
		if ea.isFailureReturn(dec, rt) {
			continue
		}
		l := x.eval(returnOperand(rt, 0))
		if res == nil {
			res = &l
		} else if res.String() != l.String() {
			return lin{bad: "success returns disagree"}, false
		}
	}
	if res == nil {
		return lin{bad: "no success return"}, false
	}
	return *res, res.bad == ""
}

// fieldSliceLen: the length (hi - lo) of the slice stored into msg.<name>, with decoded symbols renamed.
func (p *Prog) fieldSliceLen(dec *ssa.Function, x *extractor, name string, ren map[string]string) string {
	for _, b := range dec.Blocks {
		for _, ins := range b.Instrs {
			st, ok := ins.(*ssa.Store)
			if !ok {
				continue
			}
			fa, ok := st.Addr.(*ssa.FieldAddr)
			if !ok || namedOf(fa.X.Type()) != p.R.Message || fieldVarOfAddr(fa).Name() != name {
				continue
			}
			sl, ok := st.Val.(*ssa.Slice)
			if !ok {
				continue
			}
			lo := linConst(0)
			if sl.Low != nil {
				lo = x.eval(sl.Low)
			}
			var hi lin
			if sl.High != nil {
				hi = x.eval(sl.High)
			} else {
				// to the end of the buffer
				if mk, ok := canon(sl.X).(*ssa.MakeSlice); ok {
					hi = x.eval(mk.Len)
				} else {
					return "?"
				}
			}
			return linAdd(hi, lo, -1).rename(ren).String()
		}
	}
	return ""
}

func (p *Prog) headerObligations(spec layoutSpec) []Ob {
	var obs []Ob
	for _, h := range []struct {
		kind string
		pkg  string
		sp   specHeader
	}{{"log", pkgMessage, spec.LogFileHeader}, {"index", pkgIndex, spec.IndexFileHeader}} {
		ob := Ob{Rule: "R9", Inst: "file-header:" + h.kind, Props: []string{"C13", "C17"}, Pos: "-", Nontrivial: true}
		var bad []string
		if hs, ok := p.constValue(h.pkg, "HeaderSize"); !ok || hs != h.sp.Size {
			bad = append(bad, fmt.Sprintf("HeaderSize = %d, documented %d", hs, h.sp.Size))
		}
		v1, ok1 := p.structFieldConst(h.pkg, "V1", "")
		v2, ok2 := p.structFieldConst(h.pkg, "V2", "")
		wantV1, wantV2 := spec.Record["V1"].Marker, spec.Record["V2"].Marker
		if !ok1 || !ok2 || v1 != wantV1 || v2 != wantV2 {
			bad = append(bad, fmt.Sprintf("version markers V1=%d V2=%d, documented V1=%d V2=%d", v1, v2, wantV1, wantV2))
		}
		// the header builder, found by shape: a method of this package's Version returning ([]byte, error)
		var nh *ssa.Function
		for _, fn := range p.Funcs {
			if !srcFunc(fn) || funcPkgPath(fn) != h.pkg || fn.Signature.Recv() == nil {
				continue
			}
			rn := namedOf(fn.Signature.Recv().Type())
			if rn == nil || rn.Obj().Name() != "Version" || fn.Signature.Results().Len() != 2 || !isByteSlice(fn.Signature.Results().At(0).Type()) {
				continue
			}
			nh = fn
		}
		if nh == nil {
			ob.Status, ob.Msg = Undecided, "the function building the "+h.kind+" file header was not found"
			obs = append(obs, ob)
			continue
		}
		ob.Pos, ob.Func = p.posStr(nh.Pos()), funcLabel(nh)
		x := p.extractLayout(nh)
		check := func(times, keys bool) {
			decide := func(cond ssa.Value) (bool, bool) {
				if k, v := versionDecide("V2")(cond); k {
					return k, v
				}
				return p.paramsDecide(times, keys)(cond)
			}
			reach := reachUnder(nh, decide)
			tag0 := fmt.Sprintf("[times=%v keys=%v] ", times, keys)
			magicAt, verAt := "", ""
			paramsOr := int64(0)
			resOK := false
			size := ""
			for _, r := range x.rows {
				if !reach[r.blk] {
					continue
				}
				switch {
				case r.Op == "copy" && strings.HasPrefix(r.What, "global:"):
					magicAt = r.Off
					if mb := p.byteArrayVar(h.pkg, strings.TrimPrefix(r.What, "global:")); !bytesEq(mb, h.sp.Magic) {
						bad = append(bad, tag0+fmt.Sprintf("magic bytes %v, documented %v", mb, h.sp.Magic))
					}
				case r.Op == "mklen":
					size = r.What
				case r.Op == "setbyte" && strings.HasPrefix(r.What, "field:"):
					verAt = r.Off
				case r.Op == "setbyte" && strings.HasPrefix(r.What, "or:") && r.Off == fmt.Sprint(h.sp.ParamsAt):
					var k int64
					fmt.Sscanf(r.What, "or:%d", &k)
					paramsOr |= k
				case r.Op == "setbyte" && r.What == "const:0" && r.Off == fmt.Sprint(h.sp.ReservedAt):
					resOK = true
				}
			}
			tag := fmt.Sprintf("[times=%v keys=%v] ", times, keys)
			if magicAt != "0" {
				bad = append(bad, tag+"the magic is not copied to offset 0 of the header")
			}
			if verAt != fmt.Sprint(h.sp.VersionAt) {
				bad = append(bad, tag+fmt.Sprintf("the version marker is stored at %q, documented %d", verAt, h.sp.VersionAt))
			}
			if size != fmt.Sprint(h.sp.Size) {
				bad = append(bad, tag+fmt.Sprintf("the header is %s bytes, documented %d", size, h.sp.Size))
			}
			if h.kind == "log" {
				// the make() zeroes the reserved byte; an explicit store must store 0
				_ = resOK
				for _, r := range x.rows {
					if reach[r.blk] && r.Op == "setbyte" && r.Off == fmt.Sprint(h.sp.ReservedAt) && r.What != "const:0" {
						bad = append(bad, tag+"the reserved byte is not 0")
					}
				}
			} else {
				want := int64(0)
				if times {
					want |= h.sp.TimesBit
				}
				if keys {
					want |= h.sp.KeysBit
				}
				if paramsOr != want {
					bad = append(bad, tag+fmt.Sprintf("the params byte is %d, documented %d", paramsOr, want))
				}
			}
		}
		if h.kind == "log" {
			check(false, false)
		} else {
			for _, t := range []bool{false, true} {
				for _, k := range []bool{false, true} {
					check(t, k)
				}
			}
		}
		if len(bad) > 0 {
			ob.Status, ob.Msg, ob.Path = Violated, "the "+h.kind+" file header differs from the documented one: existing files are no longer recognised (or new files are not readable by other versions)", uniqStrings(bad)
		} else {
			ob.Status, ob.Msg = Discharged, "magic, version markers, header size and the bytes written by newHeader match the documented header"
		}
		obs = append(obs, ob)
	}
	return obs
}

func (p *Prog) indexItemObligations(spec layoutSpec) []Ob {
	var obs []Ob
	openW := p.pkgFunc(pkgIndex, "OpenWriter")
	write := p.pkgFunc(pkgIndex, "Write")
	read := p.pkgFunc(pkgIndex, "Read")
	var sizeFn *ssa.Function
	for _, fn := range p.Funcs {
		if srcFunc(fn) && recvNamed(fn) == p.R.Params && fn.Name() == "Size" {
			sizeFn = fn
		}
	}
	combos := []struct {
		name        string
		times, keys bool
	}{{"base", false, false}, {"times", true, false}, {"keys", false, true}, {"full", true, true}}
	for _, cb := range combos {
		sp := spec.IndexItem[cb.name]
		ob := Ob{Rule: "R9", Inst: "index-item:" + cb.name, Props: []string{"C13", "C11", "C01", "C09", "C10"}, Pos: "-", Nontrivial: true}
		if openW == nil || write == nil || read == nil || sizeFn == nil {
			ob.Status, ob.Msg = Undecided, "index.OpenWriter / index.Write / index.Read / Params.Size not all found"
			obs = append(obs, ob)
			continue
		}
		ob.Pos = p.posStr(openW.Pos())
		decide := p.paramsDecide(cb.times, cb.keys)
		var bad []string
		want := fieldSet(sp.Fields)
		// encoder installed by OpenWriter, and its buffer
		reach := reachUnder(openW, decide)
		var encs []*ssa.Function
		bufSize := ""
		for _, b := range openW.Blocks {
			if !reach[b] {
				continue
			}
			for _, ins := range b.Instrs {
				switch x := ins.(type) {
				case *ssa.MakeClosure:
					if f := unwrapSynthetic(x.Fn.(*ssa.Function)); recvNamed(f) == p.R.IdxWriter {
						encs = append(encs, f)
					}
				case *ssa.Store:
					if fa, ok := x.Addr.(*ssa.FieldAddr); ok && namedOf(fa.X.Type()) == p.R.IdxWriter && isByteSlice(fieldVarOfAddr(fa).Type()) {
						if mk, ok := x.Val.(*ssa.MakeSlice); ok {
							if k, ok := constInt(mk.Len); ok {
								bufSize = fmt.Sprint(k)
							}
						}
						if sl, ok := x.Val.(*ssa.Slice); ok {
							if al, ok := sl.X.(*ssa.Alloc); ok {
								if arr, ok := derefPtr(al.Type()).Underlying().(*types.Array); ok {
									bufSize = fmt.Sprint(arr.Len())
								}
							}
						}
					}
				}
			}
		}
		if len(encs) != 1 {
			bad = append(bad, fmt.Sprintf("OpenWriter installs %d item encoders for this configuration", len(encs)))
		}
		if bufSize != fmt.Sprint(sp.Size) {
			bad = append(bad, fmt.Sprintf("OpenWriter's item buffer is %s bytes, documented item size %d", bufSize, sp.Size))
		}
		encRows := func(f *ssa.Function, side string) {
			x := p.extractLayout(f)
			var got []string
			for _, r := range x.rows {
				if r.Op == "putBE" {
					got = append(got, fmt.Sprintf("%s@%s/%d", r.What, r.Off, r.W))
				}
				if r.Op == "putLE" {
					bad = append(bad, r.Pos+": little-endian item field")
				}
			}
			sort.Strings(got)
			bad = append(bad, diffSets(got, want, side)...)
		}
		for _, f := range encs {
			encRows(f, "writer encoder "+f.Name())
		}
		// the loop index.Write runs
		reachW := reachUnder(write, decide)
		var wEncs []*ssa.Function
		for _, b := range write.Blocks {
			if !reachW[b] {
				continue
			}
			for _, ins := range b.Instrs {
				if c, ok := ins.(*ssa.Call); ok {
					if g := c.Common().StaticCallee(); g != nil && recvNamed(g) == p.R.IdxWriter && len(p.extractLayout(g).rows) > 0 && hasPut(p.extractLayout(g)) {
						wEncs = append(wEncs, g)
					}
				}
			}
		}
		if len(wEncs) != 1 {
			bad = append(bad, fmt.Sprintf("index.Write reaches %d item encoders for this configuration", len(wEncs)))
		}
		for _, f := range wEncs {
			if len(encs) == 1 && f != encs[0] {
				encRows(f, "index.Write encoder "+f.Name())
			}
		}
		// decode branch of index.Read
		reachR := reachUnder(read, decide)
		xr := p.extractLayout(read)
		var gotR []string
		for _, r := range xr.rows {
			if r.Op != "getBE" || !reachR[r.blk] {
				continue
			}
			// offset relative to the item base (the product symbol)
			rel := r.lo
			for k := range rel.syms {
				if strings.HasPrefix(k, "prod:") {
					rel = linAdd(rel, linSym(k), -1)
				}
			}
			if !rel.isConst() {
				continue // header parsing
			}
			if r.What == "" || r.What == "compare-param" || r.What == "compare" {
				continue
			}
			gotR = append(gotR, fmt.Sprintf("%s@%s/%d", r.What, rel.String(), r.W))
		}
		sort.Strings(gotR)
		bad = append(bad, diffSets(uniqStrings(gotR), want, "index.Read")...)
		// Params.Size()
		if l, ok := p.evalUnder(sizeFn, 0, decide); !ok || !l.isConst() || l.c != sp.Size {
			bad = append(bad, fmt.Sprintf("Params.Size() = %s, documented %d", l, sp.Size))
		}
		if len(bad) > 0 {
			ob.Status, ob.Msg, ob.Path = Violated, "the "+cb.name+" index item layout is not the documented one on every side (appending writer, whole-index writer, reader, size)", uniqStrings(bad)
		} else {
			ob.Status, ob.Msg = Discharged, fmt.Sprintf("OpenWriter's encoder and buffer, index.Write's encoder, index.Read's decode branch and Params.Size() agree with the documented %d-byte layout", sp.Size)
		}
		obs = append(obs, ob)
	}
	// key-hash encodings are big-endian
	{
		ob := Ob{Rule: "R9", Inst: "key-hash-encoding", Props: []string{"C13", "C09"}, Pos: "-"}
		var bad []string
		for _, nm := range []string{"KeyHashEncoded", "AppendKeys"} {
			fn := p.pkgFunc(pkgIndex, nm)
			if fn == nil {
				bad = append(bad, "index."+nm+" not found")
				continue
			}
			ok := false
			for _, r := range p.extractLayout(fn).rows {
				if r.Op == "putBE" && r.W == 8 && r.Off == "0" {
					ok = true
				}
				if r.Op == "putLE" {
					bad = append(bad, r.Pos+": little-endian key hash")
				}
			}
			if !ok {
				bad = append(bad, "index."+nm+" does not encode the 64-bit hash big-endian at offset 0")
			}
		}
		if len(bad) > 0 {
			ob.Status, ob.Msg, ob.Path = Violated, "the tree key and the lookup key of a key hash are encoded differently", bad
		} else {
			ob.Status, ob.Msg = Discharged, "KeyHashEncoded and AppendKeys both encode the hash as 8 big-endian bytes"
		}
		obs = append(obs, ob)
	}
	return obs
}

func hasPut(x *extractor) bool {
	for _, r := range x.rows {
		if r.Op == "putBE" || r.Op == "putLE" {
			return true
		}
	}
	return false
}
