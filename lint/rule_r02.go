package main

import (
	"fmt"
	"go/token"
	"strings"

	"golang.org/x/tools/go/ssa"
)

// R2 FS-ORDER — multi-step file protocols keep a recoverable order (C05; C11, C02)

// descr gives a function-local structural name to an address/value chain, used to
// decide "same segment value" inside one function.
func descr(v ssa.Value) string {
	switch x := v.(type) {
	case *ssa.Alloc:
		return "local:" + x.Name()
	case *ssa.Parameter:
		return "param:" + x.Name()
	case *ssa.FreeVar:
		return "free:" + x.Name()
	case *ssa.FieldAddr:
		f := fieldVarOfAddr(x)
		n := "?"
		if f != nil {
			n = f.Name()
		}
		return descr(x.X) + "." + n
	case *ssa.Field:
		f := fieldVarOfField(x)
		n := "?"
		if f != nil {
			n = f.Name()
		}
		return descr(x.X) + "." + n
	case *ssa.UnOp:
		if x.Op == token.MUL {
			if al, ok := x.X.(*ssa.Alloc); ok {
				if sts := allocStores(al); len(sts) == 1 {
					// single-assignment local: name it by the alloc (all loads agree)
					return "local:" + al.Name()
				}
			}
			return "*" + descr(x.X)
		}
	case *ssa.Extract:
		return fmt.Sprintf("%s#%d", x.Tuple.Name(), x.Index)
	case *ssa.Call:
		return "call:" + x.Name()
	}
	return v.Name()
}

// pathClass classifies a path operand of a file operation.
type pathClass struct {
	kind string // "seg" (field of a Segment), "writer.Path", "reader.Path", "concat" (X.f + const), "other"
	seg  string // description of the Segment value
	fld  string // Log / Index / Dir
	suf  string // constant suffix for concat
	val  ssa.Value
}

func (pc pathClass) String() string {
	switch pc.kind {
	case "seg":
		return pc.seg + "." + pc.fld
	case "concat":
		return pc.seg + "." + pc.fld + "+" + fmt.Sprintf("%q", pc.suf)
	}
	return pc.kind
}

func (p *Prog) classifyPath(v ssa.Value) pathClass {
	v0 := v
	v = canon(v)
	if f, base := loadedField(v); f != nil {
		switch {
		case namedOf(base.Type()) == p.R.Segment || (namedOf(base.Type()) == p.R.RewriteSegment):
			return pathClass{kind: "seg", seg: descr(base), fld: f.Name(), val: v0}
		case f == p.R.MsgWriterPath:
			return pathClass{kind: "writer.Path", seg: descr(base), val: v0}
		case f == p.R.MsgReaderPath:
			return pathClass{kind: "reader.Path", seg: descr(base), val: v0}
		}
	}
	if bo, ok := v.(*ssa.BinOp); ok && bo.Op == token.ADD {
		if s, isS := constString(bo.Y); isS {
			in := p.classifyPath(bo.X)
			if in.kind == "seg" {
				return pathClass{kind: "concat", seg: in.seg, fld: in.fld, suf: s, val: v0}
			}
		}
	}
	return pathClass{kind: "other", val: v0}
}

type fsOp struct {
	op   string // REMOVE, RENAME, OPENW (message.OpenWriter), IDXWRITE (index.Write), IDXOPENW
	call *ssa.Call
	a, b pathClass
}

func (p *Prog) fsOps(fn *ssa.Function) []fsOp {
	var out []fsOp
	for _, b := range fn.Blocks {
		for _, ins := range b.Instrs {
			c, ok := ins.(*ssa.Call)
			if !ok {
				continue
			}
			switch calleeName(c.Common()) {
			case "os.Remove":
				out = append(out, fsOp{op: "REMOVE", call: c, a: p.classifyPath(c.Call.Args[0])})
			case "os.Rename":
				out = append(out, fsOp{op: "RENAME", call: c, a: p.classifyPath(c.Call.Args[0]), b: p.classifyPath(c.Call.Args[1])})
			case pkgMessage + ".OpenWriter":
				out = append(out, fsOp{op: "OPENW", call: c, a: p.classifyPath(c.Call.Args[0])})
			case pkgIndex + ".Write":
				out = append(out, fsOp{op: "IDXWRITE", call: c, a: p.classifyPath(c.Call.Args[0])})
			}
		}
	}
	return out
}

// canReach: is there a CFG path from instruction a to instruction b?
func canReach(a, b ssa.Instruction) bool {
	ba, bb := a.Block(), b.Block()
	if ba == bb {
		ia, ib := -1, -1
		for i, ins := range ba.Instrs {
			if ins == a {
				ia = i
			}
			if ins == b {
				ib = i
			}
		}
		if ia < ib {
			return true
		}
	}
	seen := map[*ssa.BasicBlock]bool{}
	work := append([]*ssa.BasicBlock{}, ba.Succs...)
	for len(work) > 0 {
		x := work[len(work)-1]
		work = work[:len(work)-1]
		if seen[x] {
			continue
		}
		seen[x] = true
		if x == bb {
			return true
		}
		work = append(work, x.Succs...)
	}
	return false
}

// precedes: a dominates b and b only runs if a succeeded (or, if tolerateNotExist, also when a
// failed with a tolerated error).
func (p *Prog) precedesOK(ea *ErrAtoms, a *ssa.Call, b ssa.Instruction) bool {
	return instrDominates(a, b) && p.failureEdgeLeaves(ea, a, b)
}

func ruleR2(p *Prog) []Ob {
	var obs []Ob
	ea := p.ErrAtomsCached()
	r := p.R

	for _, fn := range p.Funcs {
		if !srcFunc(fn) {
			continue
		}
		ops := p.fsOps(fn)
		if len(ops) == 0 {
			continue
		}
		// O1: override onto an existing segment
		var logRen, idxRen *fsOp
		for i := range ops {
			o := &ops[i]
			if o.op == "RENAME" && o.a.kind == "seg" && o.b.kind == "seg" && o.a.seg != o.b.seg {
				if o.a.fld == "Log" && o.b.fld == "Log" {
					logRen = o
				}
				if o.a.fld == "Index" && o.b.fld == "Index" {
					idxRen = o
				}
			}
		}
		isOverride := fn.Name() == "Override" && recvNamed(fn) == r.Segment
		if logRen != nil && idxRen != nil {
			var rem *fsOp
			for i := range ops {
				o := &ops[i]
				if o.op == "REMOVE" && o.a.kind == "seg" && o.a.fld == "Index" && o.a.seg == idxRen.b.seg {
					rem = o
				}
			}
			if rem != nil || isOverride {
				ob := Ob{Rule: "R2", Inst: "O1:" + funcLabel(fn), Props: []string{"C05", "C11", "C06", "C12"}, Pos: p.at(logRen.call), Func: funcLabel(fn), Nontrivial: true}
				switch {
				case rem == nil:
					ob.Status, ob.Msg = Violated, "the log of an existing segment is replaced while its old index file still exists: a crash between the two renames leaves a segment whose index describes another file"
				case !instrDominates(rem.call, logRen.call):
					ob.Status, ob.Msg = Violated, "the old index of the overridden segment is not removed on every path before the new log is renamed in"
				case !p.precedesOK(ea, logRen.call, idxRen.call):
					ob.Status, ob.Msg = Violated, "the new index is renamed in without the new log being in place first"
				default:
					ob.Status, ob.Msg = Discharged, "remove(old index) ≺ rename(log) ≺ rename(index)"
					ob.Guards = []string{p.at(rem.call), p.at(logRen.call), p.at(idxRen.call)}
				}
				obs = append(obs, ob)
			}
		}

		// O2 / O5: temp log files
		for i := range ops {
			o := &ops[i]
			if o.op == "OPENW" && o.a.kind == "concat" {
				// O5: deterministic temp name, opened in append mode: remove a stale one first
				ob := Ob{Rule: "R2", Inst: fmt.Sprintf("O5:%s:stale-temp%s", funcLabel(fn), o.a.suf), Props: []string{"C05"}, Pos: p.at(o.call), Func: funcLabel(fn), Nontrivial: true}
				if fn.Name() == "Recover" && recvNamed(fn) == p.R.Segment {
					ob.Props = []string{"C05", "C07"} // what Recover leaves behind is C07's subject too
				}
				for _, rn := range ops {
					if rn.op == "RENAME" && rn.a.kind == "writer.Path" && !p.sameLayoutTemp(fn, rn.a) {
						ob.Props = append(ob.Props, "C17") // the temp of a migration
						break
					}
				}
				found := false
				for j := range ops {
					q := &ops[j]
					if q.op != "REMOVE" || q.a.kind != "concat" || q.a.String() != o.a.String() {
						continue
					}
					if !instrDominates(q.call, o.call) {
						continue
					}
					if p.failureEdgeLeaves(ea, q.call, o.call) {
						ob.Status, ob.Msg = Violated, "the stale temp file is removed, but a missing file (the normal case) is treated as an error: the operation can never run on a clean directory"
						found = true
						break
					}
					found = true
					ob.Status, ob.Msg = Discharged, fmt.Sprintf("os.Remove(%s) dominates the append-mode open (os.ErrNotExist tolerated)", o.a)
					ob.Guards = []string{p.at(q.call)}
				}
				if !found {
					ob.Status, ob.Msg = Violated, fmt.Sprintf("%s is a deterministic temp name opened in append mode; a file left by a crashed earlier run is appended to and renamed in (duplicated records)", o.a)
				}
				obs = append(obs, ob)
			}
		}
		// functions that rename a temp log onto a segment's log in place
		for i := range ops {
			o := &ops[i]
			if o.op != "RENAME" || o.a.kind != "writer.Path" {
				continue
			}
			// the segment whose log is replaced: destination is X.Log or the Path of a reader opened from X.Log
			dstSeg := ""
			switch o.b.kind {
			case "seg":
				if o.b.fld == "Log" {
					dstSeg = o.b.seg
				}
			case "reader.Path":
				dstSeg = p.readerSegment(fn, o.b)
			}
			if dstSeg == "" {
				obs = append(obs, Ob{Rule: "R2", Inst: "O2:" + funcLabel(fn), Props: []string{"C05", "C11", "C17"}, Pos: p.at(o.call), Func: funcLabel(fn), Status: Undecided,
					Msg: "a temp log is renamed onto a destination that is not recognisably a segment's log"})
				continue
			}
			same := p.sameLayoutTemp(fn, o.a)
			ob := Ob{Rule: "R2", Inst: "O2:" + funcLabel(fn), Props: []string{"C05", "C11", "C17", "C01"}, Pos: p.at(o.call), Func: funcLabel(fn), Nontrivial: true}
			var rems, writes []*fsOp
			for j := range ops {
				q := &ops[j]
				if q.a.kind == "seg" && q.a.fld == "Index" && q.a.seg == dstSeg {
					if q.op == "REMOVE" {
						rems = append(rems, q)
					}
					if q.op == "IDXWRITE" {
						writes = append(writes, q)
					}
				}
			}
			var bad []string
			for _, w := range writes {
				if canReach(w.call, o.call) {
					bad = append(bad, fmt.Sprintf("index.Write at %s can run before the log rename at %s", p.at(w.call), p.at(o.call)))
				}
				okRem := false
				for _, rm := range rems {
					if instrDominates(rm.call, w.call) {
						okRem = true
					}
				}
				if !okRem {
					bad = append(bad, fmt.Sprintf("index.Write at %s (append-mode open) is not dominated by a removal of the old index file", p.at(w.call)))
				}
			}
			if !same {
				// positions change: the old index must be gone before the new log is in place
				okRem := false
				for _, rm := range rems {
					if instrDominates(rm.call, o.call) {
						okRem = true
						ob.Guards = append(ob.Guards, p.at(rm.call))
					}
				}
				if !okRem {
					bad = append(bad, "the log is replaced by one with a different layout while the old index file may still exist: a crash after the rename leaves an index whose positions describe the old file")
				}
				if len(writes) == 0 {
					// allowed: index is rebuilt lazily
				}
			}
			if len(bad) > 0 {
				ob.Status, ob.Msg, ob.Path = Violated, "unsafe order around replacing a segment's log in place", bad
			} else if same {
				ob.Status, ob.Msg = Discharged, "same-layout replacement: the index is re-validated after the rename, removed before it is rewritten"
			} else {
				ob.Status, ob.Msg = Discharged, "remove(index) ≺ rename(temp log → log) ≺ index.Write"
			}
			obs = append(obs, ob)
		}
	}

	// O3 / O4: replacement in place before the original disappears (root package)
	segRemove := "(" + pkgSegment + ".Segment).Remove"
	segRename := "(" + pkgSegment + ".Segment).Rename"
	for _, fn := range p.Funcs {
		if !srcFunc(fn) || funcPkgPath(fn) != pkgRoot {
			continue
		}
		var removes, renames, creates []*ssa.Call
		for _, b := range fn.Blocks {
			for _, ins := range b.Instrs {
				c, ok := ins.(*ssa.Call)
				if !ok {
					continue
				}
				switch calleeName(c.Common()) {
				case segRemove:
					f, _ := loadedField(c.Call.Args[0])
					if f != nil && (f == r.SRSegment || f == r.HWSegment) {
						removes = append(removes, c)
					}
				case segRename:
					renames = append(renames, c)
				default:
					if p.callReaches(c, isFunc(pkgMessage+".OpenWriter")) && !p.callReaches(c, func(g *ssa.Function) bool {
						return g.Signature.Recv() != nil && namedOf(g.Signature.Recv().Type()) == r.Segment && p.reaches(g, isFunc(pkgMessage+".OpenWriter"))
					}) {
						creates = append(creates, c)
					}
				}
			}
		}
		for i, rm := range removes {
			f, _ := loadedField(rm.Call.Args[0])
			owner := "SegReader"
			if f == r.HWSegment {
				owner = "HeadWriter"
			}
			// O3
			for _, rn := range renames {
				if !canReach(rn, rm) && !canReach(rm, rn) {
					continue
				}
				ob := Ob{Rule: "R2", Inst: fmt.Sprintf("O3:%s:remove#%d-after-rename", funcLabel(fn), i+1), Props: []string{"C05", "C01", "C06"}, Pos: p.at(rm), Func: funcLabel(fn), Nontrivial: true}
				if p.precedesOK(ea, rn, rm) {
					ob.Status, ob.Msg = Discharged, "the rewritten segment is renamed into place (and that succeeded) before the original is removed"
					ob.Guards = []string{p.at(rn)}
				} else {
					ob.Status, ob.Msg = Violated, "the original segment files are removed before the rewritten replacement is in place: a crash in between loses the surviving messages"
				}
				obs = append(obs, ob)
			}
			// O4 (head only)
			if owner == "HeadWriter" {
				ob := Ob{Rule: "R2", Inst: fmt.Sprintf("O4:%s:remove#%d-head", funcLabel(fn), i+1), Props: []string{"C05", "C02", "C06"}, Pos: p.at(rm), Func: funcLabel(fn), Nontrivial: true}
				ok := false
				for _, rn := range renames {
					if p.precedesOK(ea, rn, rm) {
						ok = true
						ob.Guards = append(ob.Guards, p.at(rn))
					}
				}
				for _, cr := range creates {
					if p.precedesOK(ea, cr, rm) {
						ok = true
						ob.Guards = append(ob.Guards, p.at(cr))
					}
				}
				if ok {
					ob.Status, ob.Msg = Discharged, "the head segment is removed only after its successor (renamed rewrite or freshly created empty head) exists"
				} else {
					ob.Status, ob.Msg = Violated, "the head segment is removed before a successor exists on disk: after a crash the directory has forgotten the next offset (offsets are reused)"
				}
				obs = append(obs, ob)
			}
		}
	}
	return dedupObs(obs)
}

// readerSegment: for a Reader.Path operand, the Segment whose Log the reader was opened from.
func (p *Prog) readerSegment(fn *ssa.Function, pc pathClass) string {
	f, base := loadedField(canon(pc.val))
	if f == nil {
		return ""
	}
	base = canon(base)
	ex, ok := base.(*ssa.Extract)
	if !ok {
		return ""
	}
	c, ok := ex.Tuple.(*ssa.Call)
	if !ok {
		return ""
	}
	nm := calleeName(c.Common())
	if nm != pkgMessage+".OpenReader" && nm != pkgMessage+".OpenReaderMem" {
		return ""
	}
	in := p.classifyPath(c.Call.Args[0])
	if in.kind == "seg" && in.fld == "Log" {
		return in.seg
	}
	return ""
}

// sameLayoutTemp: the temp writer whose Path is renamed was opened with the version of
// the reader of the same function (so record positions are unchanged).
func (p *Prog) sameLayoutTemp(fn *ssa.Function, pc pathClass) bool {
	f, base := loadedField(canon(pc.val))
	if f == nil {
		return false
	}
	ex, ok := canon(base).(*ssa.Extract)
	if !ok {
		return false
	}
	c, ok := ex.Tuple.(*ssa.Call)
	if !ok || calleeName(c.Common()) != pkgMessage+".OpenWriter" || len(c.Call.Args) < 3 {
		return false
	}
	v, ok := canon(c.Call.Args[2]).(*ssa.Call)
	return ok && strings.HasSuffix(calleeName(v.Common()), ".Reader).Version")
}
