package main

import (
	"fmt"
	"go/token"
	"go/types"
	"sort"

	"golang.org/x/tools/go/ssa"
)

// R5 INUSE — the unload refcount protocol of a closed segment (C08)
// R18 SNAPSHOT-REVALIDATION (C08, C12)
// R20 READER-LIFETIME (C08)
// R21 HEAD-SCAN-BOUND (C08)

// inuseGetter: the SegReader method that returns the message reader and bumps the in-use counter.
func (p *Prog) inuseGetter() *ssa.Function {
	for _, fn := range p.Funcs {
		if !srcFunc(fn) || recvNamed(fn) != p.R.SegReader {
			continue
		}
		res := fn.Signature.Results()
		if res.Len() == 0 || !typeIs(res.At(0).Type(), pkgMessage, "Reader") {
			continue
		}
		for _, b := range fn.Blocks {
			for _, ins := range b.Instrs {
				if c, ok := ins.(*ssa.Call); ok && atomicOpOn(c.Common(), p.R.SRInuse) == "Add" {
					return fn
				}
			}
		}
	}
	return nil
}

func ruleR5(p *Prog) []Ob {
	var obs []Ob
	r := p.R
	ea := p.ErrAtomsCached()
	ls := p.LocksetCached()
	props := []string{"C08"}
	getter := p.inuseGetter()
	if getter == nil {
		return []Ob{{Rule: "R5", Inst: "getter", Props: props, Pos: "-", Status: Undecided, Msg: "no SegReader method returning the message reader and incrementing the in-use counter found"}}
	}
	// (a) every increment happens under messagesMu and on a path that returns the non-nil reader
	{
		ob := Ob{Rule: "R5", Inst: "a:increment-under-lock:" + funcLabel(getter), Props: append(append([]string{}, props...), "C04", "C03"), Pos: p.posStr(getter.Pos()), Func: funcLabel(getter), Nontrivial: true}
		var bad []string
		n := 0
		for _, fn := range p.Funcs {
			if !srcFunc(fn) {
				continue
			}
			for _, b := range fn.Blocks {
				for _, ins := range b.Instrs {
					c, ok := ins.(ssa.CallInstruction)
					if !ok || atomicOpOn(c.Common(), r.SRInuse) != "Add" {
						continue
					}
					k, isK := constInt(c.Common().Args[1])
					if !isK {
						bad = append(bad, p.at(c)+": the in-use counter is changed by a non-constant amount")
						continue
					}
					if k <= 0 {
						continue
					}
					n++
					if fn != getter {
						bad = append(bad, p.at(c)+": the in-use counter is incremented outside the getter")
						continue
					}
					if _, held := ls.at[c][r.SRMessagesMu]; !held {
						bad = append(bad, p.at(c)+": the in-use counter is incremented without holding the messages lock (a concurrent unload can close the reader between the nil test and the increment)")
					}
				}
			}
		}
		// every success return of the getter with a non-nil reader has passed an increment
		fl := &bitFlow{p: p, ea: ea, name: "inuse.Add"}
		fl.effect = func(call ssa.CallInstruction) (bool, bool) {
			if atomicOpOn(call.Common(), r.SRInuse) == "Add" {
				if k, ok := constInt(call.Common().Args[1]); ok && k > 0 {
					return false, true
				}
			}
			return false, false
		}
		fl.solve()
		if isBad, rets := fl.run(getter, true, nil, nil); isBad {
			for _, rt := range rets {
				bad = append(bad, p.at(rt)+": the reader is handed out without the in-use counter being incremented")
			}
		}
		sort.Strings(bad)
		if len(bad) > 0 {
			ob.Status, ob.Msg, ob.Path = Violated, "the in-use counter does not reliably cover a reader that was handed out", bad
		} else {
			ob.Status, ob.Msg = Discharged, fmt.Sprintf("%d increment(s), all in the getter, under the messages lock, on every path that hands the reader out", n)
		}
		obs = append(obs, ob)
	}
	// (b) every user releases: a deferred Add(-n) registered right after a successful getter call
	nUsers := 0
	for _, fn := range p.Funcs {
		if !srcFunc(fn) {
			continue
		}
		for _, b := range fn.Blocks {
			for _, ins := range b.Instrs {
				c, ok := ins.(*ssa.Call)
				if !ok || c.Common().StaticCallee() != getter {
					continue
				}
				nUsers++
				ob := Ob{Rule: "R5", Inst: "b:release:" + funcLabel(fn), Props: append(append([]string{}, props...), "C19"), Pos: p.at(c), Func: funcLabel(fn), Nontrivial: true}
				var rdr ssa.Value
				for _, rf := range *c.Referrers() {
					if ex, ok := rf.(*ssa.Extract); ok && ex.Index == 0 {
						rdr = ex
					}
				}
				// a Defer of Add(-k) dominated by the getter's success
				var def *ssa.Defer
				for _, b2 := range fn.Blocks {
					for _, i2 := range b2.Instrs {
						d, ok := i2.(*ssa.Defer)
						if !ok || !p.deferReleasesInuse(d) {
							continue
						}
						if instrDominates(c, d) && p.failureEdgeLeaves(ea, c, d) {
							def = d
						}
					}
				}
				var bad []string
				if def == nil {
					// accepted alternative: an explicit Add(-k) on every path to every return after the last use
					fl := &bitFlow{p: p, ea: ea, name: "inuse.Release"}
					fl.effect = func(call ssa.CallInstruction) (bool, bool) {
						if call == ssa.CallInstruction(c) {
							return true, false
						}
						if atomicOpOn(call.Common(), r.SRInuse) == "Add" {
							if k, ok := constInt(call.Common().Args[1]); ok && k < 0 {
								return false, true
							}
						}
						return false, false
					}
					fl.solve()
					if isBad, rets := fl.run(fn, false, nil, nil); isBad {
						for _, rt := range rets {
							bad = append(bad, p.at(rt)+": returns without releasing the reader it obtained (every later Close/Delete of this segment fails with 'consume in progress')")
						}
					}
				} else {
					// no return between the getter's success and the defer
					for _, rt := range returnsOf(fn) {
						if instrDominates(c, rt) && p.failureEdgeLeaves(ea, c, rt) && !instrDominates(def, rt) {
							bad = append(bad, p.at(rt)+": a return after the reader was obtained is not covered by the deferred release")
						}
					}
					// uses of the reader come after the defer (so the release cannot precede the last use)
					if rdr != nil {
						for _, rf := range *rdr.Referrers() {
							if ci, ok := rf.(ssa.Instruction); ok && ci != ssa.Instruction(def) {
								if _, isCall := rf.(*ssa.Call); isCall && !instrDominates(def, ci) {
									bad = append(bad, p.at(ci)+": the reader is used on a path that has not registered its release yet")
								}
							}
						}
					}
				}
				if len(bad) > 0 {
					ob.Status, ob.Msg, ob.Path = Violated, "a user of the segment's message reader does not release it on every path", bad
				} else {
					ob.Status, ob.Msg = Discharged, "the release is deferred right after the reader was obtained and covers every later return"
				}
				obs = append(obs, ob)
			}
		}
	}
	if nUsers == 0 {
		obs = append(obs, Ob{Rule: "R5", Inst: "b:release", Props: props, Pos: "-", Status: Undecided, Msg: "the getter has no callers"})
	}
	// (c) every close of the field's reader is under the messages lock (exclusive) and after the in-use test
	nClose := 0
	for _, fn := range p.Funcs {
		if !srcFunc(fn) {
			continue
		}
		for _, b := range fn.Blocks {
			for _, ins := range b.Instrs {
				c, ok := ins.(*ssa.Call)
				if !ok || calleeName(c.Common()) != "(*"+pkgMessage+".Reader).Close" {
					continue
				}
				f, _ := loadedField(c.Call.Args[0])
				if f != r.SRMessages {
					continue
				}
				nClose++
				ob := Ob{Rule: "R5", Inst: "c:close-when-unused:" + funcLabel(fn), Props: props, Pos: p.at(c), Func: funcLabel(fn), Nontrivial: true}
				var bad []string
				if ls.at[c][r.SRMessagesMu] != modeW {
					bad = append(bad, "the reader is closed without holding the messages lock exclusively")
				}
				if !p.dominatedByInuseZero(c) {
					bad = append(bad, "the reader is closed without a dominating test that the in-use counter is not positive (a concurrent consumer would read from a closed mapping)")
				}
				if len(bad) > 0 {
					ob.Status, ob.Msg, ob.Path = Violated, "a segment's message reader can be closed while it is in use", bad
				} else {
					ob.Status, ob.Msg = Discharged, "closed under the exclusive messages lock, on the 'not in use' edge of the counter test"
				}
				obs = append(obs, ob)
			}
		}
	}
	if nClose == 0 {
		obs = append(obs, Ob{Rule: "R5", Inst: "c:close-when-unused", Props: props, Pos: "-", Status: Undecided, Msg: "no close of a SegReader's message reader found"})
	}
	return obs
}

// inuseTest: if cond tests `inuse.Load() > 0` (or equivalent), the successor index on which the counter is not positive.
func (p *Prog) inuseTest(iff *ssa.If) int {
	x, y, op, ok := relCond(iff.Cond)
	if !ok {
		return -1
	}
	isLoad := func(v ssa.Value) bool {
		c, ok := v.(*ssa.Call)
		return ok && atomicOpOn(c.Common(), p.R.SRInuse) == "Load"
	}
	k, isK := constInt(y)
	if !isLoad(x) || !isK {
		return -1
	}
	switch {
	case op == token.GTR && k == 0, op == token.GEQ && k == 1, op == token.NEQ && k == 0:
		return 1
	case op == token.LEQ && k == 0, op == token.LSS && k == 1, op == token.EQL && k == 0:
		return 0
	}
	return -1
}

func (p *Prog) dominatedByInuseZero(at ssa.Instruction) bool {
	b := at.Block()
	for d := b.Idom(); d != nil; d = d.Idom() {
		iff, ok := terminator(d).(*ssa.If)
		if !ok {
			continue
		}
		if e := p.inuseTest(iff); e >= 0 && edgeDominates(d, e, b) {
			return true
		}
	}
	return false
}

// ---------------------------------------------------------------------------
// R18

func ruleR18(p *Prog) []Ob {
	var obs []Ob
	r := p.R
	ls := p.LocksetCached()
	props := []string{"C08", "C12"}
	// the HeadWriter method that applies a *RewriteSegment
	var apply *ssa.Function
	for _, fn := range p.Funcs {
		if !srcFunc(fn) || recvNamed(fn) != r.HeadWriter {
			continue
		}
		for _, pr := range fn.Params {
			if _, ptr := pr.Type().(*types.Pointer); ptr && namedOf(pr.Type()) == r.RewriteSegment {
				apply = fn
			}
		}
	}
	if apply == nil {
		return []Ob{{Rule: "R18", Inst: "apply", Props: props, Pos: "-", Status: Undecided, Msg: "no HeadWriter method taking a *RewriteSegment found"}}
	}
	var rs *ssa.Parameter
	for _, pr := range apply.Params {
		if namedOf(pr.Type()) == r.RewriteSegment {
			rs = pr
		}
	}
	// the re-validation: a comparison of len(rs.SurviveOffsets)+len(rs.DeletedMessages) with the live index length
	lenOfField := func(v ssa.Value, name string) bool {
		c, ok := v.(*ssa.Call)
		if !ok || !isBuiltinCall(c.Common(), "len") {
			return false
		}
		f, base := loadedField(c.Call.Args[0])
		return f != nil && f.Name() == name && canon(base) == ssa.Value(rs)
	}
	isLiveLen := func(v ssa.Value) bool {
		c, ok := v.(*ssa.Call)
		if !ok {
			return false
		}
		for _, g := range p.callees(c) {
			if recvNamed(g) == r.HeadIndex && p.returnsLenOfItems(g) {
				return true
			}
		}
		return false
	}
	var test *ssa.If
	matchEdge := -1
	for _, b := range apply.Blocks {
		iff, ok := terminator(b).(*ssa.If)
		if !ok {
			continue
		}
		bo, ok := iff.Cond.(*ssa.BinOp)
		if !ok || (bo.Op != token.NEQ && bo.Op != token.EQL) {
			continue
		}
		sumSide := func(v ssa.Value) bool {
			s, ok := v.(*ssa.BinOp)
			if !ok || s.Op != token.ADD {
				return false
			}
			return (lenOfField(s.X, "SurviveOffsets") && lenOfField(s.Y, "DeletedMessages")) || (lenOfField(s.Y, "SurviveOffsets") && lenOfField(s.X, "DeletedMessages"))
		}
		if (sumSide(bo.X) && isLiveLen(bo.Y)) || (sumSide(bo.Y) && isLiveLen(bo.X)) {
			test = iff
			if bo.Op == token.NEQ {
				matchEdge = 1
			} else {
				matchEdge = 0
			}
		}
	}
	ob := Ob{Rule: "R18", Inst: "revalidate:" + funcLabel(apply), Props: props, Pos: p.posStr(apply.Pos()), Func: funcLabel(apply), Nontrivial: true}
	if test == nil {
		ob.Status, ob.Msg = Violated, "the head rewrite is applied without re-checking that the number of records it saw (survivors + deleted) still equals the live index length: a publish that landed during the rewrite is silently dropped"
		obs = append(obs, ob)
	} else {
		ob.Pos = p.at(test)
		var bad []string
		// destructive calls: anything reaching a rename/remove/close of files, except removing the rewrite's own temp files
		destructive := func(c *ssa.Call) bool {
			nm := calleeName(c.Common())
			if nm == "("+pkgSegment+".Segment).Remove" {
				// rs.Remove(): the rewrite's own temp files
				f, base := loadedField(c.Call.Args[0])
				if f != nil && f.Embedded() && canon(base) == ssa.Value(rs) {
					return false
				}
				return true
			}
			return p.callReaches(c, func(g *ssa.Function) bool {
				n := fullName(g)
				return n == "os.Rename" || n == "os.Remove" || n == "(*os.File).Close" || n == pkgMessage+".OpenWriter"
			})
		}
		for _, b := range apply.Blocks {
			for _, ins := range b.Instrs {
				c, ok := ins.(*ssa.Call)
				if !ok || !destructive(c) {
					continue
				}
				if !edgeDominates(test.Block(), matchEdge, b) {
					// before the test, only syncing is allowed
					if p.callReaches(c, func(g *ssa.Function) bool {
						n := fullName(g)
						return n == "os.Rename" || n == "os.Remove" || n == "(*os.File).Close"
					}) {
						bad = append(bad, p.at(c)+": a call that renames, removes or closes head files is not dominated by the 'counts still match' edge of the re-validation")
					}
				}
			}
		}
		if held := ls.entry[apply]; held[r.WriterMu] != modeW {
			bad = append(bad, "the method is not always entered with the writer lock held exclusively (a publish can land between the re-validation and the swap)")
		}
		sort.Strings(bad)
		if len(bad) > 0 {
			ob.Status, ob.Msg, ob.Path = Violated, "the head rewrite can be applied to a head that changed since it was read", bad
		} else {
			ob.Status, ob.Msg = Discharged, "every rename/remove/close of head files is dominated by survivors+deleted == live index length, under the writer lock"
		}
		obs = append(obs, ob)
	}
	// caller: the identity of the head is re-checked after re-acquiring the writer lock
	for _, fn := range p.Funcs {
		if !srcFunc(fn) {
			continue
		}
		for _, b := range fn.Blocks {
			for _, ins := range b.Instrs {
				c, ok := ins.(*ssa.Call)
				if !ok || c.Common().StaticCallee() != apply {
					continue
				}
				ob := Ob{Rule: "R18", Inst: "recheck-head-identity:" + funcLabel(fn), Props: props, Pos: p.at(c), Func: funcLabel(fn), Nontrivial: true}
				// dominated by the equal edge of `<Impl.writer>.reader == target`, evaluated with writerMu held
				okID := false
				for d := b.Idom(); d != nil; d = d.Idom() {
					iff, ok := terminator(d).(*ssa.If)
					if !ok {
						continue
					}
					bo, ok := iff.Cond.(*ssa.BinOp)
					if !ok || (bo.Op != token.EQL && bo.Op != token.NEQ) {
						continue
					}
					isHeadReader := func(v ssa.Value) bool {
						f, base := loadedField(v)
						if f != r.HWReader {
							return false
						}
						g, _ := loadedField(base)
						return g == r.ImplWriter
					}
					if !isHeadReader(bo.X) && !isHeadReader(bo.Y) {
						continue
					}
					edge := 0
					if bo.Op == token.NEQ {
						edge = 1
					}
					if edgeDominates(d, edge, b) && ls.at[iff][r.WriterMu] == modeW && ls.at[c][r.WriterMu] == modeW {
						// no unlock in between: the lock is held at both and the test dominates the call in one region
						okID = true
					}
				}
				if okID {
					ob.Status, ob.Msg = Discharged, "the rewrite is applied only if the target is still the head, tested under the writer lock that is still held at the call"
				} else {
					ob.Status, ob.Msg = Violated, "the head rewrite is applied without re-checking, under the writer lock, that the rewritten segment is still the head (a roll-over during the rewrite would replace the wrong segment)"
				}
				obs = append(obs, ob)
			}
		}
	}
	return obs
}

// returnsLenOfItems: the HeadIndex method returns len(<items field>).
func (p *Prog) returnsLenOfItems(g *ssa.Function) bool {
	for _, rt := range returnsOf(g) {
		if len(rt.Results) != 1 {
			return false
		}
		c, ok := canon(returnOperand(rt, 0)).(*ssa.Call)
		if !ok || !isBuiltinCall(c.Common(), "len") {
			return false
		}
		if f, _ := loadedField(c.Call.Args[0]); f != p.R.HIItems {
			return false
		}
	}
	return len(returnsOf(g)) > 0
}

// ---------------------------------------------------------------------------
// R20

func ruleR20(p *Prog) []Ob {
	var obs []Ob
	r := p.R
	ls := p.LocksetCached()
	props := []string{"C08"}
	getter := p.inuseGetter()
	// users: SegReader methods that call the getter
	users := map[*ssa.Function]bool{}
	for _, fn := range p.Funcs {
		if recvNamed(fn) != r.SegReader || getter == nil {
			continue
		}
		for _, b := range fn.Blocks {
			for _, ins := range b.Instrs {
				if c, ok := ins.(*ssa.Call); ok && c.Common().StaticCallee() == getter {
					users[fn] = true
				}
			}
		}
	}
	// intolerant closers: return a non-nil error on the 'in use' edge of the counter test
	intolerant := map[*ssa.Function]bool{}
	ea := p.ErrAtomsCached()
	for _, fn := range p.Funcs {
		if !srcFunc(fn) {
			continue
		}
		for _, b := range fn.Blocks {
			iff, ok := terminator(b).(*ssa.If)
			if !ok {
				continue
			}
			e := p.inuseTest(iff)
			if e < 0 {
				continue
			}
			busy := b.Succs[1-e]
			if rt, ok := terminator(busy).(*ssa.Return); ok && ea.isFailureReturn(fn, rt) {
				intolerant[fn] = true
			}
		}
	}
	reachesIntolerant := func(c ssa.CallInstruction) bool {
		return p.callReaches(c, func(g *ssa.Function) bool { return intolerant[g] })
	}
	// (u) user calls on readers taken from the list happen under the list lock
	nU := 0
	var badU []string
	for _, fn := range p.Funcs {
		if !srcFunc(fn) {
			continue
		}
		for _, b := range fn.Blocks {
			for _, ins := range b.Instrs {
				c, ok := ins.(*ssa.Call)
				if !ok {
					continue
				}
				g := c.Common().StaticCallee()
				if g == nil || !users[g] {
					continue
				}
				if recvNamed(fn) == r.SegReader {
					continue // a reader method calling another on itself
				}
				nU++
				if _, held := ls.at[c][r.ReadersMu]; !held {
					badU = append(badU, fmt.Sprintf("%s: %s is called on a segment reader without holding the segment-list lock (a concurrent delete/close of that segment then fails with 'consume in progress', or the reader is used after it was replaced)", p.at(c), funcLabel(g)))
				}
			}
		}
	}
	obU := Ob{Rule: "R20", Inst: "u:users-under-list-lock", Props: append(append([]string{}, props...), "C03", "C04", "C09", "C10"), Pos: "-", Nontrivial: true}
	sort.Strings(badU)
	switch {
	case nU == 0:
		obU.Status, obU.Msg = Undecided, "no call of a reader user method found"
	case len(badU) > 0:
		obU.Status, obU.Msg, obU.Path = Violated, "a segment reader is used outside the segment-list lock", badU
	default:
		obU.Status, obU.Msg = Discharged, fmt.Sprintf("all %d calls of reader user methods (%d methods) hold the segment-list lock", nU, len(users))
	}
	obs = append(obs, obU)

	// (c) closers
	nC := 0
	ordC := map[string]int{}
	for _, fn := range p.Funcs {
		if !srcFunc(fn) || recvNamed(fn) != r.Impl {
			continue
		}
		for _, b := range fn.Blocks {
			for _, ins := range b.Instrs {
				c, ok := ins.(*ssa.Call)
				if !ok || !reachesIntolerant(c) {
					continue
				}
				if g := c.Common().StaticCallee(); g != nil && recvNamed(g) == r.Impl {
					continue // judged inside that method
				}
				nC++
				ordC[funcLabel(fn)]++
				ob := Ob{Rule: "R20", Inst: fmt.Sprintf("c:closer:%s#%d", funcLabel(fn), ordC[funcLabel(fn)]), Props: append(append([]string{}, props...), "C03"), Pos: p.at(c), Func: funcLabel(fn), Nontrivial: true}
				if fn.Name() == "Backup" {
					ob.Props = append(ob.Props, "C20") // a backup leaves the source handle as it was
				}
				switch {
				case ls.at[c][r.ReadersMu] == modeW:
					ob.Status, ob.Msg = Discharged, "a call that can fail with 'in use' is made with the segment-list lock held exclusively: no reader can be inside the segment"
				case p.detachedBefore(fn, c):
					ob.Status, ob.Msg = Discharged, "the closed object was taken out of the segment list (under the exclusive list lock) before the call"
				default:
					ob.Status, ob.Msg = Violated, "a segment can be closed while readers may still be inside it: the close (and with it the publish/delete) fails merely because a read was in progress"
				}
				obs = append(obs, ob)
			}
		}
	}
	if nC == 0 {
		obs = append(obs, Ob{Rule: "R20", Inst: "c:closer", Props: props, Pos: "-", Status: Undecided, Msg: "no call reaching an intolerant closer found in the log implementation"})
	}
	return obs
}

// detachedBefore: the call is dominated by a store that replaces an element of Impl.readers (or the
// list itself) while the list lock is held exclusively.
func (p *Prog) detachedBefore(fn *ssa.Function, c *ssa.Call) bool {
	ls := p.LocksetCached()
	// a helper that swaps the list under the exclusive lock, called before
	for _, b := range fn.Blocks {
		for _, ins := range b.Instrs {
			hc, ok := ins.(*ssa.Call)
			if !ok || hc == c || !instrDominates(hc, c) {
				continue
			}
			if g := hc.Common().StaticCallee(); g != nil && g != fn && inModule(g) && recvNamed(g) == p.R.Impl && p.storesListUnderLock(g) {
				return true
			}
		}
	}
	for _, b := range fn.Blocks {
		for _, ins := range b.Instrs {
			st, ok := ins.(*ssa.Store)
			if !ok || !instrDominates(st, c) {
				continue
			}
			isList := false
			switch ad := st.Addr.(type) {
			case *ssa.IndexAddr:
				if f, _ := loadedField(ad.X); f == p.R.ImplReaders {
					isList = true
				}
			case *ssa.FieldAddr:
				if fieldVarOfAddr(ad) == p.R.ImplReaders {
					isList = true
				}
			}
			if isList && ls.at[st][p.R.ReadersMu] == modeW {
				return true
			}
		}
	}
	return false
}

// ---------------------------------------------------------------------------
// R21

func ruleR21(p *Prog) []Ob {
	var obs []Ob
	r := p.R
	ls := p.LocksetCached()
	props := []string{"C08"}
	loops := p.copyLoops()
	scanFns := map[*ssa.Function]*copyLoop{}
	for _, cl := range loops {
		scanFns[cl.fn] = cl
	}
	// bounded parameter of a scan function: the loop has an exit comparing its position with a parameter
	boundParam := func(cl *copyLoop) int {
		for b := range cl.loop {
			iff, ok := terminator(b).(*ssa.If)
			if !ok {
				continue
			}
			x, y, _, ok := relCond(iff.Cond)
			if !ok {
				continue
			}
			for _, pair := range [][2]ssa.Value{{x, y}, {y, x}} {
				if canon(pair[0]) == canon(cl.posArg) {
					if pr, ok := canon(pair[1]).(*ssa.Parameter); ok {
						return paramIdx(cl.fn, pr)
					}
				}
			}
		}
		return -1
	}
	n := 0
	for _, fn := range p.Funcs {
		if !srcFunc(fn) || funcPkgPath(fn) != pkgRoot {
			continue
		}
		for _, b := range fn.Blocks {
			for _, ins := range b.Instrs {
				c, ok := ins.(*ssa.Call)
				if !ok {
					continue
				}
				g := c.Common().StaticCallee()
				if g == nil || recvNamed(g) != r.Segment || len(c.Call.Args) == 0 {
					continue
				}
				// does the callee scan its segment's log to the end?
				var scan *copyLoop
				bp := -1
				if cl := scanFns[g]; cl != nil {
					scan, bp = cl, boundParam(cl)
				} else {
					// wrapper: calls a scan function passing constants / its own parameters
					for _, gb := range g.Blocks {
						for _, gi := range gb.Instrs {
							if gc, ok := gi.(*ssa.Call); ok {
								if h := gc.Common().StaticCallee(); h != nil && scanFns[h] != nil {
									scan = scanFns[h]
								}
							}
						}
					}
				}
				if scan == nil {
					continue
				}
				// only segments that may be the head: the segment of a reader taken from the list
				f, base := loadedField(c.Call.Args[0])
				if f != r.SRSegment {
					continue
				}
				_ = base
				if recvNamed(fn) == r.SegReader {
					continue // the reader's own methods run under its callers' locks; judged at the Impl call site
				}
				n++
				ob := Ob{Rule: "R21", Inst: fmt.Sprintf("head-scan:%s->%s", funcLabel(fn), funcLabel(g)), Props: props, Pos: p.at(c), Func: funcLabel(fn), Nontrivial: true}
				switch {
				case ls.at[c][r.WriterMu] == modeW:
					ob.Status, ob.Msg = Discharged, "the scan runs with the writer lock held: no append can be half-written"
				case bp >= 0 && scanFns[g] != nil && p.boundFromWriterSize(fn, c.Call.Args[bp]):
					ob.Status, ob.Msg = Discharged, "the scan is bounded by the head log's size captured under the writer lock (records appended later are detected at the swap)"
				default:
					ob.Status, ob.Msg = Violated, "a segment that may be the head is scanned to the end of its file outside the writer lock and without a bound: a publish that is half way through appending a record makes the scan fail with a corruption error (a call fails merely because another was in progress)"
				}
				obs = append(obs, ob)
			}
		}
	}
	if n == 0 {
		obs = append(obs, Ob{Rule: "R21", Inst: "head-scan", Props: props, Pos: "-", Status: Undecided, Msg: "no scan of a listed segment's log from the log implementation found"})
	}
	return obs
}

// boundFromWriterSize: v is -1 (unbounded, not the head) or the Size() of the head's message writer
// read while holding the writer lock, on the path where the target is the head.
func (p *Prog) boundFromWriterSize(fn *ssa.Function, v ssa.Value) bool {
	ls := p.LocksetCached()
	r := p.R
	var ok func(v ssa.Value, depth int) (sawSize bool, good bool)
	ok = func(v ssa.Value, depth int) (bool, bool) {
		if depth > 6 {
			return false, false
		}
		if k, isK := constInt(v); isK {
			return false, k < 0
		}
		switch x := v.(type) {
		case *ssa.Phi:
			saw := false
			for _, e := range x.Edges {
				s, g := ok(e, depth+1)
				if !g {
					return false, false
				}
				saw = saw || s
			}
			return saw, true
		case *ssa.UnOp:
			if al, isAl := x.X.(*ssa.Alloc); isAl && x.Op == token.MUL {
				saw := false
				for _, st := range allocStores(al) {
					s, g := ok(st.Val, depth+1)
					if !g {
						return false, false
					}
					saw = saw || s
				}
				return saw, true
			}
		case *ssa.Call:
			if calleeName(x.Common()) == "(*"+pkgMessage+".Writer).Size" {
				f, base := loadedField(x.Call.Args[0])
				g, _ := loadedField(base)
				if f == r.HWMessages && g == r.ImplWriter && ls.at[x][r.WriterMu] == modeW {
					return true, true
				}
			}
		}
		return false, false
	}
	saw, good := ok(v, 0)
	return saw && good
}

// deferReleasesInuse: the deferred call decrements the in-use counter, directly or as the
// unconditional body of a deferred closure.
func (p *Prog) deferReleasesInuse(d *ssa.Defer) bool {
	if atomicOpOn(&d.Call, p.R.SRInuse) == "Add" {
		k, isK := constInt(d.Call.Args[1])
		return isK && k < 0
	}
	mc, ok := d.Call.Value.(*ssa.MakeClosure)
	if !ok {
		return false
	}
	fn := mc.Fn.(*ssa.Function)
	if len(fn.Blocks) == 0 {
		return false
	}
	for _, ins := range fn.Blocks[0].Instrs { // entry block: unconditional
		if c, ok := ins.(*ssa.Call); ok {
			nm := calleeName(c.Common())
			if nm != "(*sync/atomic.Int64).Add" || len(c.Call.Args) < 2 {
				continue
			}
			fa, ok := c.Call.Args[0].(*ssa.FieldAddr)
			if !ok || fieldVarOfAddr(fa) != p.R.SRInuse {
				continue
			}
			if k, isK := constInt(c.Call.Args[1]); isK && k < 0 {
				return true
			}
		}
	}
	return false
}

// storesListUnderLock: g replaces an element of (or the whole) segment list while holding the list
// lock exclusively.
func (p *Prog) storesListUnderLock(g *ssa.Function) bool {
	ls := p.LocksetCached()
	for _, b := range g.Blocks {
		for _, ins := range b.Instrs {
			st, ok := ins.(*ssa.Store)
			if !ok {
				continue
			}
			isList := false
			switch ad := st.Addr.(type) {
			case *ssa.IndexAddr:
				if f, _ := loadedField(ad.X); f == p.R.ImplReaders {
					isList = true
				}
			case *ssa.FieldAddr:
				if fieldVarOfAddr(ad) == p.R.ImplReaders {
					isList = true
				}
			}
			if isList && ls.at[st][p.R.ReadersMu] == modeW {
				return true
			}
		}
	}
	return false
}
