package main

import (
	"bytes"
	"fmt"
	"go/ast"
	"go/format"
	"go/token"
	"go/types"
	"os"
	"path/filepath"
	"runtime"
	"sort"
	"strconv"
	"strings"
)

// Thorough tier: the same rules on other build configurations, on behaviour-preserving
// transformations of the source (the checker must not change its verdict), and on directed
// mutants derived from the protecting constructs the rules reported (the checker must change it).
// Everything is analysed, nothing is executed; variants are packages.Config overlays.

type variantResult struct {
	Name    string         `json:"name"`
	Loaded  bool           `json:"loaded"`
	Skipped string         `json:"skipped,omitempty"`
	Summary map[string]int `json:"summary,omitempty"` // "R1/discharged" -> n
	Same    bool           `json:"same_verdict_as_base"`
	Diff    []string       `json:"diff,omitempty"`
	Detail  string         `json:"detail,omitempty"`
	obs     []Ob
}

func summarise(obs []Ob, prop string) map[string]int {
	m := map[string]int{}
	for _, o := range obs {
		if prop != "" && !o.serves(prop) {
			continue
		}
		m[o.Rule+"/"+string(o.Status)]++
	}
	return m
}

func diffSummary(a, b map[string]int) []string {
	var out []string
	keys := map[string]bool{}
	for k := range a {
		keys[k] = true
	}
	for k := range b {
		keys[k] = true
	}
	for _, k := range sortedKeys(keys) {
		if a[k] != b[k] {
			out = append(out, fmt.Sprintf("%s: base %d, variant %d", k, a[k], b[k]))
		}
	}
	return out
}

// loadAndRun loads a variant and runs the rules serving prop; a load failure is reported, not fatal.
func loadAndRun(cfg LoadConfig, specDir string, ruleIDs []string) (obs []Ob, err error) {
	defer func() {
		if r := recover(); r != nil {
			if fe, ok := r.(fatalError); ok {
				err = fmt.Errorf("%s", fe.msg)
				return
			}
			err = fmt.Errorf("panic: %v", r)
		}
	}()
	old := os.Stderr
	devnull, _ := os.OpenFile(os.DevNull, os.O_WRONLY, 0)
	os.Stderr = devnull
	defer func() { os.Stderr = old; devnull.Close() }()
	p := Load(cfg)
	p.SpecDir = specDir
	p.resolveRoles()
	if len(p.R.Missing) > 0 {
		return nil, fmt.Errorf("unresolved roles: %s", strings.Join(p.R.Missing, "; "))
	}
	want := map[string]bool{}
	for _, id := range ruleIDs {
		want[id] = true
	}
	for _, r := range rules {
		if want[r.ID] {
			obs = append(obs, r.Run(p)...)
		}
	}
	for i := range obs {
		obs[i].Props = withDependants(obs[i].Props)
	}
	return obs, nil
}

func runThorough(base *Prog, prop string, ruleIDs []string, baseObs []Ob, specDir string) map[string]any {
	out := map[string]any{}
	baseSum := summarise(baseObs, prop)
	var variants []variantResult
	regress := 0
	newViol := 0

	check := func(name string, cfg LoadConfig, benign bool) *variantResult {
		vr := variantResult{Name: name}
		obs, err := loadAndRun(cfg, specDir, ruleIDs)
		runtime.GC()
		if err != nil {
			vr.Skipped = err.Error()
			variants = append(variants, vr)
			return &variants[len(variants)-1]
		}
		vr.Loaded = true
		vr.obs = obs
		vr.Summary = summarise(obs, prop)
		vr.Diff = diffSummary(baseSum, vr.Summary)
		vr.Same = len(vr.Diff) == 0
		if !vr.Same {
			if benign {
				regress++
			} else {
				newViol++
			}
		}
		variants = append(variants, vr)
		return &variants[len(variants)-1]
	}

	// 1. other build configurations
	for _, c := range []struct {
		name string
		env  []string
	}{
		{"linux/386", []string{"GOOS=linux", "GOARCH=386"}},
		{"linux/arm64", []string{"GOOS=linux", "GOARCH=arm64"}},
		{"darwin/arm64", []string{"GOOS=darwin", "GOARCH=arm64"}},
		{"windows/amd64", []string{"GOOS=windows", "GOARCH=amd64"}},
	} {
		check("config:"+c.name, LoadConfig{Root: base.Root, Tags: "verif", Env: append(c.env, "CGO_ENABLED=0")}, false)
	}

	// 2. behaviour-preserving transformations
	if ov, n, err := renameOverlay(base); err == nil {
		vr := check("benign:rename-unexported", LoadConfig{Root: base.Root, Tags: "verif", Overlay: ov}, true)
		vr.Detail = fmt.Sprintf("%d unexported identifiers (package-level objects, fields, methods) renamed", n)
	} else {
		variants = append(variants, variantResult{Name: "benign:rename-unexported", Skipped: err.Error()})
	}
	if ov, n, err := rewriteOverlay(base, swapEqualArgs); err == nil && n > 0 {
		vr := check("benign:swap-equal-args", LoadConfig{Root: base.Root, Tags: "verif", Overlay: ov}, true)
		vr.Detail = fmt.Sprintf("%d bytes.Equal / slices.Equal calls with swapped arguments", n)
	}
	if ov, n, err := rewriteOverlay(base, identityToErrorsIs); err == nil && n > 0 {
		vr := check("benign:identity-to-errors.Is", LoadConfig{Root: base.Root, Tags: "verif", Overlay: ov}, true)
		vr.Detail = fmt.Sprintf("%d identity comparisons with a sentinel rewritten to errors.Is", n)
	}
	if ov, n, err := rewriteOverlay(base, insertNoops); err == nil && n > 0 {
		vr := check("benign:insert-noop-statements", LoadConfig{Root: base.Root, Tags: "verif", Overlay: ov}, true)
		vr.Detail = fmt.Sprintf("a no-op statement inserted before %d statements", n)
	} else {
		variants = append(variants, variantResult{Name: "benign:insert-noop-statements", Skipped: fmt.Sprintf("n=%d err=%v", n, err)})
	}

	// 3. directed mutants from the guards the rules reported
	type mres struct {
		Mutant string `json:"mutant"`
		Ob     string `json:"obligation"`
		Result string `json:"result"` // killed | survived | not-compiling
	}
	var mutants []mres
	killed, survived, discarded := 0, 0, 0
	seenGuard := map[string]bool{}
	for _, o := range baseObs {
		if !o.serves(prop) || o.Status != Discharged {
			continue
		}
		for _, g := range o.Guards {
			gk := o.key() + "@" + g
			if seenGuard[gk] {
				continue
			}
			seenGuard[gk] = true
			ov, desc, err := deleteStatementOverlay(base, g)
			if err != nil {
				continue
			}
			obs, lerr := loadAndRun(LoadConfig{Root: base.Root, Tags: "verif", Overlay: ov}, specDir, []string{o.Rule})
			runtime.GC()
			r := mres{Mutant: desc, Ob: o.key()}
			if lerr != nil {
				r.Result = "not-compiling"
				discarded++
			} else {
				still := false
				for _, o2 := range obs {
					if o2.key() == o.key() && o2.Status == Discharged {
						still = true
					}
				}
				anyBad := false
				for _, o2 := range obs {
					if o2.Status != Discharged {
						anyBad = true
					}
				}
				if !still || anyBad {
					r.Result = "killed"
					killed++
				} else {
					r.Result = "survived"
					survived++
				}
			}
			mutants = append(mutants, r)
		}
	}
	out["variants"] = variants
	out["configs"] = func() []string {
		var cs []string
		for _, v := range variants {
			if strings.HasPrefix(v.Name, "config:") {
				st := "same verdict"
				if !v.Loaded {
					st = "skipped: " + v.Skipped
				} else if !v.Same {
					st = "DIFFERENT: " + strings.Join(v.Diff, "; ")
				}
				cs = append(cs, strings.TrimPrefix(v.Name, "config:")+" — "+st)
			}
		}
		return append([]string{"linux/amd64 -tags verif — base"}, cs...)
	}()
	out["checker_regressions"] = regress
	out["config_differences"] = newViol
	out["mutants_generated"] = len(mutants)
	out["mutants_killed"] = killed
	out["mutants_survived"] = survived
	out["mutants_not_compiling"] = discarded
	out["mutants"] = mutants
	return out
}

// ---------------------------------------------------------------------------
// overlays

func moduleFiles(p *Prog) map[string]*ast.File {
	out := map[string]*ast.File{}
	for _, pk := range p.ByPath {
		for i, f := range pk.Syntax {
			if i < len(pk.CompiledGoFiles) {
				out[pk.CompiledGoFiles[i]] = f
			}
		}
	}
	return out
}

func render(fset *token.FileSet, f *ast.File) ([]byte, error) {
	var buf bytes.Buffer
	if err := format.Node(&buf, fset, f); err != nil {
		return nil, err
	}
	return buf.Bytes(), nil
}

// renameOverlay renames every unexported package-level object, field and method of the module.
// The syntax trees of the loaded program are modified in place on a copy of the identifiers'
// names and restored afterwards.
func renameOverlay(p *Prog) (map[string][]byte, int, error) {
	type change struct {
		id  *ast.Ident
		old string
	}
	var changes []change
	defer func() {
		for _, c := range changes {
			c.id.Name = c.old
		}
	}()
	n := 0
	renamed := map[types.Object]bool{}
	should := func(obj types.Object) bool {
		if obj == nil || obj.Pkg() == nil || !inModulePath(obj.Pkg().Path()) || obj.Exported() || obj.Name() == "_" || obj.Name() == "init" || obj.Name() == "main" {
			return false
		}
		switch o := obj.(type) {
		case *types.Var:
			if o.IsField() {
				return !o.Embedded()
			}
			return o.Parent() == o.Pkg().Scope()
		case *types.Func:
			return true
		case *types.TypeName, *types.Const:
			return obj.Parent() == obj.Pkg().Scope()
		}
		return false
	}
	for _, pk := range p.ByPath {
		info := pk.TypesInfo
		apply := func(id *ast.Ident, obj types.Object) {
			if v, ok := obj.(*types.Var); ok {
				obj = v.Origin()
			}
			if f, ok := obj.(*types.Func); ok {
				obj = f.Origin()
			}
			if !should(obj) {
				return
			}
			if !renamed[obj] {
				renamed[obj] = true
				n++
			}
			changes = append(changes, change{id, id.Name})
			id.Name = id.Name + "Zq"
		}
		for id, obj := range info.Defs {
			if obj != nil {
				apply(id, obj)
			}
		}
		for id, obj := range info.Uses {
			apply(id, obj)
		}
	}
	ov := map[string][]byte{}
	for path, f := range moduleFiles(p) {
		if strings.HasSuffix(path, "_test.go") {
			continue
		}
		b, err := render(p.Fset, f)
		if err != nil {
			return nil, 0, err
		}
		ov[path] = b
	}
	return ov, n, nil
}

// rewriteOverlay applies an in-place AST rewrite to every module file, renders it, and undoes it.
func rewriteOverlay(p *Prog, rw func(p *Prog, pkgPath string, f *ast.File) (n int, undo func())) (map[string][]byte, int, error) {
	ov := map[string][]byte{}
	total := 0
	for pkgPath, pk := range p.ByPath {
		for i, f := range pk.Syntax {
			if i >= len(pk.CompiledGoFiles) || strings.HasSuffix(pk.CompiledGoFiles[i], "_test.go") {
				continue
			}
			n, undo := rw(p, pkgPath, f)
			if n > 0 {
				b, err := render(p.Fset, f)
				undo()
				if err != nil {
					return nil, 0, err
				}
				ov[pk.CompiledGoFiles[i]] = b
				total += n
			} else {
				undo()
			}
		}
	}
	return ov, total, nil
}

func swapEqualArgs(p *Prog, pkgPath string, f *ast.File) (int, func()) {
	var calls []*ast.CallExpr
	info := p.ByPath[pkgPath].TypesInfo
	ast.Inspect(f, func(n ast.Node) bool {
		c, ok := n.(*ast.CallExpr)
		if !ok || len(c.Args) != 2 {
			return true
		}
		sel, ok := c.Fun.(*ast.SelectorExpr)
		if !ok || sel.Sel.Name != "Equal" {
			return true
		}
		if fn, ok := info.Uses[sel.Sel].(*types.Func); ok && fn.Pkg() != nil && (fn.Pkg().Path() == "bytes" || fn.Pkg().Path() == "slices") {
			calls = append(calls, c)
		}
		return true
	})
	for _, c := range calls {
		c.Args[0], c.Args[1] = c.Args[1], c.Args[0]
	}
	return len(calls), func() {
		for _, c := range calls {
			c.Args[0], c.Args[1] = c.Args[1], c.Args[0]
		}
	}
}

// identityToErrorsIs rewrites `err == Sentinel` into errors.Is(err, Sentinel) (and != into !errors.Is)
// in files that already import "errors".
func identityToErrorsIs(p *Prog, pkgPath string, f *ast.File) (int, func()) {
	hasErrors := false
	for _, im := range f.Imports {
		if im.Path.Value == `"errors"` && im.Name == nil {
			hasErrors = true
		}
	}
	if !hasErrors {
		return 0, func() {}
	}
	info := p.ByPath[pkgPath].TypesInfo
	type repl struct {
		parent *ast.Node
		set    func(ast.Expr)
		old    ast.Expr
	}
	var undo []func()
	n := 0
	isSentinel := func(e ast.Expr) bool {
		var id *ast.Ident
		switch x := e.(type) {
		case *ast.Ident:
			id = x
		case *ast.SelectorExpr:
			id = x.Sel
		}
		if id == nil {
			return false
		}
		v, ok := info.Uses[id].(*types.Var)
		return ok && v.Pkg() != nil && inModulePath(v.Pkg().Path()) && v.Parent() == v.Pkg().Scope() && isErrType(v.Type())
	}
	mk := func(be *ast.BinaryExpr) ast.Expr {
		errE, sent := be.X, be.Y
		if isSentinel(be.X) {
			errE, sent = be.Y, be.X
		}
		call := &ast.CallExpr{Fun: &ast.SelectorExpr{X: ast.NewIdent("errors"), Sel: ast.NewIdent("Is")}, Args: []ast.Expr{errE, sent}}
		if be.Op == token.NEQ {
			return &ast.UnaryExpr{Op: token.NOT, X: call}
		}
		return call
	}
	match := func(e ast.Expr) (*ast.BinaryExpr, bool) {
		be, ok := e.(*ast.BinaryExpr)
		if !ok || (be.Op != token.EQL && be.Op != token.NEQ) {
			return nil, false
		}
		if !(isSentinel(be.X) != isSentinel(be.Y)) {
			return nil, false
		}
		tv, ok := info.Types[be.X]
		if !ok || !isErrType(tv.Type) {
			return nil, false
		}
		return be, true
	}
	ast.Inspect(f, func(nd ast.Node) bool {
		switch x := nd.(type) {
		case *ast.IfStmt:
			if be, ok := match(x.Cond); ok {
				old := x.Cond
				x.Cond = mk(be)
				undo = append(undo, func() { x.Cond = old })
				n++
			}
		case *ast.BinaryExpr:
			if x.Op == token.LAND || x.Op == token.LOR {
				if be, ok := match(x.X); ok {
					old := x.X
					x.X = mk(be)
					undo = append(undo, func() { x.X = old })
					n++
				}
				if be, ok := match(x.Y); ok {
					old := x.Y
					x.Y = mk(be)
					undo = append(undo, func() { x.Y = old })
					n++
				}
			}
		case *ast.ParenExpr:
			if be, ok := match(x.X); ok {
				old := x.X
				x.X = mk(be)
				undo = append(undo, func() { x.X = old })
				n++
			}
		case *ast.CaseClause:
			for i, e := range x.List {
				if be, ok := match(e); ok {
					i, old := i, e
					x.List[i] = mk(be)
					undo = append(undo, func() { x.List[i] = old })
					n++
				}
			}
		}
		return true
	})
	return n, func() {
		for i := len(undo) - 1; i >= 0; i-- {
			undo[i]()
		}
	}
}

// insertNoops inserts `_ = 0` before every statement of every function body block.
func insertNoops(p *Prog, pkgPath string, f *ast.File) (int, func()) {
	type saved struct {
		b   *ast.BlockStmt
		old []ast.Stmt
	}
	var undo []saved
	n := 0
	ast.Inspect(f, func(nd ast.Node) bool {
		b, ok := nd.(*ast.BlockStmt)
		if !ok || len(b.List) == 0 {
			return true
		}
		switch b.List[0].(type) {
		case *ast.CaseClause, *ast.CommClause:
			return true // the body of a switch / select holds clauses, not statements
		}
		old := b.List
		var nl []ast.Stmt
		for _, st := range old {
			if _, isLabeled := st.(*ast.LabeledStmt); !isLabeled {
				nl = append(nl, &ast.AssignStmt{Lhs: []ast.Expr{ast.NewIdent("_")}, Tok: token.ASSIGN, Rhs: []ast.Expr{&ast.BasicLit{Kind: token.INT, Value: "0"}}})
				n++
			}
			nl = append(nl, st)
		}
		b.List = nl
		undo = append(undo, saved{b, old})
		return true
	})
	return n, func() {
		for _, s := range undo {
			s.b.List = s.old
		}
	}
}

// deleteStatementOverlay removes the innermost statement that starts at file:line (a guard a rule
// reported), producing one overlay file.
func deleteStatementOverlay(p *Prog, guard string) (map[string][]byte, string, error) {
	i := strings.LastIndex(guard, ":")
	if i < 0 {
		return nil, "", fmt.Errorf("bad guard %q", guard)
	}
	line, err := strconv.Atoi(guard[i+1:])
	if err != nil {
		return nil, "", err
	}
	path := filepath.Join(p.Root, guard[:i])
	f := moduleFiles(p)[path]
	if f == nil {
		return nil, "", fmt.Errorf("no file %s", path)
	}
	var target ast.Stmt
	var parent *ast.BlockStmt
	var pidx int
	ast.Inspect(f, func(nd ast.Node) bool {
		b, ok := nd.(*ast.BlockStmt)
		if !ok {
			return true
		}
		for i, st := range b.List {
			if p.Fset.Position(st.Pos()).Line == line {
				switch st.(type) {
				case *ast.ExprStmt, *ast.IfStmt, *ast.AssignStmt, *ast.DeferStmt, *ast.SwitchStmt:
					target, parent, pidx = st, b, i
				}
			}
		}
		return true
	})
	if target == nil {
		return nil, "", fmt.Errorf("no statement at %s", guard)
	}
	// an assignment that defines variables cannot simply be deleted
	if as, ok := target.(*ast.AssignStmt); ok && as.Tok == token.DEFINE {
		return nil, "", fmt.Errorf("statement at %s defines variables", guard)
	}
	// a pure guard (`if cond { ... }` without init/else): make it vacuous instead of deleting its body
	if is, ok := target.(*ast.IfStmt); ok && is.Init == nil && is.Else == nil {
		oldCond := is.Cond
		is.Cond = ast.NewIdent("true")
		b, rerr := render(p.Fset, f)
		is.Cond = oldCond
		if rerr != nil {
			return nil, "", rerr
		}
		return map[string][]byte{path: b}, fmt.Sprintf("replace the condition of the if at %s by true", guard), nil
	}
	old := parent.List
	nl := append(append([]ast.Stmt{}, old[:pidx]...), old[pidx+1:]...)
	parent.List = nl
	b, rerr := render(p.Fset, f)
	parent.List = old
	if rerr != nil {
		return nil, "", rerr
	}
	return map[string][]byte{path: b}, fmt.Sprintf("delete the %T at %s", target, guard), nil
}

var _ = sort.Strings
