package main

import (
	"fmt"
	"go/token"
	"go/types"
	"strings"

	"golang.org/x/tools/go/ssa"
)

// R15 FLOCK-PAIRING (C19)

const flockPkg = "github.com/gofrs/flock"

func flockOp(c *ssa.CallCommon) string {
	nm := calleeName(c)
	pre := "(*" + flockPkg + ".Flock)."
	if strings.HasPrefix(nm, pre) {
		return strings.TrimPrefix(nm, pre)
	}
	return ""
}

func ruleR15(p *Prog) []Ob {
	var obs []Ob
	ea := p.ErrAtomsCached()
	open := p.R.Open
	stored := p.optionsStored("Readonly")
	for _, mode := range []struct {
		ro   bool
		want string
	}{{true, "TryRLock"}, {false, "TryLock"}} {
		assume := Assume{"Readonly": mode.ro}
		ob := Ob{Rule: "R15", Inst: fmt.Sprintf("acquire:Readonly=%v", mode.ro), Props: []string{"C19", "C02"}, Pos: p.posStr(open.Pos()), Func: funcLabel(open), Nontrivial: true}
		if len(stored) > 0 {
			ob.Status, ob.Msg = Undecided, "Options.Readonly is assigned inside the module"
			obs = append(obs, ob)
			continue
		}
		reach := reachableBlocks(open, func(b *ssa.BasicBlock) []*ssa.BasicBlock { return p.prunedSuccs(b, assume) })
		var acq []*ssa.Call
		var bad []string
		for _, b := range open.Blocks {
			if !reach[b] {
				continue
			}
			for _, ins := range b.Instrs {
				c, ok := ins.(*ssa.Call)
				if !ok {
					continue
				}
				switch op := flockOp(c.Common()); op {
				case "":
				case "TryLock", "TryRLock", "Lock", "RLock", "TryLockContext", "TryRLockContext":
					if op != mode.want {
						bad = append(bad, fmt.Sprintf("%s: %s is reachable with Readonly=%v (expected %s only)", p.at(c), op, mode.ro, mode.want))
					} else {
						acq = append(acq, c)
					}
				}
			}
		}
		// the acquisition may sit in a small helper Open hands the lock and the mode to
		var helperCall *ssa.Call
		if len(acq) == 0 {
			for _, b := range open.Blocks {
				if !reach[b] {
					continue
				}
				for _, ins := range b.Instrs {
					c, ok := ins.(*ssa.Call)
					if !ok {
						continue
					}
					g := c.Common().StaticCallee()
					if g == nil || !inModule(g) || g.Blocks == nil || !isErrType(c.Type()) {
						continue
					}
					for _, gb := range g.Blocks {
						for _, gi := range gb.Instrs {
							if gc, ok := gi.(*ssa.Call); ok {
								switch flockOp(gc.Common()) {
								case "TryLock", "TryRLock", "Lock", "RLock", "TryLockContext", "TryRLockContext":
									helperCall = c
								}
							}
						}
					}
				}
			}
		}
		if helperCall != nil {
			hb, ok := p.judgeLockHelper(ea, helperCall, assume, mode.want, mode.ro)
			bad = append(bad, hb...)
			if ok {
				acq = append(acq, helperCall)
			}
		}
		if len(acq) == 0 && helperCall == nil {
			bad = append(bad, fmt.Sprintf("no %s on the directory lock is reachable with Readonly=%v", mode.want, mode.ro))
		}
		succ := func(b *ssa.BasicBlock) []*ssa.BasicBlock { return p.prunedSuccs(b, assume) }
		reachFrom := func(starts []*ssa.BasicBlock, avoid map[*ssa.BasicBlock]bool) map[*ssa.BasicBlock]bool {
			seen := map[*ssa.BasicBlock]bool{}
			work := append([]*ssa.BasicBlock{}, starts...)
			for len(work) > 0 {
				x := work[len(work)-1]
				work = work[:len(work)-1]
				if seen[x] || avoid[x] {
					continue
				}
				seen[x] = true
				work = append(work, succ(x)...)
			}
			return seen
		}
		isSuccess := func(b *ssa.BasicBlock) bool {
			rt, ok := terminator(b).(*ssa.Return)
			return ok && b != open.Recover && !ea.isFailureReturn(open, rt)
		}
		for _, c := range acq {
			ob.Pos = p.at(c)
			// (1) no success return without passing the acquisition
			for b := range reachFrom([]*ssa.BasicBlock{open.Blocks[0]}, map[*ssa.BasicBlock]bool{c.Block(): true}) {
				if isSuccess(b) {
					bad = append(bad, fmt.Sprintf("%s: Open can succeed without having tried to take the directory lock", p.at(terminator(b))))
				}
			}
			// (2) the not-ok and the error outcomes never reach a success return
			okV := okVal(c)
			errV := errResultOfCall(c)
			isHelper := c == helperCall
			if isHelper {
				okV = nil // the helper folds "not obtained" into its error
			}
			var failStarts []*ssa.BasicBlock
			okTested, errTested := false, false
			var cont []*ssa.BasicBlock // where control continues with the lock held
			for b := range reachFrom([]*ssa.BasicBlock{c.Block()}, nil) {
				iff, isIf := terminator(b).(*ssa.If)
				if !isIf {
					continue
				}
				if okV != nil {
					cond, pos := iff.Cond, true
					for {
						u, isU := cond.(*ssa.UnOp)
						if isU && u.Op == token.NOT {
							pos, cond = !pos, u.X
							continue
						}
						break
					}
					if cond == okV {
						okTested = true
						if pos {
							failStarts = append(failStarts, b.Succs[1])
							cont = append(cont, b.Succs[0])
						} else {
							failStarts = append(failStarts, b.Succs[0])
							cont = append(cont, b.Succs[1])
						}
					}
				}
				if errV != nil {
					if t, ok := classifyErrCond(iff.Cond, errV); ok && t.kind == "nil" {
						errTested = true
						if t.trueMeans {
							failStarts = append(failStarts, b.Succs[1])
						} else {
							failStarts = append(failStarts, b.Succs[0])
						}
					}
				}
			}
			if !okTested && !isHelper {
				bad = append(bad, fmt.Sprintf("%s: the ok result of %s is never tested (Open succeeds while someone else holds the lock)", p.at(c), mode.want))
			}
			if isHelper {
				// with the lock held control continues on the nil edge of the helper's error
				for b := range reachFrom([]*ssa.BasicBlock{c.Block()}, nil) {
					if iff, isIf := terminator(b).(*ssa.If); isIf {
						if t, ok := classifyErrCond(iff.Cond, errV); ok && t.kind == "nil" {
							if t.trueMeans {
								cont = append(cont, b.Succs[0])
							} else {
								cont = append(cont, b.Succs[1])
							}
						}
					}
				}
			}
			if !errTested {
				bad = append(bad, fmt.Sprintf("%s: the error result of %s is never tested", p.at(c), mode.want))
			}
			for b := range reachFrom(failStarts, nil) {
				if isSuccess(b) {
					bad = append(bad, fmt.Sprintf("%s: Open can succeed although %s did not obtain the lock", p.at(terminator(b)), mode.want))
				}
			}
			// (3) release on failed open: a deferred conditional Unlock covers every return after the lock was taken
			var lockV ssa.Value = c.Call.Args[0]
			if isHelper {
				for _, a := range c.Call.Args {
					if pt, ok := a.Type().(*types.Pointer); ok {
						if n := namedOf(pt.Elem()); n != nil && n.Obj().Pkg() != nil && n.Obj().Pkg().Path() == flockPkg {
							lockV = a
						}
					}
				}
			}
			var def *ssa.Defer
			for _, b := range open.Blocks {
				for _, ins := range b.Instrs {
					if d, ok := ins.(*ssa.Defer); ok && p.deferredUnlocksOnError(d, lockV, open) {
						def = d
					}
				}
			}
			if def == nil {
				bad = append(bad, "no deferred release of the directory lock, conditional on Open's error result, is registered")
				continue
			}
			ob.Guards = append(ob.Guards, p.at(def))
			// the variable the deferred release tests is the error Open returns: every return behind the
			// defer hands back a load of it (named result), not a value the closure never sees
			if errAlloc := deferredErrAlloc(def); errAlloc != nil {
				ei := errResultIndex(open)
				for b := range reachFrom([]*ssa.BasicBlock{def.Block()}, nil) {
					rt, ok := terminator(b).(*ssa.Return)
					if !ok || b == open.Recover || ei < 0 || ei >= len(rt.Results) {
						continue
					}
					if isNilConst(rt.Results[ei]) {
						continue
					}
					u, isLoad := rt.Results[ei].(*ssa.UnOp)
					if !isLoad || u.Op != token.MUL || u.X != ssa.Value(errAlloc) {
						bad = append(bad, fmt.Sprintf("%s: the error returned here is not the variable the deferred release tests: this failed Open keeps the directory locked", p.at(rt)))
					}
				}
			}
			// blocks reachable with the lock held but without having passed the defer
			held := reachFrom(cont, map[*ssa.BasicBlock]bool{def.Block(): true})
			for b := range held {
				if rt, ok := terminator(b).(*ssa.Return); ok && b != open.Recover {
					bad = append(bad, fmt.Sprintf("%s: a return after the lock was taken is not covered by the deferred release (a failed Open keeps the directory locked)", p.at(rt)))
				}
			}
			// inside the defer's own block: a return cannot precede the defer (a block has one terminator), fine
		}
		if len(bad) > 0 {
			ob.Status, ob.Msg, ob.Path = Violated, "the directory lock is not acquired/released as the open mode requires", uniqStrings(bad)
		} else {
			ob.Status, ob.Msg = Discharged, fmt.Sprintf("only %s is reachable; success requires ok && err == nil; a deferred release conditional on Open's error covers every later return", mode.want)
		}
		obs = append(obs, ob)
	}

	// Close releases the lock on every success path
	cl := p.R.ImplMethods["Close"]
	ob := Ob{Rule: "R15", Inst: "release:Log.Close", Props: []string{"C19"}, Func: funcLabel(cl), Nontrivial: true}
	if cl == nil {
		ob.Pos, ob.Status, ob.Msg = "-", Undecided, "Log.Close not found"
		return append(obs, ob)
	}
	ob.Pos = p.posStr(cl.Pos())
	fl := &bitFlow{p: p, ea: ea, name: "flock.Unlock"}
	fl.effect = func(call ssa.CallInstruction) (bool, bool) {
		c := call.Common()
		if flockOp(c) != "Unlock" || len(c.Args) == 0 {
			return false, false
		}
		f, _ := loadedField(c.Args[0])
		return false, f == p.R.ImplFlock
	}
	fl.solve()
	var bad []string
	for _, ro := range []bool{true, false} {
		if isBad, rets := fl.run(cl, true, Assume{"Readonly": ro}, nil); isBad {
			for _, rt := range rets {
				bad = append(bad, fmt.Sprintf("%s: with Readonly=%v Close can return success without unlocking the directory lock", p.at(rt), ro))
			}
		}
	}
	if len(bad) > 0 {
		ob.Status, ob.Msg, ob.Path = Violated, "Close can succeed while the directory stays locked", bad
	} else {
		ob.Status, ob.Msg = Discharged, "every success return of Close (both modes) is preceded by Unlock of the directory lock"
	}
	return append(obs, ob)
}

func okVal(c *ssa.Call) ssa.Value {
	for _, r := range *c.Referrers() {
		if ex, ok := r.(*ssa.Extract); ok && ex.Index == 0 {
			return ex
		}
	}
	return nil
}

// domByBoolEdge: block b is dominated by the edge on which boolean v has the given value.
func domByBoolEdge(v ssa.Value, val bool, b *ssa.BasicBlock) bool {
	for d := b.Idom(); d != nil; d = d.Idom() {
		iff, ok := terminator(d).(*ssa.If)
		if !ok {
			continue
		}
		cond := iff.Cond
		pos := true
		for {
			u, isU := cond.(*ssa.UnOp)
			if isU && u.Op == token.NOT {
				pos = !pos
				cond = u.X
				continue
			}
			break
		}
		if cond != v {
			continue
		}
		edge := 0
		if pos != val {
			edge = 1
		}
		if edgeDominates(d, edge, b) {
			return true
		}
	}
	return false
}

// deferredUnlocksOnError: the deferred closure calls Unlock on the lock value, only when the
// named error result of the enclosing function is non-nil.
func (p *Prog) deferredUnlocksOnError(d *ssa.Defer, lockV ssa.Value, encl *ssa.Function) bool {
	mc, ok := d.Call.Value.(*ssa.MakeClosure)
	if !ok {
		return false
	}
	fn := mc.Fn.(*ssa.Function)
	// which free variable is the lock, which is the error result
	lockIdx, errIdx := -1, -1
	for i, b := range mc.Bindings {
		if canon(b) == canon(lockV) || b == lockV {
			lockIdx = i
		}
		if al, ok := b.(*ssa.Alloc); ok {
			if pt := al.Type().Underlying(); pt != nil && isErrType(derefPtr(al.Type())) {
				errIdx = i
			}
		}
		// the lock may itself be spilled into an alloc
		if al, ok := b.(*ssa.Alloc); ok {
			for _, st := range allocStores(al) {
				if st.Val == lockV || canon(st.Val) == canon(lockV) {
					lockIdx = i
				}
			}
		}
	}
	if lockIdx < 0 || errIdx < 0 {
		return false
	}
	for _, b := range fn.Blocks {
		for _, ins := range b.Instrs {
			c, ok := ins.(*ssa.Call)
			if !ok || flockOp(c.Common()) != "Unlock" {
				continue
			}
			recv := c.Call.Args[0]
			isLock := recv == fn.FreeVars[lockIdx]
			if u, ok := recv.(*ssa.UnOp); ok && u.X == fn.FreeVars[lockIdx] {
				isLock = true
			}
			if !isLock {
				continue
			}
			// dominated by `*err != nil`
			for dd := b.Idom(); dd != nil; dd = dd.Idom() {
				iff, ok := terminator(dd).(*ssa.If)
				if !ok {
					continue
				}
				bo, ok := iff.Cond.(*ssa.BinOp)
				if !ok || (bo.Op != token.NEQ && bo.Op != token.EQL) {
					continue
				}
				isErrLoad := func(v ssa.Value) bool {
					u, ok := v.(*ssa.UnOp)
					return ok && u.Op == token.MUL && u.X == fn.FreeVars[errIdx]
				}
				if !((isErrLoad(bo.X) && isNilConst(bo.Y)) || (isErrLoad(bo.Y) && isNilConst(bo.X))) {
					continue
				}
				edge := 0
				if bo.Op == token.EQL {
					edge = 1
				}
				if edgeDominates(dd, edge, b) {
					return true
				}
			}
		}
	}
	return false
}

// deferredErrAlloc: the error variable captured by a deferred closure.
func deferredErrAlloc(d *ssa.Defer) *ssa.Alloc {
	mc, ok := d.Call.Value.(*ssa.MakeClosure)
	if !ok {
		return nil
	}
	for _, b := range mc.Bindings {
		if al, ok := b.(*ssa.Alloc); ok && isErrType(derefPtr(al.Type())) {
			return al
		}
	}
	return nil
}

// judgeLockHelper: cs calls a helper g that takes the directory lock. Inside g, with the helper's
// boolean parameters bound to the options they are given at cs, only the wanted operation is
// reachable, its ok and error results are tested, and g returns success only where the lock was
// obtained.
func (p *Prog) judgeLockHelper(ea *ErrAtoms, cs *ssa.Call, assume Assume, want string, ro bool) (bad []string, ok bool) {
	g := cs.Common().StaticCallee()
	bind := map[*ssa.Parameter]string{}
	for i, pr := range g.Params {
		if i < len(cs.Call.Args) {
			if bt, isB := pr.Type().Underlying().(*types.Basic); isB && bt.Kind() == types.Bool {
				if name, neg := p.optionField(cs.Call.Args[i]); name != "" && !neg {
					bind[pr] = name
				}
			}
		}
	}
	succ := func(b *ssa.BasicBlock) []*ssa.BasicBlock {
		iff, isIf := terminator(b).(*ssa.If)
		if !isIf {
			return b.Succs
		}
		cond, pos := iff.Cond, true
		for {
			u, isU := cond.(*ssa.UnOp)
			if !isU || u.Op != token.NOT {
				break
			}
			pos, cond = !pos, u.X
		}
		pr, isP := cond.(*ssa.Parameter)
		if !isP || bind[pr] == "" {
			return p.prunedSuccs(b, assume)
		}
		val, known := assume[bind[pr]]
		if !known {
			return b.Succs
		}
		if val == pos {
			return b.Succs[:1]
		}
		return b.Succs[1:2]
	}
	reachFrom := func(starts []*ssa.BasicBlock, avoid map[*ssa.BasicBlock]bool) map[*ssa.BasicBlock]bool {
		seen := map[*ssa.BasicBlock]bool{}
		work := append([]*ssa.BasicBlock{}, starts...)
		for len(work) > 0 {
			x := work[len(work)-1]
			work = work[:len(work)-1]
			if seen[x] || avoid[x] {
				continue
			}
			seen[x] = true
			work = append(work, succ(x)...)
		}
		return seen
	}
	isSuccess := func(b *ssa.BasicBlock) bool {
		rt, isRt := terminator(b).(*ssa.Return)
		return isRt && b != g.Recover && !ea.isFailureReturn(g, rt)
	}
	reach := reachFrom([]*ssa.BasicBlock{g.Blocks[0]}, nil)
	var acq []*ssa.Call
	for _, b := range g.Blocks {
		if !reach[b] {
			continue
		}
		for _, ins := range b.Instrs {
			c, isC := ins.(*ssa.Call)
			if !isC {
				continue
			}
			switch op := flockOp(c.Common()); op {
			case "TryLock", "TryRLock", "Lock", "RLock", "TryLockContext", "TryRLockContext":
				if op != want {
					bad = append(bad, fmt.Sprintf("%s: %s is reachable in %s with Readonly=%v (expected %s only)", p.at(c), op, funcLabel(g), ro, want))
				} else {
					acq = append(acq, c)
				}
			}
		}
	}
	if len(acq) == 0 {
		bad = append(bad, fmt.Sprintf("no %s on the directory lock is reachable in %s with Readonly=%v", want, funcLabel(g), ro))
		return bad, false
	}
	for _, c := range acq {
		for b := range reachFrom([]*ssa.BasicBlock{g.Blocks[0]}, map[*ssa.BasicBlock]bool{c.Block(): true}) {
			if isSuccess(b) {
				bad = append(bad, fmt.Sprintf("%s: %s can succeed without having tried to take the directory lock", p.at(terminator(b)), funcLabel(g)))
			}
		}
		okV, errV := okVal(c), errResultOfCall(c)
		okTested, errTested := false, false
		var failStarts []*ssa.BasicBlock
		for b := range reachFrom([]*ssa.BasicBlock{c.Block()}, nil) {
			iff, isIf := terminator(b).(*ssa.If)
			if !isIf {
				continue
			}
			cond, pos := iff.Cond, true
			for {
				u, isU := cond.(*ssa.UnOp)
				if !isU || u.Op != token.NOT {
					break
				}
				pos, cond = !pos, u.X
			}
			if okV != nil && cond == okV {
				okTested = true
				if pos {
					failStarts = append(failStarts, b.Succs[1])
				} else {
					failStarts = append(failStarts, b.Succs[0])
				}
			}
			if errV != nil {
				if t, isT := classifyErrCond(iff.Cond, errV); isT && t.kind == "nil" {
					errTested = true
					if t.trueMeans {
						failStarts = append(failStarts, b.Succs[1])
					} else {
						failStarts = append(failStarts, b.Succs[0])
					}
				}
			}
		}
		if !okTested {
			bad = append(bad, fmt.Sprintf("%s: the ok result of %s is never tested (Open succeeds while someone else holds the lock)", p.at(c), want))
		}
		if !errTested {
			bad = append(bad, fmt.Sprintf("%s: the error result of %s is never tested", p.at(c), want))
		}
		for b := range reachFrom(failStarts, nil) {
			if isSuccess(b) {
				bad = append(bad, fmt.Sprintf("%s: %s can succeed although %s did not obtain the lock", p.at(terminator(b)), funcLabel(g), want))
			}
		}
	}
	return bad, true
}
