package main

import (
	"fmt"
	"go/token"
	"go/types"

	"golang.org/x/tools/go/ssa"
)

// R8 KEY-EQUALITY — a hash hit is only a candidate (C09)

func isByteSlice(t types.Type) bool {
	s, ok := t.Underlying().(*types.Slice)
	if !ok {
		return false
	}
	b, ok := s.Elem().Underlying().(*types.Basic)
	return ok && b.Kind() == types.Uint8
}

// keysCall: is the call a lookup of key-hash candidates (the Keys method of the
// index interface / of an index struct, or index.Keys)?
func (p *Prog) isKeysCall(c *ssa.CallCommon) bool {
	if c.IsInvoke() {
		return c.Method.Name() == "Keys" && namedOf(c.Value.Type()) != nil && inModulePath(c.Method.Pkg().Path())
	}
	if f := c.StaticCallee(); f != nil {
		return f == p.pkgFunc(pkgIndex, "Keys")
	}
	return false
}

type keyLookup struct {
	fn        *ssa.Function
	keysCalls []*ssa.Call
	gets      []*ssa.Call // calls of (*message.Reader).Get
	hashParam *ssa.Parameter
	keyParam  *ssa.Parameter
}

func (p *Prog) keyLookups() []*keyLookup {
	var out []*keyLookup
	for _, fn := range p.Funcs {
		if !srcFunc(fn) {
			continue
		}
		kl := &keyLookup{fn: fn}
		for _, b := range fn.Blocks {
			for _, ins := range b.Instrs {
				c, ok := ins.(*ssa.Call)
				if !ok {
					continue
				}
				if p.isKeysCall(c.Common()) {
					kl.keysCalls = append(kl.keysCalls, c)
				}
				if calleeName(c.Common()) == "(*"+pkgMessage+".Reader).Get" {
					kl.gets = append(kl.gets, c)
				}
			}
		}
		if len(kl.keysCalls) == 0 || len(kl.gets) == 0 {
			continue
		}
		// hash parameter: the []byte parameter passed to the Keys call
		for _, kc := range kl.keysCalls {
			args := kc.Call.Args
			for _, a := range args {
				if pr, ok := canon(a).(*ssa.Parameter); ok && isByteSlice(pr.Type()) {
					kl.hashParam = pr
				}
			}
		}
		for _, pr := range fn.Params {
			if isByteSlice(pr.Type()) && pr != kl.hashParam {
				if kl.keyParam == nil {
					kl.keyParam = pr
				} else {
					kl.keyParam = nil // ambiguous
					break
				}
			}
		}
		out = append(out, kl)
	}
	return out
}

// equalityTest: if cond is an equality test of byte slices a and b, return them and
// whether cond being true means equal.
func byteEqualityTest(cond ssa.Value) (a, b ssa.Value, trueMeansEqual, ok bool) {
	pos := true
	for {
		u, isU := cond.(*ssa.UnOp)
		if isU && u.Op == token.NOT {
			pos = !pos
			cond = u.X
			continue
		}
		break
	}
	switch c := cond.(type) {
	case *ssa.Call:
		switch calleeName(c.Common()) {
		case "bytes.Equal", "slices.Equal":
			if len(c.Call.Args) == 2 {
				return c.Call.Args[0], c.Call.Args[1], pos, true
			}
		}
	case *ssa.BinOp:
		if c.Op == token.EQL || c.Op == token.NEQ {
			if call, isC := c.X.(*ssa.Call); isC && calleeName(call.Common()) == "bytes.Compare" {
				if k, isK := constInt(c.Y); isK && k == 0 {
					return call.Call.Args[0], call.Call.Args[1], pos == (c.Op == token.EQL), true
				}
			}
		}
	}
	return nil, nil, false, false
}

func (p *Prog) isKeyFieldOf(v ssa.Value, msg ssa.Value) bool {
	f, base := loadedField(v)
	if f == nil || f.Name() != "Key" || namedOf(base.Type()) != p.R.Message {
		return false
	}
	return canon(base) == canon(msg) || sameAllocLoad(base, msg)
}

// sameAllocLoad: both values denote the same local variable (loads from the same alloc,
// or one is the alloc holding the other).
func sameAllocLoad(a, b ssa.Value) bool {
	al := func(v ssa.Value) *ssa.Alloc {
		if x, ok := v.(*ssa.Alloc); ok {
			return x
		}
		if u, ok := v.(*ssa.UnOp); ok && u.Op == token.MUL {
			if x, ok := u.X.(*ssa.Alloc); ok {
				return x
			}
		}
		return nil
	}
	x, y := al(a), al(b)
	return x != nil && x == y
}

func ruleR8(p *Prog) []Ob {
	var obs []Ob
	ea := p.ErrAtomsCached()
	lookups := p.keyLookups()
	isLookup := map[*ssa.Function]*keyLookup{}
	for _, kl := range lookups {
		isLookup[kl.fn] = kl
	}

	// K1: every whole use of a Get result is dominated by the byte comparison with the caller's key
	for _, kl := range lookups {
		fn := kl.fn
		for gi, get := range kl.gets {
			inst := fmt.Sprintf("K1:%s:get#%d", funcLabel(fn), gi+1)
			ob := Ob{Rule: "R8", Inst: inst, Props: []string{"C09"}, Pos: p.at(get), Func: funcLabel(fn), Nontrivial: true}
			if kl.keyParam == nil {
				ob.Status, ob.Msg = Undecided, "cannot tell which []byte parameter is the caller's key (the one not passed to Keys)"
				obs = append(obs, ob)
				continue
			}
			// the message value: extract #0; possibly spilled into an alloc
			var msgVals []ssa.Value
			for _, ref := range *get.Referrers() {
				if ex, ok := ref.(*ssa.Extract); ok && ex.Index == 0 {
					msgVals = append(msgVals, ex)
				}
			}
			var uses []ssa.Instruction
			var spill []*ssa.Alloc
			for _, mv := range msgVals {
				for _, ref := range *mv.Referrers() {
					switch x := ref.(type) {
					case *ssa.Field, *ssa.DebugRef:
					case *ssa.Store:
						if al, ok := x.Addr.(*ssa.Alloc); ok && x.Val == mv && namedOf(al.Type()) == p.R.Message && !isResultAlloc(fn, al) && !isVarargsAlloc(al) {
							spill = append(spill, al) // local variable `msg`
						} else {
							uses = append(uses, x)
						}
					default:
						uses = append(uses, ref)
					}
				}
			}
			for _, al := range spill {
				for _, ref := range *al.Referrers() {
					switch x := ref.(type) {
					case *ssa.FieldAddr, *ssa.DebugRef:
					case *ssa.Store:
						if x.Addr != al {
							uses = append(uses, x)
						}
					case *ssa.UnOp:
						// whole load: its uses are whole uses
						for _, r2 := range *x.Referrers() {
							if _, isF := r2.(*ssa.Field); !isF {
								uses = append(uses, r2)
							}
						}
					default:
						uses = append(uses, ref)
					}
				}
			}
			msgAny := func(v ssa.Value) bool {
				for _, mv := range msgVals {
					if p.isKeyFieldOf(v, mv) {
						return true
					}
				}
				for _, al := range spill {
					if f, base := loadedField(v); f != nil && f.Name() == "Key" && rootValue(base) == al {
						return true
					}
				}
				return false
			}
			guarded := func(at ssa.Instruction) bool {
				b := at.Block()
				for d := b.Idom(); d != nil; d = d.Idom() {
					iff, ok := terminator(d).(*ssa.If)
					if !ok {
						continue
					}
					x, y, trueEq, ok := byteEqualityTest(iff.Cond)
					if !ok {
						continue
					}
					okArgs := (canon(x) == kl.keyParam && msgAny(y)) || (canon(y) == kl.keyParam && msgAny(x))
					if !okArgs {
						continue
					}
					edge := 0
					if !trueEq {
						edge = 1
					}
					if edgeDominates(d, edge, b) {
						ob.Guards = append(ob.Guards, p.at(iff))
						return true
					}
				}
				return false
			}
			var bad []string
			for _, u := range uses {
				if !guarded(u) {
					bad = append(bad, fmt.Sprintf("%s: the message read from a hash candidate is used (%T) without a dominating byte comparison of its key with the caller's key", p.at(u), u))
				}
			}
			switch {
			case len(msgVals) == 0:
				ob.Status, ob.Msg = Undecided, "result of Get not found"
			case len(bad) > 0:
				ob.Status, ob.Msg, ob.Path = Violated, "a hash-index candidate can be returned/collected without comparing its key bytes with the requested key (colliding keys would be confused)", bad
			default:
				ob.Status, ob.Msg = Discharged, fmt.Sprintf("%d use(s) of the candidate message, all dominated by the equal edge of a byte comparison between the key parameter and the candidate's Key", len(uses))
			}
			obs = append(obs, ob)
		}
	}

	// K1b: callers hand the lookup the caller's own key and the hash derived from that key
	keyHash, keyHashEnc := p.pkgFunc(pkgIndex, "KeyHash"), p.pkgFunc(pkgIndex, "KeyHashEncoded")
	for _, fn := range p.Funcs {
		if !srcFunc(fn) {
			continue
		}
		for _, b := range fn.Blocks {
			for _, ins := range b.Instrs {
				c, ok := ins.(*ssa.Call)
				if !ok {
					continue
				}
				for _, g := range p.callees(c) {
					kl := isLookup[g]
					if kl == nil || kl.keyParam == nil || kl.hashParam == nil {
						continue
					}
					ob := Ob{Rule: "R8", Inst: fmt.Sprintf("K1b:%s->%s", funcLabel(fn), funcLabel(g)), Props: []string{"C09"}, Pos: p.at(ins), Func: funcLabel(fn), Nontrivial: true}
					ki, hi := paramIdx(g, kl.keyParam), paramIdx(g, kl.hashParam)
					keyArg, hashArg := canon(c.Call.Args[ki]), canon(c.Call.Args[hi])
					_, keyIsParam := keyArg.(*ssa.Parameter)
					okHash := false
					if hc, ok := hashArg.(*ssa.Call); ok && hc.Common().StaticCallee() == keyHashEnc && keyHashEnc != nil {
						if kc, ok := canon(hc.Call.Args[0]).(*ssa.Call); ok && kc.Common().StaticCallee() == keyHash && keyHash != nil {
							okHash = canon(kc.Call.Args[0]) == keyArg
						}
					}
					switch {
					case !keyIsParam:
						ob.Status, ob.Msg = Violated, "the key handed to the segment lookup is not the caller's own key parameter"
					case !okHash:
						ob.Status, ob.Msg = Violated, "the hash handed to the segment lookup is not index.KeyHashEncoded(index.KeyHash(key)) of the same key"
					default:
						ob.Status, ob.Msg = Discharged, "key argument is the API parameter; hash argument is KeyHashEncoded(KeyHash(key)) of it"
					}
					obs = append(obs, ob)
				}
			}
		}
	}

	// K2: item list and key tree grow together
	obs = append(obs, p.k2Obligations()...)

	// K3: first-hit loops run newest-first
	hitCall := func(c *ssa.Call) bool {
		if calleeName(c.Common()) == "(*"+pkgMessage+".Reader).Get" {
			return true
		}
		for _, g := range p.callees(c) {
			if isLookup[g] != nil {
				return true
			}
		}
		return false
	}
	for _, fn := range p.Funcs {
		if !srcFunc(fn) {
			continue
		}
		reachesLookup := isLookup[fn] != nil
		if !reachesLookup {
			for _, b := range fn.Blocks {
				for _, ins := range b.Instrs {
					if c, ok := ins.(*ssa.Call); ok {
						for _, g := range p.callees(c) {
							if isLookup[g] != nil {
								reachesLookup = true
							}
						}
					}
				}
			}
		}
		if !reachesLookup {
			continue
		}
		for _, rt := range returnsOf(fn) {
			if len(rt.Results) == 0 || namedOf(rt.Results[0].Type()) != p.R.Message || ea.isFailureReturn(fn, rt) {
				continue
			}
			v := canon(returnOperand(rt, 0))
			ex, ok := v.(*ssa.Extract)
			if !ok {
				continue
			}
			c, ok := ex.Tuple.(*ssa.Call)
			if !ok || !hitCall(c) {
				continue
			}
			// is the return inside a loop?
			h := enclosingLoopHeader(rt.Block())
			if h == nil {
				continue
			}
			ob := Ob{Rule: "R8", Inst: fmt.Sprintf("K3:%s:first-hit-loop", funcLabel(fn)), Props: []string{"C09"}, Pos: p.at(rt), Func: funcLabel(fn), Nontrivial: true}
			switch loopDirection(h) {
			case -1:
				ob.Status, ob.Msg = Discharged, "the loop that returns at the first hit runs from len(x)-1 downwards (newest first)"
			case +1:
				ob.Status, ob.Msg = Violated, "the loop returns at the first hit but iterates upwards: over ascending offsets it returns the oldest match, not the newest"
			default:
				ob.Status, ob.Msg = Undecided, "cannot determine the direction of the loop that returns at the first hit"
			}
			obs = append(obs, ob)
		}
	}
	obs = append(obs, p.lookupExtraObligations(lookups)...)
	obs = append(obs, p.keyHashObligation())
	return dedupObs(obs)
}

func paramIdx(fn *ssa.Function, pr *ssa.Parameter) int {
	for i, q := range fn.Params {
		if q == pr {
			return i
		}
	}
	return -1
}

func isResultAlloc(fn *ssa.Function, al *ssa.Alloc) bool {
	// result allocs of functions with defer: loaded in the return blocks
	for _, ref := range *al.Referrers() {
		if u, ok := ref.(*ssa.UnOp); ok {
			for _, r2 := range *u.Referrers() {
				if _, isRet := r2.(*ssa.Return); isRet {
					return true
				}
			}
		}
	}
	return false
}

func isVarargsAlloc(al *ssa.Alloc) bool {
	return al.Comment == "varargs"
}

// enclosingLoopHeader returns the innermost loop header whose natural loop
// contains a predecessor path to b (b is an exit taken from inside the loop body).
func enclosingLoopHeader(b *ssa.BasicBlock) *ssa.BasicBlock {
	fn := b.Parent()
	var best *ssa.BasicBlock
	for _, h := range fn.Blocks {
		var loop map[*ssa.BasicBlock]bool
		for _, pr := range h.Preds {
			if h.Dominates(pr) { // back edge pr -> h
				if loop == nil {
					loop = map[*ssa.BasicBlock]bool{h: true}
				}
				// natural loop: nodes that reach pr without passing h
				work := []*ssa.BasicBlock{pr}
				for len(work) > 0 {
					x := work[len(work)-1]
					work = work[:len(work)-1]
					if loop[x] {
						continue
					}
					loop[x] = true
					work = append(work, x.Preds...)
				}
			}
		}
		if loop == nil {
			continue
		}
		// b is "inside" if it is in the loop, or all its entry paths come from loop body blocks other than the header's exit edge
		inside := loop[b]
		if !inside && h.Dominates(b) {
			// walk back through single-pred chains
			x := b
			for hops := 0; hops < 16 && !inside; hops++ {
				if len(x.Preds) != 1 {
					break
				}
				x = x.Preds[0]
				if loop[x] && x != h {
					inside = true
				}
				if x == h {
					break
				}
			}
		}
		if inside && (best == nil || best.Dominates(h)) {
			best = h
		}
	}
	return best
}

// loopDirection: -1 descending from len(x)-1, +1 ascending, 0 unknown.
func loopDirection(h *ssa.BasicBlock) int {
	for _, ins := range h.Instrs {
		phi, ok := ins.(*ssa.Phi)
		if !ok {
			break
		}
		if b, ok := phi.Type().Underlying().(*types.Basic); !ok || b.Info()&types.IsInteger == 0 {
			continue
		}
		dir := 0
		var init ssa.Value
		for i, e := range phi.Edges {
			pred := h.Preds[i]
			if h.Dominates(pred) { // back edge
				if bo, ok := e.(*ssa.BinOp); ok && (bo.X == phi) {
					k, isK := constInt(bo.Y)
					if isK && ((bo.Op == token.SUB && k == 1) || (bo.Op == token.ADD && k == -1)) {
						dir = -1
					}
					if isK && ((bo.Op == token.ADD && k == 1) || (bo.Op == token.SUB && k == -1)) {
						dir = +1
					}
				}
			} else {
				init = e
			}
		}
		if dir == +1 {
			return +1
		}
		if dir == -1 {
			// init must be len(x) - 1
			if bo, ok := init.(*ssa.BinOp); ok && bo.Op == token.SUB {
				if k, isK := constInt(bo.Y); isK && k == 1 {
					if c, isC := bo.X.(*ssa.Call); isC && isBuiltinCall(c.Common(), "len") {
						return -1
					}
				}
			}
			return 0
		}
	}
	return 0
}

func (p *Prog) k2Obligations() []Ob {
	var obs []Ob
	appendKeys := p.pkgFunc(pkgIndex, "AppendKeys")
	isTree := func(t types.Type) bool {
		n := namedOf(t)
		return n != nil && n.Obj().Pkg() != nil && n.Obj().Pkg().Path() == "github.com/plar/go-adaptive-radix-tree/v2" && n.Obj().Name() == "Tree"
	}
	isItems := func(t types.Type) bool {
		sl, ok := t.(*types.Slice)
		return ok && typeIs(sl.Elem(), pkgIndex, "Item")
	}
	for _, n := range []*types.Named{p.R.HeadIndex, p.R.ReaderIndex} {
		if n == nil {
			continue
		}
		s := structOf(n)
		items := fieldsOfType(s, isItems)
		trees := fieldsOfType(s, isTree)
		if len(items) != 1 || len(trees) != 1 {
			obs = append(obs, Ob{Rule: "R8", Inst: "K2:" + typeName(n), Props: []string{"C09"}, Pos: "-", Status: Undecided, Msg: "index struct does not have exactly one item slice and one key tree"})
			continue
		}
		itemsF, treeF := items[0], trees[0]
		for _, fn := range p.Funcs {
			if !srcFunc(fn) {
				continue
			}
			for _, b := range fn.Blocks {
				for _, ins := range b.Instrs {
					st, ok := ins.(*ssa.Store)
					if !ok {
						continue
					}
					fa, ok := st.Addr.(*ssa.FieldAddr)
					if !ok || fieldVarOfAddr(fa) != itemsF {
						continue
					}
					if underConstruction(fa) {
						// constructor: the key tree stored in the same literal must be nil or filled from the same items
						ob := Ob{Rule: "R8", Inst: fmt.Sprintf("K2:construct:%s:%s", typeName(n), funcLabel(fn)), Props: []string{"C09"}, Pos: p.at(ins), Func: funcLabel(fn), Nontrivial: true}
						var treeVal ssa.Value
						for _, ref := range *fa.X.Referrers() {
							if fa2, ok := ref.(*ssa.FieldAddr); ok && fieldVarOfAddr(fa2) == treeF {
								for _, r3 := range *fa2.Referrers() {
									if st2, ok := r3.(*ssa.Store); ok && st2.Addr == fa2 {
										treeVal = st2.Val
									}
								}
							}
						}
						ob.Status, ob.Msg = p.k2Construct(fn, st.Val, treeVal, itemsF, treeF, appendKeys)
						obs = append(obs, ob)
						continue
					}
					// growth: every path from the store to a return calls AppendKeys(tree, items) unless the tree is nil
					ob := Ob{Rule: "R8", Inst: fmt.Sprintf("K2:grow:%s:%s", typeName(n), funcLabel(fn)), Props: []string{"C09"}, Pos: p.at(ins), Func: funcLabel(fn), Nontrivial: true}
					appended := appendedSlice(st.Val)
					okAll, why := p.k2Paths(st, fa.X, appended, treeF, appendKeys)
					if okAll {
						ob.Status, ob.Msg = Discharged, "every path after the item list grows calls index.AppendKeys(keys, items) with the same items, unless the tree is nil"
					} else {
						ob.Status, ob.Msg = Violated, "the item list grows without the key tree being updated with the same items: "+why
					}
					obs = append(obs, ob)
				}
			}
		}
	}
	return obs
}

// appendedSlice: for `x = append(x, ys...)` return ys.
func appendedSlice(v ssa.Value) ssa.Value {
	if c, ok := v.(*ssa.Call); ok && isBuiltinCall(c.Common(), "append") && len(c.Call.Args) == 2 {
		return c.Call.Args[1]
	}
	return nil
}

func (p *Prog) k2Construct(fn *ssa.Function, itemsVal, treeVal ssa.Value, itemsF, treeF *types.Var, appendKeys *ssa.Function) (Status, string) {
	if treeVal == nil {
		return Violated, "the index is constructed with items but its key tree field is not initialised in the same literal"
	}
	// copied together from another index
	if f1, b1 := loadedField(itemsVal); f1 != nil {
		if f2, b2 := loadedField(treeVal); f2 != nil && b1 == b2 && isItemsTreePair(f1, f2) {
			return Discharged, "items and key tree are copied together from an index that keeps them in step"
		}
	}
	var cands []ssa.Value
	if phi, ok := treeVal.(*ssa.Phi); ok {
		cands = append(cands, phi.Edges...)
	} else {
		cands = append(cands, treeVal)
	}
	for _, cv := range cands {
		if isNilConst(cv) {
			continue
		}
		found := false
		for _, b := range fn.Blocks {
			for _, ins := range b.Instrs {
				c, ok := ins.(*ssa.Call)
				if !ok || c.Common().StaticCallee() != appendKeys || appendKeys == nil {
					continue
				}
				if canon(c.Call.Args[0]) == canon(cv) && canon(c.Call.Args[1]) == canon(itemsVal) {
					found = true
				}
			}
		}
		if !found {
			return Violated, "the key tree of a new index is not filled from the items it is constructed with (index.AppendKeys(keys, items) missing)"
		}
	}
	return Discharged, "the key tree is nil or filled by index.AppendKeys from the same items"
}

func isItemsTreePair(a, b *types.Var) bool {
	_, isSl := a.Type().(*types.Slice)
	return isSl && namedOf(b.Type()) != nil && namedOf(b.Type()).Obj().Name() == "Tree"
}

func (p *Prog) k2Paths(st *ssa.Store, base ssa.Value, appended ssa.Value, treeF *types.Var, appendKeys *ssa.Function) (bool, string) {
	if appended == nil {
		return false, "the stored value is not append(items, new...)"
	}
	isTreeLoad := func(v ssa.Value) bool {
		f, b := loadedField(v)
		return f == treeF && b == base
	}
	type state struct {
		b   *ssa.BasicBlock
		idx int
	}
	seen := map[*ssa.BasicBlock]bool{}
	var walk func(b *ssa.BasicBlock, from int) (bool, string)
	walk = func(b *ssa.BasicBlock, from int) (bool, string) {
		for i := from; i < len(b.Instrs); i++ {
			switch x := b.Instrs[i].(type) {
			case *ssa.Call:
				if appendKeys != nil && x.Common().StaticCallee() == appendKeys && isTreeLoad(x.Call.Args[0]) && canon(x.Call.Args[1]) == canon(appended) {
					return true, ""
				}
			case *ssa.Return:
				return false, "return at " + p.at(x) + " reached without index.AppendKeys"
			case *ssa.If:
				// `keys != nil` : the nil edge is exempt
				if bo, ok := x.Cond.(*ssa.BinOp); ok && (bo.Op == token.NEQ || bo.Op == token.EQL) {
					var other ssa.Value
					if isTreeLoad(bo.X) {
						other = bo.Y
					} else if isTreeLoad(bo.Y) {
						other = bo.X
					}
					if other != nil && isNilConst(other) {
						nonNil := 0
						if bo.Op == token.EQL {
							nonNil = 1
						}
						s := b.Succs[nonNil]
						if seen[s] {
							return true, ""
						}
						seen[s] = true
						return walk(s, 0)
					}
				}
			}
		}
		for _, s := range b.Succs {
			if seen[s] {
				continue
			}
			seen[s] = true
			if ok, why := walk(s, 0); !ok {
				return false, why
			}
		}
		return true, ""
	}
	// start after the store
	b := st.Block()
	for i, ins := range b.Instrs {
		if ins == st {
			return walk(b, i+1)
		}
	}
	return false, "store not found"
}
