package main

import (
	"fmt"
)

func dbgTarget(p *Prog) {
	for fn, m := range p.targetParams() {
		fmt.Println("TP", funcLabel(fn), m)
	}
}

func dbgLayout(p *Prog) {
	all := append(append(append(p.R.RecEncoders, p.R.RecDecoders...), p.R.ItemEncoders...), p.pkgFunc(pkgIndex, "Read"))
	for _, fn := range all {
		fmt.Println("==", funcLabel(fn))
		for _, r := range p.extractLayout(fn).rows {
			fmt.Printf("   %-8s %-28s @%-22s w=%d  %s\n", r.Op, r.Buf, r.Off, r.W, r.What)
		}
	}
}
