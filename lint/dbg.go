package main

import "fmt"

func dbgTarget(p *Prog) {
	for fn, m := range p.targetParams() {
		fmt.Println("TP", funcLabel(fn), m)
	}
}
