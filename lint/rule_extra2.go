package main

import (
	"fmt"
	"go/token"
	"go/types"
	"sort"
	"strings"

	"golang.org/x/tools/go/ssa"
)

// More rules from the seeded rounds (DESIGN.md section 9).

// ---------------------------------------------------------------------------
// R24 USE-AFTER-ERROR: a non-error result of a module call is not used on a path on which the
// call's error is known to be non-nil, when that path can still end in a success return.
// (The callee returns placeholder constants such as -1 / nil / the zero value next to its errors.)

var methodPropsAll = map[string][]string{
	"Consume": {"C03"}, "Get": {"C04"}, "GetByKey": {"C09"}, "OffsetByKey": {"C09"}, "ConsumeByKey": {"C09"},
	"GetByTime": {"C10"}, "OffsetByTime": {"C10"}, "Delete": {"C12"}, "Stat": {"C13"}, "Publish": {"C01", "C02"},
	"Backup": {"C20"}, "NextOffset": {"C02"}, "Sync": {"C06"}, "Close": {"C06"}, "GC": {"C08"},
}

func (p *Prog) propsForFuncAll(fn *ssa.Function) []string {
	set := map[string]bool{}
	for f := fn; f != nil; f = f.Parent() {
		for m := range p.apiReach()[f] {
			for _, pr := range methodPropsAll[m] {
				set[pr] = true
			}
		}
	}
	if p.reaches(p.R.Open, func(g *ssa.Function) bool { return g == fn }) {
		set["C01"] = true
	}
	for _, nm := range []string{"Check", "Recover"} {
		if m := p.methodOf(p.R.Segment, nm); m != nil && (m == fn || p.reaches(m, func(g *ssa.Function) bool { return g == fn })) {
			set["C07"] = true
		}
	}
	if len(set) == 0 {
		set["C07"] = true // package-level maintenance entry points (Check / Recover / Stat / Migrate dirs)
	}
	return sortedKeys(set)
}

// failureConstResults: result indices of g that are placeholder constants on every failure return.
func (p *Prog) failureConstResults(g *ssa.Function, ea *ErrAtoms) map[int]bool {
	out := map[int]bool{}
	ei := errResultIndex(g)
	if ei < 0 {
		return out
	}
	res := g.Signature.Results()
	for j := 0; j < res.Len(); j++ {
		if j == ei {
			continue
		}
		all, n := true, 0
		for _, rt := range returnsOf(g) {
			if !ea.isFailureReturn(g, rt) {
				continue
			}
			n++
			v := returnOperand(rt, j)
			switch x := v.(type) {
			case *ssa.Const:
			case *ssa.UnOp:
				if _, isG := x.X.(*ssa.Global); !isG {
					all = false
				}
			default:
				// a zero-valued composite (Stats{}) is an alloc load; accept allocs that are never stored
				all = false
				if u, ok := v.(*ssa.UnOp); ok {
					if al, ok := u.X.(*ssa.Alloc); ok && len(allocStores(al)) == 0 {
						all = true
					}
				}
			}
		}
		if all && n > 0 {
			out[j] = true
		}
	}
	return out
}

func ruleR24(p *Prog) []Ob {
	var obs []Ob
	ea := p.ErrAtomsCached()
	nSites := 0
	for _, fn := range p.Funcs {
		if !srcFunc(fn) {
			continue
		}
		for _, b := range fn.Blocks {
			for _, ins := range b.Instrs {
				c, ok := ins.(*ssa.Call)
				if !ok {
					continue
				}
				g := c.Common().StaticCallee()
				if g == nil || !inModule(g) || g.Blocks == nil {
					continue
				}
				errv := errResultOfCall(c)
				if errv == nil || c.Referrers() == nil {
					continue
				}
				consts := p.failureConstResults(g, ea)
				if len(consts) == 0 {
					continue
				}
				// blocks where the error is known non-nil
				var errStarts []*ssa.BasicBlock
				for _, tb := range fn.Blocks {
					iff, ok := terminator(tb).(*ssa.If)
					if !ok {
						continue
					}
					t, ok := classifyErrCond(iff.Cond, errv)
					if !ok {
						continue
					}
					switch t.kind {
					case "nil":
						if t.trueMeans {
							errStarts = append(errStarts, tb.Succs[1])
						} else {
							errStarts = append(errStarts, tb.Succs[0])
						}
					case "is", "eq":
						if t.trueMeans {
							errStarts = append(errStarts, tb.Succs[0])
						} else {
							errStarts = append(errStarts, tb.Succs[1])
						}
					}
				}
				if len(errStarts) == 0 {
					continue
				}
				inErr := map[*ssa.BasicBlock]bool{}
				work := append([]*ssa.BasicBlock{}, errStarts...)
				for len(work) > 0 {
					x := work[len(work)-1]
					work = work[:len(work)-1]
					if inErr[x] || x == c.Block() {
						continue
					}
					inErr[x] = true
					work = append(work, x.Succs...)
				}
				// can a block reach a success return?
				reachSuccess := func(from *ssa.BasicBlock) bool {
					for x := range reachableFrom(from) {
						if rt, ok := terminator(x).(*ssa.Return); ok && x != fn.Recover && !ea.isFailureReturn(fn, rt) {
							return true
						}
					}
					return false
				}
				for _, rf := range *c.Referrers() {
					ex, ok := rf.(*ssa.Extract)
					if !ok || !consts[ex.Index] || ex.Referrers() == nil {
						continue
					}
					nSites++
					var bad []string
					for _, use := range *ex.Referrers() {
						ub := use.Block()
						if ub == nil {
							continue
						}
						switch u := use.(type) {
						case *ssa.DebugRef:
							continue
						case *ssa.Phi:
							// only the incoming edges that come from the error region count
							for i, e := range u.Edges {
								if e == ssa.Value(ex) && inErr[ub.Preds[i]] && reachSuccess(ub) {
									bad = append(bad, fmt.Sprintf("%s: flows on from the error path into later code", p.at(u)))
								}
							}
							continue
						case *ssa.Return:
							if ea.isFailureReturn(fn, u) {
								continue // handed back together with the error
							}
							if ei := errResultIndex(fn); ei >= 0 && ei < len(u.Results) && derivesFromErr(returnOperand(u, ei), errv, 0) {
								continue // returned next to the call's own error: on the failed path this is a failure return
							}
						case *ssa.Store:
							// spilled into a result slot that is returned with the error
							if al, ok := u.Addr.(*ssa.Alloc); ok && isResultAlloc(fn, al) {
								if rt, ok := terminator(ub).(*ssa.Return); ok {
									if ea.isFailureReturn(fn, rt) {
										continue
									}
									if ei := errResultIndex(fn); ei >= 0 && derivesFromErr(returnOperand(rt, ei), errv, 0) {
										continue
									}
								}
							}
						}
						if inErr[ub] && reachSuccess(ub) {
							bad = append(bad, fmt.Sprintf("%s: result #%d of %s is used although the call failed (it holds the callee's placeholder, not data)", p.at(use), ex.Index, funcLabel(g)))
						}
					}
					if len(bad) == 0 {
						continue
					}
					sort.Strings(bad)
					obs = append(obs, Ob{Rule: "R24", Inst: fmt.Sprintf("use-after-error:%s<-%s#%d", funcLabel(fn), funcLabel(g), ex.Index), Props: p.propsForFuncAll(fn), Pos: p.at(c), Func: funcLabel(fn),
						Status: Violated, Nontrivial: true, Msg: "a placeholder result of a failed call reaches a successful answer", Path: uniqStrings(bad)})
				}
			}
		}
	}
	all := []string{"C01", "C02", "C03", "C04", "C06", "C07", "C08", "C09", "C10", "C12", "C13", "C20"}
	if nSites == 0 {
		obs = append(obs, Ob{Rule: "R24", Inst: "sites", Props: all, Pos: "-", Status: Undecided, Msg: "no call of a module function with placeholder failure results found"})
	} else {
		obs = append(obs, Ob{Rule: "R24", Inst: "summary", Props: all, Pos: "-", Status: Discharged, Nontrivial: true,
			Msg: fmt.Sprintf("%d result values of module calls whose failure returns are placeholders: none is used on a path where the call is known to have failed and that can still succeed (violations, if any, are listed separately)", nSites)})
	}
	return obs
}

// ---------------------------------------------------------------------------
// R17f TAIL-SURVIVED: the successor of a rewritten head may only be opened on the segment that
// holds the survivors if the head's last message survived; otherwise it must be a fresh segment
// named after the next offset (R17e), or NextOffset moves backwards.
func (p *Prog) tailSurvivedObligations() []Ob {
	var obs []Ob
	r := p.R
	sum := p.nextOffsetSummary()
	for _, fn := range p.Funcs {
		if !srcFunc(fn) || recvNamed(fn) != r.HeadWriter {
			continue
		}
		var rs *ssa.Parameter
		for _, pr := range fn.Params {
			if _, ptr := pr.Type().(*types.Pointer); ptr && namedOf(pr.Type()) == r.RewriteSegment {
				rs = pr
			}
		}
		if rs == nil {
			continue
		}
		// the constructor of a head writer: the function whose result type is *HeadWriter
		n := 0
		for _, b := range fn.Blocks {
			for _, ins := range b.Instrs {
				c, ok := ins.(*ssa.Call)
				if !ok {
					continue
				}
				g := c.Common().StaticCallee()
				if g == nil || g.Signature.Results().Len() == 0 || namedOf(g.Signature.Results().At(0).Type()) != r.HeadWriter || g.Signature.Recv() != nil {
					continue
				}
				// which segment is it opened on?
				var segArg ssa.Value
				for _, a := range c.Call.Args {
					if namedOf(a.Type()) == r.Segment {
						segArg = a
					}
				}
				if segArg == nil {
					continue
				}
				if nc, ok := canon(segArg).(*ssa.Call); ok {
					nm := calleeName(nc.Common())
					if (nm == "("+pkgSegment+".Segment).NewAt" || nm == pkgSegment+".New") && len(nc.Call.Args) > 1 && p.isNextOffsetValue(nc.Call.Args[1], sum) {
						continue // fresh segment named after the next offset
					}
				}
				n++
				ob := Ob{Rule: "R17", Inst: fmt.Sprintf("f:tail-survived:%s#%d", funcLabel(fn), n), Props: []string{"C02", "C01"}, Pos: p.at(c), Func: funcLabel(fn), Nontrivial: true}
				if p.dominatedByTailSurvived(b, rs) {
					ob.Status, ob.Msg = Discharged, "the head continues in the segment holding the survivors only on the edge where the last deleted offset is not the head's last offset"
				} else {
					ob.Status, ob.Msg = Violated, "after a delete in the head, writing continues in the segment that holds the survivors without checking that the head's last message survived: if it was deleted too, the next offset is re-derived from the last survivor and moves backwards (offsets are reused)"
				}
				obs = append(obs, ob)
			}
		}
	}
	return obs
}

// dominatedByTailSurvived: b is dominated by the not-equal edge of
// rs.DeletedMessages[len-1].Offset == <live last offset of the head index>.
func (p *Prog) dominatedByTailSurvived(b *ssa.BasicBlock, rs ssa.Value) bool {
	isLastDeleted := func(v ssa.Value) bool {
		f, base := loadedField(v)
		if f == nil || f.Name() != "Offset" {
			return false
		}
		ia, ok := base.(*ssa.IndexAddr)
		if !ok {
			return false
		}
		df, dbase := loadedField(ia.X)
		return df != nil && df.Name() == "DeletedMessages" && canon(dbase) == rs
	}
	isLiveLast := func(v ssa.Value) bool {
		c, ok := v.(*ssa.Call)
		if !ok {
			return false
		}
		for _, g := range p.callees(c) {
			if recvNamed(g) != p.R.HeadIndex {
				return false
			}
			okRet := false
			for _, rt := range returnsOf(g) {
				f, base := loadedField(returnOperand(rt, 0))
				if f != nil && f.Name() == "Offset" {
					if ia, ok := base.(*ssa.IndexAddr); ok {
						if lf, _ := loadedField(ia.X); lf == p.R.HIItems {
							okRet = true
						}
					}
				}
			}
			if !okRet {
				return false
			}
		}
		return true
	}
	for d := b.Idom(); d != nil; d = d.Idom() {
		iff, ok := terminator(d).(*ssa.If)
		if !ok {
			continue
		}
		bo, ok := iff.Cond.(*ssa.BinOp)
		if !ok || (bo.Op != token.EQL && bo.Op != token.NEQ) {
			continue
		}
		if !((isLastDeleted(bo.X) && isLiveLast(bo.Y)) || (isLastDeleted(bo.Y) && isLiveLast(bo.X))) {
			continue
		}
		edge := 1
		if bo.Op == token.NEQ {
			edge = 0
		}
		if edgeDominates(d, edge, b) {
			return true
		}
	}
	return false
}

// ---------------------------------------------------------------------------
// R13b: Find adopts every file that carries the log suffix.
func (p *Prog) findAdoptsAll() Ob {
	ob := Ob{Rule: "R13", Inst: "find-adopts-every-log", Props: []string{"C02", "C01", "C20", "C05", "C06"}, Pos: "-", Func: "segment.Find", Nontrivial: true}
	fn := p.pkgFunc(pkgSegment, "Find")
	if fn == nil {
		ob.Status, ob.Msg = Undecided, "segment.Find not found"
		return ob
	}
	ob.Pos = p.posStr(fn.Pos())
	ea := p.ErrAtomsCached()
	// the suffix test
	var test *ssa.If
	okEdge := 0
	for _, b := range fn.Blocks {
		iff, ok := terminator(b).(*ssa.If)
		if !ok {
			continue
		}
		cond := iff.Cond
		pos := true
		for {
			u, isU := cond.(*ssa.UnOp)
			if isU && u.Op == token.NOT {
				pos, cond = !pos, u.X
				continue
			}
			break
		}
		var call *ssa.Call
		if ex, ok := cond.(*ssa.Extract); ok {
			call, _ = ex.Tuple.(*ssa.Call)
		} else {
			call, _ = cond.(*ssa.Call)
		}
		// filepath.Ext(name) == ".log" (also as a switch case)
		if bo, ok := cond.(*ssa.BinOp); ok && (bo.Op == token.EQL || bo.Op == token.NEQ) {
			for _, pair := range [][2]ssa.Value{{bo.X, bo.Y}, {bo.Y, bo.X}} {
				if ec, ok := pair[0].(*ssa.Call); ok && calleeName(ec.Common()) == "path/filepath.Ext" {
					if k, ok := constString(pair[1]); ok && k == ".log" {
						test = iff
						okEdge = 0
						if (bo.Op == token.NEQ) == pos {
							okEdge = 1
						}
					}
				}
			}
		}
		if call == nil {
			continue
		}
		switch calleeName(call.Common()) {
		case "strings.CutSuffix", "strings.HasSuffix":
			test = iff
			if !pos {
				okEdge = 1
			}
		}
	}
	if test == nil {
		ob.Status, ob.Msg = Undecided, "no suffix test found in segment.Find"
		return ob
	}
	h, loop := innermostLoop(test.Block())
	if loop == nil {
		ob.Status, ob.Msg = Undecided, "the suffix test is not inside a loop over the directory entries"
		return ob
	}
	// every path from the suffix-matched edge back to the loop header appends a segment (or returns an error)
	isAppend := func(ins ssa.Instruction) bool {
		c, ok := ins.(*ssa.Call)
		if !ok || !isBuiltinCall(c.Common(), "append") {
			return false
		}
		sl, ok := c.Type().(*types.Slice)
		return ok && namedOf(sl.Elem()) == p.R.Segment
	}
	var bad []string
	seen := map[*ssa.BasicBlock]bool{}
	var walk func(b *ssa.BasicBlock)
	walk = func(b *ssa.BasicBlock) {
		if seen[b] {
			return
		}
		seen[b] = true
		for _, ins := range b.Instrs {
			if isAppend(ins) {
				return
			}
			if rt, ok := ins.(*ssa.Return); ok {
				if !ea.isFailureReturn(fn, rt) {
					bad = append(bad, p.at(rt)+": returns success without listing the file")
				}
				return
			}
		}
		for _, s := range b.Succs {
			if s == h || !loop[s] {
				if s == h {
					bad = append(bad, fmt.Sprintf("%s: a file with the log suffix can be skipped (the walk reaches the next directory entry without appending a segment)", p.at(terminator(b))))
				} else {
					walk(s)
				}
				continue
			}
			walk(s)
		}
	}
	walk(test.Block().Succs[okEdge])
	sort.Strings(bad)
	// Find fails only because a call it made failed (reading the directory, parsing an offset): the
	// presence of other files - temporaries a crash left behind, the lock - is never a reason
	for _, rt := range returnsOf(fn) {
		if c, ok := returnOperand(rt, errResultIndex(fn)).(*ssa.Call); ok {
			own := calleeName(c.Common()) == "errors.New"
			if calleeName(c.Common()) == "fmt.Errorf" {
				if f, ok := constString(c.Call.Args[0]); ok && !strings.Contains(f, "%w") {
					own = true
				}
			}
			if own {
				bad = append(bad, p.at(rt)+": the listing is refused with an error of Find's own making (a file it does not know)")
			}
		}
	}
	if len(bad) > 0 {
		ob.Status, ob.Msg, ob.Path = Violated, "segment.Find does not adopt every *.log file: an empty head segment (whose name is the only record of the next offset) can be lost on reopen", uniqStrings(bad)
	} else {
		ob.Status, ob.Msg = Discharged, "every directory entry with the log suffix is appended to the result or ends in an error"
	}
	return ob
}

// ---------------------------------------------------------------------------
// R19b: with KeepRewriteVersion the rewrite version is the one detected in the file.
func (p *Prog) keepRewriteVersionObligations() []Ob {
	var obs []Ob
	r := p.R
	for _, fn := range p.Funcs {
		if !srcFunc(fn) || recvNamed(fn) != r.Impl {
			continue
		}
		callsRewrite := false
		for _, b := range fn.Blocks {
			for _, ins := range b.Instrs {
				if c, ok := ins.(*ssa.Call); ok {
					if g := c.Common().StaticCallee(); g != nil && recvNamed(g) == r.Segment && g.Signature.Results().Len() > 0 && namedOf(g.Signature.Results().At(0).Type()) == r.RewriteSegment {
						callsRewrite = true
					}
				}
			}
		}
		if !callsRewrite {
			continue
		}
		// version dispatch comparisons in this function: X == message.V1 / V2
		var detected []ssa.Value
		for _, b := range fn.Blocks {
			for _, ins := range b.Instrs {
				bo, ok := ins.(*ssa.BinOp)
				if !ok || bo.Op != token.EQL {
					continue
				}
				for _, pair := range [][2]ssa.Value{{bo.X, bo.Y}, {bo.Y, bo.X}} {
					if g := globalOf(pair[0]); g != nil && g.Pkg != nil && g.Pkg.Pkg.Path() == pkgMessage && typeIs(derefPtr(g.Type()), pkgMessage, "Version") {
						detected = append(detected, pair[1])
					}
				}
			}
		}
		if len(detected) == 0 {
			continue
		}
		ob := Ob{Rule: "R19", Inst: "keep-rewrite-version:" + funcLabel(fn), Props: []string{"C17"}, Pos: p.posStr(fn.Pos()), Func: funcLabel(fn), Nontrivial: true}
		var bad []string
		seen := map[ssa.Value]bool{}
		var leaf func(v ssa.Value, d int)
		// a call result: the file's own Version(), or a small helper of the module whose success
		// returns hand one on
		fromCall := func(c *ssa.Call, idx int, d int) {
			nm := calleeName(c.Common())
			if nm == "(*"+pkgMessage+".Writer).Version" || nm == "(*"+pkgMessage+".Reader).Version" {
				return
			}
			if g := c.Common().StaticCallee(); g != nil && inModule(g) && g.Blocks != nil && recvNamed(g) != r.Impl && d < 8 {
				ea := p.ErrAtomsCached()
				n := 0
				for _, rt := range returnsOf(g) {
					if ea.isFailureReturn(g, rt) {
						continue
					}
					if rv := returnOperand(rt, idx); rv != nil {
						n++
						leaf(rv, d+1)
					}
				}
				if n > 0 {
					return
				}
			}
			bad = append(bad, fmt.Sprintf("%s: the version compared against V1/V2 comes from %s, not from the file's header", p.at(c), nm))
		}
		leaf = func(v ssa.Value, d int) {
			if seen[v] || d > 10 {
				return
			}
			seen[v] = true
			switch x := v.(type) {
			case *ssa.Phi:
				for _, e := range x.Edges {
					leaf(e, d+1)
				}
			case *ssa.UnOp:
				if al, ok := x.X.(*ssa.Alloc); ok && x.Op == token.MUL {
					sts := allocStores(al)
					for _, st := range sts {
						leaf(st.Val, d+1)
					}
					return
				}
				bad = append(bad, fmt.Sprintf("%s: the version compared against V1/V2 is read from %s, not detected from the file", p.posStr(x.Pos()), describeLoad(p, x)))
			case *ssa.Extract:
				if c, ok := x.Tuple.(*ssa.Call); ok {
					fromCall(c, x.Index, d)
					return
				}
				bad = append(bad, fmt.Sprintf("%s: the version compared against V1/V2 has an unrecognised source", p.posStr(v.Pos())))
			case *ssa.Call:
				fromCall(x, 0, d)
			case *ssa.Const:
				// zero value of the local before assignment
			default:
				bad = append(bad, fmt.Sprintf("%s: the version compared against V1/V2 has an unrecognised source", p.posStr(v.Pos())))
			}
		}
		for _, dv := range detected {
			leaf(dv, 0)
		}
		// and only the option decides whether the detected version is kept: with it unset no
		// comparison of the detected version is reachable
		if opt := "Version.KeepRewriteVersion"; true {
			reach := reachableBlocks(fn, func(b *ssa.BasicBlock) []*ssa.BasicBlock { return p.prunedSuccs(b, Assume{opt: false}) })
			pruned := false
			for _, b := range fn.Blocks {
				if iff, ok := terminator(b).(*ssa.If); ok {
					if name, _ := p.optionField(iff.Cond); name == opt {
						pruned = true
					}
				}
			}
			if pruned {
				for _, b := range fn.Blocks {
					if !reach[b] {
						continue
					}
					for _, ins := range b.Instrs {
						bo, ok := ins.(*ssa.BinOp)
						if !ok || bo.Op != token.EQL {
							continue
						}
						for _, side := range []ssa.Value{bo.X, bo.Y} {
							if g := globalOf(side); g != nil && g.Pkg != nil && g.Pkg.Pkg.Path() == pkgMessage && typeIs(derefPtr(g.Type()), pkgMessage, "Version") {
								bad = append(bad, fmt.Sprintf("%s: with KeepRewriteVersion unset the detected version can still decide the version of the rewrite (something other than the option leads here)", p.posStr(bo.Pos())))
							}
						}
					}
				}
			}
		}
		sort.Strings(bad)
		if len(bad) > 0 {
			ob.Status, ob.Msg, ob.Path = Violated, "with KeepRewriteVersion a rewritten segment must keep the format version its file actually has; here the version is taken from configuration, which differs after a reopen with another NewSegmentsVersion", uniqStrings(bad)
		} else {
			ob.Status, ob.Msg = Discharged, "the version a rewrite keeps is always obtained from (*message.Writer).Version / (*message.Reader).Version of the segment's file"
		}
		obs = append(obs, ob)
	}
	return obs
}

func describeLoad(p *Prog, u *ssa.UnOp) string {
	if f, _ := loadedField(u); f != nil {
		return "field " + p.fieldLabel(f)
	}
	if g := globalOf(u); g != nil {
		return "global " + g.Name()
	}
	return u.String()
}

// ---------------------------------------------------------------------------
// R16b: the "needs reindex" threshold separates "cannot hold one item" from a valid index.
func (p *Prog) reindexThresholdObligation() Ob {
	ob := Ob{Rule: "R16", Inst: "reindex-threshold", Props: []string{"C11"}, Pos: "-", Nontrivial: true}
	var fn *ssa.Function
	for _, f := range p.Funcs {
		if srcFunc(f) && recvNamed(f) == p.R.Segment && p.isNeedsReindex(f) {
			fn = f
		}
	}
	if fn == nil {
		ob.Status, ob.Msg = Undecided, "no 'needs reindex' function (stat of the Index path answering true when missing) found"
		return ob
	}
	ob.Pos, ob.Func = p.posStr(fn.Pos()), funcLabel(fn)
	// minimal size of a valid non-empty index: one base item without a file header (V1)
	var sizeFn *ssa.Function
	for _, f := range p.Funcs {
		if srcFunc(f) && recvNamed(f) == p.R.Params && f.Name() == "Size" {
			sizeFn = f
		}
	}
	minItem := int64(16)
	if sizeFn != nil {
		if l, ok := p.evalUnder(sizeFn, 0, p.paramsDecide(false, false)); ok && l.isConst() {
			minItem = l.c
		}
	}
	hdr, _ := p.constValue(pkgIndex, "HeaderSize")
	x := &extractor{p: p, fn: fn}
	found := false
	for _, b := range fn.Blocks {
		iff, ok := terminator(b).(*ssa.If)
		if !ok {
			continue
		}
		xv, yv, op, ok := relCond(iff.Cond)
		if !ok {
			continue
		}
		isSize := func(v ssa.Value) bool {
			c, ok := v.(*ssa.Call)
			return ok && c.Common().IsInvoke() && c.Common().Method.Name() == "Size"
		}
		var rhs ssa.Value
		switch {
		case isSize(xv):
			rhs = yv
		case isSize(yv):
			rhs = xv
			switch op {
			case token.LSS:
				op = token.GTR
			case token.GTR:
				op = token.LSS
			case token.LEQ:
				op = token.GEQ
			case token.GEQ:
				op = token.LEQ
			}
		default:
			continue
		}
		l := x.eval(rhs)
		// substitute the smallest item size for a Params.Size() call
		if l.bad == "" {
			for k, v := range l.syms {
				if k == "call:Size" {
					l.c += v * minItem
					delete(l.syms, k)
				}
			}
		}
		if !l.isConst() {
			ob.Status, ob.Msg = Undecided, "the size threshold in "+funcLabel(fn)+" is not a constant: "+l.String()
			return ob
		}
		// largest size that is still "needs reindex"
		var maxReindex int64
		switch op {
		case token.LEQ:
			maxReindex = l.c
		case token.LSS:
			maxReindex = l.c - 1
		default:
			continue
		}
		found = true
		switch {
		case maxReindex >= minItem:
			ob.Status = Violated
			ob.Msg = fmt.Sprintf("an index file of up to %d bytes is treated as missing, but a valid header-less (V1) index with one %d-byte item is that small: it is 'rebuilt' by appending to it, so its items are doubled", maxReindex, minItem)
		case maxReindex < hdr:
			ob.Status = Violated
			ob.Msg = fmt.Sprintf("only index files of up to %d bytes are rebuilt; a header-only index (%d bytes, written when a segment is created) of a non-empty segment would be trusted as empty", maxReindex, hdr)
		default:
			ob.Status, ob.Msg = Discharged, fmt.Sprintf("files of up to %d bytes are rebuilt: at least the %d-byte header, less than the smallest valid index with one item (%d bytes)", maxReindex, hdr, minItem)
		}
	}
	if !found {
		ob.Status, ob.Msg = Undecided, "no size threshold found in "+funcLabel(fn)
	}
	return ob
}

// ---------------------------------------------------------------------------
// R2 O6: Override only onto the segment the rewrite maps to.
func (p *Prog) overrideTargetObligations() []Ob {
	var obs []Ob
	r := p.R
	segOverride := "(" + pkgSegment + ".Segment).Override"
	n := 0
	for _, fn := range p.Funcs {
		if !srcFunc(fn) || funcPkgPath(fn) != pkgRoot {
			continue
		}
		for _, b := range fn.Blocks {
			for _, ins := range b.Instrs {
				c, ok := ins.(*ssa.Call)
				if !ok || calleeName(c.Common()) != segOverride {
					continue
				}
				n++
				ob := Ob{Rule: "R2", Inst: "O6:" + funcLabel(fn) + ":override-same-base", Props: []string{"C01", "C05", "C17"}, Pos: p.at(c), Func: funcLabel(fn), Nontrivial: true}
				target := c.Call.Args[1]
				okDom := false
				for d := b.Idom(); d != nil; d = d.Idom() {
					iff, ok := terminator(d).(*ssa.If)
					if !ok {
						continue
					}
					bo, ok := iff.Cond.(*ssa.BinOp)
					if !ok || (bo.Op != token.EQL && bo.Op != token.NEQ) || namedOf(bo.X.Type()) != r.Segment {
						continue
					}
					isNew := func(v ssa.Value) bool {
						cc, ok := canon(v).(*ssa.Call)
						if !ok {
							return false
						}
						g := cc.Common().StaticCallee()
						return g != nil && recvNamed(g) == r.RewriteSegment && g.Signature.Results().Len() == 1 && namedOf(g.Signature.Results().At(0).Type()) == r.Segment
					}
					sameTarget := func(v ssa.Value) bool { return descr(segAddrOf(v)) == descr(segAddrOf(target)) }
					if !((isNew(bo.X) && sameTarget(bo.Y)) || (isNew(bo.Y) && sameTarget(bo.X))) {
						continue
					}
					edge := 0
					if bo.Op == token.NEQ {
						edge = 1
					}
					if edgeDominates(d, edge, b) {
						okDom = true
					}
				}
				if okDom {
					ob.Status, ob.Msg = Discharged, "the rewrite replaces the segment in place only on the edge where its new base offset equals the segment's"
				} else {
					ob.Status, ob.Msg = Violated, "a rewritten segment is put in place under the old file name without checking that its base offset is unchanged: if the first message was deleted, the name no longer matches the first record (a header-less V1 file is then not recognised at all)"
				}
				obs = append(obs, ob)
			}
		}
	}
	return obs
}

// ---------------------------------------------------------------------------
// R3c CORRELATED-STATE: an atomic that is updated together with lock-protected state (the head's
// next offset with its item list and key tree) summarises that state.  Reading the state and
// loading the atomic *afterwards* without a lock of the update held across both lets an update slip
// in between: the loaded value then covers data the read did not see (a cursor skips messages).
// Loading the atomic first is safe (it only under-approximates).  Sites are direct accesses or calls
// on the same object.
func ruleR3c(p *Prog) []Ob {
	var obs []Ob
	ls := p.LocksetCached()
	baseLoc := func(loc string) string {
		if i := strings.Index(loc, "→"); i >= 0 {
			return loc[:i]
		}
		return loc
	}
	atomicAccess := func(ins ssa.Instruction) (*types.Var, string, ssa.Value) {
		c, ok := ins.(ssa.CallInstruction)
		if !ok || len(c.Common().Args) == 0 {
			return nil, "", nil
		}
		nm := calleeName(c.Common())
		if !strings.HasPrefix(nm, "(*sync/atomic.Int64).") {
			return nil, "", nil
		}
		fa, ok := c.Common().Args[0].(*ssa.FieldAddr)
		if !ok {
			return nil, "", nil
		}
		f := fieldVarOfAddr(fa)
		if f == nil || !p.sharedStructField(f) || underConstruction(fa) {
			return nil, "", nil
		}
		return f, strings.TrimPrefix(nm, "(*sync/atomic.Int64)."), fa.X
	}
	// accesses per function
	accByFn := map[*ssa.Function][]lsAccess{}
	for _, ac := range ls.access {
		accByFn[ac.fn] = append(accByFn[ac.fn], ac)
	}
	// correlations
	type corr struct {
		atomic *types.Var
		loc    string
		locks  map[*types.Var]bool
		at     ssa.Instruction
	}
	corrs := map[string]*corr{}
	for _, fn := range p.Funcs {
		if !srcFunc(fn) {
			continue
		}
		for _, b := range fn.Blocks {
			for _, ins := range b.Instrs {
				a, op, _ := atomicAccess(ins)
				if a == nil || op != "Store" {
					continue
				}
				for _, w := range accByFn[fn] {
					if !w.write {
						continue
					}
					common := map[*types.Var]bool{}
					for m, md := range ls.at[ins] {
						if md == modeW && w.ls[m] == modeW {
							common[m] = true
						}
					}
					if len(common) == 0 {
						continue
					}
					k := p.fieldLabel(a) + "~" + baseLoc(w.loc)
					if c, ok := corrs[k]; ok {
						for m := range c.locks {
							if !common[m] {
								delete(c.locks, m)
							}
						}
					} else {
						corrs[k] = &corr{atomic: a, loc: baseLoc(w.loc), locks: common, at: ins}
					}
				}
			}
		}
	}
	// transitive summaries: which locations a function reads, which atomics it loads
	readsLoc := map[*ssa.Function]map[string]bool{}
	loadsAt := map[*ssa.Function]map[*types.Var]bool{}
	for _, fn := range p.Funcs {
		readsLoc[fn] = map[string]bool{}
		loadsAt[fn] = map[*types.Var]bool{}
		for _, ac := range accByFn[fn] {
			readsLoc[fn][baseLoc(ac.loc)] = true
		}
		for _, b := range fn.Blocks {
			for _, ins := range b.Instrs {
				if a, op, _ := atomicAccess(ins); a != nil && op == "Load" {
					loadsAt[fn][a] = true
				}
			}
		}
	}
	for iter := 0; iter < 20; iter++ {
		changed := false
		for _, fn := range p.Funcs {
			for _, b := range fn.Blocks {
				for _, ins := range b.Instrs {
					c, ok := ins.(ssa.CallInstruction)
					if !ok {
						continue
					}
					for _, g := range p.callees(c) {
						for l := range readsLoc[g] {
							if !readsLoc[fn][l] {
								readsLoc[fn][l] = true
								changed = true
							}
						}
						for a := range loadsAt[g] {
							if !loadsAt[fn][a] {
								loadsAt[fn][a] = true
								changed = true
							}
						}
					}
				}
			}
		}
		if !changed {
			break
		}
	}
	// the object a site operates on
	objOf := func(ins ssa.Instruction) ssa.Value {
		if c, ok := ins.(ssa.CallInstruction); ok {
			cc := c.Common()
			if cc.IsInvoke() {
				return canon(cc.Value)
			}
			if _, _, base := atomicAccess(ins); base != nil {
				return canon(base)
			}
			if len(cc.Args) > 0 {
				return canon(cc.Args[0])
			}
		}
		if u, ok := ins.(*ssa.UnOp); ok {
			if fa, ok := u.X.(*ssa.FieldAddr); ok {
				return canon(fa.X)
			}
		}
		return nil
	}
	for _, k := range sortedKeys(corrs) {
		cr := corrs[k]
		if len(cr.locks) == 0 {
			continue
		}
		ob := Ob{Rule: "R3", Inst: "correlated:" + k, Props: []string{"C08", "C09", "C03"}, Pos: p.at(cr.at), Func: funcLabel(cr.at.Parent()), Nontrivial: true}
		var bad []string
		for _, fn := range p.Funcs {
			if !srcFunc(fn) {
				continue
			}
			if _, ok := ls.entry[fn]; !ok {
				continue
			}
			var s1, s2 []ssa.Instruction
			for _, ac := range accByFn[fn] {
				if baseLoc(ac.loc) == cr.loc && !ac.write {
					s1 = append(s1, ac.ins)
				}
			}
			for _, b := range fn.Blocks {
				for _, ins := range b.Instrs {
					if a, op, _ := atomicAccess(ins); a == cr.atomic && op == "Load" {
						s2 = append(s2, ins)
						continue
					}
					c, ok := ins.(ssa.CallInstruction)
					if !ok {
						continue
					}
					rl, la := false, false
					for _, g := range p.callees(c) {
						if readsLoc[g][cr.loc] {
							rl = true
						}
						if loadsAt[g][cr.atomic] {
							la = true
						}
					}
					switch {
					case rl && la:
						// one call that does both: atomicity is the callee's business
					case rl:
						s1 = append(s1, ins)
					case la:
						s2 = append(s2, ins)
					}
				}
			}
			for _, r1 := range s1 {
				for _, l2 := range s2 {
					if r1 == l2 || !canReach(r1, l2) {
						continue
					}
					o1, o2 := objOf(r1), objOf(l2)
					if o2 == nil && o1 != nil {
						// a call of a local closure works on what the closure captured
						if c, ok := l2.(ssa.CallInstruction); ok {
							if mc, ok := c.Common().Value.(*ssa.MakeClosure); ok {
								for _, bnd := range mc.Bindings {
									if canon(bnd) == o1 {
										o2 = o1
									}
									// captured variables live in a cell: compare what the cell holds
									if al, ok := bnd.(*ssa.Alloc); ok {
										for _, st := range allocStores(al) {
											if canon(st.Val) == o1 {
												o2 = o1
											}
										}
										if u, ok := o1.(*ssa.UnOp); ok && u.X == ssa.Value(al) {
											o2 = o1
										}
									}
								}
							}
						}
					}
					if o1 == nil || o2 == nil || o1 != o2 {
						continue
					}
					held := false
					for m := range cr.locks {
						_, h1 := ls.at[r1][m]
						_, h2 := ls.at[l2][m]
						if h1 && h2 {
							held = true
						}
					}
					if !held {
						bad = append(bad, fmt.Sprintf("%s: reads %s at %s (holding %s) and loads %s afterwards at %s (holding %s); no lock of the update {%s} is held across both", funcLabel(fn), cr.loc, p.at(r1), p.lsString(ls.at[r1]), p.fieldLabel(cr.atomic), p.at(l2), p.lsString(ls.at[l2]), lockNames(p, cr.locks)))
					}
				}
			}
		}
		sort.Strings(bad)
		if len(bad) > 0 {
			ob.Status, ob.Msg, ob.Path = Violated, fmt.Sprintf("%s summarises %s (they are updated together under a lock) but can be loaded after a read of that state with an update in between: the loaded value then covers data the read did not see", p.fieldLabel(cr.atomic), cr.loc), uniqStrings(bad)
		} else {
			ob.Status, ob.Msg = Discharged, fmt.Sprintf("updated together under {%s}; wherever the state is read and the atomic loaded afterwards on the same object, one of these locks is held across both", lockNames(p, cr.locks))
		}
		obs = append(obs, ob)
	}
	return obs
}

func lockNames(p *Prog, m map[*types.Var]bool) string {
	var lk []string
	for v := range m {
		lk = append(lk, p.fieldLabel(v))
	}
	sort.Strings(lk)
	return strings.Join(lk, ", ")
}
