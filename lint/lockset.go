package main

import (
	"go/token"
	"go/types"
	"sort"
	"strings"

	"golang.org/x/tools/go/ssa"
)

// Analysis D: flow-sensitive must-hold lockset per program point, with entry
// locksets propagated over the call graph to a fixpoint.

type lmode int

const (
	modeR lmode = 1
	modeW lmode = 2
)

type lockset map[*types.Var]lmode

func (l lockset) clone() lockset {
	o := make(lockset, len(l))
	for k, v := range l {
		o[k] = v
	}
	return o
}

func (p *Prog) lsString(l lockset) string {
	var ks []string
	for k, v := range l {
		m := "W"
		if v == modeR {
			m = "R"
		}
		ks = append(ks, p.fieldLabel(k)+":"+m)
	}
	sort.Strings(ks)
	return "{" + strings.Join(ks, ",") + "}"
}

// meetLS: intersection with the weaker mode; nil is TOP (unreached).
func meetLS(a, b lockset) lockset {
	if a == nil {
		return b.clone()
	}
	if b == nil {
		return a.clone()
	}
	o := lockset{}
	for k, v := range a {
		if w, ok := b[k]; ok {
			if w < v {
				v = w
			}
			o[k] = v
		}
	}
	return o
}

func equalLS(a, b lockset) bool {
	if (a == nil) != (b == nil) || len(a) != len(b) {
		return false
	}
	for k, v := range a {
		if b[k] != v {
			return false
		}
	}
	return true
}

type lockEdge struct {
	held, acquired *types.Var
	heldMode       lmode
	acqMode        lmode
	at             ssa.Instruction
}

type lsAccess struct {
	loc   string // location label
	write bool
	fn    *ssa.Function
	ins   ssa.Instruction
	ls    lockset
	note  string
}

type Lockset struct {
	p      *Prog
	entry  map[*ssa.Function]lockset
	roots  map[*ssa.Function]bool
	Rounds int
	edges  []lockEdge
	reacq  []lockEdge // acquisition of a lock already held
	access []lsAccess
	// per instruction lockset (before the instruction)
	at map[ssa.Instruction]lockset
	// unmodelled external invoke methods seen on tracked interface objects
	Unmodelled map[string]bool

	collected bool
	fieldFx   map[*ssa.Function]map[*types.Var]bool // transitive accesses to fields of tracked pointee types: field -> written?
	paramExt  map[*ssa.Function]map[int]bool        // param index -> written? (external interface objects)
}

func rootValue(v ssa.Value) ssa.Value {
	for {
		switch x := v.(type) {
		case *ssa.FieldAddr:
			v = x.X
		case *ssa.IndexAddr:
			v = x.X
		case *ssa.Field:
			v = x.X
		case *ssa.Index:
			v = x.X
		default:
			return v
		}
	}
}

func underConstruction(v ssa.Value) bool {
	switch x := rootValue(v).(type) {
	case *ssa.Alloc, *ssa.MakeSlice, *ssa.MakeMap:
		return true
	case *ssa.UnOp:
		// a load from a local alloc that holds a freshly allocated object
		if al, ok := x.X.(*ssa.Alloc); ok && x.Op == token.MUL {
			sts := allocStores(al)
			if len(sts) > 0 {
				all := true
				for _, st := range sts {
					if _, ok := rootValue(st.Val).(*ssa.Alloc); !ok {
						all = false
					}
				}
				return all
			}
		}
	}
	return false
}

// apiRoots: functions callable by a user of the module with no lock held.
func (p *Prog) apiRoots() map[*ssa.Function]bool {
	roots := map[*ssa.Function]bool{}
	// (type, method) pairs reachable through exported interfaces
	ifaceMethods := map[string]bool{}
	for _, fn := range p.Funcs {
		for _, b := range fn.Blocks {
			for _, ins := range b.Instrs {
				mi, ok := ins.(*ssa.MakeInterface)
				if !ok {
					continue
				}
				nt := namedOf(mi.Type())
				if nt == nil || !nt.Obj().Exported() {
					continue
				}
				it, _ := nt.Underlying().(*types.Interface)
				cn := namedOf(mi.X.Type())
				if it == nil || cn == nil {
					continue
				}
				for i := 0; i < it.NumMethods(); i++ {
					ifaceMethods[cn.Origin().Obj().Name()+"."+it.Method(i).Name()] = true
				}
			}
		}
	}
	for _, fn := range p.Funcs {
		if fn.Parent() != nil {
			continue
		}
		obj, _ := fn.Object().(*types.Func)
		if obj == nil {
			continue
		}
		sig := obj.Type().(*types.Signature)
		if sig.Recv() == nil {
			if obj.Exported() {
				roots[fn] = true
			}
			continue
		}
		n := namedOf(sig.Recv().Type())
		if n == nil {
			continue
		}
		if n.Obj().Exported() && obj.Exported() {
			roots[fn] = true
		} else if ifaceMethods[n.Origin().Obj().Name()+"."+obj.Name()] {
			roots[fn] = true
		}
	}
	return roots
}

func (p *Prog) lockset() *Lockset {
	a := &Lockset{p: p, entry: map[*ssa.Function]lockset{}, roots: p.apiRoots(), at: map[ssa.Instruction]lockset{}, Unmodelled: map[string]bool{}}
	for fn := range a.roots {
		a.entry[fn] = lockset{}
	}
	for iter := 0; iter < 40; iter++ {
		changed := false
		callsite := map[*ssa.Function]lockset{}
		seen := map[*ssa.Function]bool{}
		for _, fn := range p.Funcs {
			ent, ok := a.entry[fn]
			if !ok {
				continue
			}
			a.flow(fn, ent, func(ins ssa.Instruction, ls lockset) {
				switch x := ins.(type) {
				case *ssa.MakeClosure:
					// a closure may run later with nothing held
					g := x.Fn.(*ssa.Function)
					if seen[g] {
						callsite[g] = meetLS(callsite[g], lockset{})
					} else {
						callsite[g] = lockset{}
						seen[g] = true
					}
				case ssa.CallInstruction:
					use := ls
					switch ins.(type) {
					case *ssa.Go, *ssa.Defer:
						use = lockset{}
					}
					for _, g := range p.callees(x) {
						if !inModule(g) || g.Blocks == nil {
							continue
						}
						if seen[g] {
							callsite[g] = meetLS(callsite[g], use)
						} else {
							callsite[g] = use.clone()
							seen[g] = true
						}
					}
				}
			}, false)
		}
		for g, ls := range callsite {
			if a.roots[g] {
				continue
			}
			old, ok := a.entry[g]
			if !ok || !equalLS(old, ls) {
				a.entry[g] = ls
				changed = true
			}
		}
		a.Rounds = iter + 1
		if !changed {
			break
		}
	}
	for _, fn := range p.Funcs {
		ent, ok := a.entry[fn]
		if !ok {
			continue
		}
		a.flow(fn, ent, func(ins ssa.Instruction, ls lockset) {
			a.at[ins] = ls
		}, true)
	}
	a.callSiteEdges()
	return a
}

// callSiteEdges adds, for every call site, an order edge from each lock held at
// the site to each lock the callee may (transitively) acquire.  This is what
// sees a lock re-acquired inside an API method that is also called internally.
func (a *Lockset) callSiteEdges() {
	p := a.p
	acq := map[*ssa.Function]map[*types.Var]lmode{}
	for _, fn := range p.Funcs {
		m := map[*types.Var]lmode{}
		for _, b := range fn.Blocks {
			for _, ins := range b.Instrs {
				if c, ok := ins.(ssa.CallInstruction); ok {
					if f, op := mutexFieldOfCall(c.Common()); f != nil && (op == "L" || op == "RL") {
						md := modeW
						if op == "RL" {
							md = modeR
						}
						if m[f] < md {
							m[f] = md
						}
					}
				}
			}
		}
		acq[fn] = m
	}
	for iter := 0; iter < 40; iter++ {
		changed := false
		for _, fn := range p.Funcs {
			for _, b := range fn.Blocks {
				for _, ins := range b.Instrs {
					c, ok := ins.(ssa.CallInstruction)
					if !ok {
						continue
					}
					if _, isGo := ins.(*ssa.Go); isGo {
						continue
					}
					for _, g := range p.callees(c) {
						for f, md := range acq[g] {
							if acq[fn][f] < md {
								acq[fn][f] = md
								changed = true
							}
						}
					}
				}
			}
		}
		if !changed {
			break
		}
	}
	for _, fn := range p.Funcs {
		for _, b := range fn.Blocks {
			for _, ins := range b.Instrs {
				c, ok := ins.(*ssa.Call)
				if !ok {
					continue
				}
				ls := a.at[ins]
				if len(ls) == 0 {
					continue
				}
				for _, g := range p.callees(c) {
					for f, md := range acq[g] {
						for held, hm := range ls {
							e := lockEdge{held: held, acquired: f, heldMode: hm, acqMode: md, at: ins}
							if held == f {
								a.reacq = append(a.reacq, e)
							} else {
								a.edges = append(a.edges, e)
							}
						}
					}
				}
			}
		}
	}
}

// flow runs the must-lockset dataflow over fn and calls visit(ins, locksetBefore).
func (a *Lockset) flow(fn *ssa.Function, entry lockset, visit func(ssa.Instruction, lockset), record bool) {
	if len(fn.Blocks) == 0 {
		return
	}
	in := make([]lockset, len(fn.Blocks))
	out := make([]lockset, len(fn.Blocks))
	in[0] = entry.clone()
	work := []*ssa.BasicBlock{fn.Blocks[0]}
	for len(work) > 0 {
		b := work[0]
		work = work[1:]
		ls := in[b.Index].clone()
		for _, ins := range b.Instrs {
			ls = a.transfer(ins, ls, false)
		}
		if out[b.Index] != nil && equalLS(out[b.Index], ls) {
			continue
		}
		out[b.Index] = ls
		for _, s := range b.Succs {
			n := meetLS(in[s.Index], ls)
			if in[s.Index] == nil || !equalLS(in[s.Index], n) {
				in[s.Index] = n
				work = append(work, s)
			}
		}
	}
	for _, b := range fn.Blocks {
		if in[b.Index] == nil {
			continue
		}
		ls := in[b.Index].clone()
		for _, ins := range b.Instrs {
			visit(ins, ls)
			ls = a.transfer(ins, ls, record)
		}
	}
}

func (a *Lockset) transfer(ins ssa.Instruction, ls lockset, record bool) lockset {
	call, ok := ins.(*ssa.Call)
	if !ok {
		return ls // a deferred Unlock keeps the lock held to the end of the function
	}
	f, op := mutexFieldOfCall(call.Common())
	if f == nil {
		return ls
	}
	switch op {
	case "L", "RL":
		m := modeW
		if op == "RL" {
			m = modeR
		}
		if record {
			for held, hm := range ls {
				e := lockEdge{held: held, acquired: f, heldMode: hm, acqMode: m, at: ins}
				if held == f {
					a.reacq = append(a.reacq, e)
				} else {
					a.edges = append(a.edges, e)
				}
			}
		}
		ls = ls.clone()
		ls[f] = m
	case "U", "RU":
		ls = ls.clone()
		delete(ls, f)
	}
	return ls
}
