package main

import (
	"fmt"
	"go/token"
	"go/types"
	"sort"
	"strings"

	"golang.org/x/tools/go/ssa"
)

// R11 COPY-LOOP — every record read is accounted for (C01, C12, C17, C07, C11)

// naturalLoop returns the natural loop of header h (nil if h has no back edge).
func naturalLoop(h *ssa.BasicBlock) map[*ssa.BasicBlock]bool {
	var loop map[*ssa.BasicBlock]bool
	for _, pr := range h.Preds {
		if !h.Dominates(pr) {
			continue
		}
		if loop == nil {
			loop = map[*ssa.BasicBlock]bool{h: true}
		}
		work := []*ssa.BasicBlock{pr}
		for len(work) > 0 {
			x := work[len(work)-1]
			work = work[:len(work)-1]
			if loop[x] {
				continue
			}
			loop[x] = true
			work = append(work, x.Preds...)
		}
	}
	return loop
}

// innermostLoop returns the header and body of the innermost natural loop containing b.
func innermostLoop(b *ssa.BasicBlock) (*ssa.BasicBlock, map[*ssa.BasicBlock]bool) {
	var best *ssa.BasicBlock
	var bestLoop map[*ssa.BasicBlock]bool
	for _, h := range b.Parent().Blocks {
		l := naturalLoop(h)
		if l == nil || !l[b] {
			continue
		}
		if best == nil || len(l) < len(bestLoop) {
			best, bestLoop = h, l
		}
	}
	return best, bestLoop
}

type copyLoop struct {
	fn     *ssa.Function
	read   *ssa.Call
	msgV   ssa.Value
	nextV  ssa.Value
	errV   ssa.Value
	posArg ssa.Value
	header *ssa.BasicBlock
	loop   map[*ssa.BasicBlock]bool
	okBlk  *ssa.BasicBlock // first block on the err == nil side
	writes []*ssa.Call     // (*message.Writer).Write calls inside the loop
	items  []*ssa.Call     // Params.NewItem calls inside the loop
}

func (p *Prog) copyLoops() []*copyLoop {
	var out []*copyLoop
	readName := "(*" + pkgMessage + ".Reader).Read"
	for _, fn := range p.Funcs {
		if !srcFunc(fn) {
			continue
		}
		for _, b := range fn.Blocks {
			for _, ins := range b.Instrs {
				c, ok := ins.(*ssa.Call)
				if !ok || calleeName(c.Common()) != readName {
					continue
				}
				cl := &copyLoop{fn: fn, read: c, posArg: c.Call.Args[1]}
				for _, r := range *c.Referrers() {
					if ex, ok := r.(*ssa.Extract); ok {
						switch ex.Index {
						case 0:
							cl.msgV = ex
						case 1:
							cl.nextV = ex
						case 2:
							cl.errV = ex
						}
					}
				}
				cl.header, cl.loop = innermostLoop(b)
				if cl.loop != nil {
					for lb := range cl.loop {
						for _, li := range lb.Instrs {
							if c2, ok := li.(*ssa.Call); ok {
								switch calleeName(c2.Common()) {
								case "(*" + pkgMessage + ".Writer).Write":
									cl.writes = append(cl.writes, c2)
								case "(" + pkgIndex + ".Params).NewItem":
									cl.items = append(cl.items, c2)
								}
							}
						}
					}
				}
				out = append(out, cl)
			}
		}
	}
	return out
}

func (cl *copyLoop) isMsg(v ssa.Value) bool {
	return cl.msgV != nil && canon(v) == cl.msgV
}

// msgAlloc: the local the read result is stored in (nil if used as a value).
func (cl *copyLoop) msgAlloc() *ssa.Alloc {
	if cl.msgV == nil {
		return nil
	}
	for _, r := range *cl.msgV.Referrers() {
		if st, ok := r.(*ssa.Store); ok && st.Val == cl.msgV {
			if al, ok := st.Addr.(*ssa.Alloc); ok {
				return al
			}
		}
	}
	return nil
}

func ruleR11(p *Prog) []Ob {
	var obs []Ob
	ea := p.ErrAtomsCached()
	r := p.R
	loops := p.copyLoops()
	for _, cl := range loops {
		fn := cl.fn
		label := funcLabel(fn)
		base := Ob{Rule: "R11", Pos: p.at(cl.read), Func: label, Nontrivial: true}
		props := p.copyLoopProps(cl)
		if cl.loop == nil || cl.msgV == nil || cl.errV == nil {
			o := base
			o.Inst, o.Props, o.Status, o.Msg = "L0:"+label, props, Undecided, "message.Reader.Read is called outside a recognisable loop, or its results are not all bound"
			obs = append(obs, o)
			continue
		}
		// the err == nil edge
		for lb := range cl.loop {
			if iff, ok := terminator(lb).(*ssa.If); ok {
				if t, ok := classifyErrCond(iff.Cond, cl.errV); ok && t.kind == "nil" {
					if t.trueMeans {
						cl.okBlk = lb.Succs[0]
					} else {
						cl.okBlk = lb.Succs[1]
					}
				}
			}
		}
		if cl.okBlk == nil {
			// `if errors.Is(err, io.EOF) {break} else if err != nil {return}` : the ok block is the false edge of the err != nil test; handled above.
			o := base
			o.Inst, o.Props, o.Status, o.Msg = "L0:"+label, props, Undecided, "no err == nil / err != nil test of the Read error found in the loop"
			obs = append(obs, o)
			continue
		}

		// the record must not be modified between read and use
		if al := cl.msgAlloc(); al != nil {
			o := base
			o.Inst, o.Props = "L1m:"+label+":unaltered", props
			var bad []string
			for _, ref := range *al.Referrers() {
				switch x := ref.(type) {
				case *ssa.Store:
					if x.Addr == al && x.Val != cl.msgV {
						bad = append(bad, p.at(x)+": the record variable is overwritten")
					}
				case *ssa.FieldAddr:
					for _, r2 := range *x.Referrers() {
						if st, ok := r2.(*ssa.Store); ok && st.Addr == x {
							bad = append(bad, fmt.Sprintf("%s: field %s of the record is assigned between reading and copying it", p.at(st), fieldVarOfAddr(x).Name()))
						}
					}
				}
			}
			if len(bad) > 0 {
				o.Status, o.Msg, o.Path = Violated, "a record is altered between being read and being written/reported", bad
			} else {
				o.Status, o.Msg = Discharged, "the record read is never assigned to before it is written or reported"
			}
			obs = append(obs, o)
		}

		// L1: completeness on every path from the ok edge to the back edge
		kind := "scan"
		if len(cl.writes) > 0 {
			kind = "copy"
		} else if len(cl.items) == 0 {
			kind = "count"
		}
		{
			o := base
			o.Inst, o.Props = fmt.Sprintf("L1:%s:%s-loop", label, kind), props
			paths, bad := p.enumerateLoopPaths(cl, kind)
			if len(bad) > 0 {
				sort.Strings(bad)
				o.Status, o.Path = Violated, uniqStrings(bad)
				switch kind {
				case "copy":
					o.Msg = "a record that was read can reach the next iteration without being written unchanged, or (delete) reported as deleted under membership in the caller's set — or both"
				case "scan":
					o.Msg = "a record that was read can reach the next iteration without its index item being appended"
				default:
					o.Msg = "a record that was read can reach the next iteration without being counted"
				}
			} else {
				o.Status = Discharged
				o.Msg = fmt.Sprintf("%d path(s) from the err==nil edge to the back edge, each accounts for the record exactly once", paths)
			}
			obs = append(obs, o)
		}

		// L2: index derivation
		if len(cl.items) > 0 {
			obs = append(obs, p.l2Obligation(cl, base, props, ea))
		}

		// L3: exits
		{
			o := base
			o.Inst, o.Props = "L3:"+label+":exits", props
			if cl.fn.Name() == "Recover" {
				// a recovery that cuts the head short of its valid records loses fsynced messages
				o.Props = append(append([]string{}, props...), "C06")
			}
			bad := p.loopExits(cl, ea)
			if len(bad) > 0 {
				o.Status, o.Msg, o.Path = Violated, "the scan loop can be left other than at end of file, on a returned error, or (recover) at corruption: the remaining records are silently dropped or a hard error is mistaken for damage", bad
			} else {
				o.Status, o.Msg = Discharged, "the loop is left only at io.EOF, by returning the error, at a bound on the position, or (recover form) at ErrCorrupted"
			}
			obs = append(obs, o)
		}
	}
	// all index.Item values come from NewItem or index.Read
	{
		o := Ob{Rule: "R11", Inst: "L2i:item-literals", Props: []string{"C11", "C07"}, Pos: "-"}
		var bad []string
		for _, fn := range p.Funcs {
			if !srcFunc(fn) || funcPkgPath(fn) == pkgIndex {
				continue
			}
			for _, b := range fn.Blocks {
				for _, ins := range b.Instrs {
					st, ok := ins.(*ssa.Store)
					if !ok {
						continue
					}
					if fa, ok := st.Addr.(*ssa.FieldAddr); ok && namedOf(fa.X.Type()) == r.Item {
						bad = append(bad, p.at(st)+": a field of an index.Item is assigned outside pkg/index (items must come from Params.NewItem or index.Read)")
					}
				}
			}
		}
		if len(bad) > 0 {
			o.Status, o.Msg, o.Path = Violated, "index items are constructed by hand", bad
		} else {
			o.Status, o.Msg = Discharged, "no index.Item field is assigned outside pkg/index"
		}
		obs = append(obs, o)
	}
	if len(loops) == 0 {
		obs = append(obs, Ob{Rule: "R11", Inst: "L0:no-loops", Props: []string{"C01", "C12", "C17", "C07", "C11"}, Pos: "-", Status: Undecided, Msg: "no loop over message.Reader.Read found"})
	}
	return obs
}

// copyLoopProps: which properties a loop serves, by what the function is reachable from / does.
func (p *Prog) copyLoopProps(cl *copyLoop) []string {
	set := map[string]bool{}
	fn := cl.fn
	res := fn.Signature.Results()
	isRewrite := res.Len() > 0 && namedOf(res.At(0).Type()) == p.R.RewriteSegment
	hasRename := false
	sameLayout := false
	for _, o := range p.fsOps(fn) {
		if o.op == "RENAME" && o.a.kind == "writer.Path" {
			hasRename = true
			sameLayout = p.sameLayoutTemp(fn, o.a)
		}
	}
	switch {
	case isRewrite:
		set["C01"], set["C12"], set["C11"], set["C17"] = true, true, true, true
	case hasRename && sameLayout: // recover
		set["C01"], set["C05"], set["C07"], set["C11"] = true, true, true, true
	case hasRename: // migrate
		set["C01"], set["C17"], set["C11"] = true, true, true
	default: // check / reindex / count
		set["C07"], set["C11"] = true, true
		if len(cl.items) > 0 {
			set["C01"] = true // an index derived from a partial scan hides messages from every reader
		}
	}
	return sortedKeys(set)
}

// enumerateLoopPaths walks every acyclic path from the ok block to the loop header.
func (p *Prog) enumerateLoopPaths(cl *copyLoop, kind string) (int, []string) {
	r := p.R
	var bad []string
	paths := 0
	hasMapParam := false
	for _, pr := range cl.fn.Params {
		if _, ok := pr.Type().Underlying().(*types.Map); ok {
			hasMapParam = true
		}
	}
	type st struct {
		w, d, it, cnt int
		member        int // 0 unknown, +1 true edge, -1 false edge
		trail         []string
	}
	var walk func(b *ssa.BasicBlock, s st, onPath map[*ssa.BasicBlock]bool)
	walk = func(b *ssa.BasicBlock, s st, onPath map[*ssa.BasicBlock]bool) {
		if b == cl.header {
			paths++
			where := strings.Join(s.trail, " → ")
			switch kind {
			case "copy":
				switch {
				case s.w == 1 && s.d == 0 && s.member != +1:
				case s.w == 1 && s.d == 0 && !hasMapParam:
				case s.w == 0 && s.d == 1 && s.member == +1 && hasMapParam:
				case s.w == 0 && s.d == 0:
					bad = append(bad, "path ["+where+"] neither writes the record nor reports it as deleted")
				case s.w >= 1 && s.d >= 1:
					bad = append(bad, "path ["+where+"] both writes the record and reports it as deleted")
				case s.d >= 1 && s.member != +1:
					bad = append(bad, "path ["+where+"] reports the record as deleted without it being in the caller's set")
				case s.w >= 1 && s.member == +1:
					bad = append(bad, "path ["+where+"] keeps a record that is in the caller's delete set")
				default:
					bad = append(bad, "path ["+where+"] accounts for the record more than once")
				}
				if s.w == 1 && len(cl.items) > 0 && s.it != 1 {
					bad = append(bad, "path ["+where+"] writes the record without deriving exactly one index item for it")
				}
			case "scan":
				if s.it != 1 {
					bad = append(bad, "path ["+where+"] does not derive exactly one index item for the record")
				}
			case "count":
				if s.cnt != 1 {
					bad = append(bad, "path ["+where+"] does not count the record exactly once")
				}
			}
			return
		}
		if !cl.loop[b] || onPath[b] {
			return // left the loop (L3 judges exits) or inner cycle
		}
		onPath[b] = true
		defer delete(onPath, b)
		s.trail = append(append([]string{}, s.trail...), fmt.Sprintf("b%d", b.Index))
		for _, ins := range b.Instrs {
			switch x := ins.(type) {
			case *ssa.Call:
				switch calleeName(x.Common()) {
				case "(*" + pkgMessage + ".Writer).Write":
					if cl.isMsg(x.Call.Args[1]) {
						s.w++
					}
				case "(" + pkgIndex + ".Params).NewItem":
					if cl.isMsg(x.Call.Args[1]) {
						s.it++
					}
				}
			case *ssa.Store:
				// append(dst.DeletedMessages, msg) stored back into an exported DeletedMessages field
				if fa, ok := x.Addr.(*ssa.FieldAddr); ok && namedOf(fa.X.Type()) == r.RewriteSegment && fieldVarOfAddr(fa).Name() == "DeletedMessages" {
					if app := appendedSlice(x.Val); app != nil {
						for _, e := range variadicArgs(app) {
							if e != nil && cl.isMsg(e) {
								s.d++
							}
						}
					}
				}
			case *ssa.BinOp:
				// count + 1 on a header phi
				if x.Op == token.ADD {
					if k, ok := constInt(x.Y); ok && k == 1 {
						if phi, ok := x.X.(*ssa.Phi); ok && phi.Block() == cl.header {
							s.cnt++
						}
					}
				}
			}
		}
		if iff, ok := terminator(b).(*ssa.If); ok {
			// membership test on a map parameter keyed by the record's offset
			if ex, ok := iff.Cond.(*ssa.Extract); ok && ex.Index == 1 {
				if lk, ok := ex.Tuple.(*ssa.Lookup); ok && lk.CommaOk {
					if _, isParam := canon(lk.X).(*ssa.Parameter); isParam && p.isOffsetOf(lk.Index, cl) {
						s1, s2 := s, s
						s1.member, s2.member = +1, -1
						walk(b.Succs[0], s1, onPath)
						walk(b.Succs[1], s2, onPath)
						return
					}
				}
			}
		}
		for _, sc := range b.Succs {
			walk(sc, s, onPath)
		}
	}
	walk(cl.okBlk, st{}, map[*ssa.BasicBlock]bool{})
	if paths == 0 {
		bad = append(bad, "no path from the err==nil edge back to the loop header (loop shape not recognised)")
	}
	return paths, bad
}

// isOffsetOf: v is the Offset field of the record just read.
func (p *Prog) isOffsetOf(v ssa.Value, cl *copyLoop) bool {
	f, base := loadedField(v)
	if f == nil || f.Name() != "Offset" || namedOf(base.Type()) != p.R.Message {
		return false
	}
	if al := cl.msgAlloc(); al != nil && rootValue(base) == al {
		return true
	}
	return cl.isMsg(base)
}

func (p *Prog) l2Obligation(cl *copyLoop, base Ob, props []string, ea *ErrAtoms) Ob {
	o := base
	o.Inst, o.Props = "L2:"+funcLabel(cl.fn)+":index-derivation", props
	fn := cl.fn
	var bad []string
	// layout: is the index for a file with the same record positions as the source?
	needWritePos := false
	if len(cl.writes) > 0 {
		needWritePos = true
		for _, op := range p.fsOps(fn) {
			if op.op == "RENAME" && op.a.kind == "writer.Path" && p.sameLayoutTemp(fn, op.a) {
				needWritePos = false
			}
		}
	}
	for _, it := range cl.items {
		args := it.Call.Args // params, msg, position, prev
		if len(args) != 4 {
			bad = append(bad, p.at(it)+": unexpected NewItem signature")
			continue
		}
		if !cl.isMsg(args[1]) {
			bad = append(bad, p.at(it)+": the index item is not derived from the record just read")
		}
		pos := canon(args[2])
		isWritePos := false
		if ex, ok := pos.(*ssa.Extract); ok && ex.Index == 0 {
			if c, ok := ex.Tuple.(*ssa.Call); ok {
				for _, w := range cl.writes {
					if w == c && cl.isMsg(w.Call.Args[1]) && instrDominates(w, it) {
						isWritePos = true
					}
				}
			}
		}
		isReadPos := pos == canon(cl.posArg)
		switch {
		case needWritePos && !isWritePos:
			bad = append(bad, p.at(it)+": the index is for the destination file (different layout or rewritten positions) but the item's position is not the one returned by the Write of this record")
		case !needWritePos && !isWritePos && !isReadPos:
			bad = append(bad, p.at(it)+": the item's position is neither the position the record was read at nor the one it was written at")
		}
		// the previous-timestamp argument: for message times that never decrease max(time, prev) is the
		// message time whatever prev is, so loops that only *write* an index are not judged.  Loops that
		// *compare* their items with a stored index (Check, Recover: C07 quantifies over arbitrary
		// messages) must carry the previous item's Timestamp exactly as the appending writer does.
		if p.sliceReachesCompare(p.itemAppendedTo(it, cl), fn) {
			prevPhi, ok := canon(args[3]).(*ssa.Phi)
			if !ok || prevPhi.Block() != cl.header {
				bad = append(bad, p.at(it)+": the previous index timestamp passed to NewItem is not carried around the loop, but the items are compared with the stored index")
			} else if !p.phiFedByTimestamp(prevPhi, it, cl) {
				bad = append(bad, p.at(it)+": the loop-carried index timestamp is not the Timestamp of the item just created, but the items are compared with the index the appending writer built that way (for times that step backwards twice the derived index differs: Recover is no longer a no-op, Check fails)")
			}
		}
		// the item is appended to a loop-carried slice that reaches index.Write / slices.Equal after the loop
		slicePhi := p.itemAppendedTo(it, cl)
		if slicePhi == nil {
			bad = append(bad, p.at(it)+": the item is not appended to a loop-carried slice")
		} else if !p.sliceReachesIndexSink(slicePhi, fn) {
			bad = append(bad, p.at(it)+": the slice of derived items never reaches index.Write or a comparison with the stored index")
		}
	}
	if len(bad) > 0 {
		o.Status, o.Msg, o.Path = Violated, "the index built by this loop is not derived from the records it read at the right positions", bad
	} else {
		o.Status = Discharged
		if needWritePos {
			o.Msg = "each item = NewItem(record, position returned by its Write, carried timestamp), appended to the slice that reaches index.Write"
		} else {
			o.Msg = "each item = NewItem(record, position it was read/written at, carried timestamp), appended to the slice that reaches index.Write / the comparison"
		}
	}
	return o
}

// phiFedByTimestamp: following the back edge(s) of phi, the value on the path through the
// NewItem call is the Timestamp of that item; on other paths it is phi itself.
func (p *Prog) phiFedByTimestamp(phi *ssa.Phi, item *ssa.Call, cl *copyLoop) bool {
	isTS := func(v ssa.Value) bool {
		f, base := loadedField(v)
		if f == nil || f.Name() != "Timestamp" {
			return false
		}
		b := canon(base)
		if b == item {
			return true
		}
		// alloc holding the item
		if al, ok := rootValue(base).(*ssa.Alloc); ok {
			for _, st := range allocStores(al) {
				if st.Val == item {
					return true
				}
			}
		}
		return false
	}
	seen := map[ssa.Value]bool{}
	var ok func(v ssa.Value) bool
	ok = func(v ssa.Value) bool {
		if v == phi || isTS(v) {
			return true
		}
		if seen[v] {
			return true
		}
		seen[v] = true
		if ph, isPhi := v.(*ssa.Phi); isPhi && cl.loop[ph.Block()] {
			for _, e := range ph.Edges {
				if !ok(e) {
					return false
				}
			}
			return true
		}
		return false
	}
	fed := false
	for i, e := range phi.Edges {
		if cl.header.Dominates(cl.header.Preds[i]) { // back edge
			if !ok(e) {
				return false
			}
			fed = true
		}
	}
	// and the timestamp really is among the reaching values
	found := false
	var has func(v ssa.Value, d int)
	has = func(v ssa.Value, d int) {
		if d > 8 || found {
			return
		}
		if isTS(v) {
			found = true
			return
		}
		if ph, isPhi := v.(*ssa.Phi); isPhi && ph != phi {
			for _, e := range ph.Edges {
				has(e, d+1)
			}
		}
	}
	for i, e := range phi.Edges {
		if cl.header.Dominates(cl.header.Preds[i]) {
			has(e, 0)
		}
	}
	return fed && found
}

// itemAppendedTo: the header phi of the slice the item is appended to.
func (p *Prog) itemAppendedTo(item *ssa.Call, cl *copyLoop) *ssa.Phi {
	isItem := func(v ssa.Value) bool {
		if canon(v) == item {
			return true
		}
		if u, ok := v.(*ssa.UnOp); ok && u.Op == token.MUL {
			if al, ok := u.X.(*ssa.Alloc); ok {
				for _, st := range allocStores(al) {
					if st.Val == item {
						return true
					}
				}
			}
		}
		return false
	}
	for lb := range cl.loop {
		for _, ins := range lb.Instrs {
			c, ok := ins.(*ssa.Call)
			if !ok || !isBuiltinCall(c.Common(), "append") || len(c.Call.Args) != 2 {
				continue
			}
			for _, e := range variadicArgs(c.Call.Args[1]) {
				if e != nil && isItem(e) {
					if phi, ok := c.Call.Args[0].(*ssa.Phi); ok && phi.Block() == cl.header {
						return phi
					}
				}
			}
		}
	}
	return nil
}

func (p *Prog) sliceReachesIndexSink(phi *ssa.Phi, fn *ssa.Function) bool {
	for _, b := range fn.Blocks {
		for _, ins := range b.Instrs {
			c, ok := ins.(*ssa.Call)
			if !ok {
				continue
			}
			nm := calleeName(c.Common())
			if nm == pkgIndex+".Write" || strings.HasPrefix(nm, "slices.Equal") {
				for _, a := range c.Call.Args {
					if a == phi {
						return true
					}
				}
			}
		}
	}
	// returned to the caller (ReindexReader returns the items it wrote)
	return false
}

// sliceReachesCompare: the items slice is compared with a stored index (slices.Equal).
func (p *Prog) sliceReachesCompare(phi *ssa.Phi, fn *ssa.Function) bool {
	if phi == nil {
		return false
	}
	for _, b := range fn.Blocks {
		for _, ins := range b.Instrs {
			if c, ok := ins.(*ssa.Call); ok && strings.HasPrefix(calleeName(c.Common()), "slices.Equal") {
				for _, a := range c.Call.Args {
					if a == phi {
						return true
					}
				}
			}
		}
	}
	return false
}

// loopExits judges every edge that leaves the loop.
func (p *Prog) loopExits(cl *copyLoop, ea *ErrAtoms) []string {
	var bad []string
	fn := cl.fn
	hasTempRename := false
	for _, o := range p.fsOps(fn) {
		if o.op == "RENAME" && o.a.kind == "writer.Path" {
			hasTempRename = true
		}
	}
	corrupted := "G:" + pkgMessage + ".ErrCorrupted"
	// acceptedEdge: the edge b -> b.Succs[si] is taken exactly when the Read error is io.EOF
	// (or ErrCorrupted in a function that renames its temp over the source), or when a bound
	// on the position is reached.
	acceptedEdge := func(b *ssa.BasicBlock, si int) bool {
		iff, isIf := terminator(b).(*ssa.If)
		if !isIf {
			return false
		}
		if t, ok := classifyErrCond(iff.Cond, cl.errV); ok && (t.kind == "is" || t.kind == "eq") {
			edgeHolds := (si == 0) == t.trueMeans
			if edgeHolds && t.target == "X:io.EOF" {
				return true
			}
			if edgeHolds && t.target == corrupted && hasTempRename {
				return true
			}
		}
		if x, y, _, ok := relCond(iff.Cond); ok {
			isPos := func(v ssa.Value) bool { return canon(v) == canon(cl.posArg) }
			isParam := func(v ssa.Value) bool { _, ok := canon(v).(*ssa.Parameter); return ok }
			if (isPos(x) && isParam(y)) || (isPos(y) && isParam(x)) {
				return true
			}
		}
		return false
	}
	// exitOK: control has left the loop at block s with the Read error set; every way on is
	// either an accepted edge or a failure return.
	var exitOK func(s *ssa.BasicBlock, depth int) bool
	exitOK = func(s *ssa.BasicBlock, depth int) bool {
		if depth > 6 || cl.loop[s] {
			return false
		}
		if p.onlyFailureReturns(s, fn, ea, cl) {
			return true
		}
		if !pureBlock(s) {
			return false
		}
		iff, isIf := terminator(s).(*ssa.If)
		if !isIf {
			return false
		}
		if _, ok := classifyErrCond(iff.Cond, cl.errV); !ok {
			return false
		}
		for si, nx := range s.Succs {
			if acceptedEdge(s, si) {
				continue
			}
			if !exitOK(nx, depth+1) {
				return false
			}
		}
		return true
	}
	for b := range cl.loop {
		for si, s := range b.Succs {
			if cl.loop[s] {
				continue
			}
			if acceptedEdge(b, si) || exitOK(s, 0) {
				continue
			}
			bad = append(bad, fmt.Sprintf("%s: edge b%d→b%d leaves the loop", p.at(terminator(b)), b.Index, s.Index))
		}
	}
	sort.Strings(bad)
	return bad
}

// onlyFailureReturns: every path from b (outside the loop) ends in a failure return.
func (p *Prog) onlyFailureReturns(b *ssa.BasicBlock, fn *ssa.Function, ea *ErrAtoms, cl *copyLoop) bool {
	seen := map[*ssa.BasicBlock]bool{}
	var walk func(x *ssa.BasicBlock) bool
	walk = func(x *ssa.BasicBlock) bool {
		if seen[x] {
			return true
		}
		seen[x] = true
		if cl.loop[x] {
			return false
		}
		switch t := terminator(x).(type) {
		case *ssa.Return:
			return ea.isFailureReturn(fn, t)
		case *ssa.Panic:
			return true
		}
		if len(x.Succs) == 0 {
			return false
		}
		for _, s := range x.Succs {
			if !walk(s) {
				return false
			}
		}
		return true
	}
	return walk(b)
}
