package main

import (
	"fmt"
	"go/token"
	"go/types"
	"os"
	"path/filepath"
	"sort"
	"strings"

	"golang.org/x/tools/go/callgraph"
	"golang.org/x/tools/go/callgraph/cha"
	"golang.org/x/tools/go/callgraph/vta"
	"golang.org/x/tools/go/packages"
	"golang.org/x/tools/go/ssa"
	"golang.org/x/tools/go/ssa/ssautil"
)

// modPath is the module the role resolver expects at the repository root.
const modPath = "github.com/klev-dev/klevdb"

// Prog is the shared program model: syntax + types, SSA, VTA call graph.
type Prog struct {
	pureMemo map[*ssa.Function]int
	Root     string // repository root (absolute)
	SpecDir  string
	Pkgs     []*packages.Package
	ByPath   map[string]*packages.Package
	Fset     *token.FileSet
	SSA      *ssa.Program
	CG       *callgraph.Graph
	Funcs    []*ssa.Function // module functions with bodies (incl. anonymous, wrappers, instantiations)

	ea             *ErrAtoms
	ls             *Lockset
	apiReachMemo   map[*ssa.Function]map[string]bool
	fieldsReadMemo map[*types.Var]bool
	fileParamFx    map[*ssa.Function]map[int][2]bool
	R              *Roles

	Stats struct {
		Packages  int
		Functions int
		CallSites int
		CGNodes   int
	}
}

// LoadConfig selects a build configuration.
type LoadConfig struct {
	Root    string
	Env     []string          // extra environment (GOOS=..., GOARCH=...)
	Tags    string            // build tags
	Tests   bool              // include test variants
	Overlay map[string][]byte // file overrides (absolute path -> content)
}

type fatalError struct{ msg string }

// fatal aborts the run with exit status 2 (no verdict).
func fatal(format string, args ...any) {
	panic(fatalError{fmt.Sprintf(format, args...)})
}

func inModulePath(path string) bool {
	return path == modPath || strings.HasPrefix(path, modPath+"/")
}

func inModulePkg(p *ssa.Package) bool {
	return p != nil && inModulePath(p.Pkg.Path())
}

func funcPkgPath(fn *ssa.Function) string {
	for f := fn; f != nil; f = f.Parent() {
		if f.Pkg != nil {
			return f.Pkg.Pkg.Path()
		}
		if o := f.Origin(); o != nil && o.Pkg != nil {
			return o.Pkg.Pkg.Path()
		}
		if f.Object() != nil && f.Object().Pkg() != nil {
			return f.Object().Pkg().Path()
		}
	}
	return ""
}

func inModule(fn *ssa.Function) bool {
	return fn != nil && inModulePath(funcPkgPath(fn))
}

func Load(cfg LoadConfig) *Prog {
	root, err := filepath.Abs(cfg.Root)
	if err != nil {
		fatal("abs %s: %v", cfg.Root, err)
	}
	modData, err := os.ReadFile(filepath.Join(root, "go.mod"))
	if err != nil {
		fatal("read go.mod: %v", err)
	}
	if !strings.Contains(string(modData), "module "+modPath) {
		fatal("module path in %s/go.mod is not %s", root, modPath)
	}
	pcfg := &packages.Config{
		Mode:    packages.LoadAllSyntax,
		Dir:     root,
		Tests:   cfg.Tests,
		Env:     append(os.Environ(), cfg.Env...),
		Overlay: cfg.Overlay,
	}
	if cfg.Tags != "" {
		pcfg.BuildFlags = []string{"-tags=" + cfg.Tags}
	}
	pkgs, err := packages.Load(pcfg, "./...")
	if err != nil {
		fatal("packages.Load: %v", err)
	}
	if len(pkgs) == 0 {
		fatal("no packages loaded from %s", root)
	}
	nerr := 0
	packages.Visit(pkgs, nil, func(p *packages.Package) {
		for _, e := range p.Errors {
			fmt.Fprintf(os.Stderr, "load error: %s: %s\n", p.PkgPath, e)
			nerr++
		}
	})
	if nerr > 0 {
		fatal("%d load/type errors", nerr)
	}
	prog, _ := ssautil.AllPackages(pkgs, ssa.InstantiateGenerics)
	prog.Build()
	all := ssautil.AllFunctions(prog)
	cg := vta.CallGraph(all, cha.CallGraph(prog))
	p := &Prog{Root: root, Pkgs: pkgs, SSA: prog, CG: cg, Fset: prog.Fset, ByPath: map[string]*packages.Package{}}
	for _, pk := range pkgs {
		if inModulePath(pk.PkgPath) && !strings.HasSuffix(pk.PkgPath, ".test") {
			if _, dup := p.ByPath[pk.PkgPath]; !dup || len(pk.GoFiles) > len(p.ByPath[pk.PkgPath].GoFiles) {
				p.ByPath[pk.PkgPath] = pk
			}
			p.Stats.Packages++
		}
	}
	if p.Stats.Packages == 0 {
		fatal("no module packages among %d loaded", len(pkgs))
	}
	// methods declared on generic named types are not in any method set until the type is
	// instantiated: add their generic bodies explicitly
	for _, pk := range prog.AllPackages() {
		if !inModulePkg(pk) {
			continue
		}
		sc := pk.Pkg.Scope()
		for _, nm := range sc.Names() {
			tn, ok := sc.Lookup(nm).(*types.TypeName)
			if !ok {
				continue
			}
			named, ok := tn.Type().(*types.Named)
			if !ok {
				continue
			}
			for i := 0; i < named.NumMethods(); i++ {
				if fn := prog.FuncValue(named.Method(i)); fn != nil {
					all[fn] = true
					for _, an := range fn.AnonFuncs {
						all[an] = true
					}
				}
			}
		}
	}
	for fn := range all {
		if inModule(fn) && fn.Blocks != nil {
			if !cfg.Tests && isTestFile(p, fn) {
				continue
			}
			p.Funcs = append(p.Funcs, fn)
		}
	}
	sort.Slice(p.Funcs, func(i, j int) bool {
		a, b := p.Funcs[i], p.Funcs[j]
		if a.String() != b.String() {
			return a.String() < b.String()
		}
		return a.Pos() < b.Pos()
	})
	p.Stats.Functions = len(p.Funcs)
	p.Stats.CGNodes = len(cg.Nodes)
	for _, fn := range p.Funcs {
		for _, b := range fn.Blocks {
			for _, ins := range b.Instrs {
				if _, ok := ins.(ssa.CallInstruction); ok {
					p.Stats.CallSites++
				}
			}
		}
	}
	return p
}

func isTestFile(p *Prog, fn *ssa.Function) bool {
	if !fn.Pos().IsValid() {
		return false
	}
	return strings.HasSuffix(p.Fset.Position(fn.Pos()).Filename, "_test.go")
}

// posStr renders a position relative to the repository root.
func (p *Prog) posStr(pos token.Pos) string {
	if !pos.IsValid() {
		return "-"
	}
	ps := p.Fset.Position(pos)
	name := ps.Filename
	if rel, err := filepath.Rel(p.Root, name); err == nil && !strings.HasPrefix(rel, "..") {
		name = rel
	}
	return fmt.Sprintf("%s:%d", name, ps.Line)
}

func (p *Prog) at(ins ssa.Instruction) string {
	pos := ins.Pos()
	if iff, ok := ins.(*ssa.If); ok && !pos.IsValid() {
		// a branch has no position of its own: its condition does
		if v, ok := iff.Cond.(ssa.Instruction); ok && v.Pos().IsValid() {
			pos = v.Pos()
		}
	}
	if !pos.IsValid() {
		// fall back to the nearest positioned instruction in the block, then the function
		if b := ins.Block(); b != nil {
			for _, o := range b.Instrs {
				if o.Pos().IsValid() {
					pos = o.Pos()
					break
				}
			}
		}
		if !pos.IsValid() && ins.Parent() != nil {
			pos = ins.Parent().Pos()
		}
	}
	return p.posStr(pos)
}

// callees resolves a call site: the static callee, else the VTA edges; if VTA
// knows no callee for an interface call (exported helpers without a caller in
// the program), every module method implementing the interface method (CHA
// restricted to the module).
func (p *Prog) callees(site ssa.CallInstruction) []*ssa.Function {
	c := site.Common()
	if f := c.StaticCallee(); f != nil {
		return []*ssa.Function{f}
	}
	var out []*ssa.Function
	if n := p.CG.Nodes[site.Parent()]; n != nil {
		for _, e := range n.Out {
			if e.Site == site && e.Callee.Func != nil {
				out = append(out, e.Callee.Func)
			}
		}
	}
	if len(out) == 0 && c.IsInvoke() {
		out = p.moduleImplementations(c.Value.Type(), c.Method)
	}
	sort.Slice(out, func(i, j int) bool { return out[i].String() < out[j].String() })
	return out
}

func (p *Prog) moduleImplementations(iface types.Type, m *types.Func) []*ssa.Function {
	it, ok := iface.Underlying().(*types.Interface)
	if !ok {
		return nil
	}
	var out []*ssa.Function
	seen := map[*ssa.Function]bool{}
	for _, pk := range p.SSA.AllPackages() {
		if !inModulePkg(pk) {
			continue
		}
		for _, mem := range pk.Members {
			t, ok := mem.(*ssa.Type)
			if !ok {
				continue
			}
			for _, typ := range []types.Type{t.Type(), types.NewPointer(t.Type())} {
				if types.IsInterface(typ) || !types.Implements(typ, it) {
					continue
				}
				sel := p.SSA.MethodSets.MethodSet(typ).Lookup(m.Pkg(), m.Name())
				if sel == nil {
					continue
				}
				if fn := p.SSA.MethodValue(sel); fn != nil && !seen[fn] {
					seen[fn] = true
					out = append(out, fn)
				}
			}
		}
	}
	return out
}

// srcFunc reports whether fn is a function written in the source (not a
// synthetic wrapper, thunk or bound-method closure).
func srcFunc(fn *ssa.Function) bool {
	return fn.Synthetic == "" || strings.HasPrefix(fn.Synthetic, "instance of")
}
