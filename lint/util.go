package main

import (
	"go/constant"
	"go/token"
	"go/types"
	"sort"
	"strings"

	"golang.org/x/tools/go/ssa"
)

var errType = types.Universe.Lookup("error").Type()

func isErrType(t types.Type) bool { return types.Identical(t, errType) }

// namedOf strips pointers and returns the named type, if any.
func namedOf(t types.Type) *types.Named {
	for {
		switch x := t.(type) {
		case *types.Pointer:
			t = x.Elem()
			continue
		case *types.Named:
			return x
		case *types.Alias:
			t = types.Unalias(x)
			continue
		}
		return nil
	}
}

func structOf(t types.Type) *types.Struct {
	if n := namedOf(t); n != nil {
		s, _ := n.Underlying().(*types.Struct)
		return s
	}
	if p, ok := t.Underlying().(*types.Pointer); ok {
		t = p.Elem()
	}
	s, _ := t.Underlying().(*types.Struct)
	return s
}

// typeIs reports whether t (after stripping pointers) is the named type pkgPath.name.
func typeIs(t types.Type, pkgPath, name string) bool {
	n := namedOf(t)
	if n == nil || n.Obj().Pkg() == nil {
		return false
	}
	return n.Origin().Obj().Pkg().Path() == pkgPath && n.Origin().Obj().Name() == name
}

func typeName(t types.Type) string {
	n := namedOf(t)
	if n == nil {
		return t.String()
	}
	if n.Obj().Pkg() == nil {
		return n.Obj().Name()
	}
	return n.Obj().Pkg().Name() + "." + n.Obj().Name()
}

// fieldVarOfAddr returns the struct field a FieldAddr selects.
func fieldVarOfAddr(fa *ssa.FieldAddr) *types.Var {
	s := structOf(fa.X.Type())
	if s == nil || fa.Field >= s.NumFields() {
		return nil
	}
	return s.Field(fa.Field)
}

func fieldVarOfField(f *ssa.Field) *types.Var {
	s, _ := f.X.Type().Underlying().(*types.Struct)
	if s == nil || f.Field >= s.NumFields() {
		return nil
	}
	return s.Field(f.Field)
}

// loadedField: if v is a load of a struct field (through an address or a
// struct value), return the field and the base value.
func loadedField(v ssa.Value) (*types.Var, ssa.Value) {
	switch x := v.(type) {
	case *ssa.UnOp:
		if x.Op == token.MUL {
			if fa, ok := x.X.(*ssa.FieldAddr); ok {
				return fieldVarOfAddr(fa), fa.X
			}
		}
	case *ssa.Field:
		return fieldVarOfField(x), x.X
	}
	return nil, nil
}

// fieldLabel renders "pkg.Type.field" for a field (owner found by scanning the
// named struct types of the field's package).
func (p *Prog) fieldLabel(f *types.Var) string {
	if f == nil {
		return "?"
	}
	if f.Pkg() != nil {
		sc := f.Pkg().Scope()
		for _, nm := range sc.Names() {
			tn, ok := sc.Lookup(nm).(*types.TypeName)
			if !ok {
				continue
			}
			st, ok := tn.Type().Underlying().(*types.Struct)
			if !ok {
				continue
			}
			for i := 0; i < st.NumFields(); i++ {
				if st.Field(i) == f || st.Field(i).Origin() == f.Origin() {
					return f.Pkg().Name() + "." + tn.Name() + "." + f.Name()
				}
			}
		}
		return f.Pkg().Name() + ".?." + f.Name()
	}
	return f.Name()
}

func fullName(fn *ssa.Function) string {
	if fn == nil {
		return ""
	}
	return fn.String()
}

// calleeName returns the full name of the static callee of a call, or "".
func calleeName(c *ssa.CallCommon) string {
	if f := c.StaticCallee(); f != nil {
		if o := f.Origin(); o != nil {
			return o.String()
		}
		return f.String()
	}
	return ""
}

func isBuiltinCall(c *ssa.CallCommon, name string) bool {
	b, ok := c.Value.(*ssa.Builtin)
	return ok && b.Name() == name
}

func isNilConst(v ssa.Value) bool {
	c, ok := v.(*ssa.Const)
	return ok && c.Value == nil
}

func constInt(v ssa.Value) (int64, bool) {
	c, ok := v.(*ssa.Const)
	if !ok || c.Value == nil || c.Value.Kind() != constant.Int {
		return 0, false
	}
	i, exact := constant.Int64Val(c.Value)
	return i, exact
}

func constString(v ssa.Value) (string, bool) {
	c, ok := v.(*ssa.Const)
	if !ok || c.Value == nil || c.Value.Kind() != constant.String {
		return "", false
	}
	return constant.StringVal(c.Value), true
}

// stripConv removes value-preserving wrappers.
func stripConv(v ssa.Value) ssa.Value {
	for {
		switch x := v.(type) {
		case *ssa.Convert:
			v = x.X
		case *ssa.ChangeType:
			v = x.X
		case *ssa.ChangeInterface:
			v = x.X
		case *ssa.MakeInterface:
			v = x.X
		default:
			return v
		}
	}
}

// terminator returns the last instruction of a block.
func terminator(b *ssa.BasicBlock) ssa.Instruction {
	if len(b.Instrs) == 0 {
		return nil
	}
	return b.Instrs[len(b.Instrs)-1]
}

// edgeDominates reports whether every path from the entry to b passes through
// the edge d -> d.Succs[i].
func edgeDominates(d *ssa.BasicBlock, i int, b *ssa.BasicBlock) bool {
	if i >= len(d.Succs) {
		return false
	}
	s := d.Succs[i]
	for j, o := range d.Succs {
		if j != i && o == s {
			return false
		}
	}
	if !s.Dominates(b) {
		return false
	}
	for _, pr := range s.Preds {
		if pr == d {
			continue
		}
		if !s.Dominates(pr) { // another way into s that does not come through this edge
			return false
		}
	}
	return true
}

// instrDominates reports whether instruction a is executed before b on every path to b.
func instrDominates(a, b ssa.Instruction) bool {
	ba, bb := a.Block(), b.Block()
	if ba == nil || bb == nil || ba.Parent() != bb.Parent() {
		return false
	}
	if ba == bb {
		for _, ins := range ba.Instrs {
			if ins == a {
				return true
			}
			if ins == b {
				return false
			}
		}
		return false
	}
	return ba.Dominates(bb)
}

// reachableBlocks computes the blocks reachable from the entry, honouring a
// successor filter (used for option pruning).
func reachableBlocks(fn *ssa.Function, succs func(*ssa.BasicBlock) []*ssa.BasicBlock) map[*ssa.BasicBlock]bool {
	seen := map[*ssa.BasicBlock]bool{}
	if len(fn.Blocks) == 0 {
		return seen
	}
	work := []*ssa.BasicBlock{fn.Blocks[0]}
	seen[fn.Blocks[0]] = true
	for len(work) > 0 {
		b := work[len(work)-1]
		work = work[:len(work)-1]
		for _, s := range succs(b) {
			if !seen[s] {
				seen[s] = true
				work = append(work, s)
			}
		}
	}
	return seen
}

// variadicArgs returns the elements stored into the array backing a variadic
// slice argument (nil entries for non-constant indices).
func variadicArgs(v ssa.Value) []ssa.Value {
	sl, ok := v.(*ssa.Slice)
	if !ok {
		return nil
	}
	al, ok := sl.X.(*ssa.Alloc)
	if !ok {
		return nil
	}
	idx := map[int64]ssa.Value{}
	max := int64(-1)
	for _, r := range *al.Referrers() {
		ia, ok := r.(*ssa.IndexAddr)
		if !ok {
			continue
		}
		i, ok := constInt(ia.Index)
		if !ok {
			continue
		}
		for _, rr := range *ia.Referrers() {
			if st, ok := rr.(*ssa.Store); ok && st.Addr == ia {
				idx[i] = st.Val
				if i > max {
					max = i
				}
			}
		}
	}
	var out []ssa.Value
	for i := int64(0); i <= max; i++ {
		out = append(out, idx[i])
	}
	return out
}

// wrapVerbArgs returns, for a format string, the indices of the arguments consumed by %w verbs.
func wrapVerbArgs(format string) []int {
	var out []int
	arg := 0
	for i := 0; i < len(format); i++ {
		if format[i] != '%' {
			continue
		}
		i++
		if i >= len(format) {
			break
		}
		if format[i] == '%' {
			continue
		}
		for i < len(format) && strings.ContainsRune("+-# 0123456789.[]*", rune(format[i])) {
			i++
		}
		if i < len(format) && format[i] == 'w' {
			out = append(out, arg)
		}
		arg++
	}
	return out
}

func sortedKeys[V any](m map[string]V) []string {
	ks := make([]string, 0, len(m))
	for k := range m {
		ks = append(ks, k)
	}
	sort.Strings(ks)
	return ks
}

// allocStores returns the values stored directly into an Alloc.
func allocStores(al *ssa.Alloc) []*ssa.Store {
	var out []*ssa.Store
	if al.Referrers() == nil {
		return nil
	}
	for _, r := range *al.Referrers() {
		if st, ok := r.(*ssa.Store); ok && st.Addr == al {
			out = append(out, st)
		}
	}
	return out
}

// returnOperand resolves the value returned at result index i, looking through
// the defer-spill pattern (results stored into local allocs, returned by load
// after rundefers): the last store to the alloc in the returning block or, if
// none, walking up single-predecessor chains.
func returnOperand(rt *ssa.Return, i int) ssa.Value {
	v := rt.Results[i]
	u, ok := v.(*ssa.UnOp)
	if !ok || u.Op != token.MUL {
		return v
	}
	al, ok := u.X.(*ssa.Alloc)
	if !ok {
		return v
	}
	b := rt.Block()
	for hops := 0; b != nil && hops < 8; hops++ {
		start := len(b.Instrs) - 1
		for j := start; j >= 0; j-- {
			if st, ok := b.Instrs[j].(*ssa.Store); ok && st.Addr == al {
				return st.Val
			}
		}
		if len(b.Preds) != 1 {
			break
		}
		b = b.Preds[0]
	}
	return v
}

// errResultIndex returns the index of the last error-typed result, or -1.
func errResultIndex(fn *ssa.Function) int {
	res := fn.Signature.Results()
	for i := res.Len() - 1; i >= 0; i-- {
		if isErrType(res.At(i).Type()) {
			return i
		}
	}
	return -1
}

func returnsOf(fn *ssa.Function) []*ssa.Return {
	var out []*ssa.Return
	for _, b := range fn.Blocks {
		if b == fn.Recover {
			continue // the synthetic recover block of functions with defer: not a normal return
		}
		if rt, ok := terminator(b).(*ssa.Return); ok {
			out = append(out, rt)
		}
	}
	return out
}

// pureBlock: the block contains no call, send or store to non-local memory.
func pureBlock(b *ssa.BasicBlock) bool {
	for _, ins := range b.Instrs {
		switch x := ins.(type) {
		case ssa.CallInstruction:
			if _, isB := x.Common().Value.(*ssa.Builtin); !isB {
				switch calleeName(x.Common()) {
				case "errors.Is", "errors.As", "os.IsNotExist", "os.IsExist":
				default:
					return false
				}
			}
		case *ssa.Store:
			if _, isAlloc := rootValue(x.Addr).(*ssa.Alloc); !isAlloc {
				return false
			}
		case *ssa.Send, *ssa.MapUpdate:
			return false
		}
	}
	return true
}

// methodOf finds the source method named name on the named type (pointer or value receiver).
func (p *Prog) methodOf(n *types.Named, name string) *ssa.Function {
	if n == nil {
		return nil
	}
	for _, t := range []types.Type{types.NewPointer(n), n} {
		sel := p.SSA.MethodSets.MethodSet(t).Lookup(n.Obj().Pkg(), name)
		if sel == nil {
			// exported methods can be looked up without a package
			sel = p.SSA.MethodSets.MethodSet(t).Lookup(nil, name)
		}
		if sel != nil {
			if fn := p.SSA.MethodValue(sel); fn != nil {
				// unwrap promoted-method wrappers: only accept methods declared on n
				if fn.Synthetic == "" {
					return fn
				}
			}
		}
	}
	return nil
}

func (p *Prog) pkgFunc(pkgPath, name string) *ssa.Function {
	pk := p.SSA.ImportedPackage(pkgPath)
	if pk == nil {
		for _, c := range p.SSA.AllPackages() {
			if c.Pkg.Path() == pkgPath {
				pk = c
				break
			}
		}
	}
	if pk == nil {
		return nil
	}
	return pk.Func(name)
}

func (p *Prog) pkgType(pkgPath, name string) *types.Named {
	pk := p.ByPath[pkgPath]
	if pk == nil || pk.Types == nil {
		return nil
	}
	tn, _ := pk.Types.Scope().Lookup(name).(*types.TypeName)
	if tn == nil {
		return nil
	}
	n, _ := tn.Type().(*types.Named)
	return n
}

// recvNamed returns the named receiver type of a method.
func recvNamed(fn *ssa.Function) *types.Named {
	if fn == nil || fn.Signature.Recv() == nil {
		return nil
	}
	return namedOf(fn.Signature.Recv().Type())
}

// funcLabel gives a short human name: (*pkg.T).M or pkg.F.
func funcLabel(fn *ssa.Function) string {
	if fn == nil {
		return "?"
	}
	s := fn.String()
	s = strings.ReplaceAll(s, modPath+"/pkg/", "")
	s = strings.ReplaceAll(s, modPath+".", "klevdb.")
	s = strings.ReplaceAll(s, modPath, "klevdb")
	return s
}

// canon canonicalises a value: a load from a local alloc that is stored exactly
// once (a variable captured by a closure, or address-taken) is the stored value.
func canon(v ssa.Value) ssa.Value {
	for i := 0; i < 4; i++ {
		u, ok := v.(*ssa.UnOp)
		if !ok || u.Op != token.MUL {
			return v
		}
		al, ok := u.X.(*ssa.Alloc)
		if !ok {
			return v
		}
		sts := allocStores(al)
		if len(sts) != 1 {
			return v
		}
		v = sts[0].Val
	}
	return v
}

func derefPtr(t types.Type) types.Type {
	if pt, ok := t.Underlying().(*types.Pointer); ok {
		return pt.Elem()
	}
	return t
}

// lenZeroEdge: cond compares len(v) with a constant such that one edge of the branch means "v is
// empty": len == 0, len <= 0, len < 1 (true edge), len != 0, len > 0, len >= 1 (false edge), in either
// operand order. Returns v and the index of the "empty" edge.
func lenZeroEdge(cond ssa.Value) (v ssa.Value, edge int, ok bool) {
	neg := false
	for {
		u, isU := cond.(*ssa.UnOp)
		if !isU || u.Op != token.NOT {
			break
		}
		neg, cond = !neg, u.X
	}
	bo, isB := cond.(*ssa.BinOp)
	if !isB {
		return nil, 0, false
	}
	x, y, op := bo.X, bo.Y, bo.Op
	if _, isK := constInt(x); isK {
		// constant on the left: mirror
		x, y = y, x
		switch op {
		case token.LSS:
			op = token.GTR
		case token.GTR:
			op = token.LSS
		case token.LEQ:
			op = token.GEQ
		case token.GEQ:
			op = token.LEQ
		}
	}
	c, isC := stripConv(x).(*ssa.Call)
	k, isK := constInt(y)
	if !isC || !isK || !isBuiltinCall(c.Common(), "len") || len(c.Call.Args) != 1 {
		return nil, 0, false
	}
	e := -1
	switch {
	case (op == token.EQL || op == token.LEQ) && k == 0, op == token.LSS && k == 1:
		e = 0
	case (op == token.NEQ || op == token.GTR) && k == 0, op == token.GEQ && k == 1:
		e = 1
	}
	if e < 0 {
		return nil, 0, false
	}
	if neg {
		e = 1 - e
	}
	return c.Call.Args[0], e, true
}
