package main

import (
	"fmt"
	"go/constant"
	"go/token"
	"go/types"
	"sort"
	"strings"

	"golang.org/x/tools/go/ssa"
)

// Rules added after the fourth seeded round.

// ---------------------------------------------------------------------------
// R33 TIME-VERBATIM (C01): on the publish path a message's Time is stored as given; the only value
// ever written over it is time.Now() (optionally .UTC()), and only where the given time IsZero.
func ruleR33(p *Prog) []Ob {
	var obs []Ob
	root := p.R.ImplMethods["Publish"]
	if root == nil {
		return []Ob{{Rule: "R33", Inst: "time-verbatim", Props: []string{"C01"}, Pos: "-", Status: Undecided, Msg: "Log.Publish not found"}}
	}
	reach := p.moduleReach(root)
	isTimeField := func(fa *ssa.FieldAddr) bool {
		f := fieldVarOfAddr(fa)
		return f != nil && typeIs(f.Type(), "time", "Time") && namedOf(derefPtr(fa.X.Type())) == p.R.Message
	}
	zeroGuarded := func(b *ssa.BasicBlock) bool {
		for d := b; d != nil; d = d.Idom() {
			id := d.Idom()
			if id == nil {
				break
			}
			iff, ok := terminator(id).(*ssa.If)
			if !ok {
				continue
			}
			cond, pos := iff.Cond, true
			for {
				u, ok := cond.(*ssa.UnOp)
				if !ok || u.Op != token.NOT {
					break
				}
				pos, cond = !pos, u.X
			}
			c, ok := cond.(*ssa.Call)
			if !ok || calleeName(c.Common()) != "(time.Time).IsZero" {
				continue
			}
			si := 0
			if !pos {
				si = 1
			}
			if edgeDominates(id, si, b) {
				return true
			}
		}
		return false
	}
	var okVal func(v ssa.Value, d int) (bool, string)
	okVal = func(v ssa.Value, d int) (bool, string) {
		if d > 6 {
			return false, "value too deep to classify"
		}
		v = canon(v)
		switch x := v.(type) {
		case *ssa.UnOp:
			if x.Op == token.MUL {
				if fa, ok := x.X.(*ssa.FieldAddr); ok && isTimeField(fa) {
					return true, ""
				}
			}
		case *ssa.Field:
			if f := fieldVarOfField(x); f != nil && typeIs(f.Type(), "time", "Time") && namedOf(x.X.Type()) == p.R.Message {
				return true, ""
			}
		case *ssa.Parameter:
			if typeIs(x.Type(), "time", "Time") {
				return true, "" // judged at the caller's store
			}
		case *ssa.Phi:
			for _, e := range x.Edges {
				if ok, why := okVal(e, d+1); !ok {
					return false, why
				}
			}
			return true, ""
		case *ssa.Call:
			switch calleeName(x.Common()) {
			case "time.Now":
				if zeroGuarded(x.Block()) {
					return true, ""
				}
				return false, "time.Now() replaces a time that was not tested with IsZero"
			case "(time.Time).UTC":
				return okVal(x.Call.Args[0], d+1)
			}
			if g := x.Common().StaticCallee(); g != nil && inModule(g) && g.Blocks != nil {
				for _, rt := range returnsOf(g) {
					for i := range rt.Results {
						if typeIs(g.Signature.Results().At(i).Type(), "time", "Time") {
							if ok, why := okVal(returnOperand(rt, i), d+1); !ok {
								return false, why
							}
						}
					}
				}
				for _, a := range x.Call.Args {
					if typeIs(a.Type(), "time", "Time") {
						if ok, why := okVal(a, d+1); !ok {
							return false, why
						}
					}
				}
				return true, ""
			}
			return false, "the stored time is the result of " + calleeName(x.Common())
		}
		return false, fmt.Sprintf("the stored time is %s", v.String())
	}
	var fns []*ssa.Function
	for f := range reach {
		fns = append(fns, f)
	}
	sort.Slice(fns, func(i, j int) bool { return fns[i].Pos() < fns[j].Pos() })
	n := 0
	decoder := map[*ssa.Function]bool{}
	for _, d := range p.R.RecDecoders {
		decoder[d] = true
	}
	for _, fn := range fns {
		if decoder[fn] {
			continue // the read side builds the time from the stored microseconds (R9)
		}
		k := 0
		for _, b := range fn.Blocks {
			for _, ins := range b.Instrs {
				st, ok := ins.(*ssa.Store)
				if !ok {
					continue
				}
				fa, ok := st.Addr.(*ssa.FieldAddr)
				if !ok || !isTimeField(fa) {
					continue
				}
				n++
				k++
				ob := Ob{Rule: "R33", Inst: fmt.Sprintf("time-verbatim:%s#%d", funcLabel(fn), k), Props: []string{"C01", "C10"}, Pos: p.at(st), Func: funcLabel(fn), Nontrivial: true}
				if ok, why := okVal(st.Val, 0); ok {
					ob.Status, ob.Msg = Discharged, "the only value written over a message's time on the publish path is time.Now() where the given time is zero"
				} else {
					ob.Status, ob.Msg = Violated, "the publish path alters the time of a message before storing it ("+why+"): what is read back is not what was published"
				}
				obs = append(obs, ob)
			}
		}
	}
	obs = append(obs, Ob{Rule: "R33", Inst: "time-verbatim:scope", Props: []string{"C01", "C10"}, Pos: p.posStr(root.Pos()), Func: funcLabel(root), Status: Discharged,
		Msg: fmt.Sprintf("%d module functions reachable from Log.Publish scanned, %d stores to Message.Time", len(reach), n)})
	return obs
}

// moduleReach: module functions reachable from root through the call graph.
func (p *Prog) moduleReach(root *ssa.Function) map[*ssa.Function]bool {
	seen := map[*ssa.Function]bool{}
	var walk func(f *ssa.Function)
	walk = func(f *ssa.Function) {
		if f == nil || seen[f] || !inModule(f) || f.Blocks == nil {
			return
		}
		seen[f] = true
		for _, b := range f.Blocks {
			for _, ins := range b.Instrs {
				if c, ok := ins.(ssa.CallInstruction); ok {
					for _, g := range p.callees(c) {
						walk(g)
					}
				}
				if mc, ok := ins.(*ssa.MakeClosure); ok {
					if g, ok := mc.Fn.(*ssa.Function); ok {
						walk(g)
					}
				}
			}
		}
	}
	walk(root)
	return seen
}

// ---------------------------------------------------------------------------
// R34 SEGMENT-IDENTITY (C01, C12): Segment values are compared with == to tell "same files"; every
// Segment is therefore built from a directory string taken verbatim from where the log's directory
// is kept (another Segment's Dir, a field, a parameter), never from a recomputed path.
func ruleR34(p *Prog) []Ob {
	var obs []Ob
	r := p.R
	var dirField *types.Var
	if st := structOf(r.Segment.Underlying()); st != nil {
		for i := 0; i < st.NumFields(); i++ {
			if st.Field(i).Name() == "Dir" {
				dirField = st.Field(i)
			}
		}
	}
	// the constructor: stores one of its parameters into Segment.Dir
	var ctor *ssa.Function
	dirIdx := -1
	for _, fn := range p.Funcs {
		if !srcFunc(fn) || fn.Signature.Recv() != nil {
			continue
		}
		for _, b := range fn.Blocks {
			for _, ins := range b.Instrs {
				st, ok := ins.(*ssa.Store)
				if !ok {
					continue
				}
				fa, ok := st.Addr.(*ssa.FieldAddr)
				if !ok || fieldVarOfAddr(fa) != dirField || dirField == nil {
					continue
				}
				if pr, ok := st.Val.(*ssa.Parameter); ok {
					for i, q := range fn.Params {
						if q == pr {
							ctor, dirIdx = fn, i
						}
					}
				}
			}
		}
	}
	if ctor == nil {
		return []Ob{{Rule: "R34", Inst: "segment-identity", Props: []string{"C01", "C12"}, Pos: "-", Status: Undecided, Msg: "no constructor stores a parameter into Segment.Dir"}}
	}
	// values the open path stores into string fields of the log implementation
	kept := map[ssa.Value]bool{}
	for _, fn := range p.Funcs {
		for _, b := range fn.Blocks {
			for _, ins := range b.Instrs {
				if st, ok := ins.(*ssa.Store); ok {
					if fa, ok := st.Addr.(*ssa.FieldAddr); ok && namedOf(derefPtr(fa.X.Type())) == r.Impl {
						if b, ok := st.Val.Type().Underlying().(*types.Basic); ok && b.Kind() == types.String {
							kept[canon(st.Val)] = true
						}
					}
				}
			}
		}
	}
	n := 0
	perFn := map[*ssa.Function]int{}
	for _, fn := range p.Funcs {
		if !srcFunc(fn) {
			continue
		}
		for _, b := range fn.Blocks {
			for _, ins := range b.Instrs {
				c, ok := ins.(*ssa.Call)
				if !ok || c.Common().StaticCallee() != ctor {
					continue
				}
				n++
				perFn[fn]++
				arg := canon(c.Call.Args[dirIdx])
				ob := Ob{Rule: "R34", Inst: fmt.Sprintf("segment-identity:%s#%d", funcLabel(fn), perFn[fn]), Props: []string{"C01", "C12"}, Pos: p.at(c), Func: funcLabel(fn)}
				verbatim, what := false, ""
				if f, _ := loadedField(arg); f != nil {
					verbatim, what = true, "field "+f.Name()
				} else if pr, ok := arg.(*ssa.Parameter); ok {
					verbatim, what = true, "parameter "+pr.Name()
				} else if fv, ok := arg.(*ssa.FreeVar); ok {
					verbatim, what = true, "captured "+fv.Name()
				} else if kept[arg] {
					verbatim, what = true, "the value the log keeps as its directory"
				}
				// a method that already has a Segment derives from that Segment's Dir
				if rn := recvNamed(fn); verbatim && (rn == r.Segment || rn == r.RewriteSegment) {
					if f, _ := loadedField(arg); f != dirField {
						verbatim = false
					}
				}
				// the other settings that are part of a Segment's identity (everything but the offset
				// and what is derived from it): inside a method of a Segment they are the receiver's
				// own; nowhere are they a literal
				flagBad := ""
				for i, q := range ctor.Params {
					if i == dirIdx || i >= len(c.Call.Args) {
						continue
					}
					if bt, ok := q.Type().Underlying().(*types.Basic); !ok || bt.Kind() != types.Bool {
						continue
					}
					a := canon(c.Call.Args[i])
					if _, isConst := a.(*ssa.Const); isConst {
						flagBad = fmt.Sprintf("the setting %s is the literal %s", q.Name(), a.String())
					} else if rn := recvNamed(fn); rn == r.Segment || rn == r.RewriteSegment {
						if f, base := loadedField(a); f == nil || (namedOf(derefPtr(base.Type())) != r.Segment && namedOf(derefPtr(base.Type())) != r.RewriteSegment) {
							flagBad = fmt.Sprintf("the setting %s is not the source segment's own", q.Name())
						}
					}
				}
				if verbatim && flagBad != "" {
					ob.Status, ob.Msg = Violated, "a Segment is built with a setting that is not its source's ("+flagBad+"): Segment values are compared with == to decide whether a rewrite replaces its source in place; a rewrite that differs in a setting is taken for another segment, and the files just swapped in are removed"
				} else if verbatim {
					ob.Status, ob.Msg = Discharged, "the directory of the new Segment is taken verbatim from "+what
				} else {
					ob.Status, ob.Msg = Violated, "a Segment is built from a recomputed directory string ("+arg.String()+"): Segment values are compared with == to decide whether a rewrite replaces its source in place, and two spellings of one directory make that comparison say 'different files'"
				}
				obs = append(obs, ob)
			}
		}
	}
	if n == 0 {
		obs = append(obs, Ob{Rule: "R34", Inst: "segment-identity", Props: []string{"C01", "C12"}, Pos: "-", Status: Undecided, Msg: "no call of the Segment constructor found"})
	}
	return obs
}

// ---------------------------------------------------------------------------
// R11 L7: a stored index is accepted only if it equals the whole index derived from the log.
func (p *Prog) wholeIndexCompare() []Ob {
	var obs []Ob
	for _, cl := range p.copyLoops() {
		if cl.loop == nil {
			continue
		}
		for _, it := range cl.items {
			phi := p.itemAppendedTo(it, cl)
			if phi == nil {
				continue
			}
			derived := func(v ssa.Value) (bool, bool) { // (related, whole)
				whole := true
				for d := 0; d < 6; d++ {
					if v == phi {
						return true, whole
					}
					switch x := v.(type) {
					case *ssa.Slice:
						whole = false
						v = x.X
						continue
					case *ssa.Phi:
						// the value after the loop is the header phi itself in this code; other phis are not followed
					}
					break
				}
				return false, false
			}
			nCmp := 0
			var readCall *ssa.Call
			for _, b := range cl.fn.Blocks {
				for _, ins := range b.Instrs {
					c, ok := ins.(*ssa.Call)
					if ok && calleeName(c.Common()) == pkgIndex+".Read" {
						readCall = c
					}
					if !ok || !strings.HasPrefix(calleeName(c.Common()), "slices.Equal") {
						continue
					}
					isFunc := strings.HasPrefix(calleeName(c.Common()), "slices.EqualFunc")
					for ai, a := range c.Call.Args {
						if isFunc && ai >= 2 {
							continue
						}
						rel, whole := derived(a)
						if !rel {
							continue
						}
						if isFunc && whole {
							// the comparison function has to look at whole items
							if miss := p.fieldsNotCompared(c.Call.Args[2]); miss != "" {
								nCmp++
								ob := Ob{Rule: "R11", Inst: "L7:" + funcLabel(cl.fn) + ":whole-index-compare", Props: []string{"C02", "C05", "C07", "C11", "C10"}, Pos: p.at(c), Func: funcLabel(cl.fn), Nontrivial: true}
								ob.Status, ob.Msg = Violated, "the stored index is compared with the derived one item by item through a function that leaves out "+miss+": a stored index that is wrong there is accepted and kept"
								obs = append(obs, ob)
								continue
							}
						}
						nCmp++
						ob := Ob{Rule: "R11", Inst: "L7:" + funcLabel(cl.fn) + ":whole-index-compare", Props: []string{"C02", "C05", "C07", "C11"}, Pos: p.at(c), Func: funcLabel(cl.fn), Nontrivial: true}
						if whole {
							ob.Status, ob.Msg = Discharged, "the stored index is compared with the whole index derived from the log"
						} else {
							ob.Status, ob.Msg = Violated, "the stored index is compared with only a part of the index derived from the log: an index that lags the log (or runs ahead of it) is accepted, and the next offset is taken from it"
						}
						obs = append(obs, ob)
					}
				}
			}
			// a function that reads the stored index next to deriving one, but compares them by hand:
			// the lengths must be compared too (a stored index that is a proper prefix of the derived
			// one - a crash between the record and its index item - is otherwise accepted)
			if nCmp == 0 && readCall != nil {
				ob := Ob{Rule: "R11", Inst: "L7:" + funcLabel(cl.fn) + ":whole-index-compare", Props: []string{"C02", "C05", "C07", "C11"}, Pos: p.at(readCall), Func: funcLabel(cl.fn), Nontrivial: true}
				lenOf := func(v ssa.Value) ssa.Value {
					if c, ok := stripConv(v).(*ssa.Call); ok && isBuiltinCall(c.Common(), "len") && len(c.Call.Args) == 1 {
						return c.Call.Args[0]
					}
					return nil
				}
				lens := false
				for _, b := range cl.fn.Blocks {
					for _, ins := range b.Instrs {
						bo, ok := ins.(*ssa.BinOp)
						if !ok || (bo.Op != token.EQL && bo.Op != token.NEQ) {
							continue
						}
						x, y := lenOf(bo.X), lenOf(bo.Y)
						if x == nil || y == nil {
							continue
						}
						rx, wx := derived(x)
						ry, wy := derived(y)
						if (rx && wx) != (ry && wy) && (rx || ry) {
							lens = true
						}
					}
				}
				if lens {
					ob.Status, ob.Msg = Discharged, "the stored index is compared by hand with the derived one, lengths included"
				} else {
					ob.Status, ob.Msg = Violated, "the stored index is read next to the index derived from the log but never compared with it as a whole (neither slices.Equal nor a comparison of the two lengths): an index that lags the log by whole items is accepted, and the next offset is taken from it"
				}
				obs = append(obs, ob)
			}
		}
	}
	return obs
}

// ---------------------------------------------------------------------------
// R35 LOOKUP-OUTCOMES (C10, C09): a query that walks the segments classifies every outcome the
// per-segment lookup can report. Outcomes are the sentinels returned by pure (I/O-free) lookup
// functions; one that reaches the loop's catch-all ends the search although other segments remain.
func ruleR35(p *Prog) []Ob {
	var obs []Ob
	ea := p.ErrAtomsCached()
	pure := p.pureFn
	outcomes := atomset{}
	for _, fn := range p.Funcs {
		if !srcFunc(fn) || fn.Parent() != nil || !pure(fn) {
			continue
		}
		ei := errResultIndex(fn)
		if ei < 0 || ea.ret[fn] == nil || ea.ret[fn][ei] == nil {
			continue
		}
		for a := range ea.ret[fn][ei] {
			if strings.HasPrefix(a, "G:") {
				outcomes[a] = true
			}
		}
	}
	// empty-segment outcomes: returned by a pure lookup on the edge where len(items) == 0
	emptyOutcomes := atomset{}
	for _, fn := range p.Funcs {
		if !srcFunc(fn) || fn.Parent() != nil || !pure(fn) || errResultIndex(fn) < 0 {
			continue
		}
		ei := errResultIndex(fn)
		for _, rt := range returnsOf(fn) {
			a := sentinelOperand(returnOperand(rt, ei))
			if a == "" || !outcomes[a] {
				continue
			}
			for _, hb := range fn.Blocks {
				iff, ok := terminator(hb).(*ssa.If)
				if !ok {
					continue
				}
				x, y, op, ok := relCond(iff.Cond)
				if !ok || op != token.EQL {
					continue
				}
				isLen := func(v ssa.Value) bool {
					c, ok := v.(*ssa.Call)
					return ok && isBuiltinCall(c.Common(), "len")
				}
				k, isK := constInt(y)
				if isLen(x) && isK && k == 0 && edgeDominates(hb, 0, rt.Block()) {
					emptyOutcomes[a] = true
				}
			}
		}
	}
	// a query by relative offset (Get) must not take "this segment is empty" from the one segment it
	// picked as the answer for the whole log
	if m := p.R.ImplMethods["Get"]; m != nil && m.Blocks != nil {
		for _, b := range m.Blocks {
			for _, ins := range b.Instrs {
				c, ok := ins.(*ssa.Call)
				if !ok {
					continue
				}
				g := c.Common().StaticCallee()
				if g == nil || recvNamed(g) != p.R.SegReader || errResultIndex(g) < 0 {
					continue
				}
				if _, loop := innermostLoop(b); loop != nil {
					continue
				}
				var errV ssa.Value
				for _, ref := range *c.Referrers() {
					if ex, ok := ref.(*ssa.Extract); ok && ex.Index == errResultIndex(g) {
						errV = ex
					}
				}
				if errV == nil {
					continue
				}
				var S []string
				for a := range ea.atoms(errV, 0) {
					if emptyOutcomes[a] {
						S = append(S, a)
					}
				}
				sort.Strings(S)
				if len(S) == 0 {
					continue
				}
				// the fallback itself: a call that only runs where an earlier pick reported "empty"
				fallback := false
				for _, hb := range m.Blocks {
					iff, ok := terminator(hb).(*ssa.If)
					if !ok {
						continue
					}
					for _, t := range sentinelTests(iff.Cond) {
						if emptyOutcomes[t.atom] && edgeDominates(hb, t.edge, b) && hb != b {
							fallback = true
						}
					}
				}
				if fallback {
					continue
				}
				handled := map[string]bool{}
				var guardsGet []string
				for _, hb := range m.Blocks {
					if iff, ok := terminator(hb).(*ssa.If); ok {
						if t, ok := classifyErrCond(iff.Cond, errV); ok && (t.kind == "eq" || t.kind == "is") {
							for _, a := range S {
								if a == t.target || (t.kind == "is" && ea.matchesIs(a, t.target)) {
									handled[a] = true
									guardsGet = append(guardsGet, p.at(iff))
								}
							}
						}
					}
				}
				ob := Ob{Rule: "R35", Inst: "empty-segment-outcome:Log.Get:" + shortCallee(g), Props: []string{"C04"}, Pos: p.at(c), Func: funcLabel(m), Nontrivial: true}
				var missing []string
				for _, a := range S {
					if !handled[a] {
						missing = append(missing, shortAtom(a))
					}
				}
				if len(missing) > 0 {
					ob.Status, ob.Msg = Violated, fmt.Sprintf("the one segment Log.Get picks can report %s (it is empty), and Log.Get passes that on as the answer for the whole log: with an empty head, Get(OffsetNewest) fails although earlier segments hold messages", strings.Join(missing, ", "))
				} else {
					ob.Status, ob.Msg = Discharged, "the empty-segment outcome of the picked segment is classified by Log.Get before anything is returned"
					ob.Guards = uniqSorted(guardsGet)
				}
				obs = append(obs, ob)
			}
		}
	}
	names := sortedKeys(p.R.ImplMethods)
	n := 0
	for _, q := range names {
		m := p.R.ImplMethods[q]
		if m == nil || m.Blocks == nil {
			continue
		}
		for _, b := range m.Blocks {
			if _, loop := innermostLoop(b); loop == nil {
				continue
			}
			for _, ins := range b.Instrs {
				c, ok := ins.(*ssa.Call)
				if !ok {
					continue
				}
				g := c.Common().StaticCallee()
				if g == nil || recvNamed(g) != p.R.SegReader {
					continue
				}
				ei := errResultIndex(g)
				if ei < 0 {
					continue
				}
				var errV ssa.Value
				if g.Signature.Results().Len() == 1 {
					errV = c
				} else {
					for _, ref := range *c.Referrers() {
						if ex, ok := ref.(*ssa.Extract); ok && ex.Index == ei {
							errV = ex
						}
					}
				}
				if errV == nil {
					continue
				}
				got := ea.atoms(errV, 0)
				var S []string
				for a := range got {
					if outcomes[baseAtom(a)] && a == baseAtom(a) {
						S = append(S, a)
					}
				}
				sort.Strings(S)
				if len(S) == 0 {
					continue
				}
				handled := map[string]bool{}
				for _, hb := range m.Blocks {
					iff, ok := terminator(hb).(*ssa.If)
					if !ok {
						continue
					}
					if t, ok := classifyErrCond(iff.Cond, errV); ok && (t.kind == "eq" || t.kind == "is") {
						for _, a := range S {
							if a == t.target || (t.kind == "is" && ea.matchesIs(a, t.target)) {
								handled[a] = true
							}
						}
					}
				}
				n++
				ob := Ob{Rule: "R35", Inst: "lookup-outcomes:Log." + q + ":" + shortCallee(g), Props: methodPropsAll[q], Pos: p.at(c), Func: funcLabel(m), Nontrivial: true}
				var missing []string
				for _, a := range S {
					if !handled[a] {
						missing = append(missing, shortAtom(a))
					}
				}
				if len(missing) > 0 {
					ob.Status, ob.Msg = Violated, fmt.Sprintf("the per-segment lookup can report %s, which the loop over the segments does not classify: it ends the search as a failure although other segments may hold the answer", strings.Join(missing, ", "))
				} else {
					var hs []string
					for _, a := range S {
						hs = append(hs, shortAtom(a))
					}
					ob.Status, ob.Msg = Discharged, "every outcome of the per-segment lookup is classified by the loop: "+strings.Join(hs, ", ")
				}
				obs = append(obs, ob)
			}
		}
	}
	if n == 0 {
		obs = append(obs, Ob{Rule: "R35", Inst: "lookup-outcomes", Props: []string{"C10", "C09"}, Pos: "-", Status: Undecided, Msg: "no per-segment lookup with outcome sentinels found inside a loop of a Log method"})
	}
	return obs
}

func shortCallee(g *ssa.Function) string {
	s := funcLabel(g)
	if i := strings.LastIndex(s, "."); i >= 0 {
		return s[i+1:]
	}
	return s
}

// ---------------------------------------------------------------------------
// R2 O8 / O9 (C05)

// atomicReplace (O8): a live log file is replaced by one rename onto its name; nothing on a path to
// that rename removes the name or renames it away first (a crash in between leaves no log at all).
func (p *Prog) atomicReplace() []Ob {
	var obs []Ob
	isLive := func(pc pathClass) bool {
		return pc.kind == "reader.Path" || (pc.kind == "seg" && pc.fld == "Log")
	}
	for _, fn := range p.Funcs {
		if !srcFunc(fn) {
			continue
		}
		ops := p.fsOps(fn)
		for _, o := range ops {
			if o.op != "RENAME" || !isLive(o.b) {
				continue
			}
			ob := Ob{Rule: "R2", Inst: "O8:" + funcLabel(fn) + ":atomic-replace", Props: []string{"C05"}, Pos: p.at(o.call), Func: funcLabel(fn), Nontrivial: true}
			var bad []string
			for _, q := range ops {
				if q.call == o.call || (q.op != "REMOVE" && q.op != "RENAME") {
					continue
				}
				if isLive(q.a) && q.a.String() == o.b.String() && canReach(q.call, o.call) {
					bad = append(bad, fmt.Sprintf("%s: %s of %s precedes the rename that puts the replacement in place", p.at(q.call), strings.ToLower(q.op), q.a))
				}
			}
			if len(bad) > 0 {
				ob.Status, ob.Msg, ob.Path = Violated, "the live log is moved away or removed before its replacement is renamed onto it: a crash between the two steps leaves the segment without a log", bad
			} else {
				ob.Status, ob.Msg = Discharged, "the replacement is renamed onto the live name in one step"
			}
			obs = append(obs, ob)
		}
	}
	return obs
}

// recoverReplaces (O9): when the scan of a recovering copy loop ends at corruption, every success
// return is preceded by the rename of the rebuilt log over the damaged one.
func (p *Prog) recoverReplaces() []Ob {
	var obs []Ob
	ea := p.ErrAtomsCached()
	corrupted := "G:" + pkgMessage + ".ErrCorrupted"
	for _, cl := range p.copyLoops() {
		if cl.loop == nil {
			continue
		}
		fn := cl.fn
		var rename *ssa.Call
		for _, o := range p.fsOps(fn) {
			if o.op == "RENAME" && o.a.kind == "writer.Path" {
				rename = o.call
			}
		}
		if rename == nil {
			continue
		}
		type edge struct{ from, to *ssa.BasicBlock }
		var starts []edge
		for b := range cl.loop {
			iff, ok := terminator(b).(*ssa.If)
			if !ok {
				continue
			}
			t, ok := classifyErrCond(iff.Cond, cl.errV)
			if !ok || (t.kind != "is" && t.kind != "eq") || t.target != corrupted {
				continue
			}
			si := 1
			if t.trueMeans {
				si = 0
			}
			starts = append(starts, edge{b, b.Succs[si]})
		}
		sort.Slice(starts, func(i, j int) bool { return starts[i].from.Index < starts[j].from.Index })
		for _, st := range starts {
			ob := Ob{Rule: "R2", Inst: "O9:" + funcLabel(fn) + ":corruption-replaced", Props: []string{"C05"}, Pos: p.at(terminator(st.from)), Func: funcLabel(fn), Nontrivial: true}
			var bad []string
			seen := map[string]bool{}
			var walk func(pred, b *ssa.BasicBlock, known map[ssa.Value]bool, depth int)
			walk = func(pred, b *ssa.BasicBlock, known map[ssa.Value]bool, depth int) {
				if depth > 200 {
					return
				}
				k2 := map[ssa.Value]bool{}
				for k, v := range known {
					k2[k] = v
				}
				pi := -1
				for i, q := range b.Preds {
					if q == pred {
						pi = i
					}
				}
				for _, ins := range b.Instrs {
					phi, ok := ins.(*ssa.Phi)
					if !ok {
						break
					}
					delete(k2, phi)
					if pi < 0 {
						continue
					}
					e := phi.Edges[pi]
					if c, ok := e.(*ssa.Const); ok && c.Value != nil && c.Value.Kind().String() == "Bool" {
						k2[phi] = c.Value.String() == "true"
					} else if v, ok := known[e]; ok {
						k2[phi] = v
					}
				}
				var ks []string
				for k, v := range k2 {
					ks = append(ks, fmt.Sprintf("%s=%v", k.Name(), v))
				}
				sort.Strings(ks)
				key := fmt.Sprintf("%d|%s", b.Index, strings.Join(ks, ","))
				if seen[key] {
					return
				}
				seen[key] = true
				for _, ins := range b.Instrs {
					if ins == ssa.Instruction(rename) {
						return
					}
				}
				switch t := terminator(b).(type) {
				case *ssa.Return:
					if !ea.isFailureReturn(fn, t) {
						bad = append(bad, p.at(t)+": success is returned without the rebuilt log having replaced the damaged one")
					}
					return
				case *ssa.If:
					cond, pos := t.Cond, true
					for {
						u, ok := cond.(*ssa.UnOp)
						if !ok || u.Op != token.NOT {
							break
						}
						pos, cond = !pos, u.X
					}
					if v, ok := k2[cond]; ok {
						si := 1
						if v == pos {
							si = 0
						}
						walk(b, b.Succs[si], k2, depth+1)
						return
					}
				}
				for _, s := range b.Succs {
					walk(b, s, k2, depth+1)
				}
			}
			walk(st.from, st.to, map[ssa.Value]bool{}, 0)
			bad = uniqStrings(bad)
			if len(bad) > 0 {
				ob.Status, ob.Msg, ob.Path = Violated, "the scan found the log damaged, yet a success return is reachable that leaves the damaged file in place: the next open appends behind torn bytes or fails", bad
			} else {
				ob.Status, ob.Msg = Discharged, "from the corruption exit of the scan every success return passes the rename of the rebuilt log over the damaged one"
			}
			obs = append(obs, ob)
		}
	}
	return obs
}

// ---------------------------------------------------------------------------
// R10g: an index is read as a whole number of items; a size that is not a multiple of the item
// size is rejected, not rounded.
func (p *Prog) wholeItems() []Ob {
	var obs []Ob
	isSizeCall := func(v ssa.Value) bool {
		c, ok := canon(v).(*ssa.Call)
		if !ok {
			return false
		}
		g := c.Common().StaticCallee()
		return g != nil && recvNamed(g) == p.R.Params && g.Name() == "Size"
	}
	for _, fn := range p.Funcs {
		if !srcFunc(fn) || funcPkgPath(fn) != pkgIndex {
			continue
		}
		for _, b := range fn.Blocks {
			for _, ins := range b.Instrs {
				ms, ok := ins.(*ssa.MakeSlice)
				if !ok {
					continue
				}
				sl, ok := ms.Type().Underlying().(*types.Slice)
				if !ok || namedOf(sl.Elem()) != p.R.Item {
					continue
				}
				q, ok := stripConv(canon(ms.Len)).(*ssa.BinOp)
				if !ok || q.Op != token.QUO || !isSizeCall(q.Y) {
					continue
				}
				ob := Ob{Rule: "R10", Inst: "g:whole-items:" + funcLabel(fn), Props: []string{"C05", "C11", "C07", "C02"}, Pos: p.at(ms), Func: funcLabel(fn), Nontrivial: true}
				found := false
				for _, hb := range fn.Blocks {
					iff, ok := terminator(hb).(*ssa.If)
					if !ok {
						continue
					}
					x, y, op, ok := relCond(iff.Cond)
					if !ok {
						continue
					}
					rem, isRem := stripConv(x).(*ssa.BinOp)
					other := y
					if !isRem || rem.Op != token.REM {
						rem, isRem = stripConv(y).(*ssa.BinOp)
						other = x
					}
					if !isRem || rem.Op != token.REM || canon(rem.X) != canon(q.X) || !isSizeCall(rem.Y) {
						continue
					}
					if k, isK := constInt(other); !isK || k != 0 {
						continue
					}
					zeroEdge := 1 // for >, != : false edge means remainder == 0
					if op == token.EQL {
						zeroEdge = 0
					}
					if edgeDominates(hb, zeroEdge, b) {
						found = true
					}
				}
				if found {
					ob.Status, ob.Msg = Discharged, "the item count is computed only where the data size is a whole multiple of the item size"
				} else {
					ob.Status, ob.Msg = Violated, "the index is cut to a whole number of items instead of being rejected when its size is not a multiple of the item size: a torn trailing item stays in the file and every later append lands misaligned"
				}
				obs = append(obs, ob)
			}
		}
	}
	return obs
}

// ---------------------------------------------------------------------------
// R36 BOUNDARY-HAND-OFF (C10): the per-segment time lookup sees one segment only. When the requested
// time equals the first timestamp of a segment, the older segment may end with messages of that same
// time, so either (a) the lookup itself never answers where time == first timestamp (it hands off),
// or (b) the loop over the segments can go on to the older segment after a successful lookup.
func ruleR36(p *Prog) []Ob {
	var obs []Ob
	ea := p.ErrAtomsCached()
	for _, q := range []string{"GetByTime"} {
		m := p.R.ImplMethods[q]
		ob := Ob{Rule: "R36", Inst: "boundary-hand-off:Log." + q, Props: []string{"C10"}, Pos: "-", Func: funcLabel(m), Nontrivial: true}
		if m == nil || m.Blocks == nil {
			ob.Status, ob.Msg = Undecided, "method not found"
			obs = append(obs, ob)
			continue
		}
		ob.Pos = p.posStr(m.Pos())
		var call *ssa.Call
		var errV ssa.Value
		var header *ssa.BasicBlock
		var loop map[*ssa.BasicBlock]bool
		for _, b := range m.Blocks {
			h, l := innermostLoop(b)
			if l == nil {
				continue
			}
			for _, ins := range b.Instrs {
				c, ok := ins.(*ssa.Call)
				if !ok {
					continue
				}
				g := c.Common().StaticCallee()
				if g == nil || recvNamed(g) != p.R.SegReader || errResultIndex(g) < 0 {
					continue
				}
				hasOutcome := false
				for _, ref := range *c.Referrers() {
					if ex, ok := ref.(*ssa.Extract); ok && ex.Index == errResultIndex(g) {
						for a := range ea.atoms(ex, 0) {
							if strings.HasPrefix(a, "G:"+pkgIndex+".") {
								hasOutcome = true
							}
						}
						if hasOutcome {
							errV = ex
						}
					}
				}
				if hasOutcome {
					call, header, loop = c, h, l
				}
			}
		}
		if call == nil {
			ob.Status, ob.Msg = Undecided, "no per-segment lookup inside a loop over the segments found"
			obs = append(obs, ob)
			continue
		}
		ob.Pos = p.at(call)
		// (b) the success edge can reach the loop header again
		canContinue := false
		for b := range loop {
			iff, ok := terminator(b).(*ssa.If)
			if !ok {
				continue
			}
			t, ok := classifyErrCond(iff.Cond, errV)
			if !ok || t.kind != "nil" {
				continue
			}
			si := 1
			if t.trueMeans {
				si = 0
			}
			seen := map[*ssa.BasicBlock]bool{}
			work := []*ssa.BasicBlock{b.Succs[si]}
			for len(work) > 0 {
				x := work[len(work)-1]
				work = work[:len(work)-1]
				if x == header {
					canContinue = true
					break
				}
				if seen[x] || !loop[x] {
					continue
				}
				seen[x] = true
				work = append(work, x.Succs...)
			}
		}
		// (a) the pure lookup never succeeds where ts <= items[0].Timestamp
		handsOff := false
		for _, fn := range p.Funcs {
			if !srcFunc(fn) || funcPkgPath(fn) != pkgIndex || fn.Parent() != nil || errResultIndex(fn) < 0 {
				continue
			}
			rets := ea.ret[fn]
			if rets == nil || rets[errResultIndex(fn)] == nil || !rets[errResultIndex(fn)]["G:"+pkgIndex+".ErrTimeBeforeStart"] {
				continue
			}
			isFirstTS := func(v ssa.Value) bool {
				f, base := loadedField(canon(v))
				if f == nil || f.Name() != "Timestamp" {
					return false
				}
				// base is items[0]: an IndexAddr with constant 0, a load of one, or a local copy of one
				var ia *ssa.IndexAddr
				cur := base
				for d := 0; d < 4 && ia == nil && cur != nil; d++ {
					switch x := cur.(type) {
					case *ssa.IndexAddr:
						ia = x
					case *ssa.UnOp:
						cur = x.X
					case *ssa.Alloc:
						if sts := allocStores(x); len(sts) == 1 {
							cur = sts[0].Val
						} else {
							cur = nil
						}
					default:
						cur = nil
					}
				}
				if ia == nil {
					return false
				}
				k, isK := constInt(ia.Index)
				return isK && k == 0
			}
			isTS := func(v ssa.Value) bool { _, ok := canon(v).(*ssa.Parameter); return ok }
			all := true
			nSucc := 0
			for _, rt := range returnsOf(fn) {
				if ea.isFailureReturn(fn, rt) {
					continue
				}
				nSucc++
				dom := false
				for _, hb := range fn.Blocks {
					iff, ok := terminator(hb).(*ssa.If)
					if !ok {
						continue
					}
					x, y, op, ok := relCond(iff.Cond)
					if !ok {
						continue
					}
					// normalise to: ts OP first
					if isFirstTS(x) && isTS(y) {
						x, y = y, x
						switch op {
						case token.LSS:
							op = token.GTR
						case token.GTR:
							op = token.LSS
						case token.LEQ:
							op = token.GEQ
						case token.GEQ:
							op = token.LEQ
						}
					}
					if !isTS(x) || !isFirstTS(y) {
						continue
					}
					// strict ts > first holds on: false edge of ts <= first, true edge of ts > first
					if (op == token.LEQ && edgeDominates(hb, 1, rt.Block())) || (op == token.GTR && edgeDominates(hb, 0, rt.Block())) {
						dom = true
					}
				}
				if !dom {
					all = false
				}
			}
			if nSucc > 0 && all {
				handsOff = true
			}
		}
		switch {
		case handsOff:
			ob.Status, ob.Msg = Discharged, "the per-segment lookup never answers where the time equals the segment's first timestamp: it hands off to the older segment"
		case canContinue:
			ob.Status, ob.Msg = Discharged, "after a successful per-segment lookup the loop over the segments can go on to the older segment (which may end with messages of the same time)"
		default:
			ob.Status, ob.Msg = Violated, "a successful per-segment lookup always ends the search, and the lookup answers where the time equals the segment's first timestamp: when the older segment ends with messages of that same time the answer is not the first message at or after the time"
		}
		obs = append(obs, ob)
	}
	return obs
}

type sentinelTest struct {
	atom string
	edge int // the successor index on which the tested value is that sentinel
}

// sentinelTests: the sentinels a condition compares some error value with (== or errors.Is), whatever
// the error value is.
func sentinelTests(cond ssa.Value) []sentinelTest {
	pos := true
	for {
		u, ok := cond.(*ssa.UnOp)
		if !ok || u.Op != token.NOT {
			break
		}
		pos, cond = !pos, u.X
	}
	edge := func(holds bool) int {
		if holds == pos {
			return 0
		}
		return 1
	}
	var out []sentinelTest
	switch c := cond.(type) {
	case *ssa.BinOp:
		if c.Op == token.EQL || c.Op == token.NEQ {
			for _, side := range []ssa.Value{c.X, c.Y} {
				if a := sentinelOperand(side); a != "" {
					out = append(out, sentinelTest{a, edge(c.Op == token.EQL)})
				}
			}
		}
	case *ssa.Call:
		if calleeName(c.Common()) == "errors.Is" && len(c.Call.Args) == 2 {
			if a := sentinelOperand(c.Call.Args[1]); a != "" {
				out = append(out, sentinelTest{a, edge(true)})
			}
		}
	}
	return out
}

// ---------------------------------------------------------------------------
// R12c INDEX-CONFINEMENT (C07, C11, C13): the bytes of an index file are produced only by the index
// package, which alone knows the two layouts (with and without file header). Outside it an index path
// may be removed, renamed, stat'ed or opened for reading, nothing else.
func (p *Prog) indexConfinement() []Ob {
	allowed := map[string]bool{"os.Remove": true, "os.Rename": true, "os.Stat": true, "os.Lstat": true, "os.Open": true}
	var bad []string
	sites := 0
	var first string
	for _, fn := range p.Funcs {
		if !srcFunc(fn) || funcPkgPath(fn) == pkgIndex {
			continue
		}
		for _, b := range fn.Blocks {
			for _, ins := range b.Instrs {
				c, ok := ins.(*ssa.Call)
				if !ok {
					continue
				}
				g := c.Common().StaticCallee()
				if g == nil || funcPkgPath(g) != "os" {
					continue
				}
				for _, a := range c.Common().Args {
					if bt, ok := a.Type().Underlying().(*types.Basic); !ok || bt.Kind() != types.String {
						continue
					}
					pc := p.classifyPath(a)
					if (pc.kind == "seg" || pc.kind == "concat") && pc.fld == "Index" {
						sites++
						if first == "" {
							first = p.at(c)
						}
						if !allowed[calleeName(c.Common())] {
							bad = append(bad, fmt.Sprintf("%s: %s(%s) in %s", p.at(c), calleeName(c.Common()), pc, funcLabel(fn)))
						}
					}
				}
			}
		}
	}
	ob := Ob{Rule: "R12", Inst: "c:index-confinement", Props: []string{"C07", "C11", "C13"}, Pos: first, Nontrivial: true}
	sort.Strings(bad)
	switch {
	case len(bad) > 0:
		ob.Status, ob.Msg, ob.Path = Violated, "an index file is changed outside the index package, by code that has to assume one of its two layouts (with / without file header)", bad
	case sites == 0:
		ob.Pos, ob.Status, ob.Msg = "-", Undecided, "no operation on a segment's index path found outside the index package (the rule no longer sees what it is about)"
	default:
		ob.Status, ob.Msg = Discharged, fmt.Sprintf("%d operations on an index path outside the index package, all of them remove / rename / stat / open-for-reading", sites)
	}
	return []Ob{ob}
}

// R11 L8 SCAN-BEFORE-VERDICT: a function that scans a log and reports only an error says "fine" only
// after the scan: every success return is dominated by the scan loop.
func (p *Prog) scanBeforeVerdict() []Ob {
	var obs []Ob
	ea := p.ErrAtomsCached()
	seen := map[*ssa.Function]bool{}
	for _, cl := range p.copyLoops() {
		if cl.loop == nil || seen[cl.fn] {
			continue
		}
		fn := cl.fn
		res := fn.Signature.Results()
		if res.Len() != 1 || !isErrType(res.At(0).Type()) {
			continue // functions that also return data are judged by what they return (R24, L1-L3)
		}
		seen[fn] = true
		serves07 := false
		for _, pr := range p.copyLoopProps(cl) {
			if pr == "C07" {
				serves07 = true
			}
		}
		if !serves07 {
			continue // a migration may find nothing to do before it reads anything
		}
		ob := Ob{Rule: "R11", Inst: "L8:" + funcLabel(fn) + ":scan-before-verdict", Props: p.copyLoopProps(cl), Pos: p.at(cl.read), Func: funcLabel(fn), Nontrivial: true}
		var bad []string
		for _, rt := range returnsOf(fn) {
			if ea.isFailureReturn(fn, rt) {
				continue
			}
			if !cl.header.Dominates(rt.Block()) {
				bad = append(bad, p.at(rt)+": success is returned on a path that never scanned the log")
			}
		}
		if len(bad) > 0 {
			ob.Status, ob.Msg, ob.Path = Violated, "the function can report the segment as fine without having read its log", bad
		} else {
			ob.Status, ob.Msg = Discharged, "every success return lies behind the scan of the log"
		}
		obs = append(obs, ob)
	}
	return obs
}

// R10h EOF-ORIGIN: a record decoder reports the clean end of the data only by handing on what the
// file read reported; where it produces io.EOF itself, a test of the read error for io.EOF dominates.
func (p *Prog) eofOrigin() []Ob {
	var obs []Ob
	isEOFLoad := func(v ssa.Value) bool { return sentinelOperand(v) == "X:io.EOF" }
	for _, fn := range p.R.RecDecoders {
		ei := errResultIndex(fn)
		if ei < 0 {
			continue
		}
		ob := Ob{Rule: "R10", Inst: "h:eof-origin:" + funcLabel(fn), Props: []string{"C07", "C14", "C05"}, Pos: p.posStr(fn.Pos()), Func: funcLabel(fn), Nontrivial: true}
		var bad []string
		for _, rt := range returnsOf(fn) {
			v := returnOperand(rt, ei)
			orig := isEOFLoad(v)
			if c, ok := v.(*ssa.Call); ok && calleeName(c.Common()) == "fmt.Errorf" {
				for _, a := range c.Call.Args[1:] {
					for _, e := range variadicArgs(a) {
						if e == nil {
							continue
						}
						if mi, ok := e.(*ssa.MakeInterface); ok {
							e = mi.X
						}
						if isEOFLoad(e) {
							orig = true
						}
					}
				}
			}
			if !orig {
				continue
			}
			dom := false
			for _, hb := range fn.Blocks {
				iff, ok := terminator(hb).(*ssa.If)
				if !ok {
					continue
				}
				for _, t := range sentinelTests(iff.Cond) {
					if t.atom == "X:io.EOF" && edgeDominates(hb, t.edge, rt.Block()) {
						dom = true
					}
				}
			}
			if !dom {
				bad = append(bad, p.at(rt)+": io.EOF is returned where no file read reported it")
			}
		}
		if len(bad) > 0 {
			ob.Status, ob.Msg, ob.Path = Violated, "the decoder declares the data ended on something it decoded, not on what the file read reported: damaged or zero-filled bytes are taken for the clean end of the segment", bad
		} else {
			ob.Status, ob.Msg = Discharged, "the clean end of the data is only ever what the file read reported"
		}
		obs = append(obs, ob)
	}
	return obs
}

// ---------------------------------------------------------------------------
// R19c CONFIGURED-VERSION-VERBATIM (C17): the version a head writer / segment reader keeps for what
// it creates next is the configured one, handed down unchanged; it is never replaced by what a file
// on disk happens to be written in.
func (p *Prog) configuredVersionVerbatim() []Ob {
	var obs []Ob
	vt := p.pkgType(pkgRoot, "Version")
	if vt == nil {
		return []Ob{{Rule: "R19", Inst: "c:configured-version", Props: []string{"C17"}, Pos: "-", Status: Undecided, Msg: "type Version not found in the root package"}}
	}
	n := 0
	for _, fn := range p.Funcs {
		if !srcFunc(fn) {
			continue
		}
		k := 0
		for _, b := range fn.Blocks {
			for _, ins := range b.Instrs {
				st, ok := ins.(*ssa.Store)
				if !ok {
					continue
				}
				fa, ok := st.Addr.(*ssa.FieldAddr)
				if !ok {
					continue
				}
				f := fieldVarOfAddr(fa)
				if f == nil || namedOf(f.Type()) != vt {
					continue
				}
				owner := namedOf(derefPtr(fa.X.Type()))
				if owner != p.R.HeadWriter && owner != p.R.SegReader && owner != p.R.Impl {
					continue
				}
				n++
				k++
				ob := Ob{Rule: "R19", Inst: fmt.Sprintf("c:configured-version:%s#%d", funcLabel(fn), k), Props: []string{"C17"}, Pos: p.at(st), Func: funcLabel(fn)}
				v := canon(st.Val)
				verbatim := false
				if _, isParam := v.(*ssa.Parameter); isParam {
					verbatim = true
				} else if lf, _ := loadedField(v); lf != nil && namedOf(lf.Type()) == vt {
					verbatim = true
				}
				if verbatim {
					ob.Status, ob.Msg = Discharged, "the kept version is the one handed down, unchanged"
				} else {
					ob.Status, ob.Msg = Violated, "the version kept for what is created next ("+v.String()+") is not the configured one handed down: new head segments then follow a file on disk instead of NewSegmentsVersion"
				}
				obs = append(obs, ob)
			}
		}
	}
	if n == 0 {
		obs = append(obs, Ob{Rule: "R19", Inst: "c:configured-version", Props: []string{"C17"}, Pos: "-", Status: Undecided, Msg: "no store of a configured version found"})
	}
	return obs
}

// R19d EAGER-MIGRATION-BY-OPTION (C17): whether a segment is migrated at Open is decided by the
// options and by nothing read from a file: no branch that dominates the call of Segment.Migrate in
// Open depends on the result of a call (other than an error check or len).
func (p *Prog) eagerMigrationByOption() []Ob {
	var obs []Ob
	open := p.R.Open
	mig := p.methodOf(p.R.Segment, "Migrate")
	if open == nil || mig == nil {
		return []Ob{{Rule: "R19", Inst: "d:eager-migration", Props: []string{"C17"}, Pos: "-", Status: Undecided, Msg: "Open or Segment.Migrate not found"}}
	}
	var dependsOnCall func(v ssa.Value, d int) string
	dependsOnCall = func(v ssa.Value, d int) string {
		if d > 8 {
			return ""
		}
		switch x := v.(type) {
		case *ssa.Call:
			if _, isB := x.Common().Value.(*ssa.Builtin); isB {
				return ""
			}
			if g := x.Common().StaticCallee(); g != nil && inModule(g) && g.Blocks != nil && p.pureFn(g) {
				// a pure helper over the options is still a decision by the options
				for _, a := range x.Common().Args {
					if s := dependsOnCall(a, d+1); s != "" {
						return s
					}
				}
				return ""
			}
			return calleeName(x.Common())
		case *ssa.Extract:
			if c, ok := x.Tuple.(*ssa.Call); ok {
				return dependsOnCall(c, d+1)
			}
		case *ssa.BinOp:
			if s := dependsOnCall(x.X, d+1); s != "" {
				return s
			}
			return dependsOnCall(x.Y, d+1)
		case *ssa.UnOp:
			if x.Op == token.MUL {
				if al, ok := x.X.(*ssa.Alloc); ok {
					for _, st := range allocStores(al) {
						if s := dependsOnCall(st.Val, d+1); s != "" {
							return s
						}
					}
					return ""
				}
				return "" // a field or global load
			}
			return dependsOnCall(x.X, d+1)
		case *ssa.Phi:
			for _, e := range x.Edges {
				if s := dependsOnCall(e, d+1); s != "" {
					return s
				}
			}
		case *ssa.Convert:
			return dependsOnCall(x.X, d+1)
		case *ssa.ChangeType:
			return dependsOnCall(x.X, d+1)
		}
		return ""
	}
	n := 0
	// the call may sit in Open or in a small helper Open hands the segments to
	fns := []*ssa.Function{open}
	for i := 0; i < len(fns) && i < 4; i++ {
		for _, b := range fns[i].Blocks {
			for _, ins := range b.Instrs {
				if c, ok := ins.(*ssa.Call); ok && c.Common().StaticCallee() != mig && p.callLeadsTo(c, mig) {
					fns = append(fns, c.Common().StaticCallee())
				}
			}
		}
	}
	for _, host := range fns {
		for _, b := range host.Blocks {
			for _, ins := range b.Instrs {
				c, ok := ins.(*ssa.Call)
				if !ok || !p.callLeadsTo(c, mig) {
					continue
				}
				n++
				ob := Ob{Rule: "R19", Inst: fmt.Sprintf("d:eager-migration#%d", n), Props: []string{"C17"}, Pos: p.at(c), Func: funcLabel(host), Nontrivial: true}
				var bad []string
				for d := b; d != nil; d = d.Idom() {
					id := d.Idom()
					if id == nil {
						break
					}
					iff, ok := terminator(id).(*ssa.If)
					if !ok {
						continue
					}
					// only branches one of whose edges really decides whether the call runs
					if !edgeDominates(id, 0, b) && !edgeDominates(id, 1, b) {
						continue
					}
					// error checks and range conditions are not decisions about the segment
					cond := iff.Cond
					if bo, ok := cond.(*ssa.BinOp); ok && (isNilConst(bo.X) || isNilConst(bo.Y)) {
						continue
					}
					if s := dependsOnCall(cond, 0); s != "" {
						bad = append(bad, fmt.Sprintf("%s: whether the segment is migrated depends on the result of %s", p.at(iff), s))
					}
				}
				if len(bad) > 0 {
					ob.Status, ob.Msg, ob.Path = Violated, "the eager migration at Open is conditional on something computed from a call, not only on the options: segments that need migrating can be passed over", uniqStrings(bad)
				} else {
					ob.Status, ob.Msg = Discharged, "only option tests, error checks and the loop over the segments stand between Open's entry and Segment.Migrate"
				}
				obs = append(obs, ob)
			}
		}
	}
	if n == 0 {
		obs = append(obs, Ob{Rule: "R19", Inst: "d:eager-migration", Props: []string{"C17"}, Pos: "-", Status: Undecided, Msg: "Open does not call Segment.Migrate"})
	}
	return obs
}

// ---------------------------------------------------------------------------
// R10i FRESH-MESSAGE (C09, C01, C11): the record decoders fill in only the fields that are present
// (an empty key or value is left as it is), so the Message they decode into must be a fresh one: a
// local that does not outlive one iteration, or an element of a slice made for the purpose.
func (p *Prog) freshMessage() []Ob {
	var obs []Ob
	dec := map[*ssa.Function]bool{}
	for _, d := range p.R.RecDecoders {
		dec[d] = true
	}
	msgPtr := func(t types.Type) bool {
		pt, ok := t.Underlying().(*types.Pointer)
		return ok && namedOf(pt.Elem()) == p.R.Message
	}
	type site struct {
		call ssa.CallInstruction
		arg  ssa.Value
	}
	var judge func(s site, depth int) []string
	callersOf := func(fn *ssa.Function) []site {
		var out []site
		for _, g := range p.Funcs {
			for _, b := range g.Blocks {
				for _, ins := range b.Instrs {
					c, ok := ins.(ssa.CallInstruction)
					if !ok || c.Common().StaticCallee() != fn {
						continue
					}
					for _, a := range c.Common().Args {
						if msgPtr(a.Type()) {
							out = append(out, site{c, a})
						}
					}
				}
			}
		}
		return out
	}
	judge = func(s site, depth int) []string {
		b := s.call.Block()
		_, loop := innermostLoop(b)
		switch x := s.arg.(type) {
		case *ssa.Alloc:
			if loop != nil && !loop[x.Block()] {
				return []string{p.at(s.call) + ": the Message decoded into is declared outside the loop and reused for every record: a record without key (or value) keeps the previous record's"}
			}
			return nil
		case *ssa.IndexAddr:
			return nil // an element of a slice; each index is decoded into once
		case *ssa.Parameter:
			if depth > 3 {
				return []string{p.at(s.call) + ": too many levels of pass-through"}
			}
			var bad []string
			for _, cs := range callersOf(s.call.Parent()) {
				bad = append(bad, judge(cs, depth+1)...)
			}
			return bad
		case *ssa.FieldAddr:
			return []string{p.at(s.call) + ": the Message decoded into is a field of a longer-lived object"}
		}
		return []string{p.at(s.call) + ": the Message decoded into is " + s.arg.String()}
	}
	n := 0
	for _, fn := range p.Funcs {
		if !srcFunc(fn) {
			continue
		}
		k := 0
		for _, b := range fn.Blocks {
			for _, ins := range b.Instrs {
				c, ok := ins.(*ssa.Call)
				if !ok || c.Common().StaticCallee() != nil {
					continue
				}
				isDec := false
				for _, g := range p.callees(c) {
					if dec[g] || dec[unwrapSynthetic(g)] {
						isDec = true
					}
				}
				if !isDec {
					continue
				}
				for _, a := range c.Common().Args {
					if !msgPtr(a.Type()) {
						continue
					}
					n++
					k++
					ob := Ob{Rule: "R10", Inst: fmt.Sprintf("i:fresh-message:%s#%d", funcLabel(fn), k), Props: []string{"C09", "C01", "C11"}, Pos: p.at(c), Func: funcLabel(fn), Nontrivial: true}
					if bad := judge(site{c, a}, 0); len(bad) > 0 {
						ob.Status, ob.Msg, ob.Path = Violated, "a record is decoded into a Message that may still hold the fields of an earlier record", uniqStrings(bad)
					} else {
						ob.Status, ob.Msg = Discharged, "the Message decoded into is fresh for every record"
					}
					obs = append(obs, ob)
				}
			}
		}
	}
	if n == 0 {
		obs = append(obs, Ob{Rule: "R10", Inst: "i:fresh-message", Props: []string{"C09", "C01", "C11"}, Pos: "-", Status: Undecided, Msg: "no call of a record decoder through the reader's function value found"})
	}
	return obs
}

// R36b INDEX-WRAPPERS: the head's and a closed segment's index objects answer lookups by handing
// on what the shared pure lookup of the index package computed; a position they return with success
// is that function's result (or a constant such as -1 for "caught up"), never one they picked
// themselves — the two siblings then cannot disagree, and the search is the one R9/R35/R36 judge.
func (p *Prog) indexWrappers() []Ob {
	var obs []Ob
	ea := p.ErrAtomsCached()
	propsOf := map[string][]string{"Time": {"C10"}, "Keys": {"C09"}, "Get": {"C04"}, "Consume": {"C03"}}
	for _, fn := range p.Funcs {
		if !srcFunc(fn) || fn.Parent() != nil {
			continue
		}
		rn := recvNamed(fn)
		if rn != p.R.HeadIndex && rn != p.R.ReaderIndex {
			continue
		}
		var lookups []*ssa.Call
		for _, b := range fn.Blocks {
			for _, ins := range b.Instrs {
				if c, ok := ins.(*ssa.Call); ok {
					if g := c.Common().StaticCallee(); g != nil && funcPkgPath(g) == pkgIndex && errResultIndex(g) >= 0 && g.Signature.Recv() == nil {
						lookups = append(lookups, c)
					}
				}
			}
		}
		if len(lookups) == 0 || errResultIndex(fn) < 0 {
			continue
		}
		props := propsOf[fn.Name()]
		if props == nil {
			props = []string{"C03", "C04"}
		}
		ob := Ob{Rule: "R36", Inst: "index-wrapper:" + funcLabel(fn), Props: props, Pos: p.at(lookups[0]), Func: funcLabel(fn), Nontrivial: true}
		var bad []string
		for _, rt := range returnsOf(fn) {
			if ea.isFailureReturn(fn, rt) {
				continue
			}
			v := canon(returnOperand(rt, 0))
			okV := false
			if _, isK := v.(*ssa.Const); isK {
				okV = true
			}
			if ex, isEx := v.(*ssa.Extract); isEx {
				for _, c := range lookups {
					if ex.Tuple == ssa.Value(c) {
						okV = true
					}
				}
			}
			if !okV {
				bad = append(bad, fmt.Sprintf("%s: returns %s with success", p.at(rt), v.String()))
			}
		}
		if len(bad) > 0 {
			ob.Status, ob.Msg, ob.Path = Violated, "the index object answers a lookup with a position it picked itself instead of what the shared lookup computed: the head and closed segments can then answer the same question differently", bad
		} else {
			ob.Status, ob.Msg = Discharged, "every position returned with success is what the shared lookup of the index package computed (or a constant)"
		}
		obs = append(obs, ob)
	}
	return obs
}

// ---------------------------------------------------------------------------
// R39 PARAMS-FROM-OPTIONS (C13, C11): index.Params.Times is Options.TimeIndex and Params.Keys is
// Options.KeyIndex wherever a Params value is built (the two single-column layouts have the same
// item size, so a swap is not caught by any size check).
func ruleR39(p *Prog) []Ob {
	var obs []Ob
	want := map[string]string{"Times": "TimeIndex", "Keys": "KeyIndex"}
	var origin func(v ssa.Value, fn *ssa.Function, d int) []string
	origin = func(v ssa.Value, fn *ssa.Function, d int) []string {
		v = canon(v)
		if f, base := loadedField(v); f != nil {
			if namedOf(derefPtr(base.Type())) == p.R.Options || namedOf(base.Type()) == p.R.Options {
				return []string{"Options." + f.Name()}
			}
			if namedOf(derefPtr(base.Type())) == p.R.Params || namedOf(base.Type()) == p.R.Params {
				return []string{"Params." + f.Name()}
			}
			return []string{"field " + f.Name()}
		}
		if pr, ok := v.(*ssa.Parameter); ok && d < 3 {
			idx := -1
			for i, q := range fn.Params {
				if q == pr {
					idx = i
				}
			}
			var out []string
			for _, g := range p.Funcs {
				for _, b := range g.Blocks {
					for _, ins := range b.Instrs {
						if c, ok := ins.(ssa.CallInstruction); ok && c.Common().StaticCallee() == fn && idx >= 0 && idx < len(c.Common().Args) {
							out = append(out, origin(c.Common().Args[idx], g, d+1)...)
						}
					}
				}
			}
			if len(out) == 0 {
				return []string{"parameter " + pr.Name() + " (no caller in the module)"}
			}
			return out
		}
		if k, ok := v.(*ssa.Const); ok {
			return []string{"constant " + k.Value.String()}
		}
		return []string{v.String()}
	}
	n := 0
	for _, fn := range p.Funcs {
		if !srcFunc(fn) {
			continue
		}
		k := 0
		for _, b := range fn.Blocks {
			for _, ins := range b.Instrs {
				st, ok := ins.(*ssa.Store)
				if !ok {
					continue
				}
				fa, ok := st.Addr.(*ssa.FieldAddr)
				if !ok || namedOf(derefPtr(fa.X.Type())) != p.R.Params {
					continue
				}
				f := fieldVarOfAddr(fa)
				w, tracked := want[f.Name()]
				if !tracked {
					continue
				}
				n++
				k++
				ob := Ob{Rule: "R39", Inst: fmt.Sprintf("params-from-options:%s#%d", funcLabel(fn), k), Props: []string{"C13", "C11"}, Pos: p.at(st), Func: funcLabel(fn), Nontrivial: true}
				if fn.Name() == "Migrate" {
					ob.Props = []string{"C13", "C11", "C17"}
				}
				var bad []string
				for _, o := range uniqSorted(origin(st.Val, fn, 0)) {
					if o != "Options."+w && o != "Params."+f.Name() {
						bad = append(bad, fmt.Sprintf("Params.%s is set from %s", f.Name(), o))
					}
				}
				if len(bad) > 0 {
					ob.Status, ob.Msg, ob.Path = Violated, "an index.Params value gets a column switch from something other than the option of the same column: with one column enabled the items are read and written as the other one", bad
				} else {
					ob.Status, ob.Msg = Discharged, "Params."+f.Name()+" is Options."+w
				}
				obs = append(obs, ob)
			}
		}
	}
	if n == 0 {
		obs = append(obs, Ob{Rule: "R39", Inst: "params-from-options", Props: []string{"C13", "C11"}, Pos: "-", Status: Undecided, Msg: "no construction of index.Params found"})
	}
	return obs
}

func uniqSorted(s []string) []string {
	sort.Strings(s)
	return uniqStrings(s)
}

// R36c STAT-FRESH (C13): a segment reader answers Stat with what Segment.Stat computed in this call.
func (p *Prog) statFresh() []Ob {
	var obs []Ob
	ea := p.ErrAtomsCached()
	st := p.pkgType(modPath+"/pkg/segment", "Stats")
	segStat := p.methodOf(p.R.Segment, "Stat")
	if st == nil || segStat == nil {
		return nil
	}
	for _, fn := range p.Funcs {
		if !srcFunc(fn) || fn.Parent() != nil || recvNamed(fn) != p.R.SegReader {
			continue
		}
		res := fn.Signature.Results()
		if res.Len() != 2 || namedOf(res.At(0).Type()) != st {
			continue
		}
		ob := Ob{Rule: "R36", Inst: "stat-fresh:" + funcLabel(fn), Props: []string{"C13", "C15"}, Pos: p.posStr(fn.Pos()), Func: funcLabel(fn), Nontrivial: true}
		var bad []string
		for _, rt := range returnsOf(fn) {
			if ea.isFailureReturn(fn, rt) {
				continue
			}
			v := canon(returnOperand(rt, 0))
			okV := false
			if ex, ok := v.(*ssa.Extract); ok {
				if c, ok := ex.Tuple.(*ssa.Call); ok && c.Common().StaticCallee() == segStat {
					okV = true
				}
			}
			if !okV {
				bad = append(bad, fmt.Sprintf("%s: returns %s with success", p.at(rt), v.String()))
			}
		}
		if len(bad) > 0 {
			ob.Status, ob.Msg, ob.Path = Violated, "a segment's statistics are answered from something kept from an earlier call: a rewrite of the segment under the same reader (delete that keeps the base offset, lazy reindex) leaves them stale", bad
		} else {
			ob.Status, ob.Msg = Discharged, "every success return hands on what Segment.Stat computed from the files in this call"
		}
		obs = append(obs, ob)
	}
	return obs
}

// ---------------------------------------------------------------------------
// R20d CLOSE-BEFORE-REPLACE (C03, C08, C12): a segment reader replaces or removes the files of its own
// segment only after it closed what it holds open on them (the mapped log and the loaded index); a
// mapping that survives the replacement keeps answering from the old file with the new index.
func (p *Prog) closeBeforeReplace() []Ob {
	var obs []Ob
	r := p.R
	obs = append(obs, p.closeBeforeReplaceFor(r.SegReader, r.SRMessages, r.SRSegment, "(*"+pkgMessage+".Reader).Close")...)
	obs = append(obs, p.closeBeforeReplaceFor(r.HeadWriter, r.HWMessages, r.HWSegment, "(*"+pkgMessage+".Writer).Close")...)
	return obs
}

func (p *Prog) closeBeforeReplaceFor(owner *types.Named, handleField, segField *types.Var, closeName string) []Ob {
	var obs []Ob
	r := p.R
	ea := p.ErrAtomsCached()
	// full closers: methods of the owner that close the handle kept in handleField
	closers := map[*ssa.Function]bool{}
	for _, fn := range p.Funcs {
		if !srcFunc(fn) || recvNamed(fn) != owner {
			continue
		}
		for _, b := range fn.Blocks {
			for _, ins := range b.Instrs {
				if c, ok := ins.(*ssa.Call); ok && calleeName(c.Common()) == closeName {
					if f, _ := loadedField(canon(c.Call.Args[0])); f == handleField {
						closers[fn] = true
					}
				}
			}
		}
	}
	base := map[*ssa.Function]bool{}
	for f := range closers {
		base[f] = true
	}
	// a method that hands on to a closer of the same object on every success path is a closer too
	for changed := true; changed; {
		changed = false
		for _, fn := range p.Funcs {
			if !srcFunc(fn) || recvNamed(fn) != owner || closers[fn] || len(fn.Params) == 0 {
				continue
			}
			var calls []*ssa.Call
			for _, b := range fn.Blocks {
				for _, ins := range b.Instrs {
					if c, ok := ins.(*ssa.Call); ok && closers[c.Common().StaticCallee()] && len(c.Call.Args) > 0 && c.Call.Args[0] == ssa.Value(fn.Params[0]) {
						calls = append(calls, c)
					}
				}
			}
			if len(calls) == 0 {
				continue
			}
			all := true
			for _, rt := range returnsOf(fn) {
				if ea.isFailureReturn(fn, rt) {
					continue
				}
				dom := false
				for _, c := range calls {
					if instrDominates(c, rt) {
						dom = true
					}
				}
				if !dom {
					all = false
				}
			}
			if all {
				closers[fn] = true
				changed = true
			}
		}
	}
	changesFiles := func(g *ssa.Function) bool {
		for _, o := range p.fsOps(g) {
			if o.op == "REMOVE" && o.a.kind == "seg" {
				return true
			}
			if o.op == "RENAME" && o.b.kind == "seg" {
				return true
			}
		}
		return false
	}
	n := 0
	for _, fn := range p.Funcs {
		if !srcFunc(fn) || recvNamed(fn) != owner || base[fn] {
			continue
		}
		var closeCalls []*ssa.Call
		for _, b := range fn.Blocks {
			for _, ins := range b.Instrs {
				if c, ok := ins.(*ssa.Call); ok && closers[c.Common().StaticCallee()] && c.Common().StaticCallee() != fn {
					closeCalls = append(closeCalls, c)
				}
			}
		}
		k := 0
		for _, b := range fn.Blocks {
			for _, ins := range b.Instrs {
				c, ok := ins.(*ssa.Call)
				if !ok {
					continue
				}
				g := c.Common().StaticCallee()
				if g == nil || !inModule(g) || !changesFiles(g) {
					continue
				}
				rn := recvNamed(g)
				if rn != r.Segment && rn != r.RewriteSegment {
					continue
				}
				own := false
				for _, a := range c.Common().Args {
					if f, _ := loadedField(canon(a)); f == segField {
						own = true
					}
				}
				if !own {
					continue
				}
				n++
				k++
				ob := Ob{Rule: "R20", Inst: fmt.Sprintf("d:close-before-replace:%s#%d", funcLabel(fn), k), Props: []string{"C03", "C04", "C08", "C12"}, Pos: p.at(c), Func: funcLabel(fn), Nontrivial: true}
				okC := false
				for _, cc := range closeCalls {
					if instrDominates(cc, c) && p.failureEdgeLeaves(ea, cc, c) {
						okC = true
						ob.Guards = append(ob.Guards, p.at(cc))
					}
				}
				if okC {
					ob.Status, ob.Msg = Discharged, "what was held open on the segment's files was closed (and that succeeded) before "+shortCallee(g)+" changes them"
				} else {
					ob.Status, ob.Msg = Violated, shortCallee(g)+" changes the files of the object's own segment while it may still hold the old log open or mapped: later reads combine the new index with the old file"
				}
				obs = append(obs, ob)
			}
		}
	}
	// R20e DELETE-REPORTS-ONLY-APPLIED: a method that applies a rewrite returns success only behind
	// one of the operations that put the rewrite in place (what the caller then reports as deleted was
	// really removed)
	for _, fn := range p.Funcs {
		if !srcFunc(fn) || recvNamed(fn) != owner || base[fn] {
			continue
		}
		takesRewrite := false
		for _, pr := range fn.Params {
			if namedOf(derefPtr(pr.Type())) == r.RewriteSegment {
				takesRewrite = true
			}
		}
		if !takesRewrite {
			continue
		}
		var applies []*ssa.Call
		for _, b := range fn.Blocks {
			for _, ins := range b.Instrs {
				c, ok := ins.(*ssa.Call)
				if !ok {
					continue
				}
				g := c.Common().StaticCallee()
				if g == nil || !inModule(g) || !changesFiles(g) {
					continue
				}
				for _, a := range c.Common().Args {
					if f, _ := loadedField(canon(a)); f == segField {
						applies = append(applies, c)
					}
				}
			}
		}
		ob := Ob{Rule: "R20", Inst: "e:reports-only-applied:" + funcLabel(fn), Props: []string{"C12", "C08"}, Pos: p.posStr(fn.Pos()), Func: funcLabel(fn), Nontrivial: true}
		var bad []string
		// every path to a success return passes an apply: reachability with the apply blocks removed
		barrier := map[*ssa.BasicBlock]bool{}
		for _, c := range applies {
			barrier[c.Block()] = true
		}
		free := map[*ssa.BasicBlock]bool{}
		work := []*ssa.BasicBlock{fn.Blocks[0]}
		for len(work) > 0 {
			x := work[len(work)-1]
			work = work[:len(work)-1]
			if free[x] || barrier[x] {
				continue
			}
			free[x] = true
			work = append(work, x.Succs...)
		}
		for _, rt := range returnsOf(fn) {
			if ea.isFailureReturn(fn, rt) {
				continue
			}
			if free[rt.Block()] {
				bad = append(bad, p.at(rt)+": success is returned although the rewrite was not put in place")
			}
		}
		if len(bad) > 0 {
			ob.Status, ob.Msg, ob.Path = Violated, "the method that applies a delete's rewrite can return success without having replaced or removed the segment's files: the caller reports messages as deleted that are still in the log", bad
		} else {
			ob.Status, ob.Msg = Discharged, "every success return lies behind an operation that put the rewrite in place (override, rename + remove, or removal of the emptied segment)"
		}
		obs = append(obs, ob)
	}
	if n == 0 {
		obs = append(obs, Ob{Rule: "R20", Inst: "d:close-before-replace:" + owner.Obj().Name(), Props: []string{"C03", "C08", "C12"}, Pos: "-", Status: Undecided, Msg: "no method of " + owner.Obj().Name() + " changes the files of its own segment"})
	}
	return obs
}

// R28b CONSUME-BOUND (C03): every record the batch reader decodes is decoded where the count of
// records so far was compared as below the caller's maximum.
func (p *Prog) consumeBound() []Ob {
	var obs []Ob
	dec := map[*ssa.Function]bool{}
	for _, d := range p.R.RecDecoders {
		dec[d] = true
	}
	for _, fn := range p.Funcs {
		if !srcFunc(fn) || recvNamed(fn) != p.R.MsgReader || fn.Parent() != nil {
			continue
		}
		for _, b := range fn.Blocks {
			_, loop := innermostLoop(b)
			if loop == nil {
				continue
			}
			for _, ins := range b.Instrs {
				c, ok := ins.(*ssa.Call)
				if !ok || c.Common().StaticCallee() != nil {
					continue
				}
				isDec := false
				for _, g := range p.callees(c) {
					if dec[g] || dec[unwrapSynthetic(g)] {
						isDec = true
					}
				}
				if !isDec {
					continue
				}
				// the counter: the index of the slice element decoded into
				var counter ssa.Value
				for _, a := range c.Common().Args {
					if ia, ok := a.(*ssa.IndexAddr); ok {
						counter = ia.Index
					}
				}
				ob := Ob{Rule: "R28", Inst: "b:consume-bound:" + funcLabel(fn), Props: []string{"C03", "C14"}, Pos: p.at(c), Func: funcLabel(fn), Nontrivial: true}
				if counter == nil {
					ob.Status, ob.Msg = Undecided, "the batch reader does not decode into an element of its result slice"
					obs = append(obs, ob)
					continue
				}
				bounded := false
				for _, hb := range fn.Blocks {
					iff, ok := terminator(hb).(*ssa.If)
					if !ok {
						continue
					}
					x, y, op, ok := relCond(iff.Cond)
					if !ok {
						continue
					}
					if stripConv(y) == stripConv(counter) {
						x, y = y, x
						switch op {
						case token.LSS:
							op = token.GTR
						case token.GTR:
							op = token.LSS
						case token.LEQ:
							op = token.GEQ
						case token.GEQ:
							op = token.LEQ
						}
					}
					if stripConv(x) != stripConv(counter) {
						continue
					}
					if _, isParam := stripConv(canon(y)).(*ssa.Parameter); !isParam {
						continue
					}
					if (op == token.LSS && edgeDominates(hb, 0, b)) || (op == token.GEQ && edgeDominates(hb, 1, b)) {
						bounded = true
						ob.Guards = append(ob.Guards, p.at(iff))
					}
				}
				if bounded {
					ob.Status, ob.Msg = Discharged, "a record is decoded only where count < the caller's maximum was established"
				} else {
					ob.Status, ob.Msg = Violated, "a record can be decoded into the batch on a path on which the count was not compared as below the caller's maximum: more than maxCount messages can be returned"
				}
				obs = append(obs, ob)
			}
		}
	}
	return obs
}

// pureFn: f (a module function) reaches no call outside the module other than into a short list of
// packages without I/O (sort, bytes, errors, fmt, ... and the in-memory radix tree).
func (p *Prog) pureFn(f *ssa.Function) bool {
	if p.pureMemo == nil {
		p.pureMemo = map[*ssa.Function]int{}
	}
	if v, ok := p.pureMemo[f]; ok {
		return v != 2
	}
	p.pureMemo[f] = 1
	allow := map[string]bool{"sort": true, "slices": true, "bytes": true, "errors": true, "fmt": true, "math": true, "strings": true, "hash/fnv": true, "encoding/binary": true, "cmp": true}
	res := true
	for _, b := range f.Blocks {
		for _, ins := range b.Instrs {
			c, ok := ins.(ssa.CallInstruction)
			if !ok {
				continue
			}
			if _, isB := c.Common().Value.(*ssa.Builtin); isB {
				continue
			}
			gs := p.callees(c)
			if len(gs) == 0 {
				if _, isMC := c.Common().Value.(*ssa.MakeClosure); !isMC && c.Common().StaticCallee() == nil {
					res = false
				}
			}
			for _, g := range gs {
				if inModule(g) {
					if g.Blocks != nil && !p.pureFn(g) {
						res = false
					}
				} else if !allow[funcPkgPath(g)] && !strings.HasPrefix(funcPkgPath(g), "github.com/plar/go-adaptive-radix-tree") {
					res = false
				}
			}
		}
	}
	if res {
		p.pureMemo[f] = 1
	} else {
		p.pureMemo[f] = 2
	}
	return res
}

// ---------------------------------------------------------------------------
// R40 ERROR-DISCIPLINE (C06, C05, C01, C14): no error of a module or standard-library call is
// dropped, except in the idioms this repository already uses and that were confirmed by reading:
//
//	(a) Close() inside a deferred closure (clean-up on a path that already fails, or of a handle that
//	    was only read from) and `defer x.Close()`;
//	(b) writes into a hash (hash.Hash.Write never fails);
//	(c) frozen: index.GetVersion in Segment.Recover (an unreadable version means the index is removed
//	    and not rewritten, which the next open rebuilds).
func ruleR40(p *Prog) []Ob {
	var obs []Ob
	props := []string{"C06", "C05", "C01", "C14", "C11", "C12", "C17", "C20"}
	frozen := map[string]string{
		"(segment.Segment).Recover|" + pkgIndex + ".GetVersion": "an unreadable version leaves VUnknown: the index is removed, not rewritten, and rebuilt by the next open",
	}
	inDeferredClosure := func(fn *ssa.Function) bool {
		if fn.Parent() == nil {
			return false
		}
		for _, b := range fn.Parent().Blocks {
			for _, ins := range b.Instrs {
				if d, ok := ins.(*ssa.Defer); ok {
					if mc, ok := d.Call.Value.(*ssa.MakeClosure); ok && mc.Fn == ssa.Value(fn) {
						return true
					}
				}
			}
		}
		return false
	}
	errIdxOf := func(c *ssa.CallCommon) int {
		sig := c.Signature()
		if sig == nil || sig.Results().Len() == 0 {
			return -1
		}
		last := sig.Results().Len() - 1
		if isErrType(sig.Results().At(last).Type()) {
			return last
		}
		return -1
	}
	name := func(c *ssa.CallCommon) string {
		if c.IsInvoke() {
			return "(" + types.TypeString(c.Value.Type(), nil) + ")." + c.Method.Name()
		}
		return calleeName(c)
	}
	var dropped []string
	checked, allowedN := 0, 0
	for _, fn := range p.Funcs {
		if !srcFunc(fn) {
			continue
		}
		for _, b := range fn.Blocks {
			for _, ins := range b.Instrs {
				var cc *ssa.CallCommon
				isDefer := false
				var val *ssa.Call
				switch x := ins.(type) {
				case *ssa.Call:
					cc, val = x.Common(), x
				case *ssa.Defer:
					cc, isDefer = x.Common(), true
				case *ssa.Go:
					cc, isDefer = x.Common(), true
				}
				if cc == nil {
					continue
				}
				if _, isB := cc.Value.(*ssa.Builtin); isB {
					continue
				}
				ei := errIdxOf(cc)
				if ei < 0 {
					continue
				}
				checked++
				used := false
				if !isDefer {
					if cc.Signature().Results().Len() == 1 {
						used = len(*val.Referrers()) > 0
					} else {
						for _, r := range *val.Referrers() {
							if ex, ok := r.(*ssa.Extract); ok && ex.Index == ei && len(*ex.Referrers()) > 0 {
								used = true
							}
						}
					}
				}
				if used {
					continue
				}
				nm := name(cc)
				method := nm
				if i := strings.LastIndex(nm, "."); i >= 0 {
					method = nm[i+1:]
				}
				switch {
				case method == "Close" && (isDefer || inDeferredClosure(fn)):
					allowedN++
				case method == "Write" && strings.Contains(nm, "hash."):
					allowedN++
				case frozen[funcLabel(fn)+"|"+nm] != "":
					allowedN++
				default:
					dropped = append(dropped, fmt.Sprintf("%s: the error of %s is dropped in %s", p.at(ins), shortAtom(nm), funcLabel(fn)))
				}
			}
		}
	}
	sort.Strings(dropped)
	ob := Ob{Rule: "R40", Inst: "error-discipline", Props: props, Pos: "-", Nontrivial: true}
	switch {
	case checked < 100:
		ob.Status, ob.Msg = Undecided, fmt.Sprintf("only %d error-returning call sites found in the module (the rule no longer sees the code)", checked)
	case len(dropped) > 0:
		ob.Pos = strings.SplitN(dropped[0], ": ", 2)[0]
		ob.Status, ob.Msg, ob.Path = Violated, "an error is dropped outside the clean-up idioms: a failed write, sync, rename or read goes unnoticed and the call acknowledges what did not happen", dropped
	default:
		ob.Status, ob.Msg = Discharged, fmt.Sprintf("%d error-returning call sites; every error is tested, returned or passed on, except %d in the accepted idioms (Close in deferred clean-up, hash writes, one frozen site)", checked, allowedN)
	}
	return append(obs, ob)
}

// ---------------------------------------------------------------------------
// R17g ROLLOVER-FROM-NONEMPTY (C01, C02): the successor of the head is named after the next offset
// (R17e) and the head after its base offset; the two coincide exactly when the head is empty. A
// roll-over therefore only happens where the head was established non-empty: otherwise the "new"
// head is a second writer on the file of the old one.
func (p *Prog) rolloverFromNonEmpty() []Ob {
	var obs []Ob
	r := p.R
	pub := r.ImplMethods["Publish"]
	ob := Ob{Rule: "R17", Inst: "g:rollover-from-nonempty", Props: []string{"C01", "C02"}, Pos: "-", Func: funcLabel(pub), Nontrivial: true}
	if pub == nil {
		ob.Status, ob.Msg = Undecided, "Log.Publish not found"
		return append(obs, ob)
	}
	// the construction of the new head inside Publish
	var ctor *ssa.Call
	for _, b := range pub.Blocks {
		for _, ins := range b.Instrs {
			if c, ok := ins.(*ssa.Call); ok {
				if g := c.Common().StaticCallee(); g != nil && inModule(g) && g.Signature.Results().Len() > 0 {
					if pt, ok := g.Signature.Results().At(0).Type().(*types.Pointer); ok && namedOf(pt.Elem()) == r.HeadWriter {
						ctor = c
					}
				}
			}
		}
	}
	if ctor == nil {
		ob.Status, ob.Msg = Undecided, "Log.Publish does not construct a head writer"
		return append(obs, ob)
	}
	ob.Pos = p.at(ctor)
	// len(items) of the head index: a direct len of the field, or a method that returns it
	var isLenOfItems func(v ssa.Value, d int) bool
	isLenOfItems = func(v ssa.Value, d int) bool {
		if d > 3 {
			return false
		}
		c, ok := canon(v).(*ssa.Call)
		if !ok {
			return false
		}
		if isBuiltinCall(c.Common(), "len") {
			f, _ := loadedField(canon(c.Call.Args[0]))
			return f == r.HIItems
		}
		g := c.Common().StaticCallee()
		if g == nil || !inModule(g) || g.Blocks == nil {
			return false
		}
		all := true
		n := 0
		for _, rt := range returnsOf(g) {
			if len(rt.Results) != 1 {
				return false
			}
			n++
			if !isLenOfItems(returnOperand(rt, 0), d+1) {
				all = false
			}
		}
		return all && n > 0
	}
	// nonEmptyEdge: the successor index of `iff` on which the head is known non-empty (-1: not such a test)
	nonEmptyEdge := func(iff *ssa.If) int {
		x, y, op, ok := relCond(iff.Cond)
		if !ok {
			return -1
		}
		if isLenOfItems(y, 0) {
			x, y = y, x
			switch op {
			case token.LSS:
				op = token.GTR
			case token.GTR:
				op = token.LSS
			case token.LEQ:
				op = token.GEQ
			case token.GEQ:
				op = token.LEQ
			}
		}
		if !isLenOfItems(x, 0) {
			return -1
		}
		k, isK := constInt(y)
		if !isK {
			return -1
		}
		switch {
		case op == token.GTR && k == 0, op == token.NEQ && k == 0, op == token.GEQ && k == 1:
			return 0
		case op == token.EQL && k == 0, op == token.LEQ && k == 0, op == token.LSS && k == 1:
			return 1
		}
		return -1
	}
	established := func(fn *ssa.Function, b *ssa.BasicBlock) bool {
		for _, hb := range fn.Blocks {
			if iff, ok := terminator(hb).(*ssa.If); ok {
				if e := nonEmptyEdge(iff); e >= 0 && edgeDominates(hb, e, b) {
					return true
				}
			}
		}
		return false
	}
	// a predicate method returns true only where non-emptiness was established
	var trueImplies func(g *ssa.Function) bool
	trueImplies = func(g *ssa.Function) bool {
		var okVal func(v ssa.Value, at *ssa.BasicBlock, d int) bool
		okVal = func(v ssa.Value, at *ssa.BasicBlock, d int) bool {
			if d > 6 {
				return false
			}
			if k, ok := v.(*ssa.Const); ok && k.Value != nil && k.Value.String() == "false" {
				return true
			}
			if established(g, at) {
				return true
			}
			if phi, ok := v.(*ssa.Phi); ok {
				for i, e := range phi.Edges {
					if !okVal(e, phi.Block().Preds[i], d+1) {
						return false
					}
				}
				return true
			}
			return false
		}
		n := 0
		for _, rt := range returnsOf(g) {
			if len(rt.Results) != 1 {
				return false
			}
			n++
			if !okVal(rt.Results[0], rt.Block(), 0) {
				return false
			}
		}
		return n > 0
	}
	okR := established(pub, ctor.Block())
	if !okR {
		// a dominating branch on a predicate of the head writer that implies non-emptiness
		for d := ctor.Block(); d != nil && !okR; d = d.Idom() {
			id := d.Idom()
			if id == nil {
				break
			}
			iff, ok := terminator(id).(*ssa.If)
			if !ok || !edgeDominates(id, 0, ctor.Block()) {
				continue
			}
			if c, ok := iff.Cond.(*ssa.Call); ok {
				if g := c.Common().StaticCallee(); g != nil && inModule(g) && g.Blocks != nil && trueImplies(g) {
					okR = true
					ob.Guards = append(ob.Guards, p.at(iff))
				}
			}
		}
	}
	if okR {
		ob.Status, ob.Msg = Discharged, "the roll-over in Publish happens only where the head was established to hold at least one message"
	} else {
		ob.Status, ob.Msg = Violated, "the head can be rolled over while it is empty: its successor is named after the same offset, so a second writer is opened on the same file and the log's reader list holds that segment twice (reachable with a Rollover option below the file header size)"
	}
	return append(obs, ob)
}

// ---------------------------------------------------------------------------
// R18c STALE-READER (C08, C03): a segment reader found in the reader list in one critical section is
// only a hint in the next: the head's reader object is replaced when the head rolls over. A method
// of the log that changes a segment's files through a reader object takes that object from the list
// (or the writer field) under the lock it holds now, never one carried over from an earlier look-up.
func (p *Prog) staleReader() []Ob {
	var obs []Ob
	r := p.R
	ls := p.LocksetCached()
	destructive := func(g *ssa.Function) bool {
		if g == nil || !inModule(g) || g.Blocks == nil {
			return false
		}
		return p.reaches(g, func(h *ssa.Function) bool {
			for _, o := range p.fsOps(h) {
				if (o.op == "REMOVE" && o.a.kind == "seg" && o.a.fld == "Log") || (o.op == "RENAME" && o.b.kind == "seg" && o.b.fld == "Log") {
					return true
				}
			}
			return false
		})
	}
	var fresh func(v ssa.Value, d int) (bool, string)
	seenPhi := map[*ssa.Phi]bool{}
	fresh = func(v ssa.Value, d int) (bool, string) {
		if d > 12 {
			return false, "value too deep"
		}
		if isNilConst(v) {
			return true, ""
		}
		switch x := v.(type) {
		case *ssa.Phi:
			if seenPhi[x] {
				return true, "" // a cycle through the loop: judged by the other edges
			}
			seenPhi[x] = true
			for _, e := range x.Edges {
				if ok, why := fresh(e, d+1); !ok {
					return false, why
				}
			}
			return true, ""
		case *ssa.UnOp:
			if x.Op == token.MUL {
				switch a := x.X.(type) {
				case *ssa.IndexAddr:
					if f, _ := loadedField(canon(a.X)); f == r.ImplReaders {
						return true, ""
					}
				case *ssa.FieldAddr:
					if fieldVarOfAddr(a) == r.ImplWriter {
						return true, ""
					}
				case *ssa.Alloc:
					for _, st := range allocStores(a) {
						if ok, why := fresh(st.Val, d+1); !ok {
							return false, why
						}
					}
					return true, ""
				}
			}
		case *ssa.Extract:
			if c, ok := x.Tuple.(*ssa.Call); ok {
				return false, "the object was returned by " + calleeName(c.Common()) + " in an earlier critical section"
			}
		case *ssa.Parameter:
			return false, "the object is a parameter (found by the caller)"
		}
		return false, "the object is " + v.String()
	}
	n := 0
	for _, fn := range p.Funcs {
		if !srcFunc(fn) || recvNamed(fn) != r.Impl {
			continue
		}
		k := 0
		for _, b := range fn.Blocks {
			for _, ins := range b.Instrs {
				c, ok := ins.(*ssa.Call)
				if !ok {
					continue
				}
				g := c.Common().StaticCallee()
				if g == nil || recvNamed(g) != r.SegReader || !destructive(g) || len(c.Call.Args) == 0 {
					continue
				}
				n++
				k++
				ob := Ob{Rule: "R18", Inst: fmt.Sprintf("c:stale-reader:%s#%d", funcLabel(fn), k), Props: []string{"C08", "C03"}, Pos: p.at(c), Func: funcLabel(fn), Nontrivial: true}
				var bad []string
				if ls.at[c][r.ReadersMu] != modeW {
					bad = append(bad, "the call does not run with the reader-list lock held exclusively")
				}
				if ok, why := fresh(c.Call.Args[0], 0); !ok {
					bad = append(bad, why)
				}
				if len(bad) > 0 {
					ob.Status, ob.Msg, ob.Path = Violated, shortCallee(g)+" is invoked on a reader object that may no longer be the one in the reader list (the head rolled over in between): the stale object, still flagged as the head, is put back into the list and cursors stop at it", bad
				} else {
					ob.Status, ob.Msg = Discharged, "the reader object is taken from the reader list under the exclusive lock held at the call"
				}
				obs = append(obs, ob)
			}
		}
	}
	if n == 0 {
		obs = append(obs, Ob{Rule: "R18", Inst: "c:stale-reader", Props: []string{"C08", "C03"}, Pos: "-", Status: Undecided, Msg: "no method of the log changes a segment's files through a reader object"})
	}
	return obs
}

// ---------------------------------------------------------------------------
// R36d SIBLING-OUTCOMES: the head's index object and a closed segment's index object implement one
// interface; callers compare what they return with sentinels by identity. For every method of that
// interface both siblings can return exactly the same set of module sentinels.
func (p *Prog) siblingOutcomes() []Ob {
	var obs []Ob
	ea := p.ErrAtomsCached()
	r := p.R
	byName := func(n *types.Named) map[string]*ssa.Function {
		out := map[string]*ssa.Function{}
		for _, fn := range p.Funcs {
			if srcFunc(fn) && fn.Parent() == nil && recvNamed(fn) == n && errResultIndex(fn) >= 0 {
				out[fn.Name()] = fn
			}
		}
		return out
	}
	hw, rd := byName(r.HeadIndex), byName(r.ReaderIndex)
	propsOf := map[string][]string{"Time": {"C10"}, "Keys": {"C09"}, "Get": {"C04"}, "Consume": {"C03"}}
	for _, nm := range sortedKeys(hw) {
		a, b := hw[nm], rd[nm]
		if b == nil {
			continue
		}
		set := func(fn *ssa.Function) []string {
			var out []string
			for at := range ea.ret[fn][errResultIndex(fn)] {
				if strings.HasPrefix(at, "G:") {
					out = append(out, shortAtom(at))
				}
			}
			sort.Strings(out)
			return out
		}
		sa, sb := set(a), set(b)
		props := propsOf[nm]
		if props == nil {
			props = []string{"C03", "C04"}
		}
		ob := Ob{Rule: "R36", Inst: "sibling-outcomes:" + nm, Props: props, Pos: p.posStr(a.Pos()), Func: funcLabel(a), Nontrivial: true}
		if strings.Join(sa, ",") == strings.Join(sb, ",") {
			ob.Status, ob.Msg = Discharged, fmt.Sprintf("both index objects can return the same sentinels from %s: %s", nm, strings.Join(sa, ", "))
		} else {
			ob.Status, ob.Msg = Violated, fmt.Sprintf("the head's index object returns {%s} from %s, a closed segment's {%s}: a caller that compares by identity takes different branches for the same situation depending on which object answers", strings.Join(sa, ", "), nm, strings.Join(sb, ", "))
		}
		obs = append(obs, ob)
	}
	return obs
}

// R9h HEADER-FLAGS-EXACT (C13, C04, C11): the index file header records which columns the items have;
// it is accepted only if each recorded column flag equals the requested option, in both directions
// (the item stride comes from the options, so an index with more columns than asked for is as
// unreadable as one with fewer).
func (p *Prog) headerFlagsExact() []Ob {
	var obs []Ob
	r := p.R
	for _, fn := range p.Funcs {
		if !srcFunc(fn) || funcPkgPath(fn) != pkgIndex || fn.Parent() != nil {
			continue
		}
		// the header parser: takes Params by value, tests bits of a byte slice
		var pr *ssa.Parameter
		for _, q := range fn.Params {
			if namedOf(q.Type()) == r.Params {
				pr = q
			}
		}
		if pr == nil {
			continue
		}
		found := map[string]string{} // field -> "exact" / "one-sided"
		for _, b := range fn.Blocks {
			iff, ok := terminator(b).(*ssa.If)
			if !ok {
				continue
			}
			var fieldOf func(v ssa.Value) string
			fieldOf = func(v ssa.Value) string {
				if f, base := loadedField(canon(v)); f != nil {
					if canon(base) == ssa.Value(pr) {
						return f.Name()
					}
					if al, ok := base.(*ssa.Alloc); ok {
						if sts := allocStores(al); len(sts) == 1 && sts[0].Val == ssa.Value(pr) {
							return f.Name()
						}
					}
				}
				if fl, ok := v.(*ssa.Field); ok && fl.X == ssa.Value(pr) {
					if f := fieldVarOfField(fl); f != nil {
						return f.Name()
					}
				}
				return ""
			}
			isMaskTest := func(v ssa.Value) bool {
				bo, ok := v.(*ssa.BinOp)
				if !ok || (bo.Op != token.EQL && bo.Op != token.NEQ) {
					return false
				}
				for _, s := range []ssa.Value{bo.X, bo.Y} {
					if m, ok := s.(*ssa.BinOp); ok && m.Op == token.AND {
						return true
					}
				}
				return false
			}
			if bo, ok := iff.Cond.(*ssa.BinOp); ok && (bo.Op == token.NEQ || bo.Op == token.EQL) {
				for _, pair := range [][2]ssa.Value{{bo.X, bo.Y}, {bo.Y, bo.X}} {
					if f := fieldOf(pair[0]); f != "" && isMaskTest(pair[1]) {
						found[f] = "exact"
					}
				}
			}
			// a branch on the option alone that leads to a mask test is the one-sided form
			if f := fieldOf(iff.Cond); f != "" {
				for _, s := range b.Succs {
					if i2, ok := terminator(s).(*ssa.If); ok && isMaskTest(i2.Cond) && found[f] == "" {
						found[f] = "one-sided"
					}
				}
			}
		}
		if len(found) == 0 {
			continue
		}
		for _, f := range sortedKeys(found) {
			ob := Ob{Rule: "R9", Inst: "h:header-flag-exact:" + f, Props: []string{"C13", "C04", "C11"}, Pos: p.posStr(fn.Pos()), Func: funcLabel(fn), Nontrivial: true}
			if found[f] == "exact" {
				ob.Status, ob.Msg = Discharged, "the recorded "+f+" flag is compared with the option for (in)equality: a mismatch in either direction is rejected"
			} else {
				ob.Status, ob.Msg = Violated, "the recorded "+f+" flag is only tested where the option is set: an index that has the column although the option is off is accepted and then read with the wrong item stride"
			}
			obs = append(obs, ob)
		}
		// every bit of the flags byte is spoken for: the masks the parser tests add up to the whole
		// byte, so a stray bit (a damaged header) is refused and not carried along
		{
			var cover int64
			nMasks := 0
			for _, b := range fn.Blocks {
				for _, ins := range b.Instrs {
					bo, ok := ins.(*ssa.BinOp)
					if !ok {
						continue
					}
					isByte := func(v ssa.Value) bool {
						bt, ok := v.Type().Underlying().(*types.Basic)
						return ok && (bt.Kind() == types.Uint8 || bt.Kind() == types.UntypedInt)
					}
					switch bo.Op {
					case token.AND:
						for _, side := range []ssa.Value{bo.X, bo.Y} {
							if k, isK := constInt(side); isK && isByte(side) {
								cover |= k
								nMasks++
							}
						}
					case token.AND_NOT: // x &^ known: everything but the known bits
						if k, isK := constInt(bo.Y); isK && isByte(bo.X) {
							cover |= ^k & 0xff
							nMasks++
						}
					case token.SHR: // x >> k: the bits from k upwards
						if k, isK := constInt(bo.Y); isK && isByte(bo.X) && k >= 0 && k < 8 {
							cover |= (0xff << uint(k)) & 0xff
							nMasks++
						}
					}
				}
			}
			ob := Ob{Rule: "R9", Inst: "h2:header-flags-cover-the-byte", Props: []string{"C13", "C07", "C11"}, Pos: p.posStr(fn.Pos()), Func: funcLabel(fn), Nontrivial: true}
			if nMasks > 0 && cover&0xff != 0xff {
				ob.Status, ob.Msg = Violated, fmt.Sprintf("the masks the header parser tests cover only %#08b of the flags byte: a header with another bit set is accepted, Check passes on it and Recover keeps it, although it is not what any writer produces", cover&0xff)
			} else {
				ob.Status, ob.Msg = Discharged, fmt.Sprintf("%d mask test(s) covering every bit of the flags byte", nMasks)
			}
			obs = append(obs, ob)
		}
	}
	if len(obs) == 0 {
		obs = append(obs, Ob{Rule: "R9", Inst: "h:header-flag-exact", Props: []string{"C13", "C04", "C11"}, Pos: "-", Status: Undecided, Msg: "no comparison of a recorded column flag with index.Params found in the index package"})
	}
	return obs
}

// ---------------------------------------------------------------------------
// R2 O10 RECOVER-BEFORE-MIGRATE (C05, C17): with Options.Recover the head is repaired before anything
// reads it to the end; the eager migration scans every segment including the head, so in Open the
// call of Segment.Recover lies on every path to Segment.Migrate.
func (p *Prog) recoverBeforeMigrate() []Ob {
	open := p.R.Open
	rec, mig := p.methodOf(p.R.Segment, "Recover"), p.methodOf(p.R.Segment, "Migrate")
	ob := Ob{Rule: "R2", Inst: "O10:Open:recover-before-migrate", Props: []string{"C05", "C17"}, Pos: "-", Func: funcLabel(open), Nontrivial: true}
	if open == nil || rec == nil || mig == nil {
		ob.Status, ob.Msg = Undecided, "Open, Segment.Recover or Segment.Migrate not found"
		return []Ob{ob}
	}
	assume := Assume{"Recover": true, "Version.EagerVersionMigrate": true, "Readonly": false}
	succ := func(b *ssa.BasicBlock) []*ssa.BasicBlock { return p.prunedSuccs(b, assume) }
	var recBlocks, migBlocks []*ssa.BasicBlock
	var migCall *ssa.Call
	for _, b := range open.Blocks {
		for _, ins := range b.Instrs {
			if c, ok := ins.(*ssa.Call); ok {
				switch {
				case p.callLeadsTo(c, rec):
					recBlocks = append(recBlocks, b)
				case p.callLeadsTo(c, mig):
					migBlocks = append(migBlocks, b)
					migCall = c
				}
			}
		}
	}
	if len(recBlocks) == 0 || len(migBlocks) == 0 {
		ob.Status, ob.Msg = Undecided, "Open does not call both Segment.Recover and Segment.Migrate"
		return []Ob{ob}
	}
	ob.Pos = p.at(migCall)
	avoid := map[*ssa.BasicBlock]bool{}
	for _, b := range recBlocks {
		avoid[b] = true
	}
	seen := map[*ssa.BasicBlock]bool{}
	work := []*ssa.BasicBlock{open.Blocks[0]}
	for len(work) > 0 {
		x := work[len(work)-1]
		work = work[:len(work)-1]
		if seen[x] || avoid[x] {
			continue
		}
		seen[x] = true
		work = append(work, succ(x)...)
	}
	bypass := false
	for _, b := range migBlocks {
		if seen[b] {
			bypass = true
		}
	}
	if bypass {
		ob.Status, ob.Msg = Violated, "with Recover and EagerVersionMigrate both set, Open can reach Segment.Migrate without having recovered the head: the migration scans a head with a torn tail, fails, and has already removed the head's index"
	} else {
		ob.Status, ob.Msg = Discharged, "with Recover and EagerVersionMigrate both set, every path of Open to Segment.Migrate passes Segment.Recover of the head"
	}
	return []Ob{ob}
}

// R32b OPEN-IS-LAZY (C14): with default options Open reads the log file of the head only; it does
// not open the log of every segment it finds (a damaged closed segment must not keep the log from
// opening, and only calls that need that segment may fail).
func (p *Prog) openIsLazy() []Ob {
	open := p.R.Open
	ob := Ob{Rule: "R32", Inst: "b:open-is-lazy", Props: []string{"C14"}, Pos: "-", Func: funcLabel(open), Nontrivial: true}
	if open == nil {
		ob.Status, ob.Msg = Undecided, "Open not found"
		return []Ob{ob}
	}
	ob.Pos = p.posStr(open.Pos())
	opensLog := func(g *ssa.Function) bool {
		n := fullName(g)
		return n == pkgMessage+".OpenReader" || n == pkgMessage+".OpenReaderMem" || n == pkgMessage+".OpenWriter"
	}
	var bad []string
	for _, ro := range []bool{false, true} {
		assume := Assume{"Recover": false, "Check": false, "Version.EagerVersionMigrate": false, "Readonly": ro}
		reach := reachableBlocks(open, func(b *ssa.BasicBlock) []*ssa.BasicBlock { return p.prunedSuccs(b, assume) })
		for _, b := range open.Blocks {
			if !reach[b] {
				continue
			}
			if _, loop := innermostLoop(b); loop == nil {
				continue
			}
			for _, ins := range b.Instrs {
				if c, ok := ins.(ssa.CallInstruction); ok && p.callReaches(c, opensLog) {
					bad = append(bad, fmt.Sprintf("%s: inside a loop over the segments, with default options (Readonly=%v), %s opens a segment's log file", p.at(c), ro, calleeName(c.Common())))
				}
			}
		}
	}
	bad = uniqSorted(bad)
	if len(bad) > 0 {
		ob.Status, ob.Msg, ob.Path = Violated, "Open reads the log file of every segment: damage in one closed segment keeps the whole log from opening", bad
	} else {
		ob.Status, ob.Msg = Discharged, "with default options no call inside a loop of Open opens a segment's log file (only the head's is opened)"
	}
	return []Ob{ob}
}

// ---------------------------------------------------------------------------
// R2 O11 WHO-MAY-REMOVE-A-SEGMENT (C02, C01, C05): the log file of a segment is removed only by the
// delete-by-rewrite paths (a head writer's or segment reader's Delete, and the clean-up of a rewrite's
// own temporary segment). No maintenance entry point (Recover, Check, Stat, Backup, Migrate, Open, GC)
// reaches the removal of a segment's log: an empty head's file name is the only record of the next
// offset, and "nothing could be restored" is not "there was nothing".
func (p *Prog) whoMayRemoveSegment() []Ob {
	r := p.R
	removesLog := func(h *ssa.Function) bool {
		for _, o := range p.fsOps(h) {
			if o.op == "REMOVE" && o.a.kind == "seg" && o.a.fld == "Log" {
				return true
			}
		}
		return false
	}
	ob := Ob{Rule: "R2", Inst: "O11:who-may-remove-a-segment", Props: []string{"C02", "C01", "C05"}, Pos: "-", Nontrivial: true}
	var removers []*ssa.Function
	for _, fn := range p.Funcs {
		if srcFunc(fn) && removesLog(fn) {
			removers = append(removers, fn)
		}
	}
	if len(removers) == 0 {
		ob.Status, ob.Msg = Undecided, "no function removes a segment's log file"
		return []Ob{ob}
	}
	isRemover := func(h *ssa.Function) bool {
		for _, x := range removers {
			if x == h {
				return true
			}
		}
		return false
	}
	// who calls a remover directly
	var bad []string
	sites := 0
	for _, fn := range p.Funcs {
		if !srcFunc(fn) || isRemover(fn) {
			continue
		}
		for _, b := range fn.Blocks {
			for _, ins := range b.Instrs {
				c, ok := ins.(ssa.CallInstruction)
				if !ok {
					continue
				}
				g := c.Common().StaticCallee()
				if g == nil || !isRemover(g) {
					continue
				}
				sites++
				rn := recvNamed(fn)
				allowed := rn == r.HeadWriter || rn == r.SegReader
				// the clean-up of a rewrite's own temporary segment: the segment removed is the one
				// embedded in a RewriteSegment
				if len(c.Common().Args) > 0 {
					if f, base := loadedField(canon(c.Common().Args[0])); f != nil && namedOf(f.Type()) == r.Segment && namedOf(derefPtr(base.Type())) == r.RewriteSegment {
						allowed = true
					}
				}
				if !allowed {
					bad = append(bad, fmt.Sprintf("%s: %s removes a segment through %s", p.at(c), funcLabel(fn), shortCallee(g)))
				}
			}
		}
	}
	sort.Strings(bad)
	ob.Pos = p.posStr(removers[0].Pos())
	if len(bad) > 0 {
		ob.Status, ob.Msg, ob.Path = Violated, "a segment's log file is removed outside delete-by-rewrite: a maintenance path that drops a segment (for instance an empty head, whose name is the only record of the next offset) makes offsets reusable", bad
	} else {
		ob.Status, ob.Msg = Discharged, fmt.Sprintf("%d call sites of the %d function(s) that remove a segment's log, all in a head writer's / segment reader's Delete or a rewrite's own clean-up", sites, len(removers))
	}
	return []Ob{ob}
}

// ---------------------------------------------------------------------------
// R26b PREBUILT-INDEX-STAYS (C19, C03): where Open found no segment files, the reader it builds
// answers from an index installed at construction; there is nothing to load it from again, so that
// reader is flagged as the head (the only readers GC never unloads).
func (p *Prog) prebuiltIndexStays() []Ob {
	r := p.R
	open := r.Open
	head := p.srHeadField()
	ob := Ob{Rule: "R26", Inst: "b:prebuilt-index-stays", Props: []string{"C19", "C03"}, Pos: "-", Func: funcLabel(open), Nontrivial: true}
	if open == nil || head == nil {
		ob.Status, ob.Msg = Undecided, "Open or the head flag of the segment reader not found"
		return []Ob{ob}
	}
	// the list of segments Open works with
	isSegList := func(v ssa.Value) bool {
		ex, ok := canon(v).(*ssa.Extract)
		if !ok || ex.Index != 0 {
			return false
		}
		c, ok := ex.Tuple.(*ssa.Call)
		if !ok {
			return false
		}
		sl, ok := ex.Type().Underlying().(*types.Slice)
		return ok && namedOf(sl.Elem()) == r.Segment && c.Common().StaticCallee() != nil
	}
	emptyEdge := func(iff *ssa.If) int {
		x, y, op, ok := relCond(iff.Cond)
		if !ok {
			return -1
		}
		lc, ok := x.(*ssa.Call)
		if !ok || !isBuiltinCall(lc.Common(), "len") || !isSegList(lc.Call.Args[0]) {
			return -1
		}
		k, isK := constInt(y)
		if !isK || k != 0 {
			return -1
		}
		switch op {
		case token.EQL, token.LEQ:
			return 0
		case token.NEQ, token.GTR:
			return 1
		}
		return -1
	}
	inEmptyBranch := func(b *ssa.BasicBlock) bool {
		for _, hb := range open.Blocks {
			if iff, ok := terminator(hb).(*ssa.If); ok {
				if e := emptyEdge(iff); e >= 0 && edgeDominates(hb, e, b) {
					return true
				}
			}
		}
		return false
	}
	var bad []string
	n := 0
	// an index object built as the head's (its constructor got true for its head flag)
	headIndexArg := func(c *ssa.Call) bool {
		for _, a := range c.Call.Args {
			ic, ok := canon(a).(*ssa.Call)
			if !ok {
				if mi, isMI := canon(a).(*ssa.MakeInterface); isMI {
					ic, ok = canon(mi.X).(*ssa.Call)
				}
			}
			if !ok || ic.Common().StaticCallee() == nil {
				continue
			}
			ig := ic.Common().StaticCallee()
			if ig.Signature.Results().Len() != 1 {
				continue
			}
			ipt, isPtr := ig.Signature.Results().At(0).Type().(*types.Pointer)
			if !isPtr || namedOf(ipt.Elem()) != r.ReaderIndex {
				continue
			}
			for _, ia := range ic.Call.Args {
				if k, ok := ia.(*ssa.Const); ok && k.Value != nil && k.Value.String() == "true" {
					return true
				}
			}
		}
		return false
	}
	for _, b := range open.Blocks {
		for _, ins := range b.Instrs {
			c, ok := ins.(*ssa.Call)
			if !ok {
				continue
			}
			g := c.Common().StaticCallee()
			if g == nil || !inModule(g) || g.Blocks == nil || g.Signature.Results().Len() == 0 {
				continue
			}
			pt, ok := g.Signature.Results().At(0).Type().(*types.Pointer)
			if !ok || namedOf(pt.Elem()) != r.SegReader {
				continue
			}
			// where there are no segment files, or where the prebuilt index says "I am the head's"
			if !inEmptyBranch(b) && !headIndexArg(c) {
				continue
			}
			// does the constructor pre-install an index, and what does it store in the head flag?
			preinstalls, headTrue := false, false
			for _, gb := range g.Blocks {
				for _, gi := range gb.Instrs {
					st, ok := gi.(*ssa.Store)
					if !ok {
						continue
					}
					fa, ok := st.Addr.(*ssa.FieldAddr)
					if !ok {
						continue
					}
					switch fieldVarOfAddr(fa) {
					case r.SRIndex:
						if !isNilConst(st.Val) {
							preinstalls = true
						}
					case head:
						if k, ok := st.Val.(*ssa.Const); ok && k.Value != nil && k.Value.String() == "true" {
							headTrue = true
						}
						if pr, ok := st.Val.(*ssa.Parameter); ok {
							for i, q := range g.Params {
								if q == pr && i < len(c.Call.Args) {
									if k, ok := c.Call.Args[i].(*ssa.Const); ok && k.Value != nil && k.Value.String() == "true" {
										headTrue = true
									}
								}
							}
						}
					}
				}
			}
			if !preinstalls {
				continue
			}
			n++
			// or Open sets the flag on the result itself
			for _, ob2 := range open.Blocks {
				for _, oi := range ob2.Instrs {
					if st, ok := oi.(*ssa.Store); ok {
						if fa, ok := st.Addr.(*ssa.FieldAddr); ok && fieldVarOfAddr(fa) == head && canon(fa.X) == ssa.Value(c) {
							if k, ok := st.Val.(*ssa.Const); ok && k.Value != nil && k.Value.String() == "true" {
								headTrue = true
							}
						}
					}
				}
			}
			if !headTrue {
				bad = append(bad, fmt.Sprintf("%s: %s builds a reader with a prebuilt index that cannot be loaded again as it is (no segment files, or an index built as the head's), and does not flag the reader as the head", p.at(c), shortCallee(g)))
			}
			ob.Pos = p.at(c)
		}
	}
	switch {
	case len(bad) > 0:
		ob.Status, ob.Msg, ob.Path = Violated, "GC drops the prebuilt index of a reader Open builds, and what is loaded instead is not the same (no file to load from, or an index that no longer answers as the head's): the read-only handle then fails or answers differently from a read-write one", bad
	case n == 0:
		ob.Status, ob.Msg = Discharged, "Open builds no reader with a prebuilt index in its no-segments branch"
	default:
		ob.Status, ob.Msg = Discharged, "the reader Open builds with a prebuilt index where there are no segment files is flagged as the head and is never unloaded"
	}
	return []Ob{ob}
}

// ---------------------------------------------------------------------------
// R15b OPEN-WRAPPERS-RELEASE (C19): a function that opens a log (and with it takes the directory lock)
// and can still fail afterwards closes the log on that failure: its caller gets no handle to close.
func (p *Prog) openWrappersRelease() []Ob {
	var obs []Ob
	ea := p.ErrAtomsCached()
	takesLock := func(g *ssa.Function) bool {
		return p.reaches(g, func(h *ssa.Function) bool {
			n := fullName(h)
			return strings.HasPrefix(n, "(*"+flockPkg+".Flock).TryLock") || strings.HasPrefix(n, "(*"+flockPkg+".Flock).TryRLock")
		})
	}
	n := 0
	for _, fn := range p.Funcs {
		if !srcFunc(fn) || fn.Parent() != nil || funcPkgPath(fn) != pkgRoot || errResultIndex(fn) < 0 {
			continue
		}
		for _, b := range fn.Blocks {
			for _, ins := range b.Instrs {
				c, ok := ins.(*ssa.Call)
				if !ok {
					continue
				}
				g := c.Common().StaticCallee()
				if g == nil {
					continue
				}
				if o := g.Origin(); o != nil {
					g = o
				}
				if !inModule(g) || g.Blocks == nil || errResultIndex(g) != 1 || g.Signature.Results().Len() != 2 || !takesLock(g) {
					continue
				}
				var handle, errV ssa.Value
				for _, r := range *c.Referrers() {
					if ex, ok := r.(*ssa.Extract); ok {
						if ex.Index == 0 {
							handle = ex
						} else {
							errV = ex
						}
					}
				}
				if handle == nil || errV == nil {
					continue
				}
				n++
				ob := Ob{Rule: "R15", Inst: "b:open-wrapper-releases:" + funcLabel(fn), Props: []string{"C19"}, Pos: p.at(c), Func: funcLabel(fn), Nontrivial: true}
				// Close invoked on the handle (possibly through an interface conversion)
				isHandle := func(v ssa.Value) bool {
					for i := 0; i < 4; i++ {
						if v == handle {
							return true
						}
						switch x := v.(type) {
						case *ssa.ChangeInterface:
							v = x.X
						case *ssa.MakeInterface:
							v = x.X
						case *ssa.TypeAssert:
							v = x.X
						default:
							return false
						}
					}
					return false
				}
				var closes []*ssa.Call
				for _, b2 := range fn.Blocks {
					for _, i2 := range b2.Instrs {
						if c2, ok := i2.(*ssa.Call); ok && c2.Common().IsInvoke() && c2.Common().Method.Name() == "Close" && isHandle(c2.Common().Value) {
							closes = append(closes, c2)
						}
					}
				}
				var bad []string
				for _, rt := range returnsOf(fn) {
					if !p.dominatedByNilErr(ea, errV, rt.Block()) {
						continue // the open itself failed: nothing to release here
					}
					ev := returnOperand(rt, errResultIndex(fn))
					if isNilConst(ev) {
						continue
					}
					at := ea.atomsAt(ev, rt.Block())
					mayFail := false
					for a := range at {
						if a != "nil" {
							mayFail = true
						}
					}
					if !mayFail {
						continue
					}
					closed := false
					for _, cc := range closes {
						if instrDominates(cc, rt) {
							closed = true
						}
					}
					if !closed {
						bad = append(bad, p.at(rt)+": an error can be returned here with the log still open and the directory locked")
					}
				}
				if len(bad) > 0 {
					ob.Status, ob.Msg, ob.Path = Violated, "after a successful open the function can fail without closing the log: the caller has no handle, and the directory lock is kept until the process ends", uniqSorted(bad)
				} else {
					ob.Status, ob.Msg = Discharged, "every failure behind the successful open closes the log first (or there is none)"
				}
				obs = append(obs, ob)
			}
		}
	}
	if n == 0 {
		obs = append(obs, Ob{Rule: "R15", Inst: "b:open-wrapper-releases", Props: []string{"C19"}, Pos: "-", Status: Undecided, Msg: "no function of the root package calls an opener"})
	}
	return obs
}

// ---------------------------------------------------------------------------
// R18d LOST-RACE-IS-NOT-AN-ANSWER (C08): when the re-validation of a head rewrite fails (a publish
// landed between the rewrite and the swap), the delete has not looked at the log as it is now. It
// starts over or fails; it does not return success with nothing deleted, an answer no sequential
// order of the calls produces for a live, requested offset.
func (p *Prog) lostRaceIsNotAnAnswer() []Ob {
	var obs []Ob
	r := p.R
	ea := p.ErrAtomsCached()
	n := 0
	for _, fn := range p.Funcs {
		if !srcFunc(fn) || recvNamed(fn) != r.Impl {
			continue
		}
		for _, b := range fn.Blocks {
			for _, ins := range b.Instrs {
				c, ok := ins.(*ssa.Call)
				if !ok {
					continue
				}
				g := c.Common().StaticCallee()
				if g == nil || recvNamed(g) != r.HeadWriter || errResultIndex(g) < 0 {
					continue
				}
				takesRewrite := false
				for _, pr := range g.Params {
					if namedOf(derefPtr(pr.Type())) == r.RewriteSegment {
						takesRewrite = true
					}
				}
				if !takesRewrite {
					continue
				}
				var errV ssa.Value
				for _, ref := range *c.Referrers() {
					if ex, ok := ref.(*ssa.Extract); ok && ex.Index == errResultIndex(g) {
						errV = ex
					}
				}
				if errV == nil {
					continue
				}
				// module sentinels of the root package the callee returns bare
				for _, hb := range fn.Blocks {
					iff, ok := terminator(hb).(*ssa.If)
					if !ok {
						continue
					}
					t, ok := classifyErrCond(iff.Cond, errV)
					if !ok || (t.kind != "eq" && t.kind != "is") || !strings.HasPrefix(t.target, "G:"+pkgRoot+".") {
						continue
					}
					edge := 1
					if t.trueMeans {
						edge = 0
					}
					n++
					ob := Ob{Rule: "R18", Inst: "d:lost-race:" + funcLabel(fn) + ":" + shortAtom(t.target), Props: []string{"C08"}, Pos: p.at(iff), Func: funcLabel(fn), Nontrivial: true}
					// what can the edge reach before leaving the function?
					var bad []string
					seen := map[*ssa.BasicBlock]bool{}
					work := []*ssa.BasicBlock{hb.Succs[edge]}
					for len(work) > 0 {
						x := work[len(work)-1]
						work = work[:len(work)-1]
						if seen[x] {
							continue
						}
						seen[x] = true
						// only blocks that are entered through this edge alone belong to the branch
						if x != hb.Succs[edge] && !edgeDominates(hb, edge, x) {
							continue
						}
						if rt, ok := terminator(x).(*ssa.Return); ok {
							if !ea.isFailureReturn(fn, rt) {
								// a retry hands on what a further attempt returned
								retried := false
								if len(rt.Results) > 0 {
									if ex, ok := rt.Results[0].(*ssa.Extract); ok {
										if rc, ok := ex.Tuple.(*ssa.Call); ok && rc.Common().StaticCallee() != nil && recvNamed(rc.Common().StaticCallee()) == r.Impl {
											retried = true
										}
									}
								}
								if !retried {
									bad = append(bad, p.at(rt)+": success is returned (nothing deleted) although the delete never saw the log as it is now")
								}
							}
							continue
						}
						work = append(work, x.Succs...)
					}
					if len(bad) > 0 {
						ob.Status, ob.Msg, ob.Path = Violated, "a delete in the head that loses the race against a publish gives up and reports success with nothing deleted: the requested messages are live and stay, which no sequential order of the two calls produces", bad
					} else {
						ob.Status, ob.Msg = Discharged, "a head delete that lost the race against a publish starts over or fails"
					}
					obs = append(obs, ob)
				}
			}
		}
	}
	if n == 0 {
		obs = append(obs, Ob{Rule: "R18", Inst: "d:lost-race", Props: []string{"C08"}, Pos: "-", Status: Undecided, Msg: "no classification of a head-rewrite re-validation failure found in the log implementation"})
	}
	return obs
}

// ---------------------------------------------------------------------------
// R3c-w PUBLISH-ORDER (C09, C08): the head's next-offset atomic tells readers how far the head's item
// list and key tree go (readers load it first, F7). On the writer side every update of the items and
// of the key tree therefore comes before the store of the atomic, inside one exclusive hold of a lock
// of the index object; a key inserted after the store is a message visible by offset but not by key.
func (p *Prog) publishOrder() []Ob {
	var obs []Ob
	r := p.R
	ls := p.LocksetCached()
	var keysField *types.Var
	hs := structOf(r.HeadIndex)
	for i := 0; i < hs.NumFields(); i++ {
		if n := namedOf(hs.Field(i).Type()); n != nil && n.Obj().Pkg() != nil && strings.HasPrefix(n.Obj().Pkg().Path(), "github.com/plar/go-adaptive-radix-tree") {
			keysField = hs.Field(i)
		}
	}
	n := 0
	for _, fn := range p.Funcs {
		if !srcFunc(fn) || recvNamed(fn) != r.HeadIndex {
			continue
		}
		var stores []*ssa.Call
		var updates []ssa.Instruction
		for _, b := range fn.Blocks {
			for _, ins := range b.Instrs {
				switch x := ins.(type) {
				case *ssa.Call:
					if calleeName(x.Common()) == "(*sync/atomic.Int64).Store" && len(x.Call.Args) > 0 {
						if fa, ok := x.Call.Args[0].(*ssa.FieldAddr); ok && fieldVarOfAddr(fa) == r.HINextOffset && !underConstruction(fa) {
							stores = append(stores, x)
						}
					}
					// the key tree handed to something that inserts into it
					if keysField != nil {
						for _, a := range x.Common().Args {
							if f, base := loadedField(canon(a)); f == keysField && !underConstruction(base) {
								if g := x.Common().StaticCallee(); g != nil && (funcPkgPath(g) == pkgIndex || !inModule(g)) {
									updates = append(updates, x)
								}
							}
						}
						if x.Common().IsInvoke() && x.Common().Method.Name() == "Insert" {
							if f, base := loadedField(canon(x.Common().Value)); f == keysField && !underConstruction(base) {
								updates = append(updates, x)
							}
						}
					}
				case *ssa.Store:
					if fa, ok := x.Addr.(*ssa.FieldAddr); ok && fieldVarOfAddr(fa) == r.HIItems && !underConstruction(fa) {
						updates = append(updates, x)
					}
				}
			}
		}
		if len(stores) == 0 {
			continue
		}
		n++
		ob := Ob{Rule: "R3", Inst: "publish-order:" + funcLabel(fn), Props: []string{"C09", "C08"}, Pos: p.at(stores[0]), Func: funcLabel(fn), Nontrivial: true}
		var bad []string
		for _, st := range stores {
			for _, u := range updates {
				// reads such as a lookup do not count: only calls that can insert (AppendKeys / Insert) and stores
				if c, ok := u.(*ssa.Call); ok {
					nm := calleeName(c.Common())
					if !strings.Contains(nm, "Append") && !strings.Contains(nm, "Insert") && !c.Common().IsInvoke() {
						continue
					}
				}
				if canReach(st, u) {
					bad = append(bad, fmt.Sprintf("%s: this update of what the next offset bounds can run after the store of the next offset at %s", p.at(u), p.at(st)))
					continue
				}
				shared := false
				for m, mode := range ls.at[u] {
					if mode == modeW && ls.at[st][m] == modeW {
						shared = true
					}
				}
				if !shared {
					bad = append(bad, fmt.Sprintf("%s: this update and the store of the next offset at %s are not inside one exclusive hold of a lock", p.at(u), p.at(st)))
				}
			}
		}
		if len(updates) == 0 {
			bad = append(bad, "the function stores the next offset without updating the items it bounds")
		}
		if len(bad) > 0 {
			ob.Status, ob.Msg, ob.Path = Violated, "the head's next offset is published before (or apart from) an update it bounds: a reader that loaded the new next offset does not find the message by key (or by offset) yet, and moves its cursor past it", uniqSorted(bad)
		} else {
			ob.Status, ob.Msg = Discharged, fmt.Sprintf("%d update(s) of the item list / key tree, all before the store of the next offset and inside the same exclusive hold", len(updates))
		}
		obs = append(obs, ob)
	}
	if n == 0 {
		obs = append(obs, Ob{Rule: "R3", Inst: "publish-order", Props: []string{"C09", "C08"}, Pos: "-", Status: Undecided, Msg: "no method of the head's index object stores the next offset"})
	}
	return obs
}

// ---------------------------------------------------------------------------
// R8 K3b COLLECT-LOOP-ASCENDS (C09): a loop that collects hash candidates into a batch and stops when
// the batch is full walks the candidates upwards (oldest first); cut off while walking downwards, the
// batch holds the newest matches and the cursor skips the older unread ones.
func (p *Prog) collectLoopAscends() []Ob {
	var obs []Ob
	r := p.R
	for _, fn := range p.Funcs {
		if !srcFunc(fn) || recvNamed(fn) != r.SegReader || fn.Parent() != nil {
			continue
		}
		for _, b := range fn.Blocks {
			for _, ins := range b.Instrs {
				c, ok := ins.(*ssa.Call)
				if !ok || calleeName(c.Common()) != "(*"+pkgMessage+".Reader).Get" {
					continue
				}
				h := enclosingLoopHeader(b)
				if h == nil {
					continue
				}
				loop := naturalLoop(h)
				// does the loop append to a []Message and test its length against something?
				collects, bounded := false, false
				for lb := range loop {
					for _, li := range lb.Instrs {
						if ac, ok := li.(*ssa.Call); ok && isBuiltinCall(ac.Common(), "append") {
							if sl, ok := ac.Type().Underlying().(*types.Slice); ok && namedOf(sl.Elem()) == r.Message {
								collects = true
							}
						}
					}
					if iff, ok := terminator(lb).(*ssa.If); ok {
						if x, y, _, ok := relCond(iff.Cond); ok {
							for _, s := range []ssa.Value{x, y} {
								if lc, ok := stripConv(s).(*ssa.Call); ok && isBuiltinCall(lc.Common(), "len") {
									if sl, ok := lc.Call.Args[0].Type().Underlying().(*types.Slice); ok && namedOf(sl.Elem()) == r.Message {
										bounded = true
									}
								}
							}
						}
					}
				}
				if !collects || !bounded {
					continue
				}
				ob := Ob{Rule: "R8", Inst: "K3b:" + funcLabel(fn) + ":collect-loop", Props: []string{"C09"}, Pos: p.at(c), Func: funcLabel(fn), Nontrivial: true}
				switch loopDirection(h) {
				case +1:
					ob.Status, ob.Msg = Discharged, "the loop that fills a bounded batch walks the candidates upwards"
				case -1:
					ob.Status, ob.Msg = Violated, "the loop that fills a bounded batch walks the candidates downwards: when the batch is full it holds the newest matches, and the cursor derived from it skips the older ones for good"
				default:
					ob.Status, ob.Msg = Undecided, "cannot determine the direction of the loop that fills a bounded batch"
				}
				obs = append(obs, ob)
			}
		}
	}
	return obs
}

// R11 L9 / L10 (C07): what Check may call fine, and what Recover may give up on.
//
//	L9  Check returns success only where the stored index was compared equal with the derived one, or
//	    where the index file does not exist;
//	L10 Recover never hands on an error of reading the index where that error is of the index's
//	    corruption class: damage in the index (including its header flags) is what Recover repairs.
func (p *Prog) checkAndRecoverVerdicts() []Ob {
	var obs []Ob
	ea := p.ErrAtomsCached()
	seen := map[*ssa.Function]bool{}
	for _, cl := range p.copyLoops() {
		if cl.loop == nil || seen[cl.fn] {
			continue
		}
		fn := cl.fn
		res := fn.Signature.Results()
		if res.Len() != 1 || !isErrType(res.At(0).Type()) {
			continue
		}
		serves07 := false
		for _, pr := range p.copyLoopProps(cl) {
			if pr == "C07" {
				serves07 = true
			}
		}
		if !serves07 {
			continue
		}
		seen[fn] = true
		// the read of the stored index
		var idxErr ssa.Value
		for _, b := range fn.Blocks {
			for _, ins := range b.Instrs {
				if c, ok := ins.(*ssa.Call); ok && calleeName(c.Common()) == pkgIndex+".Read" {
					for _, ref := range *c.Referrers() {
						if ex, ok := ref.(*ssa.Extract); ok && ex.Index == 1 {
							idxErr = ex
						}
					}
				}
			}
		}
		hasRename := false
		for _, o := range p.fsOps(fn) {
			if o.op == "RENAME" {
				hasRename = true
			}
		}
		if !hasRename {
			// L9: a checker
			ob := Ob{Rule: "R11", Inst: "L9:" + funcLabel(fn) + ":verdict-needs-comparison", Props: []string{"C07"}, Pos: p.at(cl.read), Func: funcLabel(fn), Nontrivial: true}
			var bad []string
			for _, rt := range returnsOf(fn) {
				if ea.isFailureReturn(fn, rt) {
					continue
				}
				okR := false
				for _, hb := range fn.Blocks {
					iff, isIf := terminator(hb).(*ssa.If)
					if !isIf {
						continue
					}
					for _, t := range sentinelTests(iff.Cond) {
						if isNotExistTarget(t.atom) && edgeDominates(hb, t.edge, rt.Block()) {
							okR = true
						}
					}
					cond, pos := iff.Cond, true
					for {
						u, ok := cond.(*ssa.UnOp)
						if !ok || u.Op != token.NOT {
							break
						}
						pos, cond = !pos, u.X
					}
					if c, ok := cond.(*ssa.Call); ok && strings.HasPrefix(calleeName(c.Common()), "slices.Equal") {
						e := 0
						if !pos {
							e = 1
						}
						if edgeDominates(hb, e, rt.Block()) {
							okR = true
						}
					}
				}
				if !okR {
					bad = append(bad, p.at(rt)+": success without the stored index having been compared equal with the one derived from the log (and the index file exists)")
				}
			}
			if len(bad) > 0 {
				ob.Status, ob.Msg, ob.Path = Violated, "the check can call a segment fine whose index file exists but was not compared with the log", bad
			} else {
				ob.Status, ob.Msg = Discharged, "every success return follows the whole-index comparison, or the test that the index file does not exist"
			}
			obs = append(obs, ob)
			continue
		}
		// L10: a recoverer
		if idxErr == nil {
			continue
		}
		ob := Ob{Rule: "R11", Inst: "L10:" + funcLabel(fn) + ":index-damage-is-repaired", Props: []string{"C07", "C05"}, Pos: p.at(cl.read), Func: funcLabel(fn), Nontrivial: true}
		corr := "G:" + pkgIndex + ".ErrCorrupted"
		var bad []string
		for _, rt := range returnsOf(fn) {
			if !ea.isFailureReturn(fn, rt) {
				continue
			}
			v := returnOperand(rt, 0)
			if !derivesFromErr(v, idxErr, 0) {
				continue
			}
			excluded := false
			for _, hb := range fn.Blocks {
				iff, isIf := terminator(hb).(*ssa.If)
				if !isIf {
					continue
				}
				if t, ok := classifyErrCond(iff.Cond, idxErr); ok && t.kind == "is" && t.target == corr {
					notEdge := 1
					if !t.trueMeans {
						notEdge = 0
					}
					if edgeDominates(hb, notEdge, rt.Block()) {
						excluded = true
					}
				}
			}
			if !excluded {
				bad = append(bad, p.at(rt)+": an error of reading the index is handed on where it may be of the corruption class")
			}
		}
		if len(bad) > 0 {
			ob.Status, ob.Msg, ob.Path = Violated, "recovery gives up on damage in the index file (for instance in its header flags) although the log is intact and the index is derived data", bad
		} else {
			ob.Status, ob.Msg = Discharged, "an error of reading the index is handed on only where it was tested as not of the corruption class"
		}
		obs = append(obs, ob)
	}
	return obs
}

// ---------------------------------------------------------------------------
// R19e / R25c EVERY-SEGMENT (C17, C13): a loop over the segments of a directory that migrates (or
// stats) them does so for every one: no iteration reaches the next one without the call.
func (p *Prog) everySegment() []Ob {
	var obs []Ob
	r := p.R
	targets := map[string][]string{"Migrate": {"C17"}, "Stat": {"C13"}}
	for _, fn := range p.Funcs {
		if !srcFunc(fn) || fn.Parent() != nil {
			continue
		}
		for _, b := range fn.Blocks {
			for _, ins := range b.Instrs {
				c, ok := ins.(*ssa.Call)
				if !ok {
					continue
				}
				g := c.Common().StaticCallee()
				if g == nil || recvNamed(g) != r.Segment {
					continue
				}
				props, tracked := targets[g.Name()]
				if !tracked {
					continue
				}
				h, loop := innermostLoop(b)
				if loop == nil {
					continue
				}
				// the loop ranges over a slice of segments
				overSegments := false
				for lb := range loop {
					for _, li := range lb.Instrs {
						if ia, ok := li.(*ssa.IndexAddr); ok {
							if sl, ok := ia.X.Type().Underlying().(*types.Slice); ok && namedOf(sl.Elem()) == r.Segment {
								overSegments = true
							}
						}
					}
				}
				if !overSegments {
					continue
				}
				ob := Ob{Rule: "R19", Inst: "e:every-segment:" + funcLabel(fn) + ":" + g.Name(), Props: props, Pos: p.at(c), Func: funcLabel(fn), Nontrivial: true}
				skip := false
				seen := map[*ssa.BasicBlock]bool{}
				var w func(x *ssa.BasicBlock, first bool)
				w = func(x *ssa.BasicBlock, first bool) {
					if skip || !loop[x] || x == c.Block() {
						return
					}
					if x == h && !first {
						skip = true
						return
					}
					if seen[x] {
						return
					}
					seen[x] = true
					for _, s := range x.Succs {
						w(s, false)
					}
				}
				w(h, true)
				if skip {
					ob.Status, ob.Msg = Violated, "an iteration over the segments can go on to the next segment without "+g.Name()+" of this one: some segments (for instance an empty head) are passed over"
				} else {
					ob.Status, ob.Msg = Discharged, "every iteration over the segments calls "+g.Name()
				}
				obs = append(obs, ob)
			}
		}
	}
	return obs
}

// ---------------------------------------------------------------------------
// R30b TIME-IDENTITY (C10, C01): time.Time values are never compared with == or != (that compares
// wall clock, monotonic reading and location pointer: two spellings of one instant differ); the
// stored instants are compared through UnixMicro / Equal / Before / After.
func (p *Prog) timeIdentity() []Ob {
	var bad []string
	n := 0
	for _, fn := range p.Funcs {
		if !srcFunc(fn) {
			continue
		}
		for _, b := range fn.Blocks {
			for _, ins := range b.Instrs {
				bo, ok := ins.(*ssa.BinOp)
				if !ok {
					continue
				}
				if bo.Op == token.EQL || bo.Op == token.NEQ || bo.Op == token.LSS || bo.Op == token.GTR || bo.Op == token.LEQ || bo.Op == token.GEQ {
					n++
				}
				if (bo.Op == token.EQL || bo.Op == token.NEQ) && (typeIs(bo.X.Type(), "time", "Time") || typeIs(bo.Y.Type(), "time", "Time")) {
					bad = append(bad, fmt.Sprintf("%s: two time.Time values are compared with %s in %s", p.at(bo), bo.Op, funcLabel(fn)))
				}
			}
		}
	}
	ob := Ob{Rule: "R30", Inst: "b:time-identity", Props: []string{"C10", "C01"}, Pos: "-", Nontrivial: true}
	sort.Strings(bad)
	switch {
	case len(bad) > 0:
		ob.Pos = strings.SplitN(bad[0], ": ", 2)[0]
		ob.Status, ob.Msg, ob.Path = Violated, "instants are compared as structs: a query time in another location, with a monotonic reading or with sub-microsecond digits is 'different' from the stored time of the same microsecond", bad
	case n < 100:
		ob.Status, ob.Msg = Undecided, fmt.Sprintf("only %d comparisons found in the module", n)
	default:
		ob.Status, ob.Msg = Discharged, fmt.Sprintf("%d comparisons in the module, none of them between time.Time structs", n)
	}
	return []Ob{ob}
}

// ---------------------------------------------------------------------------
// R27b REWRITE-DROPS-THE-OLD-INDEX (C03, C12): after a delete rewrote the head's files, every index
// built before is stale (it lists the deleted messages and positions of the old file). A head-writer
// method that applies a rewrite hands back readers that load their index from the new files; it never
// builds one around an index it already had.
func (p *Prog) rewriteDropsOldIndex() []Ob {
	var obs []Ob
	r := p.R
	preinstalls := func(g *ssa.Function) bool {
		if g == nil || g.Blocks == nil {
			return false
		}
		for _, b := range g.Blocks {
			for _, ins := range b.Instrs {
				if st, ok := ins.(*ssa.Store); ok {
					if fa, ok := st.Addr.(*ssa.FieldAddr); ok && fieldVarOfAddr(fa) == r.SRIndex && underConstruction(fa) && !isNilConst(st.Val) {
						// opened for appending (shares the live index of a new writer) is not a kept reader
						return true
					}
				}
			}
		}
		return false
	}
	for _, fn := range p.Funcs {
		if !srcFunc(fn) || recvNamed(fn) != r.HeadWriter {
			continue
		}
		takesRewrite := false
		for _, pr := range fn.Params {
			if namedOf(derefPtr(pr.Type())) == r.RewriteSegment {
				takesRewrite = true
			}
		}
		if !takesRewrite {
			continue
		}
		ob := Ob{Rule: "R27", Inst: "b:rewrite-drops-old-index:" + funcLabel(fn), Props: []string{"C03", "C12"}, Pos: p.posStr(fn.Pos()), Func: funcLabel(fn), Nontrivial: true}
		var bad []string
		for _, b := range fn.Blocks {
			for _, ins := range b.Instrs {
				c, ok := ins.(*ssa.Call)
				if !ok {
					continue
				}
				g := c.Common().StaticCallee()
				if g == nil || !inModule(g) {
					continue
				}
				// a reader constructor that takes an index, called directly or through a method of the
				// old writer (which can only hand it the old index)
				if preinstalls(g) && recvNamed(g) == nil && g.Signature.Results().Len() == 1 {
					// constructors of the new writer build their own fresh index: only flag those whose
					// index argument comes from the receiver's own index object
					for _, a := range c.Call.Args {
						if f, _ := loadedField(canon(a)); f == r.HWIndex {
							bad = append(bad, p.at(c)+": a reader is built around the old writer's index")
						}
						if ic, ok := canon(a).(*ssa.Call); ok && len(ic.Call.Args) > 0 {
							if f, _ := loadedField(canon(ic.Call.Args[0])); f == r.HWIndex {
								bad = append(bad, p.at(c)+": a reader is built around a snapshot of the old writer's index")
							}
						}
					}
				}
				if recvNamed(g) == r.HeadWriter && g != fn && p.reaches(g, func(h *ssa.Function) bool {
					return h != g && preinstalls(h) && recvNamed(h) == nil && h.Signature.Results().Len() == 1 && !p.reaches(h, isFunc(pkgMessage+".OpenReader"))
				}) {
					if len(c.Call.Args) > 0 && c.Call.Args[0] == ssa.Value(fn.Params[0]) {
						bad = append(bad, p.at(c)+": "+shortCallee(g)+" of the old writer builds a reader around the index from before the rewrite")
					}
				}
			}
		}
		if len(bad) > 0 {
			ob.Status, ob.Msg, ob.Path = Violated, "a reader handed back after a delete in the head keeps an index built before the rewrite: it lists deleted messages and positions of the old file", uniqSorted(bad)
		} else {
			ob.Status, ob.Msg = Discharged, "the readers handed back after a delete in the head load their index from the rewritten files"
		}
		obs = append(obs, ob)
	}
	return obs
}

// R28c NEWEST-BY-EQUALITY (C03, C04): in the pure lookups over segments and items, the answer "the
// last one" for a relative offset is given only where the offset was compared equal with OffsetNewest
// (or where a comparison with a stored offset put it there); a test of the sign alone sends every
// negative cursor to the end.
func (p *Prog) newestByEquality() []Ob {
	var obs []Ob
	newest := int64(-1)
	if pk := p.SSA.ImportedPackage(pkgMessage); pk != nil {
		if c, ok := pk.Pkg.Scope().Lookup("OffsetNewest").(*types.Const); ok {
			if v, ok := constant.Int64Val(c.Val()); ok {
				newest = v
			}
		}
	}
	for _, fn := range p.Funcs {
		if !srcFunc(fn) || fn.Parent() != nil || fn.Signature.Recv() != nil {
			continue
		}
		pk := funcPkgPath(fn)
		if pk != pkgIndex && pk != modPath+"/pkg/segment" {
			continue
		}
		if fn.Origin() != nil {
			continue // the generic body is judged once
		}
		base := fn.Name()
		if base != "Consume" && base != "Get" {
			continue
		}
		var offParam *ssa.Parameter
		for _, pr := range fn.Params {
			if b, ok := pr.Type().Underlying().(*types.Basic); ok && b.Kind() == types.Int64 {
				offParam = pr
			}
		}
		if offParam == nil {
			continue
		}
		isLastIndex := func(v ssa.Value) bool {
			bo, ok := stripConv(v).(*ssa.BinOp)
			if !ok || bo.Op != token.SUB {
				return false
			}
			k, isK := constInt(bo.Y)
			c, isC := bo.X.(*ssa.Call)
			return isK && k == 1 && isC && isBuiltinCall(c.Common(), "len")
		}
		n := 0
		var bad []string
		for _, b := range fn.Blocks {
			rt, ok := terminator(b).(*ssa.Return)
			if !ok {
				continue
			}
			// is the first result (read from) the last element?
			var fromLast func(v ssa.Value, d int) bool
			fromLast = func(v ssa.Value, d int) bool {
				if d > 6 {
					return false
				}
				switch x := v.(type) {
				case *ssa.UnOp:
					return fromLast(x.X, d+1)
				case *ssa.FieldAddr:
					return fromLast(x.X, d+1)
				case *ssa.Field:
					return fromLast(x.X, d+1)
				case *ssa.IndexAddr:
					return isLastIndex(x.Index)
				case *ssa.Alloc:
					if sts := allocStores(x); len(sts) == 1 {
						return fromLast(sts[0].Val, d+1)
					}
				}
				return false
			}
			if len(rt.Results) == 0 || !fromLast(rt.Results[0], 0) {
				continue
			}
			n++
			okR := false
			for _, hb := range fn.Blocks {
				iff, isIf := terminator(hb).(*ssa.If)
				if !isIf {
					continue
				}
				x, y, op, ok := relCond(iff.Cond)
				if !ok {
					continue
				}
				involves := canon(x) == ssa.Value(offParam) || canon(y) == ssa.Value(offParam)
				if !involves {
					continue
				}
				other := y
				if canon(y) == ssa.Value(offParam) {
					other = x
				}
				if k, isK := constInt(other); isK {
					if k == newest && ((op == token.EQL && edgeDominates(hb, 0, b)) || (op == token.NEQ && edgeDominates(hb, 1, b))) {
						okR = true
					}
					continue
				}
				// a comparison with a stored offset (a field load or a GetOffset call)
				if edgeDominates(hb, 0, b) || edgeDominates(hb, 1, b) {
					okR = true
				}
			}
			if !okR {
				bad = append(bad, p.at(rt)+": the last element is the answer although the offset was neither compared equal with OffsetNewest nor with a stored offset")
			}
		}
		if n == 0 {
			continue
		}
		ob := Ob{Rule: "R28", Inst: "c:newest-by-equality:" + funcLabel(fn), Props: []string{"C03", "C04"}, Pos: p.posStr(fn.Pos()), Func: funcLabel(fn), Nontrivial: true}
		if len(bad) > 0 {
			ob.Status, ob.Msg, ob.Path = Violated, "a relative offset is recognised by its sign: every negative cursor other than OffsetOldest is answered from the end, stepping over all older messages", bad
		} else {
			ob.Status, ob.Msg = Discharged, fmt.Sprintf("%d return(s) of the last element, each behind offset == OffsetNewest or a comparison with a stored offset", n)
		}
		obs = append(obs, ob)
	}
	return obs
}

// ---------------------------------------------------------------------------
// R28d GET-PICKS-A-COVERING-SEGMENT (C04): the lookup that picks the segment for Get never answers
// with a segment on the edge where the offset was found below that segment's own base offset (that
// case is "before the start": not found; handing it to the segment lets an empty one answer
// "not assigned yet").
func (p *Prog) getPicksCoveringSegment() []Ob {
	var obs []Ob
	for _, fn := range p.Funcs {
		if !srcFunc(fn) || fn.Parent() != nil || fn.Signature.Recv() != nil || fn.Origin() != nil {
			continue
		}
		if funcPkgPath(fn) != modPath+"/pkg/segment" || fn.Name() != "Get" || errResultIndex(fn) < 0 {
			continue
		}
		var offParam *ssa.Parameter
		for _, pr := range fn.Params {
			if b, ok := pr.Type().Underlying().(*types.Basic); ok && b.Kind() == types.Int64 {
				offParam = pr
			}
		}
		if offParam == nil {
			continue
		}
		ea := p.ErrAtomsCached()
		ob := Ob{Rule: "R28", Inst: "d:get-picks-covering-segment:" + funcLabel(fn), Props: []string{"C04"}, Pos: p.posStr(fn.Pos()), Func: funcLabel(fn), Nontrivial: true}
		// the receiver of a GetOffset call, canonicalised
		baseOf := func(v ssa.Value) ssa.Value {
			c, ok := v.(*ssa.Call)
			if !ok || !c.Common().IsInvoke() || c.Common().Method.Name() != "GetOffset" {
				return nil
			}
			return canon(c.Common().Value)
		}
		var bad []string
		n := 0
		for _, rt := range returnsOf(fn) {
			if ea.isFailureReturn(fn, rt) || len(rt.Results) == 0 {
				continue
			}
			n++
			ret := canon(rt.Results[0])
			for _, hb := range fn.Blocks {
				iff, ok := terminator(hb).(*ssa.If)
				if !ok {
					continue
				}
				x, y, op, ok := relCond(iff.Cond)
				if !ok {
					continue
				}
				// offset < seg.GetOffset()   or   seg.GetOffset() > offset
				var seg ssa.Value
				below := -1
				switch {
				case canon(x) == ssa.Value(offParam) && baseOf(y) != nil:
					seg = baseOf(y)
					if op == token.LSS {
						below = 0
					} else if op == token.GEQ {
						below = 1
					}
				case canon(y) == ssa.Value(offParam) && baseOf(x) != nil:
					seg = baseOf(x)
					if op == token.GTR {
						below = 0
					} else if op == token.LEQ {
						below = 1
					}
				}
				if seg == nil || below < 0 || seg != ret {
					continue
				}
				if edgeDominates(hb, below, rt.Block()) {
					bad = append(bad, p.at(rt)+": the segment is the answer on the edge where the offset is below its base offset")
				}
			}
		}
		if len(bad) > 0 {
			ob.Status, ob.Msg, ob.Path = Violated, "Get is sent to a segment that starts after the requested offset: an assigned-but-trimmed offset is then classified by that segment's index, and an empty one says 'not assigned yet' instead of 'not found'", bad
		} else {
			ob.Status, ob.Msg = Discharged, fmt.Sprintf("%d success return(s), none on an edge where the offset is below the returned segment's base", n)
		}
		obs = append(obs, ob)
	}
	return obs
}

// R20f FILES-UNDER-A-LOG-LOCK (C08): a method of the open log touches segment files only while it
// holds one of the log's locks (reader list, writer, delete): a call that lists or stats the directory
// with none of them held races with every delete and roll-over.
func (p *Prog) filesUnderALogLock() []Ob {
	var obs []Ob
	r := p.R
	ls := p.LocksetCached()
	touchesFiles := func(g *ssa.Function) bool {
		return p.reaches(g, func(h *ssa.Function) bool {
			switch fullName(h) {
			case "os.Stat", "os.Open", "os.OpenFile", "os.ReadDir", "os.Remove", "os.Rename", "os.Lstat", "os.Truncate":
				return true
			}
			return false
		})
	}
	names := sortedKeys(r.ImplMethods)
	for _, q := range names {
		m := r.ImplMethods[q]
		if m == nil || m.Blocks == nil {
			continue
		}
		var bad []string
		sites := 0
		for _, b := range m.Blocks {
			for _, ins := range b.Instrs {
				c, ok := ins.(*ssa.Call)
				if !ok {
					continue
				}
				touches := false
				for _, g := range p.callees(c) {
					if inModule(g) && g.Blocks != nil && touchesFiles(g) {
						touches = true
					}
				}
				if !touches {
					continue
				}
				// calls on the log itself are judged in the callee
				if g := c.Common().StaticCallee(); g != nil && recvNamed(g) == r.Impl {
					continue
				}
				sites++
				held := false
				for mu := range ls.at[c] {
					if mu == r.ReadersMu || mu == r.WriterMu || mu == r.DeleteMu {
						held = true
					}
				}
				if !held {
					bad = append(bad, fmt.Sprintf("%s: %s touches segment files with none of the log's locks held", p.at(c), calleeName(c.Common())))
				}
			}
		}
		if sites == 0 {
			continue
		}
		ob := Ob{Rule: "R20", Inst: "f:files-under-a-log-lock:Log." + q, Props: []string{"C08"}, Pos: p.posStr(m.Pos()), Func: funcLabel(m), Nontrivial: true}
		if len(bad) > 0 {
			ob.Status, ob.Msg, ob.Path = Violated, "the method reads the directory or segment files while a delete or roll-over may be replacing them: it fails with 'no such file' or counts a segment twice merely because another call is in progress", bad
		} else {
			ob.Status, ob.Msg = Discharged, fmt.Sprintf("%d call site(s) that touch segment files, each with a lock of the log held", sites)
		}
		obs = append(obs, ob)
	}
	return obs
}

// ---------------------------------------------------------------------------
// R18e NOTHING-DELETED-MEANS-NOTHING-TO-DELETE (C12, C15): (*log).delete answers "nothing deleted"
// (success, no messages) only where the rewrite found nothing to delete, where the segment is gone, or
// on the lost-race edge recorded as K1; never because applying the rewrite "is not worth it".
func (p *Prog) nothingDeletedMeansNothingToDelete() []Ob {
	var obs []Ob
	r := p.R
	ea := p.ErrAtomsCached()
	var delField *types.Var
	rs := structOf(r.RewriteSegment)
	for i := 0; i < rs.NumFields(); i++ {
		if sl, ok := rs.Field(i).Type().Underlying().(*types.Slice); ok && namedOf(sl.Elem()) == r.Message {
			delField = rs.Field(i)
		}
	}
	for _, fn := range p.Funcs {
		if !srcFunc(fn) || recvNamed(fn) != r.Impl {
			continue
		}
		// the function that asks for the rewrite
		asks := false
		for _, b := range fn.Blocks {
			for _, ins := range b.Instrs {
				if c, ok := ins.(*ssa.Call); ok {
					if g := c.Common().StaticCallee(); g != nil && g.Signature.Results().Len() == 2 && namedOf(derefPtr(g.Signature.Results().At(0).Type())) == r.RewriteSegment && recvNamed(g) == r.Segment {
						asks = true
					}
				}
			}
		}
		if !asks || delField == nil {
			continue
		}
		ob := Ob{Rule: "R18", Inst: "e:nothing-deleted:" + funcLabel(fn), Props: []string{"C12", "C15"}, Pos: p.posStr(fn.Pos()), Func: funcLabel(fn), Nontrivial: true}
		allowedEdge := func(b *ssa.BasicBlock) bool {
			for _, hb := range fn.Blocks {
				iff, ok := terminator(hb).(*ssa.If)
				if !ok {
					continue
				}
				// len(rs.DeletedMessages) == 0
				if lv, e, ok := lenZeroEdge(iff.Cond); ok {
					if f, _ := loadedField(canon(lv)); f == delField && edgeDominates(hb, e, b) {
						return true
					}
				}
				if x, y, op, ok := relCond(iff.Cond); ok {
					// a reader looked up under the lock turned out nil: the segment is gone
					for _, pair := range [][2]ssa.Value{{x, y}, {y, x}} {
						if isNilConst(pair[1]) && namedOf(derefPtr(pair[0].Type())) == r.SegReader {
							e := 0
							if op == token.NEQ {
								e = 1
							}
							if edgeDominates(hb, e, b) {
								return true
							}
						}
					}
				}
				// a module sentinel of the root package (the lost race, judged by R18d)
				for _, t := range sentinelTests(iff.Cond) {
					if strings.HasPrefix(t.atom, "G:"+pkgRoot+".") && edgeDominates(hb, t.edge, b) {
						return true
					}
				}
			}
			return false
		}
		var bad []string
		n := 0
		for _, rt := range returnsOf(fn) {
			if ea.isFailureReturn(fn, rt) || len(rt.Results) == 0 || !isNilConst(returnOperand(rt, 0)) {
				continue
			}
			// `return nil, 0, rs.Remove()`: success only if the clean-up succeeds; still "nothing deleted"
			n++
			if !allowedEdge(rt.Block()) {
				bad = append(bad, p.at(rt)+": 'nothing deleted' is answered although the rewrite may have found requested, live messages")
			}
		}
		if len(bad) > 0 {
			ob.Status, ob.Msg, ob.Path = Violated, "a delete that found messages to delete can drop its rewrite and report success with nothing deleted: DeleteMulti and every trim helper take an empty round for 'done'", bad
		} else {
			ob.Status, ob.Msg = Discharged, fmt.Sprintf("%d 'nothing deleted' return(s), each where the rewrite found nothing, the segment is gone, or the recorded lost-race edge", n)
		}
		obs = append(obs, ob)
	}
	return obs
}

// ---------------------------------------------------------------------------
// R8 K2b OWN-BACKING-ARRAY (C09): a list that is grown with append (the positions of one key hash)
// starts as a slice with a backing array of its own. A two-index sub-slice of an array shared with
// its neighbours has spare capacity that *is* the neighbours: the next append overwrites them.
func (p *Prog) ownBackingArray() []Ob {
	var obs []Ob
	// fields that are grown with append somewhere in the module
	grown := map[*types.Var]bool{}
	for _, fn := range p.Funcs {
		for _, b := range fn.Blocks {
			for _, ins := range b.Instrs {
				c, ok := ins.(*ssa.Call)
				if !ok || !isBuiltinCall(c.Common(), "append") || len(c.Call.Args) == 0 {
					continue
				}
				if f, _ := loadedField(canon(c.Call.Args[0])); f != nil {
					grown[f] = true
				}
			}
		}
	}
	n := 0
	for _, fn := range p.Funcs {
		if !srcFunc(fn) || funcPkgPath(fn) != pkgIndex {
			continue
		}
		k := 0
		for _, b := range fn.Blocks {
			for _, ins := range b.Instrs {
				st, ok := ins.(*ssa.Store)
				if !ok {
					continue
				}
				fa, ok := st.Addr.(*ssa.FieldAddr)
				if !ok {
					continue
				}
				f := fieldVarOfAddr(fa)
				if f == nil || !grown[f] {
					continue
				}
				if _, isSlice := f.Type().Underlying().(*types.Slice); !isSlice {
					continue
				}
				// the append result stored back is the growth itself; an append onto something
				// else is judged by what it appends onto
				val := st.Val
				growth := false
				for d := 0; d < 4; d++ {
					c, ok := val.(*ssa.Call)
					if !ok || !isBuiltinCall(c.Common(), "append") || len(c.Call.Args) == 0 {
						break
					}
					if g, _ := loadedField(canon(c.Call.Args[0])); g == f {
						growth = true
						break
					}
					val = c.Call.Args[0]
				}
				if growth {
					continue
				}
				n++
				k++
				ob := Ob{Rule: "R8", Inst: fmt.Sprintf("K2b:own-backing-array:%s#%d", funcLabel(fn), k), Props: []string{"C09"}, Pos: p.at(st), Func: funcLabel(fn), Nontrivial: true}
				shared := ""
				if sl, ok := val.(*ssa.Slice); ok && sl.Max == nil {
					// make([]T, n, constant) and a slice literal are an array of their own, sliced once
					al, isAlloc := sl.X.(*ssa.Alloc)
					own := isAlloc && (al.Comment == "makeslice" || al.Comment == "slicelit")
					if !own && (!isAlloc || sl.Low != nil || sl.High != nil) {
						shared = "a two-index sub-slice (" + sl.String() + ")"
					}
				}
				if shared != "" {
					ob.Status, ob.Msg = Violated, "a list that is later grown with append starts as "+shared+" of an array shared with other lists: appending to it overwrites its neighbours' entries (no capacity limit)"
				} else {
					ob.Status, ob.Msg = Discharged, "the list starts with a backing array of its own"
				}
				obs = append(obs, ob)
			}
		}
	}
	if n == 0 {
		ob := Ob{Rule: "R8", Inst: "K2b:own-backing-array", Props: []string{"C09"}, Pos: "-", Status: Undecided, Msg: "no appended-to list found in the index package"}
		for f := range grown {
			if f.Pkg() != nil && f.Pkg().Path() == pkgIndex {
				ob.Status, ob.Msg = Discharged, "the appended-to lists of the index package are never initialised from another slice (they start empty)"
			}
		}
		obs = append(obs, ob)
	}
	return obs
}

// R36e CURSOR-SIBLINGS (C09, C03): Consume and ConsumeByKey take the same kind of cursor; they pick
// their start segment with the same function.
func (p *Prog) cursorSiblings() []Ob {
	r := p.R
	var pickD func(m *ssa.Function, depth int) *ssa.Function
	pickD = func(m *ssa.Function, depth int) *ssa.Function {
		if m == nil {
			return nil
		}
		for _, b := range m.Blocks {
			for _, ins := range b.Instrs {
				c, ok := ins.(*ssa.Call)
				if !ok || len(c.Call.Args) == 0 {
					continue
				}
				g := c.Common().StaticCallee()
				if g == nil {
					continue
				}
				if f, _ := loadedField(canon(c.Call.Args[0])); f == r.ImplReaders {
					if o := g.Origin(); o != nil {
						g = o
					}
					return g
				}
				// a small method of the log that does the picking for both
				if depth < 2 && recvNamed(g) == r.Impl && g.Blocks != nil {
					if h := pickD(g, depth+1); h != nil {
						return h
					}
				}
			}
		}
		return nil
	}
	pick := func(m *ssa.Function) *ssa.Function { return pickD(m, 0) }
	a, b := pick(r.ImplMethods["Consume"]), pick(r.ImplMethods["ConsumeByKey"])
	ob := Ob{Rule: "R36", Inst: "cursor-siblings", Props: []string{"C09", "C03"}, Pos: "-", Nontrivial: true}
	if m := r.ImplMethods["ConsumeByKey"]; m != nil {
		ob.Pos, ob.Func = p.posStr(m.Pos()), funcLabel(m)
	}
	switch {
	case a == nil || b == nil:
		ob.Status, ob.Msg = Undecided, "Consume or ConsumeByKey does not pick its start segment from the reader list with a function call"
	case a != b:
		ob.Status, ob.Msg = Violated, fmt.Sprintf("Consume picks its start segment with %s, ConsumeByKey with %s: a cursor both accept (for instance one that fell behind the oldest retained offset) is answered by one and refused by the other", funcLabel(a), funcLabel(b))
	default:
		ob.Status, ob.Msg = Discharged, "Consume and ConsumeByKey pick their start segment with "+funcLabel(a)
	}
	return []Ob{ob}
}

// R19g SIZE-IN-THE-CONFIGURED-VERSION (C15, C13): Log.Size prices a message in the version the log
// writes new segments in (an option), not in a version named by a constant.
func (p *Prog) sizeInConfiguredVersion() []Ob {
	m := p.R.ImplMethods["Size"]
	ob := Ob{Rule: "R19", Inst: "g:size-in-configured-version", Props: []string{"C15", "C13"}, Pos: "-", Func: funcLabel(m), Nontrivial: true}
	if m == nil || m.Blocks == nil {
		ob.Status, ob.Msg = Undecided, "Log.Size not found"
		return []Ob{ob}
	}
	ob.Pos = p.posStr(m.Pos())
	n := 0
	var bad []string
	for _, b := range m.Blocks {
		for _, ins := range b.Instrs {
			c, ok := ins.(*ssa.Call)
			if !ok || calleeName(c.Common()) != pkgMessage+".Size" || len(c.Call.Args) < 2 {
				continue
			}
			n++
			if name, _ := p.optionField(c.Call.Args[1]); name != "" {
				continue
			}
			// not a direct option read: it may have gone through locals; what must not be at its
			// origin is a version named by the code (a package-level version value or a literal)
			seen := map[ssa.Value]bool{}
			var origin func(v ssa.Value, d int)
			origin = func(v ssa.Value, d int) {
				if v == nil || seen[v] || d > 12 {
					return
				}
				seen[v] = true
				switch x := v.(type) {
				case *ssa.Phi:
					for _, e := range x.Edges {
						origin(e, d+1)
					}
				case *ssa.Field:
					origin(x.X, d+1)
				case *ssa.Extract:
					bad = append(bad, fmt.Sprintf("%s: the version is the result of a call, not an option of the log", p.at(c)))
				case *ssa.Call:
					bad = append(bad, fmt.Sprintf("%s: the version is the result of a call, not an option of the log", p.at(c)))
				case *ssa.Const, *ssa.MakeInterface:
					bad = append(bad, fmt.Sprintf("%s: the version is a literal, not an option of the log", p.at(c)))
				case *ssa.UnOp:
					if x.Op != token.MUL {
						origin(x.X, d+1)
						return
					}
					addr := x.X
					for {
						if fa, ok := addr.(*ssa.FieldAddr); ok {
							addr = fa.X
							continue
						}
						break
					}
					switch a := addr.(type) {
					case *ssa.Global:
						bad = append(bad, fmt.Sprintf("%s: the version is the package-level value %s, not an option of the log", p.at(c), a.Name()))
					case *ssa.Alloc:
						for _, st := range allocStoresDeep(a) {
							origin(st.Val, d+1)
						}
					}
				}
			}
			origin(c.Call.Args[1], 0)
		}
	}
	switch {
	case n == 0:
		ob.Status, ob.Msg = Undecided, "Log.Size does not call message.Size"
	case len(bad) > 0:
		ob.Status, ob.Msg, ob.Path = Violated, "Log.Size prices messages in a fixed version: on a log that writes another version the size finder's estimate of what each removed message frees is wrong", bad
	default:
		ob.Status, ob.Msg = Discharged, "the version Log.Size prices in is read from the log's options"
	}
	return []Ob{ob}
}

// ---------------------------------------------------------------------------
// R35b / R20g / R36f (C10, C09): what a query over the segments may base a decision on.
//
//	R35b  no verdict before the segments are asked: a return that the loop over the segments does not
//	      dominate is the rejection "no such index" (or another failure of a guard), never an answer
//	      computed from state kept elsewhere;
//	R20g  a method of the log looks at a segment reader only through its methods (its fields are
//	      lazily loaded caches, meaningful only inside the reader under its locks) - except the
//	      immutable segment identity;
//	R36f  positions handed out by an index object are opaque: they are not compared with non-negative
//	      constants (the position of "the first record" differs per format).
func (p *Prog) queryDecisionBasis() []Ob {
	var obs []Ob
	r := p.R
	ea := p.ErrAtomsCached()
	// R35b
	for _, q := range []string{"GetByKey", "GetByTime"} {
		m := r.ImplMethods[q]
		if m == nil || m.Blocks == nil {
			continue
		}
		var header *ssa.BasicBlock
		for _, b := range m.Blocks {
			for _, ins := range b.Instrs {
				if c, ok := ins.(*ssa.Call); ok {
					if g := c.Common().StaticCallee(); g != nil && recvNamed(g) == r.SegReader {
						if h, loop := innermostLoop(b); loop != nil && header == nil {
							header = h
						}
					}
				}
			}
		}
		ob := Ob{Rule: "R35", Inst: "b:no-verdict-before-the-scan:Log." + q, Props: methodPropsAll[q], Pos: p.posStr(m.Pos()), Func: funcLabel(m), Nontrivial: true}
		if header == nil {
			ob.Status, ob.Msg = Undecided, "no loop over the segments found"
			obs = append(obs, ob)
			continue
		}
		var bad []string
		for _, rt := range returnsOf(m) {
			if header.Dominates(rt.Block()) {
				continue
			}
			okR := false
			if ea.isFailureReturn(m, rt) {
				okR = true
				for a := range ea.atomsAt(returnOperand(rt, errResultIndex(m)), rt.Block()) {
					if a == "nil" {
						continue
					}
					if !ea.matchesIs(a, "G:"+pkgRoot+".ErrNoIndex") {
						okR = false
					}
				}
			}
			if !okR {
				bad = append(bad, p.at(rt)+": an answer other than 'no such index' is returned without any segment having been asked")
			}
		}
		if len(bad) > 0 {
			ob.Status, ob.Msg, ob.Path = Violated, "the query answers from state kept outside the segments (which a reopen does not restore, or which lags behind them)", bad
		} else {
			ob.Status, ob.Msg = Discharged, "apart from the 'no such index' rejection every return lies behind the loop over the segments"
		}
		obs = append(obs, ob)
	}
	// R20g
	{
		var bad []string
		n := 0
		for _, q := range sortedKeys(r.ImplMethods) {
			m := r.ImplMethods[q]
			if m == nil || m.Blocks == nil {
				continue
			}
			for _, b := range m.Blocks {
				for _, ins := range b.Instrs {
					fa, ok := ins.(*ssa.FieldAddr)
					if !ok || namedOf(derefPtr(fa.X.Type())) != r.SegReader {
						continue
					}
					n++
					if f := fieldVarOfAddr(fa); f != r.SRSegment {
						bad = append(bad, fmt.Sprintf("%s: Log.%s reads the field %s of a segment reader directly", p.at(fa), q, f.Name()))
					}
				}
			}
		}
		ob := Ob{Rule: "R20", Inst: "g:readers-through-methods", Props: []string{"C10", "C09", "C03", "C08"}, Pos: "-", Nontrivial: true}
		if len(bad) > 0 {
			ob.Pos = strings.SplitN(bad[0], ": ", 2)[0]
			ob.Status, ob.Msg, ob.Path = Violated, "a method of the log bases a decision on a field of a segment reader: such fields are caches that are unset until the segment was loaded by this handle, so the answer depends on what was asked before", uniqSorted(bad)
		} else {
			ob.Status, ob.Msg = Discharged, fmt.Sprintf("the methods of the log touch segment readers only through their methods (%d uses of the immutable segment identity aside)", n)
		}
		obs = append(obs, ob)
	}
	// R36f
	{
		var bad []string
		n := 0
		isPosition := func(v ssa.Value) bool {
			ex, ok := canon(v).(*ssa.Extract)
			if !ok {
				return false
			}
			c, ok := ex.Tuple.(*ssa.Call)
			if !ok || !c.Common().IsInvoke() {
				return false
			}
			switch c.Common().Method.Name() {
			case "Time", "Get", "Consume":
				f, _ := loadedField(canon(c.Common().Value))
				_ = f
				return ex.Index == 0 || (c.Common().Method.Name() == "Consume" && ex.Index <= 1)
			}
			return false
		}
		for _, fn := range p.Funcs {
			if !srcFunc(fn) || (recvNamed(fn) != r.SegReader && recvNamed(fn) != r.Impl) {
				continue
			}
			for _, b := range fn.Blocks {
				for _, ins := range b.Instrs {
					bo, ok := ins.(*ssa.BinOp)
					if !ok {
						continue
					}
					switch bo.Op {
					case token.EQL, token.NEQ, token.LSS, token.GTR, token.LEQ, token.GEQ:
					default:
						continue
					}
					for _, pair := range [][2]ssa.Value{{bo.X, bo.Y}, {bo.Y, bo.X}} {
						if !isPosition(pair[0]) {
							continue
						}
						n++
						if k, isK := constInt(pair[1]); isK && k >= 0 {
							bad = append(bad, fmt.Sprintf("%s: a position is compared with the constant %d in %s", p.at(bo), k, funcLabel(fn)))
						}
					}
				}
			}
		}
		ob := Ob{Rule: "R36", Inst: "f:positions-are-opaque", Props: []string{"C10", "C03", "C04"}, Pos: "-", Nontrivial: true}
		if len(bad) > 0 {
			ob.Pos = strings.SplitN(bad[0], ": ", 2)[0]
			ob.Status, ob.Msg, ob.Path = Violated, "a byte position handed out by an index is given a meaning of its own ('the first record starts at N'): the formats differ in where the first record starts", uniqSorted(bad)
		} else {
			ob.Status, ob.Msg = Discharged, fmt.Sprintf("%d comparison(s) of positions, none with a non-negative constant", n)
		}
		obs = append(obs, ob)
	}
	return obs
}

// ---------------------------------------------------------------------------
// Round-9 additions.

// publishedPositionIsWritten (R11 L4b, C03/C11): the position indexed for a published record is what
// the writer returned for that very record, not a position the publisher computed.
func (p *Prog) publishedPositionIsWritten() []Ob {
	var obs []Ob
	r := p.R
	for _, fn := range p.Funcs {
		if !srcFunc(fn) || recvNamed(fn) != r.HeadWriter {
			continue
		}
		for _, b := range fn.Blocks {
			for _, ins := range b.Instrs {
				it, ok := ins.(*ssa.Call)
				if !ok || calleeName(it.Common()) != "("+pkgIndex+".Params).NewItem" || len(it.Call.Args) != 4 {
					continue
				}
				_, loop := innermostLoop(b)
				if loop == nil {
					continue
				}
				ob := Ob{Rule: "R11", Inst: "L4b:" + funcLabel(fn) + ":published-position", Props: []string{"C03", "C11", "C01"}, Pos: p.at(it), Func: funcLabel(fn), Nontrivial: true}
				pos := canon(it.Call.Args[2])
				okP := false
				if ex, ok := pos.(*ssa.Extract); ok && ex.Index == 0 {
					if c, ok := ex.Tuple.(*ssa.Call); ok && calleeName(c.Common()) == "(*"+pkgMessage+".Writer).Write" && loop[c.Block()] {
						okP = true
					}
				}
				if okP {
					ob.Status, ob.Msg = Discharged, "the indexed position is the one message.Writer.Write returned in the same iteration"
				} else {
					ob.Status, ob.Msg = Violated, "the position put into the index is computed by the publisher ("+pos.String()+") instead of being what the writer returned: it is right only while the head is stored in the format the computation assumes"
				}
				obs = append(obs, ob)
			}
		}
	}
	return obs
}

// recoverWritesKnownVersion (R11 L10b, C07): Recover rewrites the index only in a version it could
// read from the old file: the write is dominated by version != VUnknown.
func (p *Prog) recoverWritesKnownVersion() []Ob {
	var obs []Ob
	for _, fn := range p.Funcs {
		if !srcFunc(fn) || recvNamed(fn) != p.R.Segment {
			continue
		}
		var probes []*ssa.Call
		for _, b := range fn.Blocks {
			for _, ins := range b.Instrs {
				if c, ok := ins.(*ssa.Call); ok && calleeName(c.Common()) == pkgIndex+".GetVersion" {
					probes = append(probes, c)
				}
			}
		}
		if len(probes) == 0 {
			continue
		}
		for _, b := range fn.Blocks {
			for _, ins := range b.Instrs {
				w, ok := ins.(*ssa.Call)
				if !ok || calleeName(w.Common()) != pkgIndex+".Write" || len(w.Call.Args) < 3 {
					continue
				}
				ob := Ob{Rule: "R11", Inst: "L10b:" + funcLabel(fn) + ":known-version", Props: []string{"C07", "C05"}, Pos: p.at(w), Func: funcLabel(fn), Nontrivial: true}
				if fn.Name() == "Migrate" {
					ob.Props = []string{"C07", "C05", "C17"}
				}
				guarded := false
				for _, hb := range fn.Blocks {
					iff, ok := terminator(hb).(*ssa.If)
					if !ok {
						continue
					}
					bo, ok := iff.Cond.(*ssa.BinOp)
					if !ok || (bo.Op != token.NEQ && bo.Op != token.EQL) {
						continue
					}
					isUnknown := func(v ssa.Value) bool {
						u, ok := v.(*ssa.UnOp)
						if !ok {
							return false
						}
						g, ok := u.X.(*ssa.Global)
						return ok && strings.Contains(g.Name(), "Unknown")
					}
					if !isUnknown(bo.X) && !isUnknown(bo.Y) {
						continue
					}
					e := 0
					if bo.Op == token.EQL {
						e = 1
					}
					if edgeDominates(hb, e, b) {
						guarded = true
					}
				}
				if guarded {
					ob.Status, ob.Msg = Discharged, "the index is rewritten only where the probed version is not the unknown one"
				} else {
					ob.Status, ob.Msg = Violated, "the index is rewritten in the version probed from the damaged file without a test that the probe succeeded: with a damaged header the write fails and recovery aborts on an intact log"
				}
				obs = append(obs, ob)
			}
		}
	}
	return obs
}

// migrateBeforeOpen (R2 O12, C17/C01): in Open no segment is migrated after a writer or reader was
// built over its files (they would keep appending to the unlinked pre-migration files).
func (p *Prog) migrateBeforeOpen() []Ob {
	r := p.R
	open := r.Open
	mig := p.methodOf(r.Segment, "Migrate")
	ob := Ob{Rule: "R2", Inst: "O12:Open:migrate-before-open", Props: []string{"C17", "C01"}, Pos: "-", Func: funcLabel(open), Nontrivial: true}
	if open == nil || mig == nil {
		ob.Status, ob.Msg = Undecided, "Open or Segment.Migrate not found"
		return []Ob{ob}
	}
	var migs, ctors []*ssa.Call
	for _, b := range open.Blocks {
		for _, ins := range b.Instrs {
			c, ok := ins.(*ssa.Call)
			if !ok {
				continue
			}
			g := c.Common().StaticCallee()
			if p.callLeadsTo(c, mig) {
				migs = append(migs, c)
			}
			if g != nil && inModule(g) && g.Signature.Results().Len() > 0 {
				if pt, ok := g.Signature.Results().At(0).Type().(*types.Pointer); ok && (namedOf(pt.Elem()) == r.HeadWriter || namedOf(pt.Elem()) == r.SegReader) {
					ctors = append(ctors, c)
				}
			}
		}
	}
	if len(migs) == 0 {
		ob.Status, ob.Msg = Undecided, "Open does not call Segment.Migrate"
		return []Ob{ob}
	}
	ob.Pos = p.at(migs[0])
	var bad []string
	for _, m := range migs {
		for _, c := range ctors {
			if canReach(c, m) {
				bad = append(bad, fmt.Sprintf("%s: %s runs before the migration at %s", p.at(c), calleeName(c.Common()), p.at(m)))
			}
		}
	}
	if len(bad) > 0 {
		ob.Status, ob.Msg, ob.Path = Violated, "a segment can be migrated after a writer or reader was opened over its files: the migration replaces the files by rename, and the open handles go on appending to the unlinked old ones", uniqSorted(bad)
	} else {
		ob.Status, ob.Msg = Discharged, "every migration in Open precedes the construction of the writer and the readers"
	}
	return []Ob{ob}
}

// migrationReachableWithRecoverOrCheck (R19d2, C17): EagerVersionMigrate takes effect whatever Recover
// and Check are: under every combination the call of Segment.Migrate stays reachable in Open.
func (p *Prog) migrationReachableWithRecoverOrCheck() []Ob {
	open := p.R.Open
	mig := p.methodOf(p.R.Segment, "Migrate")
	ob := Ob{Rule: "R19", Inst: "d2:eager-migration-with-recover-or-check", Props: []string{"C17"}, Pos: "-", Func: funcLabel(open), Nontrivial: true}
	if open == nil || mig == nil {
		ob.Status, ob.Msg = Undecided, "Open or Segment.Migrate not found"
		return []Ob{ob}
	}
	ob.Pos = p.posStr(open.Pos())
	var bad []string
	for _, rec := range []bool{false, true} {
		for _, chk := range []bool{false, true} {
			assume := Assume{"Recover": rec, "Check": chk, "Version.EagerVersionMigrate": true, "Readonly": false}
			reach := reachableBlocks(open, func(b *ssa.BasicBlock) []*ssa.BasicBlock { return p.prunedSuccs(b, assume) })
			found := false
			for _, b := range open.Blocks {
				if !reach[b] {
					continue
				}
				for _, ins := range b.Instrs {
					if c, ok := ins.(*ssa.Call); ok && p.callLeadsTo(c, mig) {
						found = true
					}
				}
			}
			if !found {
				bad = append(bad, fmt.Sprintf("with Recover=%v Check=%v the eager migration is unreachable", rec, chk))
			}
		}
	}
	if len(bad) > 0 {
		ob.Status, ob.Msg, ob.Path = Violated, "EagerVersionMigrate is silently ignored for some settings of Recover / Check", bad
	} else {
		ob.Status, ob.Msg = Discharged, "Segment.Migrate is reachable in Open under all four settings of Recover and Check"
	}
	return []Ob{ob}
}

// keepVersionCoversEveryFormat (R19b2, C17): with KeepRewriteVersion the detected version of the
// segment is compared with every record format there is, so that each is kept.
func (p *Prog) keepVersionCoversEveryFormat() []Ob {
	var obs []Ob
	r := p.R
	formats := map[string]bool{}
	for _, enc := range r.RecEncoders {
		if v := p.codecVersion(enc); v != "" {
			formats[v] = true
		}
	}
	for _, fn := range p.Funcs {
		if !srcFunc(fn) || recvNamed(fn) != r.Impl {
			continue
		}
		compared := map[string]bool{}
		n := 0
		for _, b := range fn.Blocks {
			iff, ok := terminator(b).(*ssa.If)
			if !ok {
				continue
			}
			bo, ok := iff.Cond.(*ssa.BinOp)
			if !ok || bo.Op != token.EQL {
				continue
			}
			for _, pair := range [][2]ssa.Value{{bo.X, bo.Y}, {bo.Y, bo.X}} {
				u, ok := pair[1].(*ssa.UnOp)
				if !ok {
					continue
				}
				g, ok := u.X.(*ssa.Global)
				if !ok || g.Pkg == nil || g.Pkg.Pkg.Path() != pkgMessage || !formats[g.Name()] {
					continue
				}
				// the compared value is a detected version (a phi / call result of Version())
				if _, isGlobalLoad := pair[0].(*ssa.UnOp); isGlobalLoad {
					continue
				}
				compared[g.Name()] = true
				n++
			}
		}
		if n == 0 {
			continue
		}
		ob := Ob{Rule: "R19", Inst: "b2:keep-version-covers-every-format:" + funcLabel(fn), Props: []string{"C17"}, Pos: p.posStr(fn.Pos()), Func: funcLabel(fn), Nontrivial: true}
		var missing []string
		for _, f := range sortedKeys(formats) {
			if !compared[f] {
				missing = append(missing, f)
			}
		}
		if len(missing) > 0 {
			ob.Status, ob.Msg = Violated, "the detected version of a segment is not compared with "+strings.Join(missing, ", ")+": a segment in that format is rewritten in the configured version although KeepRewriteVersion is set"
		} else {
			ob.Status, ob.Msg = Discharged, "the detected version is compared with every record format ("+strings.Join(sortedKeys(formats), ", ")+")"
		}
		obs = append(obs, ob)
	}
	return obs
}

// staleTargetIndexRemoved (R25e, C20): where the source segment has no index file, the backup removes
// an index an earlier backup left in the target (it describes an older, shorter log).
func (p *Prog) staleTargetIndexRemoved() []Ob {
	var obs []Ob
	cp := p.copyFileFunc()
	if cp == nil {
		return nil
	}
	ea := p.ErrAtomsCached()
	for _, fn := range p.Funcs {
		if !srcFunc(fn) || recvNamed(fn) != p.R.Segment {
			continue
		}
		for _, b := range fn.Blocks {
			for _, ins := range b.Instrs {
				c, ok := ins.(*ssa.Call)
				if !ok || c.Common().StaticCallee() != cp || len(c.Call.Args) != 2 {
					continue
				}
				pc := p.classifyPath(c.Call.Args[0])
				if !(pc.kind == "seg" && pc.fld == "Index") {
					continue
				}
				ob := Ob{Rule: "R25", Inst: "e:stale-target-index-removed:" + funcLabel(fn), Props: []string{"C20"}, Pos: p.at(c), Func: funcLabel(fn), Nontrivial: true}
				dst := canon(c.Call.Args[1])
				var removes []*ssa.Call
				for _, b2 := range fn.Blocks {
					for _, i2 := range b2.Instrs {
						rc, ok := i2.(*ssa.Call)
						if !ok {
							continue
						}
						passes := false
						for _, a := range rc.Call.Args {
							if canon(a) == dst {
								passes = true
							}
						}
						isRm := func(g *ssa.Function) bool { n := fullName(g); return n == "os.Remove" || n == "os.RemoveAll" }
						// os.Remove itself, or a small helper of the module that is handed the path and removes
						if g := rc.Common().StaticCallee(); passes && g != nil && g != cp && (isRm(g) || (inModule(g) && p.reaches(g, isRm))) {
							removes = append(removes, rc)
						}
					}
				}
				var bad []string
				var errV ssa.Value = c
				isRemove := map[ssa.Instruction]bool{}
				for _, rc := range removes {
					isRemove[rc] = true
				}
				tested := false
				for _, hb := range fn.Blocks {
					iff, ok := terminator(hb).(*ssa.If)
					if !ok {
						continue
					}
					t, ok := classifyErrCond(iff.Cond, errV)
					if !ok || t.kind != "is" || !isNotExistTarget(t.target) {
						continue
					}
					tested = true
					e := 1
					if t.trueMeans {
						e = 0
					}
					seen := map[*ssa.BasicBlock]bool{}
					var walk func(x *ssa.BasicBlock)
					walk = func(x *ssa.BasicBlock) {
						if seen[x] {
							return
						}
						seen[x] = true
						for _, xi := range x.Instrs {
							if isRemove[xi] {
								return
							}
						}
						if rt, ok := terminator(x).(*ssa.Return); ok {
							if !ea.isFailureReturn(fn, rt) {
								bad = append(bad, p.at(rt)+": success where the source index is missing, without removing the index file an earlier backup may have left in the target")
							}
							return
						}
						for _, sx := range x.Succs {
							walk(sx)
						}
					}
					walk(hb.Succs[e])
				}
				if !tested {
					continue // whether a missing index is tolerated at all is R16's question
				}
				if len(bad) > 0 {
					ob.Status, ob.Msg, ob.Path = Violated, "a repeated backup of a segment whose index file is gone leaves the older index in the target next to the newer log", bad
				} else {
					ob.Status, ob.Msg = Discharged, "where the source index is missing the target's index file is removed before success"
				}
				obs = append(obs, ob)
			}
		}
	}
	return obs
}

// ---------------------------------------------------------------------------
// R20h QUERIES-KEEP-NO-STATE (C03, C04, C09, C10): the query methods of the log do not write fields of
// the log object (plain or atomic): an answer never depends on which queries came before.
func (p *Prog) queriesKeepNoState() []Ob {
	r := p.R
	var bad []string
	n := 0
	// what Delete resets is state with a life cycle, not something a query keeps for itself
	resetByDelete := map[*types.Var]bool{}
	{
		seen := map[*ssa.Function]bool{}
		var walk func(f *ssa.Function)
		walk = func(f *ssa.Function) {
			if f == nil || seen[f] || f.Blocks == nil || recvNamed(f) != r.Impl {
				return
			}
			seen[f] = true
			for _, b := range f.Blocks {
				for _, ins := range b.Instrs {
					switch x := ins.(type) {
					case *ssa.Store:
						if fa, ok := x.Addr.(*ssa.FieldAddr); ok && namedOf(derefPtr(fa.X.Type())) == r.Impl {
							resetByDelete[fieldVarOfAddr(fa)] = true
						}
					case *ssa.Call:
						nm := calleeName(x.Common())
						if strings.HasPrefix(nm, "(*sync/atomic.") && !strings.HasSuffix(nm, ").Load") && len(x.Call.Args) > 0 {
							if fa, ok := x.Call.Args[0].(*ssa.FieldAddr); ok && namedOf(derefPtr(fa.X.Type())) == r.Impl {
								resetByDelete[fieldVarOfAddr(fa)] = true
							}
						}
						walk(x.Common().StaticCallee())
					}
				}
			}
		}
		walk(r.ImplMethods["Delete"])
	}
	for _, q := range []string{"Consume", "ConsumeByKey", "Get", "GetByKey", "OffsetByKey", "GetByTime", "OffsetByTime", "NextOffset", "Stat", "Size"} {
		m := r.ImplMethods[q]
		if m == nil || m.Blocks == nil {
			continue
		}
		n++
		for _, b := range m.Blocks {
			for _, ins := range b.Instrs {
				switch x := ins.(type) {
				case *ssa.Store:
					if fa, ok := x.Addr.(*ssa.FieldAddr); ok && namedOf(derefPtr(fa.X.Type())) == r.Impl && !resetByDelete[fieldVarOfAddr(fa)] && p.fieldsReadOnQueryPaths()[fieldVarOfAddr(fa)] {
						bad = append(bad, fmt.Sprintf("%s: Log.%s stores to the field %s of the log, which Delete never resets", p.at(x), q, fieldVarOfAddr(fa).Name()))
					}
				case *ssa.Call:
					nm := calleeName(x.Common())
					if strings.HasPrefix(nm, "(*sync/atomic.") && (strings.HasSuffix(nm, ").Store") || strings.HasSuffix(nm, ").Add") || strings.HasSuffix(nm, ").Swap") || strings.HasSuffix(nm, ").CompareAndSwap")) && len(x.Call.Args) > 0 {
						if fa, ok := x.Call.Args[0].(*ssa.FieldAddr); ok && namedOf(derefPtr(fa.X.Type())) == r.Impl && !resetByDelete[fieldVarOfAddr(fa)] && p.fieldsReadOnQueryPaths()[fieldVarOfAddr(fa)] {
							bad = append(bad, fmt.Sprintf("%s: Log.%s updates the atomic field %s of the log, which Delete never resets", p.at(x), q, fieldVarOfAddr(fa).Name()))
						}
					}
				}
			}
		}
	}
	ob := Ob{Rule: "R20", Inst: "h:queries-keep-no-state", Props: []string{"C03", "C04", "C09", "C10"}, Pos: "-", Nontrivial: true}
	switch {
	case n < 5:
		ob.Status, ob.Msg = Undecided, "the query methods of the log were not found"
	case len(bad) > 0:
		ob.Pos = strings.SplitN(bad[0], ": ", 2)[0]
		ob.Status, ob.Msg, ob.Path = Violated, "a query remembers something in the log object: its next answer depends on which cursor was served before (two consumers, a resumed consumer, a sweep in the other direction)", uniqSorted(bad)
	default:
		ob.Status, ob.Msg = Discharged, fmt.Sprintf("%d query methods, none writes a field of the log object (other than state that Delete resets)", n)
	}
	return []Ob{ob}
}

// R28e BATCH-ENDS-AT-THE-END (C03): the batch reader hands back a batch before it is full only where
// the file read reported the end of the data; it does not cut a batch after having decoded a record
// (a first record that does not fit a budget would make an empty batch, which callers take for a
// missing message).
func (p *Prog) batchEndsAtTheEnd() []Ob {
	var obs []Ob
	dec := map[*ssa.Function]bool{}
	for _, d := range p.R.RecDecoders {
		dec[d] = true
	}
	ea := p.ErrAtomsCached()
	for _, fn := range p.Funcs {
		if !srcFunc(fn) || recvNamed(fn) != p.R.MsgReader || fn.Parent() != nil {
			continue
		}
		var call *ssa.Call
		for _, b := range fn.Blocks {
			for _, ins := range b.Instrs {
				c, ok := ins.(*ssa.Call)
				if !ok || c.Common().StaticCallee() != nil {
					continue
				}
				for _, g := range p.callees(c) {
					if dec[g] || dec[unwrapSynthetic(g)] {
						if _, l := innermostLoop(b); l != nil {
							call = c
						}
					}
				}
			}
		}
		if call == nil {
			continue
		}
		ob := Ob{Rule: "R28", Inst: "e:batch-ends-at-the-end:" + funcLabel(fn), Props: []string{"C03"}, Pos: p.at(call), Func: funcLabel(fn), Nontrivial: true}
		var bad []string
		for _, rt := range returnsOf(fn) {
			if !call.Block().Dominates(rt.Block()) || ea.isFailureReturn(fn, rt) {
				continue
			}
			okR := false
			for _, hb := range fn.Blocks {
				iff, ok := terminator(hb).(*ssa.If)
				if !ok {
					continue
				}
				for _, t := range sentinelTests(iff.Cond) {
					if t.atom == "X:io.EOF" && edgeDominates(hb, t.edge, rt.Block()) {
						okR = true
					}
				}
			}
			if !okR {
				bad = append(bad, p.at(rt)+": a batch is returned from inside the loop where the read did not report the end of the data")
			}
		}
		if len(bad) > 0 {
			ob.Status, ob.Msg, ob.Path = Violated, "the batch reader can cut a batch short after decoding a record: with the first record of a batch this yields an empty batch although the message is there, and the cursor never gets past it", bad
		} else {
			ob.Status, ob.Msg = Discharged, "inside the loop a batch is returned only where the read reported io.EOF"
		}
		obs = append(obs, ob)
	}
	return obs
}

// callLeadsTo: the call's static callee is target, or a function of the module that reaches it
// (a small helper the caller hands the work to).
func (p *Prog) callLeadsTo(c *ssa.Call, target *ssa.Function) bool {
	g := c.Common().StaticCallee()
	if g == nil || target == nil {
		return false
	}
	if g == target {
		return true
	}
	if !inModule(g) || g.Blocks == nil {
		return false
	}
	return p.reaches(g, func(h *ssa.Function) bool { return h == target })
}

// allocStoresDeep: the stores into a local, whole or into one of its fields.
func allocStoresDeep(a *ssa.Alloc) []*ssa.Store {
	var out []*ssa.Store
	seen := map[ssa.Value]bool{}
	var walk func(v ssa.Value)
	walk = func(v ssa.Value) {
		if seen[v] {
			return
		}
		seen[v] = true
		for _, ref := range *v.Referrers() {
			switch x := ref.(type) {
			case *ssa.Store:
				if x.Addr == v {
					out = append(out, x)
				}
			case *ssa.FieldAddr:
				walk(x)
			}
		}
	}
	walk(a)
	return out
}

// ---------------------------------------------------------------------------
// R17h NEXT-OFFSET-FROM-THE-HEAD (C02): what Log.NextOffset and Log.Sync answer from the reader list
// is the next offset of the LAST reader (the head; when it is empty its name is the only record of
// the next offset), never that of another position of the list.
func (p *Prog) nextOffsetFromTheHead() []Ob {
	r := p.R
	gno := p.methodOf(r.SegReader, "GetNextOffset")
	var obs []Ob
	isLastIndex := func(v ssa.Value) bool {
		bo, ok := stripConv(v).(*ssa.BinOp)
		if !ok || bo.Op != token.SUB {
			return false
		}
		k, isK := constInt(bo.Y)
		c, isC := bo.X.(*ssa.Call)
		return isK && k == 1 && isC && isBuiltinCall(c.Common(), "len")
	}
	for _, name := range []string{"NextOffset", "Sync"} {
		m := r.ImplMethods[name]
		ob := Ob{Rule: "R17", Inst: "h:next-offset-from-the-head:Log." + name, Props: []string{"C02"}, Pos: "-", Nontrivial: true}
		if m == nil || m.Blocks == nil || gno == nil {
			ob.Status, ob.Msg = Undecided, "Log."+name+" or the segment reader's GetNextOffset not found"
			obs = append(obs, ob)
			continue
		}
		ob.Pos, ob.Func = p.posStr(m.Pos()), funcLabel(m)
		fns := []*ssa.Function{m}
		for i := 0; i < len(fns) && i < 6; i++ {
			for _, b := range fns[i].Blocks {
				for _, ins := range b.Instrs {
					if c, ok := ins.(*ssa.Call); ok {
						if g := c.Common().StaticCallee(); g != nil && recvNamed(g) == r.Impl && g.Blocks != nil && !containsFn(fns, g) {
							fns = append(fns, g)
						}
					}
				}
			}
		}
		n := 0
		var bad []string
		for _, fn := range fns {
			for _, b := range fn.Blocks {
				for _, ins := range b.Instrs {
					c, ok := ins.(*ssa.Call)
					if !ok || c.Common().StaticCallee() != gno || len(c.Call.Args) == 0 {
						continue
					}
					n++
					seen := map[ssa.Value]bool{}
					var leaf func(v ssa.Value, d int)
					leaf = func(v ssa.Value, d int) {
						if v == nil || seen[v] || d > 10 {
							return
						}
						seen[v] = true
						switch x := v.(type) {
						case *ssa.Phi:
							for _, e := range x.Edges {
								leaf(e, d+1)
							}
						case *ssa.UnOp:
							if x.Op != token.MUL {
								bad = append(bad, p.at(c)+": the reader asked has an unrecognised origin")
								return
							}
							switch a := x.X.(type) {
							case *ssa.IndexAddr:
								if f, _ := loadedField(canon(a.X)); f == r.ImplReaders && !isLastIndex(a.Index) {
									bad = append(bad, fmt.Sprintf("%s: the next offset is read from position %s of the reader list, not from its last reader", p.at(c), a.Index.String()))
								}
							case *ssa.Alloc:
								for _, st := range allocStores(a) {
									leaf(st.Val, d+1)
								}
							}
						}
					}
					leaf(c.Call.Args[0], 0)
				}
			}
		}
		switch {
		case len(bad) > 0:
			ob.Status, ob.Msg, ob.Path = Violated, "the next offset can be answered from a segment that is not the head: after the newest messages were deleted the (empty) head's name is the only record of the next offset, and an older segment's end is an offset that was already assigned", uniqSorted(bad)
		default:
			ob.Status, ob.Msg = Discharged, fmt.Sprintf("%d read(s) of a segment reader's next offset, each from the last reader of the list (or the writer's own)", n)
		}
		obs = append(obs, ob)
	}
	return obs
}

func containsFn(fs []*ssa.Function, g *ssa.Function) bool {
	for _, f := range fs {
		if f == g {
			return true
		}
	}
	return false
}

// ---------------------------------------------------------------------------
// R17i NEXT-OFFSET-IS-NOT-A-COUNT (C02, C03): the next offset a segment's index object answers with is
// never computed from the NUMBER of its items: after a delete a segment has fewer items than offsets.
func (p *Prog) nextOffsetIsNotACount() []Ob {
	r := p.R
	ob := Ob{Rule: "R17", Inst: "i:next-offset-is-not-a-count", Props: []string{"C02", "C03", "C19"}, Pos: "-", Nontrivial: true}
	gno := p.methodOf(r.ReaderIndex, "GetNextOffset")
	var fld *types.Var
	if gno != nil {
		for _, rt := range returnsOf(gno) {
			if v := returnOperand(rt, 0); v != nil {
				if f, _ := loadedField(canon(v)); f != nil {
					fld = f
				}
			}
		}
	}
	if fld == nil {
		ob.Status, ob.Msg = Undecided, "the field a closed segment's index object answers GetNextOffset from was not found"
		return []Ob{ob}
	}
	n := 0
	var bad []string
	for _, fn := range p.Funcs {
		if !srcFunc(fn) {
			continue
		}
		for _, b := range fn.Blocks {
			for _, ins := range b.Instrs {
				st, ok := ins.(*ssa.Store)
				if !ok {
					continue
				}
				fa, ok := st.Addr.(*ssa.FieldAddr)
				if !ok || fieldVarOfAddr(fa) != fld {
					continue
				}
				n++
				seen := map[ssa.Value]bool{}
				var walk func(v ssa.Value, d int)
				walk = func(v ssa.Value, d int) {
					if v == nil || seen[v] || d > 10 {
						return
					}
					seen[v] = true
					switch x := v.(type) {
					case *ssa.Phi:
						for _, e := range x.Edges {
							walk(e, d+1)
						}
					case *ssa.BinOp:
						walk(x.X, d+1)
						walk(x.Y, d+1)
					case *ssa.Convert:
						walk(x.X, d+1)
					case *ssa.ChangeType:
						walk(x.X, d+1)
					case *ssa.Call:
						if isBuiltinCall(x.Common(), "len") || isBuiltinCall(x.Common(), "cap") {
							bad = append(bad, fmt.Sprintf("%s: the next offset is computed from %s", p.at(st), x.String()))
						}
					}
				}
				walk(st.Val, 0)
			}
		}
	}
	switch {
	case n == 0:
		ob.Status, ob.Msg = Undecided, "no store to the next-offset field of a closed segment's index object found"
	case len(bad) > 0:
		ob.Pos = strings.SplitN(bad[0], ": ", 2)[0]
		ob.Status, ob.Msg, ob.Path = Violated, "a segment's next offset is derived from how many items it has: after a delete in the segment that is less than the offsets it spans, so a read-only handle reports an end that lies inside the live messages", uniqSorted(bad)
	default:
		ob.Status, ob.Msg = Discharged, fmt.Sprintf("%d store(s) to %s, none derived from a length", n, p.fieldLabel(fld))
	}
	return []Ob{ob}
}

// ---------------------------------------------------------------------------
// R34b DIR-IS-NOT-A-PREFIX (C20, C01): a segment's directory is kept as the caller spelled it (R34)
// while its file paths went through filepath.Join, which cleans them: the directory string is
// therefore not, in general, a textual prefix of the file paths. No code treats it as one.
func (p *Prog) dirIsNotAPrefix() []Ob {
	ob := Ob{Rule: "R34", Inst: "b:dir-is-not-a-prefix", Props: []string{"C20", "C01"}, Pos: "-", Nontrivial: true}
	isSeg := func(v ssa.Value, flds ...string) bool {
		pc := p.classifyPath(v)
		if pc.kind != "seg" {
			return false
		}
		for _, f := range flds {
			if pc.fld == f {
				return true
			}
		}
		return false
	}
	var bad []string
	n := 0
	for _, fn := range p.Funcs {
		if !srcFunc(fn) {
			continue
		}
		for _, b := range fn.Blocks {
			for _, ins := range b.Instrs {
				switch x := ins.(type) {
				case *ssa.Call:
					nm := calleeName(x.Common())
					if strings.HasPrefix(nm, "strings.") && len(x.Call.Args) == 2 {
						n++
						if isSeg(x.Call.Args[0], "Log", "Index") && isSeg(x.Call.Args[1], "Dir") {
							bad = append(bad, fmt.Sprintf("%s: %s treats the segment's directory as a textual prefix of its file path", p.at(x), nm))
						}
					}
				case *ssa.Slice:
					if x.Low == nil || !isSeg(x.X, "Log", "Index") {
						continue
					}
					n++
					seen := map[ssa.Value]bool{}
					var uses func(v ssa.Value, d int) bool
					uses = func(v ssa.Value, d int) bool {
						if v == nil || seen[v] || d > 4 {
							return false
						}
						seen[v] = true
						switch y := v.(type) {
						case *ssa.BinOp:
							return uses(y.X, d+1) || uses(y.Y, d+1)
						case *ssa.Call:
							return isBuiltinCall(y.Common(), "len") && len(y.Call.Args) == 1 && isSeg(y.Call.Args[0], "Dir")
						}
						return false
					}
					if uses(x.Low, 0) {
						bad = append(bad, p.at(x)+": a segment's file path is cut at the length of its directory string")
					}
				}
			}
		}
	}
	if len(bad) > 0 {
		ob.Pos = strings.SplitN(bad[0], ": ", 2)[0]
		ob.Status, ob.Msg, ob.Path = Violated, "a file name is derived by cutting the segment's directory string off its path: for a directory given as ./data, a/../data or /x//data nothing matches, and the operation (a backup) fails or writes elsewhere", uniqSorted(bad)
	} else {
		ob.Status, ob.Msg = Discharged, fmt.Sprintf("%d string operation(s) on paths, none pairs a segment's file path with its directory string", n)
	}
	return []Ob{ob}
}

// ---------------------------------------------------------------------------
// R20i QUERY-STATE-IS-LIFECYCLE-STATE (C03, C04, C09, C10, C15): below the log object, too, a query
// keeps nothing of its own. What a query path may write in a segment reader are the lazily loaded
// parts that the reader's Close / GC know about (and therefore drop when the segment's files are
// replaced); the index objects are not written from a query path at all.
func (p *Prog) queryStateIsLifecycleState() []Ob {
	r := p.R
	ob := Ob{Rule: "R20", Inst: "i:query-state-is-lifecycle-state", Props: []string{"C03", "C04", "C09", "C10", "C15"}, Pos: "-", Nontrivial: true}
	queries := map[string]bool{"Consume": true, "ConsumeByKey": true, "Get": true, "GetByKey": true, "OffsetByKey": true, "GetByTime": true, "OffsetByTime": true, "NextOffset": true, "Stat": true, "Size": true}
	// fields of the segment reader its Close / GC refer to
	lifecycle := map[*types.Var]bool{}
	nLife := 0
	for _, nm := range []string{"Close", "GC"} {
		m := p.methodOf(r.SegReader, nm)
		if m == nil {
			continue
		}
		nLife++
		seen := map[*ssa.Function]bool{}
		var walk func(f *ssa.Function)
		walk = func(f *ssa.Function) {
			if f == nil || seen[f] || f.Blocks == nil || recvNamed(f) != r.SegReader {
				return
			}
			seen[f] = true
			for _, b := range f.Blocks {
				for _, ins := range b.Instrs {
					if fa, ok := ins.(*ssa.FieldAddr); ok && namedOf(derefPtr(fa.X.Type())) == r.SegReader {
						lifecycle[fieldVarOfAddr(fa)] = true
					}
					if c, ok := ins.(*ssa.Call); ok {
						walk(c.Common().StaticCallee())
					}
				}
			}
		}
		walk(m)
	}
	if nLife == 0 || r.SegReader == nil {
		ob.Status, ob.Msg = Undecided, "the segment reader's Close / GC were not found"
		return []Ob{ob}
	}
	// the field of a role object an address lies in, unless the object was made in this function
	roleField := func(addr ssa.Value) (*types.Var, *types.Named) {
		var f *types.Var
		for {
			fa, ok := addr.(*ssa.FieldAddr)
			if !ok {
				break
			}
			f = fieldVarOfAddr(fa)
			n := namedOf(derefPtr(fa.X.Type()))
			if n == r.SegReader || n == r.ReaderIndex || n == r.HeadIndex {
				if _, fresh := fa.X.(*ssa.Alloc); fresh {
					return nil, nil
				}
				return f, n
			}
			addr = fa.X
		}
		return nil, nil
	}
	nFns, nWrites := 0, 0
	var bad []string
	for fn, api := range p.apiReach() {
		isQ := false
		for a := range api {
			if queries[a] {
				isQ = true
			}
		}
		if !isQ || !srcFunc(fn) {
			continue
		}
		nFns++
		for _, b := range fn.Blocks {
			for _, ins := range b.Instrs {
				var addr ssa.Value
				switch x := ins.(type) {
				case *ssa.Store:
					addr = x.Addr
				case *ssa.Call:
					nm := calleeName(x.Common())
					if strings.HasPrefix(nm, "(*sync/atomic.") && !strings.HasSuffix(nm, ").Load") && len(x.Call.Args) > 0 {
						addr = x.Call.Args[0]
					}
				}
				if addr == nil {
					continue
				}
				f, n := roleField(addr)
				if f == nil || !p.fieldsReadOnQueryPaths()[f] {
					continue // (a field no query path ever reads feeds no answer)
				}
				nWrites++
				var api1 string
				for a := range api {
					if queries[a] && (api1 == "" || a < api1) {
						api1 = a
					}
				}
				switch {
				case n == r.SegReader && !lifecycle[f]:
					bad = append(bad, fmt.Sprintf("%s: %s (on the path of Log.%s) writes %s, which the reader's Close / GC never look at", p.at(ins), funcLabel(fn), api1, p.fieldLabel(f)))
				case n != r.SegReader:
					bad = append(bad, fmt.Sprintf("%s: %s (on the path of Log.%s) writes %s of an index object", p.at(ins), funcLabel(fn), api1, p.fieldLabel(f)))
				}
			}
		}
	}
	switch {
	case nFns < 10:
		ob.Status, ob.Msg = Undecided, "the functions reachable from the query methods of the log were not found"
	case len(bad) > 0:
		sort.Strings(bad)
		ob.Pos = strings.SplitN(bad[0], ": ", 2)[0]
		ob.Status, ob.Msg, ob.Path = Violated, "a query leaves something behind in a segment's reader or index object that nothing invalidates when the segment is rewritten, extended or closed: a later answer is made from it instead of from the files", uniqStrings(bad)
	default:
		ob.Status, ob.Msg = Discharged, fmt.Sprintf("%d functions on query paths; their %d writes to segment readers all go to state the reader's Close / GC manage; none to an index object", nFns, nWrites)
	}
	return []Ob{ob}
}

// ---------------------------------------------------------------------------
// R3d HEAD-IS-LAST (C03, C04, C02, C12): wherever a method of the log installs a new head writer, the
// reader list ends with that writer's reader when the method returns: every lookup takes the last
// reader for the head (NextOffset, the empty-head cases, the roll-over).
func (p *Prog) headIsLast() []Ob {
	r := p.R
	var obs []Ob
	// the last element a list value ends with: append(list, ..., X) or []T{..., X}
	lastOfArray := func(al *ssa.Alloc) ssa.Value {
		at, ok := derefPtr(al.Type()).Underlying().(*types.Array)
		if !ok {
			return nil
		}
		var last ssa.Value
		for _, ref := range *al.Referrers() {
			ia, ok := ref.(*ssa.IndexAddr)
			if !ok {
				continue
			}
			k, isK := constInt(ia.Index)
			if !isK || k != at.Len()-1 {
				continue
			}
			for _, r2 := range *ia.Referrers() {
				if st, ok := r2.(*ssa.Store); ok && st.Addr == ssa.Value(ia) {
					last = st.Val
				}
			}
		}
		return last
	}
	lastElem := func(v ssa.Value) ssa.Value {
		if c, ok := v.(*ssa.Call); ok && isBuiltinCall(c.Common(), "append") && len(c.Call.Args) == 2 {
			v = c.Call.Args[1]
		}
		if sl, ok := v.(*ssa.Slice); ok {
			if al, ok := sl.X.(*ssa.Alloc); ok {
				return lastOfArray(al)
			}
		}
		return nil
	}
	isLastIndex := func(v ssa.Value) bool {
		bo, ok := stripConv(v).(*ssa.BinOp)
		if !ok || bo.Op != token.SUB {
			return false
		}
		k, isK := constInt(bo.Y)
		c, isC := bo.X.(*ssa.Call)
		return isK && k == 1 && isC && isBuiltinCall(c.Common(), "len")
	}
	for _, fn := range p.Funcs {
		if !srcFunc(fn) || (recvNamed(fn) != r.Impl && fn != r.Open) {
			continue
		}
		// the writers installed here
		var writers []ssa.Value
		var wst ssa.Instruction
		var wsts []ssa.Instruction
		for _, b := range fn.Blocks {
			for _, ins := range b.Instrs {
				if st, ok := ins.(*ssa.Store); ok {
					if fa, ok := st.Addr.(*ssa.FieldAddr); ok && fieldVarOfAddr(fa) == r.ImplWriter && namedOf(derefPtr(fa.X.Type())) == r.Impl {
						if _, isNil := st.Val.(*ssa.Const); !isNil {
							writers = append(writers, canon(st.Val))
							wst = st
							wsts = append(wsts, st)
						}
					}
				}
			}
		}
		if len(writers) == 0 {
			continue
		}
		isHeadReader := func(x ssa.Value) bool {
			f, base := loadedField(canon(x))
			if f != r.HWReader || base == nil {
				return false
			}
			for _, w := range writers {
				if canon(base) == w {
					return true
				}
			}
			return false
		}
		// updates of what the list ends with
		type upd struct {
			ins  ssa.Instruction
			good bool
		}
		var upds []upd
		for _, b := range fn.Blocks {
			for _, ins := range b.Instrs {
				st, ok := ins.(*ssa.Store)
				if !ok {
					continue
				}
				switch a := st.Addr.(type) {
				case *ssa.FieldAddr:
					if fieldVarOfAddr(a) != r.ImplReaders || namedOf(derefPtr(a.X.Type())) != r.Impl {
						continue
					}
					if le := lastElem(st.Val); le != nil {
						upds = append(upds, upd{st, isHeadReader(le)})
					}
				case *ssa.IndexAddr:
					if f, _ := loadedField(canon(a.X)); f == r.ImplReaders && isLastIndex(a.Index) {
						upds = append(upds, upd{st, isHeadReader(st.Val)})
					}
				}
			}
		}
		ob := Ob{Rule: "R3", Inst: "d:head-is-last:" + funcLabel(fn), Props: []string{"C03", "C04", "C02", "C12"}, Pos: p.at(wst), Func: funcLabel(fn), Nontrivial: true}
		good := map[ssa.Instruction]bool{}
		nGood := 0
		for _, u := range upds {
			if u.good {
				good[u.ins] = true
				nGood++
			}
		}
		var bad []string
		if nGood == 0 {
			bad = append(bad, p.at(wst)+": a head writer is installed but its reader is never put at the end of the reader list")
		}
		for _, u := range upds {
			if u.good {
				continue
			}
			// only on paths that install a writer at all
			onWriterPath := false
			for _, w := range wsts {
				if canReach(w, u.ins) || canReach(u.ins, w) {
					onWriterPath = true
				}
			}
			if !onWriterPath {
				continue
			}
			// can the function return from here without a later good update?
			seen := map[*ssa.BasicBlock]bool{}
			escapes := false
			var walk func(b *ssa.BasicBlock, from int)
			walk = func(b *ssa.BasicBlock, from int) {
				for i := from; i < len(b.Instrs); i++ {
					if good[b.Instrs[i]] {
						return
					}
					if rt, ok := b.Instrs[i].(*ssa.Return); ok {
						if !p.ErrAtomsCached().isFailureReturn(fn, rt) {
							escapes = true
						}
						return
					}
				}
				for _, s := range b.Succs {
					if !seen[s] {
						seen[s] = true
						walk(s, 0)
					}
				}
			}
			for i, bi := range u.ins.Block().Instrs {
				if bi == u.ins {
					walk(u.ins.Block(), i+1)
				}
			}
			if escapes {
				bad = append(bad, p.at(u.ins)+": after this update the reader list ends with a reader that is not the new head writer's, and the method can return like that")
			}
		}
		if len(bad) > 0 {
			ob.Status, ob.Msg, ob.Path = Violated, "the reader list does not end with the head: the lookups that take its last reader for the head (next offset, the newest message, the roll-over, where a cursor that caught up continues) work on a closed segment, and the segment walk meets offsets out of order", uniqSorted(bad)
		} else {
			ob.Status, ob.Msg = Discharged, fmt.Sprintf("%d update(s) of the list's end, the last one on every returning path puts the installed writer's reader there", len(upds))
		}
		obs = append(obs, ob)
	}
	if len(obs) == 0 {
		obs = append(obs, Ob{Rule: "R3", Inst: "d:head-is-last", Props: []string{"C03", "C04", "C02", "C12"}, Pos: "-", Status: Undecided, Msg: "no method of the log installs a head writer"})
	}
	return obs
}

// ---------------------------------------------------------------------------
// R2 O13 RECOVER-ON-OPEN (C05, C07, C01, C02): with Options.Recover set, a read-write Open builds the
// head writer over a segment it found only after Segment.Recover ran: no path skips the recovery
// because of something it looked up (a marker file, a first attempt that happened to work).
func (p *Prog) recoverOnOpen() []Ob {
	r := p.R
	open := r.Open
	rec := p.methodOf(r.Segment, "Recover")
	ob := Ob{Rule: "R2", Inst: "O13:Open:recover-on-open", Props: []string{"C05", "C07", "C01", "C02"}, Pos: "-", Func: funcLabel(open), Nontrivial: true}
	if open == nil || rec == nil {
		ob.Status, ob.Msg = Undecided, "Open or Segment.Recover not found"
		return []Ob{ob}
	}
	assume := Assume{"Recover": true, "Readonly": false}
	succ := func(b *ssa.BasicBlock) []*ssa.BasicBlock { return p.prunedSuccs(b, assume) }
	reach := reachableBlocks(open, succ)
	// constructions of a head writer over a segment that was found (not one made on the spot)
	var ctors []*ssa.Call
	for _, b := range open.Blocks {
		if !reach[b] {
			continue
		}
		for _, ins := range b.Instrs {
			c, ok := ins.(*ssa.Call)
			if !ok {
				continue
			}
			g := c.Common().StaticCallee()
			if g == nil || !inModule(g) || g.Signature.Results().Len() == 0 {
				continue
			}
			pt, ok := g.Signature.Results().At(0).Type().(*types.Pointer)
			if !ok || namedOf(pt.Elem()) != r.HeadWriter {
				continue
			}
			fresh := false
			for _, a := range c.Call.Args {
				if namedOf(a.Type()) == r.Segment {
					if _, isCall := canon(a).(*ssa.Call); isCall {
						fresh = true // segment.New(dir, 0, ...): an empty directory has nothing to recover
					}
				}
			}
			if !fresh {
				ctors = append(ctors, c)
			}
		}
	}
	if len(ctors) == 0 {
		ob.Status, ob.Msg = Undecided, "Open does not build a head writer over a found segment"
		return []Ob{ob}
	}
	ob.Pos = p.at(ctors[0])
	recBlocks := map[*ssa.BasicBlock]bool{}
	for _, b := range open.Blocks {
		for _, ins := range b.Instrs {
			if c, ok := ins.(*ssa.Call); ok && p.callLeadsTo(c, rec) {
				recBlocks[b] = true
			}
		}
	}
	seen := map[*ssa.BasicBlock]bool{}
	work := []*ssa.BasicBlock{open.Blocks[0]}
	for len(work) > 0 {
		x := work[len(work)-1]
		work = work[:len(work)-1]
		if seen[x] || recBlocks[x] {
			continue
		}
		seen[x] = true
		work = append(work, succ(x)...)
	}
	var bad []string
	for _, c := range ctors {
		if seen[c.Block()] {
			bad = append(bad, p.at(c)+": the head writer is built on a path that did not recover the head")
		}
	}
	if len(bad) > 0 {
		ob.Status, ob.Msg, ob.Path = Violated, "with Options.Recover set, Open can open the head for writing without having recovered it: a torn tail stays in the log, later appends land behind it and are lost with it at the next real recovery", bad
	} else {
		ob.Status, ob.Msg = Discharged, fmt.Sprintf("with Recover set every path of Open to the %d construction(s) of a head writer over a found segment passes Segment.Recover", len(ctors))
	}
	return []Ob{ob}
}

// ---------------------------------------------------------------------------
// R35c AN-UNCLASSIFIED-FAILURE-IS-NOT-AN-ANSWER (C14, C10, C09, C04): where a method of the log or of a
// segment reader knows that a call failed (it stands behind the `err != nil` edge of that call's error)
// it returns success only where it also identified the failure as one of the outcome sentinels. A
// failure it did not classify - a damaged record, an I/O error - is never turned into an answer.
func (p *Prog) unclassifiedFailureIsNotAnAnswer() []Ob {
	r := p.R
	ea := p.ErrAtomsCached()
	var obs []Ob
	n := 0
	for _, fn := range p.Funcs {
		if !srcFunc(fn) || fn.Parent() != nil || (recvNamed(fn) != r.Impl && recvNamed(fn) != r.SegReader) {
			continue
		}
		if errResultIndex(fn) < 0 {
			continue
		}
		var bad []string
		judged := 0
		for _, hb := range fn.Blocks {
			iff, ok := terminator(hb).(*ssa.If)
			if !ok {
				continue
			}
			bo, ok := iff.Cond.(*ssa.BinOp)
			if !ok || (bo.Op != token.EQL && bo.Op != token.NEQ) {
				continue
			}
			var e ssa.Value
			switch {
			case isNilConst(bo.Y):
				e = bo.X
			case isNilConst(bo.X):
				e = bo.Y
			}
			if e == nil || !isErrType(e.Type()) {
				continue
			}
			ex, ok := e.(*ssa.Extract)
			if !ok {
				continue
			}
			call, ok := ex.Tuple.(*ssa.Call)
			if !ok {
				continue
			}
			// only calls that read: methods of segment readers and index objects
			g := call.Common().StaticCallee()
			if g == nil && !call.Common().IsInvoke() {
				continue
			}
			if g != nil && recvNamed(g) != r.SegReader && recvNamed(g) != r.ReaderIndex && recvNamed(g) != r.HeadIndex {
				continue
			}
			nonNil := 0
			if bo.Op == token.EQL {
				nonNil = 1
			}
			for _, rt := range returnsOf(fn) {
				if ea.isFailureReturn(fn, rt) || !edgeDominates(hb, nonNil, rt.Block()) {
					continue
				}
				judged++
				classified := false
				for _, cb := range fn.Blocks {
					ci, ok := terminator(cb).(*ssa.If)
					if !ok {
						continue
					}
					uses := false
					switch c := stripNot(ci.Cond).(type) {
					case *ssa.BinOp:
						uses = c.X == e || c.Y == e
					case *ssa.Call:
						uses = len(c.Call.Args) > 0 && c.Call.Args[0] == e
					}
					if !uses {
						continue
					}
					for _, t := range sentinelTests(ci.Cond) {
						if edgeDominates(cb, t.edge, rt.Block()) {
							classified = true
						}
					}
				}
				if !classified {
					bad = append(bad, fmt.Sprintf("%s: success is returned where %s is known to have failed with an error that was not identified as an expected outcome", p.at(rt), calleeName(call.Common())))
				}
			}
		}
		if judged == 0 && len(bad) == 0 {
			continue
		}
		n++
		ob := Ob{Rule: "R35", Inst: "c:unclassified-failure-is-not-an-answer:" + funcLabel(fn), Props: []string{"C14", "C10", "C09", "C04"}, Pos: p.posStr(fn.Pos()), Func: funcLabel(fn), Nontrivial: true}
		if len(bad) > 0 {
			ob.Status, ob.Msg, ob.Path = Violated, "a failed read is answered as if it had succeeded: a damaged record (or an I/O error) that holds the real answer is passed over and another message is returned without an error", uniqSorted(bad)
		} else {
			ob.Status, ob.Msg = Discharged, fmt.Sprintf("%d success return(s) behind a failed read, each behind the identification of an outcome sentinel", judged)
		}
		obs = append(obs, ob)
	}
	if n == 0 {
		obs = append(obs, Ob{Rule: "R35", Inst: "c:unclassified-failure-is-not-an-answer", Props: []string{"C14", "C10", "C09", "C04"}, Pos: "-", Status: Discharged, Nontrivial: true, Msg: "no method returns success behind the failure edge of a read"})
	}
	return obs
}

func stripNot(v ssa.Value) ssa.Value {
	for {
		u, ok := v.(*ssa.UnOp)
		if !ok || u.Op != token.NOT {
			return v
		}
		v = u.X
	}
}

// ---------------------------------------------------------------------------
// R10j WHOLE-HEADER (C14): a function of the format packages that reads fixed positions of a []byte
// parameter without looking at its length (the file-header parsers) is only ever handed a whole
// fixed-size array (`h[:]`): a short read must fail before the parser, not index out of range in it.
// R10k NO-UNCHECKED-MAPPED-ACCESS (C14): the mapped file of a sealed segment is read through ReadAt
// (which reports a position past the end as an error), never through an accessor that indexes the
// mapping directly.
func (p *Prog) wholeHeaderAndMappedAccess() []Ob {
	var obs []Ob
	// parsers: []byte first parameter, read, never measured
	parsers := map[*ssa.Function]bool{}
	for _, fn := range p.Funcs {
		if !srcFunc(fn) || fn.Parent() != nil || len(fn.Params) == 0 || (funcPkgPath(fn) != pkgMessage && funcPkgPath(fn) != pkgIndex) {
			continue
		}
		if fn.Signature.Recv() != nil || token.IsExported(fn.Name()) {
			continue
		}
		pr := fn.Params[0]
		sl, ok := pr.Type().Underlying().(*types.Slice)
		if !ok {
			continue
		}
		if bt, ok := sl.Elem().Underlying().(*types.Basic); !ok || bt.Kind() != types.Uint8 {
			continue
		}
		reads, measured := false, false
		for _, ref := range *pr.Referrers() {
			switch x := ref.(type) {
			case *ssa.IndexAddr, *ssa.Slice:
				reads = true
			case *ssa.Call:
				if isBuiltinCall(x.Common(), "len") {
					measured = true
				} else {
					reads = true
				}
			}
		}
		if reads && !measured {
			parsers[fn] = true
		}
	}
	n := 0
	var bad []string
	for _, fn := range p.Funcs {
		if !srcFunc(fn) {
			continue
		}
		for _, b := range fn.Blocks {
			for _, ins := range b.Instrs {
				c, ok := ins.(*ssa.Call)
				if !ok || !parsers[c.Common().StaticCallee()] || len(c.Call.Args) == 0 {
					continue
				}
				n++
				whole := false
				if sl, ok := c.Call.Args[0].(*ssa.Slice); ok && sl.Low == nil && sl.High == nil && sl.Max == nil {
					if pt, ok := sl.X.Type().Underlying().(*types.Pointer); ok {
						if _, isArr := pt.Elem().Underlying().(*types.Array); isArr {
							whole = true
						}
					}
				}
				if !whole {
					bad = append(bad, fmt.Sprintf("%s: %s is handed %s, not a whole fixed-size array", p.at(c), funcLabel(c.Common().StaticCallee()), c.Call.Args[0].String()))
				}
			}
		}
	}
	ob := Ob{Rule: "R10", Inst: "j:whole-header", Props: []string{"C14"}, Pos: "-", Nontrivial: true}
	switch {
	case len(parsers) == 0:
		ob.Status, ob.Msg = Discharged, "no function of the format packages reads a []byte parameter without measuring it"
	case len(bad) > 0:
		ob.Pos = strings.SplitN(bad[0], ": ", 2)[0]
		ob.Status, ob.Msg, ob.Path = Violated, "a header parser that indexes fixed positions without a length check can be handed a short slice: a file that ends inside its header makes Open panic instead of failing", uniqSorted(bad)
	default:
		ob.Status, ob.Msg = Discharged, fmt.Sprintf("%d call(s) of %d unmeasured header parser(s), each with a whole fixed-size array", n, len(parsers))
	}
	obs = append(obs, ob)

	ob2 := Ob{Rule: "R10", Inst: "k:no-unchecked-mapped-access", Props: []string{"C14"}, Pos: "-", Nontrivial: true}
	var bad2 []string
	reads := 0
	for _, fn := range p.Funcs {
		if !srcFunc(fn) {
			continue
		}
		for _, b := range fn.Blocks {
			for _, ins := range b.Instrs {
				c, ok := ins.(*ssa.Call)
				if !ok {
					continue
				}
				nm := calleeName(c.Common())
				if !strings.Contains(nm, "/mmap.ReaderAt)") {
					continue
				}
				switch {
				case strings.HasSuffix(nm, ").ReadAt"):
					reads++
				case strings.HasSuffix(nm, ").At"):
					bad2 = append(bad2, fmt.Sprintf("%s: %s indexes the mapping directly (no bounds check: a position past the end of the file panics)", p.at(c), funcLabel(fn)))
				}
			}
		}
	}
	switch {
	case len(bad2) > 0:
		ob2.Pos = strings.SplitN(bad2[0], ": ", 2)[0]
		ob2.Status, ob2.Msg, ob2.Path = Violated, "a damaged size field or a truncated sealed segment makes a read panic instead of failing with ErrCorrupted", uniqSorted(bad2)
	case reads == 0:
		ob2.Status, ob2.Msg = Undecided, "no read of a mapped segment file found (the mapped reader is no longer x/exp/mmap's ReaderAt)"
	default:
		ob2.Status, ob2.Msg = Discharged, fmt.Sprintf("%d read(s) of mapped files, all through ReadAt", reads)
	}
	obs = append(obs, ob2)
	return obs
}

// ---------------------------------------------------------------------------
// R15c NOTHING-BEFORE-THE-LOCK (C19): in Open every call that can change a file of the directory runs
// behind the acquisition of the directory lock: an Open that is going to fail with "already locked"
// has not touched the files of the handle that holds the lock.
func (p *Prog) nothingBeforeTheLock() []Ob {
	open := p.R.Open
	ob := Ob{Rule: "R15", Inst: "c:nothing-before-the-lock", Props: []string{"C19"}, Pos: "-", Func: funcLabel(open), Nontrivial: true}
	if open == nil {
		ob.Status, ob.Msg = Undecided, "Open not found"
		return []Ob{ob}
	}
	var locks []*ssa.Call
	lockBlocks := map[*ssa.BasicBlock]bool{}
	for _, b := range open.Blocks {
		for _, ins := range b.Instrs {
			if c, ok := ins.(*ssa.Call); ok {
				switch flockOp(c.Common()) {
				case "TryLock", "TryRLock", "Lock", "RLock", "TryLockContext", "TryRLockContext":
					locks = append(locks, c)
					lockBlocks[b] = true
				}
				// or a small helper that takes the lock (R15 judges it)
				if g := c.Common().StaticCallee(); g != nil && inModule(g) && g.Blocks != nil {
					for _, gb := range g.Blocks {
						for _, gi := range gb.Instrs {
							if gc, ok := gi.(*ssa.Call); ok {
								switch flockOp(gc.Common()) {
								case "TryLock", "TryRLock", "Lock", "RLock", "TryLockContext", "TryRLockContext":
									locks = append(locks, c)
									lockBlocks[b] = true
								}
							}
						}
					}
				}
			}
		}
	}
	// blocks reachable from the entry without passing an acquisition
	unlocked := map[*ssa.BasicBlock]bool{}
	{
		work := []*ssa.BasicBlock{open.Blocks[0]}
		for len(work) > 0 {
			x := work[len(work)-1]
			work = work[:len(work)-1]
			if unlocked[x] {
				continue
			}
			unlocked[x] = true
			if lockBlocks[x] {
				continue // judged instruction by instruction below
			}
			work = append(work, x.Succs...)
		}
	}
	if len(locks) == 0 {
		ob.Status, ob.Msg = Undecided, "Open does not acquire a directory lock"
		return []Ob{ob}
	}
	ob.Pos = p.at(locks[0])
	n := 0
	var bad []string
	for _, b := range open.Blocks {
		for _, ins := range b.Instrs {
			c, ok := ins.(*ssa.Call)
			if !ok {
				continue
			}
			what := ""
			if is, w := isMutatorCall(c.Common()); is {
				what = w
			} else if g := c.Common().StaticCallee(); g != nil && inModule(g) && g.Blocks != nil {
				if sites := p.reachMutators(g, nil); len(sites) > 0 {
					what = sites[0].what + " via " + strings.Join(sites[0].chain, " → ")
				}
			}
			if what == "" || strings.HasPrefix(what, "os.MkdirAll") || strings.HasPrefix(what, "os.Mkdir") {
				continue
			}
			n++
			locked := !unlocked[b]
			if lockBlocks[b] {
				for _, l := range locks {
					if l.Block() == b && instrDominates(l, c) {
						locked = true
					}
				}
			}
			if !locked {
				bad = append(bad, fmt.Sprintf("%s: %s can run before the directory lock is taken", p.at(c), what))
			}
		}
	}
	if len(bad) > 0 {
		ob.Status, ob.Msg, ob.Path = Violated, "Open changes files of the directory before it holds the lock: a second Open that ends in 'already locked' has by then rewritten files under the handle that owns them", uniqSorted(bad)
	} else {
		ob.Status, ob.Msg = Discharged, fmt.Sprintf("%d call(s) of Open that can change a file, each dominated by the acquisition of the directory lock", n)
	}
	return []Ob{ob}
}

// R13c EVERY-FOUND-SEGMENT-IS-OPENED (C19, C02): the list of segments Find returned is what Open builds
// its readers from: it is ranged over whole (read-only) or as all-but-the-last next to a writer over
// the last (read-write); it is never cut on a condition.
func (p *Prog) everyFoundSegmentIsOpened() []Ob {
	r := p.R
	open := r.Open
	ob := Ob{Rule: "R13", Inst: "c:every-found-segment-is-opened", Props: []string{"C19", "C02", "C03"}, Pos: "-", Func: funcLabel(open), Nontrivial: true}
	if open == nil {
		ob.Status, ob.Msg = Undecided, "Open not found"
		return []Ob{ob}
	}
	var found ssa.Value
	for _, b := range open.Blocks {
		for _, ins := range b.Instrs {
			ex, ok := ins.(*ssa.Extract)
			if !ok || ex.Index != 0 {
				continue
			}
			sl, ok := ex.Type().Underlying().(*types.Slice)
			if !ok || namedOf(sl.Elem()) != r.Segment {
				continue
			}
			if _, isCall := ex.Tuple.(*ssa.Call); isCall {
				found = ex
			}
		}
	}
	if found == nil {
		ob.Status, ob.Msg = Undecided, "Open does not obtain a list of segments from a call"
		return []Ob{ob}
	}
	if c, ok := found.(*ssa.Extract).Tuple.(*ssa.Call); ok {
		ob.Pos = p.at(c)
	}
	isLastIndex := func(v ssa.Value) bool {
		bo, ok := stripConv(v).(*ssa.BinOp)
		if !ok || bo.Op != token.SUB {
			return false
		}
		k, isK := constInt(bo.Y)
		c, isC := bo.X.(*ssa.Call)
		return isK && k == 1 && isC && isBuiltinCall(c.Common(), "len") && len(c.Call.Args) == 1 && c.Call.Args[0] == found
	}
	n := 0
	var bad []string
	for _, b := range open.Blocks {
		for _, ins := range b.Instrs {
			switch x := ins.(type) {
			case *ssa.Phi:
				if sl, ok := x.Type().Underlying().(*types.Slice); ok && namedOf(sl.Elem()) == r.Segment {
					for _, e := range x.Edges {
						if e == found {
							bad = append(bad, p.at(x)+": what Open goes on with is either the list that was found or something else, depending on a condition")
						}
					}
				}
			case *ssa.Slice:
				if x.X != found {
					continue
				}
				n++
				if !(x.Low == nil && x.High != nil && isLastIndex(x.High)) {
					bad = append(bad, p.at(x)+": the list of found segments is cut other than into all-but-the-last")
				}
			}
		}
	}
	if len(bad) > 0 {
		ob.Status, ob.Msg, ob.Path = Violated, "Open can leave out a segment that is in the directory: an empty head (whose name is the only record of the next offset) dropped by a read-only handle makes it answer differently from a read-write one", uniqSorted(bad)
	} else {
		ob.Status, ob.Msg = Discharged, fmt.Sprintf("the list Find returned is used whole, apart from %d all-but-the-last slice(s)", n)
	}
	return []Ob{ob}
}

// ---------------------------------------------------------------------------
// R18f DELETE-ANSWERS-NOTHING-ONLY-FOR-NOTHING (C12): Log.Delete itself answers "nothing deleted" with
// success only where the caller's set was tested empty; everything else is what the worker behind the
// delete lock returns (which is where relative offsets are rejected).
func (p *Prog) deleteAnswersNothingOnlyForNothing() []Ob {
	r := p.R
	m := r.ImplMethods["Delete"]
	ob := Ob{Rule: "R18", Inst: "f:delete-answers-nothing-only-for-nothing", Props: []string{"C12", "C04"}, Pos: "-", Func: funcLabel(m), Nontrivial: true}
	if m == nil || m.Blocks == nil || len(m.Params) < 2 {
		ob.Status, ob.Msg = Undecided, "Log.Delete not found"
		return []Ob{ob}
	}
	ob.Pos = p.posStr(m.Pos())
	ea := p.ErrAtomsCached()
	set := m.Params[1]
	emptyEdge := func(b *ssa.BasicBlock) bool {
		for _, hb := range m.Blocks {
			iff, ok := terminator(hb).(*ssa.If)
			if !ok {
				continue
			}
			lv, e, ok := lenZeroEdge(iff.Cond)
			if !ok || canon(lv) != ssa.Value(set) {
				continue
			}
			if e >= 0 && edgeDominates(hb, e, b) {
				return true
			}
		}
		return false
	}
	n := 0
	var bad []string
	ei := errResultIndex(m)
	for _, rt := range returnsOf(m) {
		if ea.isFailureReturn(m, rt) {
			continue
		}
		// what the worker returned is handed on
		if v := returnOperand(rt, ei); v != nil {
			if ex, ok := v.(*ssa.Extract); ok {
				if c, ok := ex.Tuple.(*ssa.Call); ok && c.Common().StaticCallee() != nil && recvNamed(c.Common().StaticCallee()) == r.Impl {
					continue
				}
			}
		}
		n++
		if !emptyEdge(rt.Block()) {
			bad = append(bad, p.at(rt)+": success with nothing deleted is answered although the caller's set was not tested empty")
		}
	}
	if len(bad) > 0 {
		ob.Status, ob.Msg, ob.Path = Violated, "Log.Delete has an answer of its own for a non-empty set: the offsets in it are neither validated (a relative offset must be refused) nor deleted", bad
	} else {
		ob.Status, ob.Msg = Discharged, fmt.Sprintf("%d success return(s) of Log.Delete's own, each behind len(offsets) == 0", n)
	}
	return []Ob{ob}
}

// fieldsReadOnQueryPaths: the struct fields whose value a function on a query path can observe (a
// load, an atomic read-modify-write whose result is used, a nested access, or the address escaping
// into a call). A field that query paths only ever write - a statistics counter - feeds no answer.
func (p *Prog) fieldsReadOnQueryPaths() map[*types.Var]bool {
	if p.fieldsReadMemo != nil {
		return p.fieldsReadMemo
	}
	queries := map[string]bool{"Consume": true, "ConsumeByKey": true, "Get": true, "GetByKey": true, "OffsetByKey": true, "GetByTime": true, "OffsetByTime": true, "NextOffset": true, "Stat": true, "Size": true}
	out := map[*types.Var]bool{}
	for fn, api := range p.apiReach() {
		isQ := false
		for a := range api {
			if queries[a] {
				isQ = true
			}
		}
		if !isQ {
			continue
		}
		for _, b := range fn.Blocks {
			for _, ins := range b.Instrs {
				fa, ok := ins.(*ssa.FieldAddr)
				if !ok || fa.Referrers() == nil {
					continue
				}
				f := fieldVarOfAddr(fa)
				for _, ref := range *fa.Referrers() {
					switch x := ref.(type) {
					case *ssa.Store:
						if x.Addr != ssa.Value(fa) {
							out[f] = true // the address itself is stored somewhere
						}
					case *ssa.Call:
						nm := calleeName(x.Common())
						if strings.HasPrefix(nm, "(*sync/atomic.") {
							switch {
							case strings.HasSuffix(nm, ").Store"):
							case strings.HasSuffix(nm, ").Add"), strings.HasSuffix(nm, ").And"), strings.HasSuffix(nm, ").Or"):
								if x.Referrers() != nil && len(*x.Referrers()) > 0 {
									out[f] = true
								}
							default:
								out[f] = true
							}
						} else {
							out[f] = true
						}
					case *ssa.DebugRef:
					default:
						out[f] = true
					}
				}
			}
		}
	}
	p.fieldsReadMemo = out
	return out
}

// fieldsNotCompared: f is the comparison function handed to slices.EqualFunc over index items; returns
// the names of the item's fields it does not read from both parameters ("" when it compares whole
// items or every field, or when f cannot be resolved to a function of the module).
func (p *Prog) fieldsNotCompared(f ssa.Value) string {
	var fn *ssa.Function
	switch x := f.(type) {
	case *ssa.Function:
		fn = x
	case *ssa.MakeClosure:
		fn, _ = x.Fn.(*ssa.Function)
	}
	if fn == nil || fn.Blocks == nil || len(fn.Params) != 2 {
		return ""
	}
	st, ok := fn.Params[0].Type().Underlying().(*types.Struct)
	if !ok {
		return ""
	}
	read := [2]map[int]bool{{}, {}}
	for _, b := range fn.Blocks {
		for _, ins := range b.Instrs {
			switch x := ins.(type) {
			case *ssa.BinOp:
				if (x.Op == token.EQL || x.Op == token.NEQ) && ((x.X == ssa.Value(fn.Params[0]) && x.Y == ssa.Value(fn.Params[1])) || (x.X == ssa.Value(fn.Params[1]) && x.Y == ssa.Value(fn.Params[0]))) {
					return ""
				}
			case *ssa.Field:
				for i, pr := range fn.Params {
					if x.X == ssa.Value(pr) {
						read[i][x.Field] = true
					}
				}
			case *ssa.FieldAddr:
				// a spilled value parameter
				if al, ok := x.X.(*ssa.Alloc); ok {
					for _, s2 := range allocStores(al) {
						for i, pr := range fn.Params {
							if s2.Val == ssa.Value(pr) {
								read[i][x.Field] = true
							}
						}
					}
				}
			}
		}
	}
	var miss []string
	for i := 0; i < st.NumFields(); i++ {
		if !read[0][i] || !read[1][i] {
			miss = append(miss, st.Field(i).Name())
		}
	}
	return strings.Join(miss, ", ")
}

// ---------------------------------------------------------------------------
// R3g NO-SHARED-SCRATCH (C20, C08): no package-level byte slice of the module is written into (handed
// to a Read, used as the destination of copy, stored through an index): every call of the library
// may run next to another one - two backups, a backup next to a consumer - and a scratch buffer all
// of them share mixes their bytes.
func (p *Prog) noSharedScratch() []Ob {
	ob := Ob{Rule: "R3", Inst: "g:no-shared-scratch", Props: []string{"C20", "C08"}, Pos: "-", Nontrivial: true}
	n := 0
	var bad []string
	for _, fn := range p.Funcs {
		if !srcFunc(fn) || fn.Name() == "init" {
			continue
		}
		for _, b := range fn.Blocks {
			for _, ins := range b.Instrs {
				u, ok := ins.(*ssa.UnOp)
				if !ok || u.Op != token.MUL {
					continue
				}
				g, ok := u.X.(*ssa.Global)
				if !ok || g.Pkg == nil || !inModulePath(g.Pkg.Pkg.Path()) {
					continue
				}
				sl, ok := derefPtr(g.Type()).Underlying().(*types.Slice)
				if !ok {
					continue
				}
				if bt, ok := sl.Elem().Underlying().(*types.Basic); !ok || bt.Kind() != types.Uint8 {
					continue
				}
				n++
				if u.Referrers() == nil {
					continue
				}
				var uses func(v ssa.Value, d int)
				uses = func(v ssa.Value, d int) {
					if d > 3 || v.Referrers() == nil {
						return
					}
					for _, ref := range *v.Referrers() {
						switch x := ref.(type) {
						case *ssa.Slice:
							uses(x, d+1)
						case *ssa.IndexAddr:
							for _, r2 := range *x.Referrers() {
								if st, ok := r2.(*ssa.Store); ok && st.Addr == ssa.Value(x) {
									bad = append(bad, fmt.Sprintf("%s: %s stores into the package-level buffer %s", p.at(st), funcLabel(fn), g.Name()))
								}
							}
						case *ssa.Call:
							cc := x.Common()
							switch {
							case isBuiltinCall(cc, "copy") && len(cc.Args) > 0 && cc.Args[0] == v:
								bad = append(bad, fmt.Sprintf("%s: %s copies into the package-level buffer %s", p.at(x), funcLabel(fn), g.Name()))
							case cc.IsInvoke() && (cc.Method.Name() == "Read" || cc.Method.Name() == "ReadAt") && len(cc.Args) > 0 && cc.Args[0] == v:
								bad = append(bad, fmt.Sprintf("%s: %s reads into the package-level buffer %s", p.at(x), funcLabel(fn), g.Name()))
							case !cc.IsInvoke() && (strings.HasSuffix(calleeName(cc), ").Read") || strings.HasSuffix(calleeName(cc), ").ReadAt") || calleeName(cc) == "io.ReadFull" || calleeName(cc) == "io.CopyBuffer"):
								for _, a := range cc.Args {
									if a == v {
										bad = append(bad, fmt.Sprintf("%s: %s reads into the package-level buffer %s", p.at(x), funcLabel(fn), g.Name()))
									}
								}
							}
						}
					}
				}
				uses(u, 0)
			}
		}
	}
	if len(bad) > 0 {
		sort.Strings(bad)
		ob.Pos = strings.SplitN(bad[0], ": ", 2)[0]
		ob.Status, ob.Msg, ob.Path = Violated, "a package-level byte slice is used as a scratch buffer: two calls running at the same time (two backups, or any two handles in one process) overwrite each other's bytes, and a copy that reports success holds the other file's data", uniqStrings(bad)
	} else {
		ob.Status, ob.Msg = Discharged, fmt.Sprintf("%d use(s) of package-level byte slices, all read-only", n)
	}
	return []Ob{ob}
}

// ---------------------------------------------------------------------------
// R11 L9b RECOVER-LOOKS-AT-THE-INDEX (C11, C07, C05): Segment.Recover reports success only after it read
// the stored index (and so compared it, or found it missing): no outcome of the log scan - not even
// "nothing could be restored" - lets it return before that.
func (p *Prog) recoverLooksAtTheIndex() []Ob {
	rec := p.methodOf(p.R.Segment, "Recover")
	ob := Ob{Rule: "R11", Inst: "L9b:(segment.Segment).Recover:looks-at-the-index", Props: []string{"C11", "C07", "C05"}, Pos: "-", Func: funcLabel(rec), Nontrivial: true}
	if rec == nil || rec.Blocks == nil {
		ob.Status, ob.Msg = Undecided, "Segment.Recover not found"
		return []Ob{ob}
	}
	ob.Pos = p.posStr(rec.Pos())
	ea := p.ErrAtomsCached()
	var reads []*ssa.Call
	for _, b := range rec.Blocks {
		for _, ins := range b.Instrs {
			if c, ok := ins.(*ssa.Call); ok && calleeName(c.Common()) == pkgIndex+".Read" {
				reads = append(reads, c)
			}
		}
	}
	if len(reads) == 0 {
		ob.Status, ob.Msg = Undecided, "Segment.Recover does not read the stored index"
		return []Ob{ob}
	}
	var bad []string
	n := 0
	for _, rt := range returnsOf(rec) {
		if rt.Block() == rec.Recover || ea.isFailureReturn(rec, rt) {
			continue
		}
		n++
		behind := false
		for _, c := range reads {
			if c.Block().Dominates(rt.Block()) {
				behind = true
			}
		}
		if !behind {
			bad = append(bad, p.at(rt)+": Recover can return without an error before it has looked at the stored index")
		}
	}
	if len(bad) > 0 {
		ob.Status, ob.Msg, ob.Path = Violated, "a recovery can end without comparing the index file with the log: index entries of records that were lost stay in front of everything the writer appends afterwards", bad
	} else {
		ob.Status, ob.Msg = Discharged, fmt.Sprintf("%d non-failing return(s), each behind the read of the stored index", n)
	}
	return []Ob{ob}
}
