package main

import (
	"fmt"
	"go/token"
	"go/types"
	"sort"
	"strings"

	"golang.org/x/tools/go/ssa"
)

// Rules added after the fourth seeded round.

// ---------------------------------------------------------------------------
// R33 TIME-VERBATIM (C01): on the publish path a message's Time is stored as given; the only value
// ever written over it is time.Now() (optionally .UTC()), and only where the given time IsZero.
func ruleR33(p *Prog) []Ob {
	var obs []Ob
	root := p.R.ImplMethods["Publish"]
	if root == nil {
		return []Ob{{Rule: "R33", Inst: "time-verbatim", Props: []string{"C01"}, Pos: "-", Status: Undecided, Msg: "Log.Publish not found"}}
	}
	reach := p.moduleReach(root)
	isTimeField := func(fa *ssa.FieldAddr) bool {
		f := fieldVarOfAddr(fa)
		return f != nil && typeIs(f.Type(), "time", "Time") && namedOf(derefPtr(fa.X.Type())) == p.R.Message
	}
	zeroGuarded := func(b *ssa.BasicBlock) bool {
		for d := b; d != nil; d = d.Idom() {
			id := d.Idom()
			if id == nil {
				break
			}
			iff, ok := terminator(id).(*ssa.If)
			if !ok {
				continue
			}
			cond, pos := iff.Cond, true
			for {
				u, ok := cond.(*ssa.UnOp)
				if !ok || u.Op != token.NOT {
					break
				}
				pos, cond = !pos, u.X
			}
			c, ok := cond.(*ssa.Call)
			if !ok || calleeName(c.Common()) != "(time.Time).IsZero" {
				continue
			}
			si := 0
			if !pos {
				si = 1
			}
			if edgeDominates(id, si, b) {
				return true
			}
		}
		return false
	}
	var okVal func(v ssa.Value, d int) (bool, string)
	okVal = func(v ssa.Value, d int) (bool, string) {
		if d > 6 {
			return false, "value too deep to classify"
		}
		v = canon(v)
		switch x := v.(type) {
		case *ssa.UnOp:
			if x.Op == token.MUL {
				if fa, ok := x.X.(*ssa.FieldAddr); ok && isTimeField(fa) {
					return true, ""
				}
			}
		case *ssa.Field:
			if f := fieldVarOfField(x); f != nil && typeIs(f.Type(), "time", "Time") && namedOf(x.X.Type()) == p.R.Message {
				return true, ""
			}
		case *ssa.Parameter:
			if typeIs(x.Type(), "time", "Time") {
				return true, "" // judged at the caller's store
			}
		case *ssa.Phi:
			for _, e := range x.Edges {
				if ok, why := okVal(e, d+1); !ok {
					return false, why
				}
			}
			return true, ""
		case *ssa.Call:
			switch calleeName(x.Common()) {
			case "time.Now":
				if zeroGuarded(x.Block()) {
					return true, ""
				}
				return false, "time.Now() replaces a time that was not tested with IsZero"
			case "(time.Time).UTC":
				return okVal(x.Call.Args[0], d+1)
			}
			if g := x.Common().StaticCallee(); g != nil && inModule(g) && g.Blocks != nil {
				for _, rt := range returnsOf(g) {
					for i := range rt.Results {
						if typeIs(g.Signature.Results().At(i).Type(), "time", "Time") {
							if ok, why := okVal(returnOperand(rt, i), d+1); !ok {
								return false, why
							}
						}
					}
				}
				for _, a := range x.Call.Args {
					if typeIs(a.Type(), "time", "Time") {
						if ok, why := okVal(a, d+1); !ok {
							return false, why
						}
					}
				}
				return true, ""
			}
			return false, "the stored time is the result of " + calleeName(x.Common())
		}
		return false, fmt.Sprintf("the stored time is %s", v.String())
	}
	var fns []*ssa.Function
	for f := range reach {
		fns = append(fns, f)
	}
	sort.Slice(fns, func(i, j int) bool { return fns[i].Pos() < fns[j].Pos() })
	n := 0
	decoder := map[*ssa.Function]bool{}
	for _, d := range p.R.RecDecoders {
		decoder[d] = true
	}
	for _, fn := range fns {
		if decoder[fn] {
			continue // the read side builds the time from the stored microseconds (R9)
		}
		k := 0
		for _, b := range fn.Blocks {
			for _, ins := range b.Instrs {
				st, ok := ins.(*ssa.Store)
				if !ok {
					continue
				}
				fa, ok := st.Addr.(*ssa.FieldAddr)
				if !ok || !isTimeField(fa) {
					continue
				}
				n++
				k++
				ob := Ob{Rule: "R33", Inst: fmt.Sprintf("time-verbatim:%s#%d", funcLabel(fn), k), Props: []string{"C01", "C10"}, Pos: p.at(st), Func: funcLabel(fn), Nontrivial: true}
				if ok, why := okVal(st.Val, 0); ok {
					ob.Status, ob.Msg = Discharged, "the only value written over a message's time on the publish path is time.Now() where the given time is zero"
				} else {
					ob.Status, ob.Msg = Violated, "the publish path alters the time of a message before storing it ("+why+"): what is read back is not what was published"
				}
				obs = append(obs, ob)
			}
		}
	}
	obs = append(obs, Ob{Rule: "R33", Inst: "time-verbatim:scope", Props: []string{"C01", "C10"}, Pos: p.posStr(root.Pos()), Func: funcLabel(root), Status: Discharged,
		Msg: fmt.Sprintf("%d module functions reachable from Log.Publish scanned, %d stores to Message.Time", len(reach), n)})
	return obs
}

// moduleReach: module functions reachable from root through the call graph.
func (p *Prog) moduleReach(root *ssa.Function) map[*ssa.Function]bool {
	seen := map[*ssa.Function]bool{}
	var walk func(f *ssa.Function)
	walk = func(f *ssa.Function) {
		if f == nil || seen[f] || !inModule(f) || f.Blocks == nil {
			return
		}
		seen[f] = true
		for _, b := range f.Blocks {
			for _, ins := range b.Instrs {
				if c, ok := ins.(ssa.CallInstruction); ok {
					for _, g := range p.callees(c) {
						walk(g)
					}
				}
				if mc, ok := ins.(*ssa.MakeClosure); ok {
					if g, ok := mc.Fn.(*ssa.Function); ok {
						walk(g)
					}
				}
			}
		}
	}
	walk(root)
	return seen
}

// ---------------------------------------------------------------------------
// R34 SEGMENT-IDENTITY (C01, C12): Segment values are compared with == to tell "same files"; every
// Segment is therefore built from a directory string taken verbatim from where the log's directory
// is kept (another Segment's Dir, a field, a parameter), never from a recomputed path.
func ruleR34(p *Prog) []Ob {
	var obs []Ob
	r := p.R
	var dirField *types.Var
	if st := structOf(r.Segment.Underlying()); st != nil {
		for i := 0; i < st.NumFields(); i++ {
			if st.Field(i).Name() == "Dir" {
				dirField = st.Field(i)
			}
		}
	}
	// the constructor: stores one of its parameters into Segment.Dir
	var ctor *ssa.Function
	dirIdx := -1
	for _, fn := range p.Funcs {
		if !srcFunc(fn) || fn.Signature.Recv() != nil {
			continue
		}
		for _, b := range fn.Blocks {
			for _, ins := range b.Instrs {
				st, ok := ins.(*ssa.Store)
				if !ok {
					continue
				}
				fa, ok := st.Addr.(*ssa.FieldAddr)
				if !ok || fieldVarOfAddr(fa) != dirField || dirField == nil {
					continue
				}
				if pr, ok := st.Val.(*ssa.Parameter); ok {
					for i, q := range fn.Params {
						if q == pr {
							ctor, dirIdx = fn, i
						}
					}
				}
			}
		}
	}
	if ctor == nil {
		return []Ob{{Rule: "R34", Inst: "segment-identity", Props: []string{"C01", "C12"}, Pos: "-", Status: Undecided, Msg: "no constructor stores a parameter into Segment.Dir"}}
	}
	// values the open path stores into string fields of the log implementation
	kept := map[ssa.Value]bool{}
	for _, fn := range p.Funcs {
		for _, b := range fn.Blocks {
			for _, ins := range b.Instrs {
				if st, ok := ins.(*ssa.Store); ok {
					if fa, ok := st.Addr.(*ssa.FieldAddr); ok && namedOf(derefPtr(fa.X.Type())) == r.Impl {
						if b, ok := st.Val.Type().Underlying().(*types.Basic); ok && b.Kind() == types.String {
							kept[canon(st.Val)] = true
						}
					}
				}
			}
		}
	}
	n := 0
	perFn := map[*ssa.Function]int{}
	for _, fn := range p.Funcs {
		if !srcFunc(fn) {
			continue
		}
		for _, b := range fn.Blocks {
			for _, ins := range b.Instrs {
				c, ok := ins.(*ssa.Call)
				if !ok || c.Common().StaticCallee() != ctor {
					continue
				}
				n++
				perFn[fn]++
				arg := canon(c.Call.Args[dirIdx])
				ob := Ob{Rule: "R34", Inst: fmt.Sprintf("segment-identity:%s#%d", funcLabel(fn), perFn[fn]), Props: []string{"C01", "C12"}, Pos: p.at(c), Func: funcLabel(fn)}
				verbatim, what := false, ""
				if f, _ := loadedField(arg); f != nil {
					verbatim, what = true, "field "+f.Name()
				} else if pr, ok := arg.(*ssa.Parameter); ok {
					verbatim, what = true, "parameter "+pr.Name()
				} else if fv, ok := arg.(*ssa.FreeVar); ok {
					verbatim, what = true, "captured "+fv.Name()
				} else if kept[arg] {
					verbatim, what = true, "the value the log keeps as its directory"
				}
				// a method that already has a Segment derives from that Segment's Dir
				if rn := recvNamed(fn); verbatim && (rn == r.Segment || rn == r.RewriteSegment) {
					if f, _ := loadedField(arg); f != dirField {
						verbatim = false
					}
				}
				if verbatim {
					ob.Status, ob.Msg = Discharged, "the directory of the new Segment is taken verbatim from "+what
				} else {
					ob.Status, ob.Msg = Violated, "a Segment is built from a recomputed directory string ("+arg.String()+"): Segment values are compared with == to decide whether a rewrite replaces its source in place, and two spellings of one directory make that comparison say 'different files'"
				}
				obs = append(obs, ob)
			}
		}
	}
	if n == 0 {
		obs = append(obs, Ob{Rule: "R34", Inst: "segment-identity", Props: []string{"C01", "C12"}, Pos: "-", Status: Undecided, Msg: "no call of the Segment constructor found"})
	}
	return obs
}

// ---------------------------------------------------------------------------
// R11 L7: a stored index is accepted only if it equals the whole index derived from the log.
func (p *Prog) wholeIndexCompare() []Ob {
	var obs []Ob
	for _, cl := range p.copyLoops() {
		if cl.loop == nil {
			continue
		}
		for _, it := range cl.items {
			phi := p.itemAppendedTo(it, cl)
			if phi == nil {
				continue
			}
			derived := func(v ssa.Value) (bool, bool) { // (related, whole)
				whole := true
				for d := 0; d < 6; d++ {
					if v == phi {
						return true, whole
					}
					switch x := v.(type) {
					case *ssa.Slice:
						whole = false
						v = x.X
						continue
					case *ssa.Phi:
						// the value after the loop is the header phi itself in this code; other phis are not followed
					}
					break
				}
				return false, false
			}
			for _, b := range cl.fn.Blocks {
				for _, ins := range b.Instrs {
					c, ok := ins.(*ssa.Call)
					if !ok || !strings.HasPrefix(calleeName(c.Common()), "slices.Equal") {
						continue
					}
					for _, a := range c.Call.Args {
						rel, whole := derived(a)
						if !rel {
							continue
						}
						ob := Ob{Rule: "R11", Inst: "L7:" + funcLabel(cl.fn) + ":whole-index-compare", Props: []string{"C02", "C05", "C07", "C11"}, Pos: p.at(c), Func: funcLabel(cl.fn), Nontrivial: true}
						if whole {
							ob.Status, ob.Msg = Discharged, "the stored index is compared with the whole index derived from the log"
						} else {
							ob.Status, ob.Msg = Violated, "the stored index is compared with only a part of the index derived from the log: an index that lags the log (or runs ahead of it) is accepted, and the next offset is taken from it"
						}
						obs = append(obs, ob)
					}
				}
			}
		}
	}
	return obs
}

// ---------------------------------------------------------------------------
// R35 LOOKUP-OUTCOMES (C10, C09): a query that walks the segments classifies every outcome the
// per-segment lookup can report. Outcomes are the sentinels returned by pure (I/O-free) lookup
// functions; one that reaches the loop's catch-all ends the search although other segments remain.
func ruleR35(p *Prog) []Ob {
	var obs []Ob
	ea := p.ErrAtomsCached()
	pureMemo := map[*ssa.Function]int{}
	var pure func(f *ssa.Function) bool
	allow := map[string]bool{"sort": true, "slices": true, "bytes": true, "errors": true, "fmt": true, "math": true, "strings": true, "hash/fnv": true, "encoding/binary": true, "cmp": true}
	pure = func(f *ssa.Function) bool {
		if v, ok := pureMemo[f]; ok {
			return v != 2
		}
		pureMemo[f] = 1
		res := true
		for _, b := range f.Blocks {
			for _, ins := range b.Instrs {
				c, ok := ins.(ssa.CallInstruction)
				if !ok {
					continue
				}
				if _, isB := c.Common().Value.(*ssa.Builtin); isB {
					continue
				}
				gs := p.callees(c)
				if len(gs) == 0 {
					if _, isMC := c.Common().Value.(*ssa.MakeClosure); !isMC && c.Common().StaticCallee() == nil {
						res = false
					}
				}
				for _, g := range gs {
					if inModule(g) {
						if g.Blocks != nil && !pure(g) {
							res = false
						}
					} else if !allow[funcPkgPath(g)] && !strings.HasPrefix(funcPkgPath(g), "github.com/plar/go-adaptive-radix-tree") {
						res = false
					}
				}
			}
		}
		if res {
			pureMemo[f] = 1
		} else {
			pureMemo[f] = 2
		}
		return res
	}
	outcomes := atomset{}
	for _, fn := range p.Funcs {
		if !srcFunc(fn) || fn.Parent() != nil || !pure(fn) {
			continue
		}
		ei := errResultIndex(fn)
		if ei < 0 || ea.ret[fn] == nil || ea.ret[fn][ei] == nil {
			continue
		}
		for a := range ea.ret[fn][ei] {
			if strings.HasPrefix(a, "G:") {
				outcomes[a] = true
			}
		}
	}
	// empty-segment outcomes: returned by a pure lookup on the edge where len(items) == 0
	emptyOutcomes := atomset{}
	for _, fn := range p.Funcs {
		if !srcFunc(fn) || fn.Parent() != nil || !pure(fn) || errResultIndex(fn) < 0 {
			continue
		}
		ei := errResultIndex(fn)
		for _, rt := range returnsOf(fn) {
			a := sentinelOperand(returnOperand(rt, ei))
			if a == "" || !outcomes[a] {
				continue
			}
			for _, hb := range fn.Blocks {
				iff, ok := terminator(hb).(*ssa.If)
				if !ok {
					continue
				}
				x, y, op, ok := relCond(iff.Cond)
				if !ok || op != token.EQL {
					continue
				}
				isLen := func(v ssa.Value) bool {
					c, ok := v.(*ssa.Call)
					return ok && isBuiltinCall(c.Common(), "len")
				}
				k, isK := constInt(y)
				if isLen(x) && isK && k == 0 && edgeDominates(hb, 0, rt.Block()) {
					emptyOutcomes[a] = true
				}
			}
		}
	}
	// a query by relative offset (Get) must not take "this segment is empty" from the one segment it
	// picked as the answer for the whole log
	if m := p.R.ImplMethods["Get"]; m != nil && m.Blocks != nil {
		for _, b := range m.Blocks {
			for _, ins := range b.Instrs {
				c, ok := ins.(*ssa.Call)
				if !ok {
					continue
				}
				g := c.Common().StaticCallee()
				if g == nil || recvNamed(g) != p.R.SegReader || errResultIndex(g) < 0 {
					continue
				}
				if _, loop := innermostLoop(b); loop != nil {
					continue
				}
				var errV ssa.Value
				for _, ref := range *c.Referrers() {
					if ex, ok := ref.(*ssa.Extract); ok && ex.Index == errResultIndex(g) {
						errV = ex
					}
				}
				if errV == nil {
					continue
				}
				var S []string
				for a := range ea.atoms(errV, 0) {
					if emptyOutcomes[a] {
						S = append(S, a)
					}
				}
				sort.Strings(S)
				if len(S) == 0 {
					continue
				}
				// the fallback itself: a call that only runs where an earlier pick reported "empty"
				fallback := false
				for _, hb := range m.Blocks {
					iff, ok := terminator(hb).(*ssa.If)
					if !ok {
						continue
					}
					for _, t := range sentinelTests(iff.Cond) {
						if emptyOutcomes[t.atom] && edgeDominates(hb, t.edge, b) && hb != b {
							fallback = true
						}
					}
				}
				if fallback {
					continue
				}
				handled := map[string]bool{}
				for _, hb := range m.Blocks {
					if iff, ok := terminator(hb).(*ssa.If); ok {
						if t, ok := classifyErrCond(iff.Cond, errV); ok && (t.kind == "eq" || t.kind == "is") {
							for _, a := range S {
								if a == t.target || (t.kind == "is" && ea.matchesIs(a, t.target)) {
									handled[a] = true
								}
							}
						}
					}
				}
				ob := Ob{Rule: "R35", Inst: "empty-segment-outcome:Log.Get:" + shortCallee(g), Props: []string{"C04"}, Pos: p.at(c), Func: funcLabel(m), Nontrivial: true}
				var missing []string
				for _, a := range S {
					if !handled[a] {
						missing = append(missing, shortAtom(a))
					}
				}
				if len(missing) > 0 {
					ob.Status, ob.Msg = Violated, fmt.Sprintf("the one segment Log.Get picks can report %s (it is empty), and Log.Get passes that on as the answer for the whole log: with an empty head, Get(OffsetNewest) fails although earlier segments hold messages", strings.Join(missing, ", "))
				} else {
					ob.Status, ob.Msg = Discharged, "the empty-segment outcome of the picked segment is classified by Log.Get before anything is returned"
				}
				obs = append(obs, ob)
			}
		}
	}
	names := sortedKeys(p.R.ImplMethods)
	n := 0
	for _, q := range names {
		m := p.R.ImplMethods[q]
		if m == nil || m.Blocks == nil {
			continue
		}
		for _, b := range m.Blocks {
			if _, loop := innermostLoop(b); loop == nil {
				continue
			}
			for _, ins := range b.Instrs {
				c, ok := ins.(*ssa.Call)
				if !ok {
					continue
				}
				g := c.Common().StaticCallee()
				if g == nil || recvNamed(g) != p.R.SegReader {
					continue
				}
				ei := errResultIndex(g)
				if ei < 0 {
					continue
				}
				var errV ssa.Value
				if g.Signature.Results().Len() == 1 {
					errV = c
				} else {
					for _, ref := range *c.Referrers() {
						if ex, ok := ref.(*ssa.Extract); ok && ex.Index == ei {
							errV = ex
						}
					}
				}
				if errV == nil {
					continue
				}
				got := ea.atoms(errV, 0)
				var S []string
				for a := range got {
					if outcomes[baseAtom(a)] && a == baseAtom(a) {
						S = append(S, a)
					}
				}
				sort.Strings(S)
				if len(S) == 0 {
					continue
				}
				handled := map[string]bool{}
				for _, hb := range m.Blocks {
					iff, ok := terminator(hb).(*ssa.If)
					if !ok {
						continue
					}
					if t, ok := classifyErrCond(iff.Cond, errV); ok && (t.kind == "eq" || t.kind == "is") {
						for _, a := range S {
							if a == t.target || (t.kind == "is" && ea.matchesIs(a, t.target)) {
								handled[a] = true
							}
						}
					}
				}
				n++
				ob := Ob{Rule: "R35", Inst: "lookup-outcomes:Log." + q + ":" + shortCallee(g), Props: methodPropsAll[q], Pos: p.at(c), Func: funcLabel(m), Nontrivial: true}
				var missing []string
				for _, a := range S {
					if !handled[a] {
						missing = append(missing, shortAtom(a))
					}
				}
				if len(missing) > 0 {
					ob.Status, ob.Msg = Violated, fmt.Sprintf("the per-segment lookup can report %s, which the loop over the segments does not classify: it ends the search as a failure although other segments may hold the answer", strings.Join(missing, ", "))
				} else {
					var hs []string
					for _, a := range S {
						hs = append(hs, shortAtom(a))
					}
					ob.Status, ob.Msg = Discharged, "every outcome of the per-segment lookup is classified by the loop: "+strings.Join(hs, ", ")
				}
				obs = append(obs, ob)
			}
		}
	}
	if n == 0 {
		obs = append(obs, Ob{Rule: "R35", Inst: "lookup-outcomes", Props: []string{"C10", "C09"}, Pos: "-", Status: Undecided, Msg: "no per-segment lookup with outcome sentinels found inside a loop of a Log method"})
	}
	return obs
}

func shortCallee(g *ssa.Function) string {
	s := funcLabel(g)
	if i := strings.LastIndex(s, "."); i >= 0 {
		return s[i+1:]
	}
	return s
}

// ---------------------------------------------------------------------------
// R2 O8 / O9 (C05)

// atomicReplace (O8): a live log file is replaced by one rename onto its name; nothing on a path to
// that rename removes the name or renames it away first (a crash in between leaves no log at all).
func (p *Prog) atomicReplace() []Ob {
	var obs []Ob
	isLive := func(pc pathClass) bool {
		return pc.kind == "reader.Path" || (pc.kind == "seg" && pc.fld == "Log")
	}
	for _, fn := range p.Funcs {
		if !srcFunc(fn) {
			continue
		}
		ops := p.fsOps(fn)
		for _, o := range ops {
			if o.op != "RENAME" || !isLive(o.b) {
				continue
			}
			ob := Ob{Rule: "R2", Inst: "O8:" + funcLabel(fn) + ":atomic-replace", Props: []string{"C05"}, Pos: p.at(o.call), Func: funcLabel(fn), Nontrivial: true}
			var bad []string
			for _, q := range ops {
				if q.call == o.call || (q.op != "REMOVE" && q.op != "RENAME") {
					continue
				}
				if isLive(q.a) && q.a.String() == o.b.String() && canReach(q.call, o.call) {
					bad = append(bad, fmt.Sprintf("%s: %s of %s precedes the rename that puts the replacement in place", p.at(q.call), strings.ToLower(q.op), q.a))
				}
			}
			if len(bad) > 0 {
				ob.Status, ob.Msg, ob.Path = Violated, "the live log is moved away or removed before its replacement is renamed onto it: a crash between the two steps leaves the segment without a log", bad
			} else {
				ob.Status, ob.Msg = Discharged, "the replacement is renamed onto the live name in one step"
			}
			obs = append(obs, ob)
		}
	}
	return obs
}

// recoverReplaces (O9): when the scan of a recovering copy loop ends at corruption, every success
// return is preceded by the rename of the rebuilt log over the damaged one.
func (p *Prog) recoverReplaces() []Ob {
	var obs []Ob
	ea := p.ErrAtomsCached()
	corrupted := "G:" + pkgMessage + ".ErrCorrupted"
	for _, cl := range p.copyLoops() {
		if cl.loop == nil {
			continue
		}
		fn := cl.fn
		var rename *ssa.Call
		for _, o := range p.fsOps(fn) {
			if o.op == "RENAME" && o.a.kind == "writer.Path" {
				rename = o.call
			}
		}
		if rename == nil {
			continue
		}
		type edge struct{ from, to *ssa.BasicBlock }
		var starts []edge
		for b := range cl.loop {
			iff, ok := terminator(b).(*ssa.If)
			if !ok {
				continue
			}
			t, ok := classifyErrCond(iff.Cond, cl.errV)
			if !ok || (t.kind != "is" && t.kind != "eq") || t.target != corrupted {
				continue
			}
			si := 1
			if t.trueMeans {
				si = 0
			}
			starts = append(starts, edge{b, b.Succs[si]})
		}
		sort.Slice(starts, func(i, j int) bool { return starts[i].from.Index < starts[j].from.Index })
		for _, st := range starts {
			ob := Ob{Rule: "R2", Inst: "O9:" + funcLabel(fn) + ":corruption-replaced", Props: []string{"C05"}, Pos: p.at(terminator(st.from)), Func: funcLabel(fn), Nontrivial: true}
			var bad []string
			seen := map[string]bool{}
			var walk func(pred, b *ssa.BasicBlock, known map[ssa.Value]bool, depth int)
			walk = func(pred, b *ssa.BasicBlock, known map[ssa.Value]bool, depth int) {
				if depth > 200 {
					return
				}
				k2 := map[ssa.Value]bool{}
				for k, v := range known {
					k2[k] = v
				}
				pi := -1
				for i, q := range b.Preds {
					if q == pred {
						pi = i
					}
				}
				for _, ins := range b.Instrs {
					phi, ok := ins.(*ssa.Phi)
					if !ok {
						break
					}
					delete(k2, phi)
					if pi < 0 {
						continue
					}
					e := phi.Edges[pi]
					if c, ok := e.(*ssa.Const); ok && c.Value != nil && c.Value.Kind().String() == "Bool" {
						k2[phi] = c.Value.String() == "true"
					} else if v, ok := known[e]; ok {
						k2[phi] = v
					}
				}
				var ks []string
				for k, v := range k2 {
					ks = append(ks, fmt.Sprintf("%s=%v", k.Name(), v))
				}
				sort.Strings(ks)
				key := fmt.Sprintf("%d|%s", b.Index, strings.Join(ks, ","))
				if seen[key] {
					return
				}
				seen[key] = true
				for _, ins := range b.Instrs {
					if ins == ssa.Instruction(rename) {
						return
					}
				}
				switch t := terminator(b).(type) {
				case *ssa.Return:
					if !ea.isFailureReturn(fn, t) {
						bad = append(bad, p.at(t)+": success is returned without the rebuilt log having replaced the damaged one")
					}
					return
				case *ssa.If:
					cond, pos := t.Cond, true
					for {
						u, ok := cond.(*ssa.UnOp)
						if !ok || u.Op != token.NOT {
							break
						}
						pos, cond = !pos, u.X
					}
					if v, ok := k2[cond]; ok {
						si := 1
						if v == pos {
							si = 0
						}
						walk(b, b.Succs[si], k2, depth+1)
						return
					}
				}
				for _, s := range b.Succs {
					walk(b, s, k2, depth+1)
				}
			}
			walk(st.from, st.to, map[ssa.Value]bool{}, 0)
			bad = uniqStrings(bad)
			if len(bad) > 0 {
				ob.Status, ob.Msg, ob.Path = Violated, "the scan found the log damaged, yet a success return is reachable that leaves the damaged file in place: the next open appends behind torn bytes or fails", bad
			} else {
				ob.Status, ob.Msg = Discharged, "from the corruption exit of the scan every success return passes the rename of the rebuilt log over the damaged one"
			}
			obs = append(obs, ob)
		}
	}
	return obs
}

// ---------------------------------------------------------------------------
// R10g: an index is read as a whole number of items; a size that is not a multiple of the item
// size is rejected, not rounded.
func (p *Prog) wholeItems() []Ob {
	var obs []Ob
	isSizeCall := func(v ssa.Value) bool {
		c, ok := canon(v).(*ssa.Call)
		if !ok {
			return false
		}
		g := c.Common().StaticCallee()
		return g != nil && recvNamed(g) == p.R.Params && g.Name() == "Size"
	}
	for _, fn := range p.Funcs {
		if !srcFunc(fn) || funcPkgPath(fn) != pkgIndex {
			continue
		}
		for _, b := range fn.Blocks {
			for _, ins := range b.Instrs {
				ms, ok := ins.(*ssa.MakeSlice)
				if !ok {
					continue
				}
				sl, ok := ms.Type().Underlying().(*types.Slice)
				if !ok || namedOf(sl.Elem()) != p.R.Item {
					continue
				}
				q, ok := stripConv(canon(ms.Len)).(*ssa.BinOp)
				if !ok || q.Op != token.QUO || !isSizeCall(q.Y) {
					continue
				}
				ob := Ob{Rule: "R10", Inst: "g:whole-items:" + funcLabel(fn), Props: []string{"C05", "C11", "C07"}, Pos: p.at(ms), Func: funcLabel(fn), Nontrivial: true}
				found := false
				for _, hb := range fn.Blocks {
					iff, ok := terminator(hb).(*ssa.If)
					if !ok {
						continue
					}
					x, y, op, ok := relCond(iff.Cond)
					if !ok {
						continue
					}
					rem, isRem := stripConv(x).(*ssa.BinOp)
					other := y
					if !isRem || rem.Op != token.REM {
						rem, isRem = stripConv(y).(*ssa.BinOp)
						other = x
					}
					if !isRem || rem.Op != token.REM || canon(rem.X) != canon(q.X) || !isSizeCall(rem.Y) {
						continue
					}
					if k, isK := constInt(other); !isK || k != 0 {
						continue
					}
					zeroEdge := 1 // for >, != : false edge means remainder == 0
					if op == token.EQL {
						zeroEdge = 0
					}
					if edgeDominates(hb, zeroEdge, b) {
						found = true
					}
				}
				if found {
					ob.Status, ob.Msg = Discharged, "the item count is computed only where the data size is a whole multiple of the item size"
				} else {
					ob.Status, ob.Msg = Violated, "the index is cut to a whole number of items instead of being rejected when its size is not a multiple of the item size: a torn trailing item stays in the file and every later append lands misaligned"
				}
				obs = append(obs, ob)
			}
		}
	}
	return obs
}

// ---------------------------------------------------------------------------
// R36 BOUNDARY-HAND-OFF (C10): the per-segment time lookup sees one segment only. When the requested
// time equals the first timestamp of a segment, the older segment may end with messages of that same
// time, so either (a) the lookup itself never answers where time == first timestamp (it hands off),
// or (b) the loop over the segments can go on to the older segment after a successful lookup.
func ruleR36(p *Prog) []Ob {
	var obs []Ob
	ea := p.ErrAtomsCached()
	for _, q := range []string{"GetByTime"} {
		m := p.R.ImplMethods[q]
		ob := Ob{Rule: "R36", Inst: "boundary-hand-off:Log." + q, Props: []string{"C10"}, Pos: "-", Func: funcLabel(m), Nontrivial: true}
		if m == nil || m.Blocks == nil {
			ob.Status, ob.Msg = Undecided, "method not found"
			obs = append(obs, ob)
			continue
		}
		ob.Pos = p.posStr(m.Pos())
		var call *ssa.Call
		var errV ssa.Value
		var header *ssa.BasicBlock
		var loop map[*ssa.BasicBlock]bool
		for _, b := range m.Blocks {
			h, l := innermostLoop(b)
			if l == nil {
				continue
			}
			for _, ins := range b.Instrs {
				c, ok := ins.(*ssa.Call)
				if !ok {
					continue
				}
				g := c.Common().StaticCallee()
				if g == nil || recvNamed(g) != p.R.SegReader || errResultIndex(g) < 0 {
					continue
				}
				hasOutcome := false
				for _, ref := range *c.Referrers() {
					if ex, ok := ref.(*ssa.Extract); ok && ex.Index == errResultIndex(g) {
						for a := range ea.atoms(ex, 0) {
							if strings.HasPrefix(a, "G:"+pkgIndex+".") {
								hasOutcome = true
							}
						}
						if hasOutcome {
							errV = ex
						}
					}
				}
				if hasOutcome {
					call, header, loop = c, h, l
				}
			}
		}
		if call == nil {
			ob.Status, ob.Msg = Undecided, "no per-segment lookup inside a loop over the segments found"
			obs = append(obs, ob)
			continue
		}
		ob.Pos = p.at(call)
		// (b) the success edge can reach the loop header again
		canContinue := false
		for b := range loop {
			iff, ok := terminator(b).(*ssa.If)
			if !ok {
				continue
			}
			t, ok := classifyErrCond(iff.Cond, errV)
			if !ok || t.kind != "nil" {
				continue
			}
			si := 1
			if t.trueMeans {
				si = 0
			}
			seen := map[*ssa.BasicBlock]bool{}
			work := []*ssa.BasicBlock{b.Succs[si]}
			for len(work) > 0 {
				x := work[len(work)-1]
				work = work[:len(work)-1]
				if x == header {
					canContinue = true
					break
				}
				if seen[x] || !loop[x] {
					continue
				}
				seen[x] = true
				work = append(work, x.Succs...)
			}
		}
		// (a) the pure lookup never succeeds where ts <= items[0].Timestamp
		handsOff := false
		for _, fn := range p.Funcs {
			if !srcFunc(fn) || funcPkgPath(fn) != pkgIndex || fn.Parent() != nil || errResultIndex(fn) < 0 {
				continue
			}
			rets := ea.ret[fn]
			if rets == nil || rets[errResultIndex(fn)] == nil || !rets[errResultIndex(fn)]["G:"+pkgIndex+".ErrTimeBeforeStart"] {
				continue
			}
			isFirstTS := func(v ssa.Value) bool {
				f, base := loadedField(canon(v))
				if f == nil || f.Name() != "Timestamp" {
					return false
				}
				// base is items[0]: an IndexAddr with constant 0, a load of one, or a local copy of one
				var ia *ssa.IndexAddr
				cur := base
				for d := 0; d < 4 && ia == nil && cur != nil; d++ {
					switch x := cur.(type) {
					case *ssa.IndexAddr:
						ia = x
					case *ssa.UnOp:
						cur = x.X
					case *ssa.Alloc:
						if sts := allocStores(x); len(sts) == 1 {
							cur = sts[0].Val
						} else {
							cur = nil
						}
					default:
						cur = nil
					}
				}
				if ia == nil {
					return false
				}
				k, isK := constInt(ia.Index)
				return isK && k == 0
			}
			isTS := func(v ssa.Value) bool { _, ok := canon(v).(*ssa.Parameter); return ok }
			all := true
			nSucc := 0
			for _, rt := range returnsOf(fn) {
				if ea.isFailureReturn(fn, rt) {
					continue
				}
				nSucc++
				dom := false
				for _, hb := range fn.Blocks {
					iff, ok := terminator(hb).(*ssa.If)
					if !ok {
						continue
					}
					x, y, op, ok := relCond(iff.Cond)
					if !ok {
						continue
					}
					// normalise to: ts OP first
					if isFirstTS(x) && isTS(y) {
						x, y = y, x
						switch op {
						case token.LSS:
							op = token.GTR
						case token.GTR:
							op = token.LSS
						case token.LEQ:
							op = token.GEQ
						case token.GEQ:
							op = token.LEQ
						}
					}
					if !isTS(x) || !isFirstTS(y) {
						continue
					}
					// strict ts > first holds on: false edge of ts <= first, true edge of ts > first
					if (op == token.LEQ && edgeDominates(hb, 1, rt.Block())) || (op == token.GTR && edgeDominates(hb, 0, rt.Block())) {
						dom = true
					}
				}
				if !dom {
					all = false
				}
			}
			if nSucc > 0 && all {
				handsOff = true
			}
		}
		switch {
		case handsOff:
			ob.Status, ob.Msg = Discharged, "the per-segment lookup never answers where the time equals the segment's first timestamp: it hands off to the older segment"
		case canContinue:
			ob.Status, ob.Msg = Discharged, "after a successful per-segment lookup the loop over the segments can go on to the older segment (which may end with messages of the same time)"
		default:
			ob.Status, ob.Msg = Violated, "a successful per-segment lookup always ends the search, and the lookup answers where the time equals the segment's first timestamp: when the older segment ends with messages of that same time the answer is not the first message at or after the time"
		}
		obs = append(obs, ob)
	}
	return obs
}

type sentinelTest struct {
	atom string
	edge int // the successor index on which the tested value is that sentinel
}

// sentinelTests: the sentinels a condition compares some error value with (== or errors.Is), whatever
// the error value is.
func sentinelTests(cond ssa.Value) []sentinelTest {
	pos := true
	for {
		u, ok := cond.(*ssa.UnOp)
		if !ok || u.Op != token.NOT {
			break
		}
		pos, cond = !pos, u.X
	}
	edge := func(holds bool) int {
		if holds == pos {
			return 0
		}
		return 1
	}
	var out []sentinelTest
	switch c := cond.(type) {
	case *ssa.BinOp:
		if c.Op == token.EQL || c.Op == token.NEQ {
			for _, side := range []ssa.Value{c.X, c.Y} {
				if a := sentinelOperand(side); a != "" {
					out = append(out, sentinelTest{a, edge(c.Op == token.EQL)})
				}
			}
		}
	case *ssa.Call:
		if calleeName(c.Common()) == "errors.Is" && len(c.Call.Args) == 2 {
			if a := sentinelOperand(c.Call.Args[1]); a != "" {
				out = append(out, sentinelTest{a, edge(true)})
			}
		}
	}
	return out
}
