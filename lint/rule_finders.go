package main

import (
	"fmt"
	"go/constant"
	"go/token"
	"go/types"
	"sort"
	"strings"

	"golang.org/x/tools/go/ssa"
)

// R37 FINDER-SHAPE and R38 TRIM-PLUMBING (C15, C16).
//
// The trim and compaction helpers are value-level algorithms; what can be read off the shape of the
// code, and is necessary for "a prefix of the live sequence and nothing else" / "only messages not
// newer than the cut-off" / "only earlier holders of the same key", is:
//   cursor     the scan starts at OffsetOldest and continues at the offset the last Consume returned
//   selection  every offset put into the result is the Offset of a message of the current batch, or
//              the value a key tree gave back for a message's own Key, stored from a message's own Offset
//   bound      the selection of a message is dominated by the comparison that keeps it inside the bound
//              (offset < before; not After(cut-off)), on that same message
//   key        the key tree is keyed by the message's Key bytes and stores that message's Offset
//   tombstone  a finder that selects the current message of a keyed scan does so only where its Value
//              is nil and its key was not seen before
//   plumbing   a wrapper hands the finder's set, unchanged, to the delete driver, only where the finder
//              succeeded

type finder struct {
	fn       *ssa.Function
	logParam *ssa.Parameter
	result   *ssa.MakeMap
	consumes []*ssa.Call
	keyed    bool
	elems    map[[2]ssa.Value]ssa.Value // (batch, index) -> the first IndexAddr naming that element
}

func (f *finder) canonElem(ia *ssa.IndexAddr) ssa.Value {
	if f.elems == nil {
		f.elems = map[[2]ssa.Value]ssa.Value{}
	}
	k := [2]ssa.Value{ia.X, ia.Index}
	if v, ok := f.elems[k]; ok {
		return v
	}
	f.elems[k] = ia
	return ia
}

func isOffsetSet(t types.Type) bool {
	m, ok := t.Underlying().(*types.Map)
	if !ok {
		return false
	}
	b, ok := m.Key().Underlying().(*types.Basic)
	if !ok || b.Kind() != types.Int64 {
		return false
	}
	st, ok := m.Elem().Underlying().(*types.Struct)
	return ok && st.NumFields() == 0
}

func (p *Prog) finders() []*finder {
	var out []*finder
	for _, fn := range p.Funcs {
		if !srcFunc(fn) || fn.Parent() != nil || fn.Signature.Recv() != nil || funcPkgPath(fn) != pkgRoot {
			continue
		}
		res := fn.Signature.Results()
		if res.Len() != 2 || !isOffsetSet(res.At(0).Type()) || !isErrType(res.At(1).Type()) {
			continue
		}
		f := &finder{fn: fn}
		for _, pr := range fn.Params {
			if namedOf(pr.Type()) == p.R.LogIface {
				f.logParam = pr
			}
		}
		if f.logParam == nil {
			continue
		}
		for _, b := range fn.Blocks {
			for _, ins := range b.Instrs {
				switch x := ins.(type) {
				case *ssa.Call:
					if x.Common().IsInvoke() && x.Common().Value == ssa.Value(f.logParam) && x.Common().Method.Name() == "Consume" {
						f.consumes = append(f.consumes, x)
					}
					if x.Common().IsInvoke() && (x.Common().Method.Name() == "Insert" || x.Common().Method.Name() == "Search") && x.Common().Method.Pkg() != nil && !inModulePath(x.Common().Method.Pkg().Path()) {
						f.keyed = true
					}
				case *ssa.MakeMap:
					if isOffsetSet(x.Type()) {
						f.result = x
					}
				}
			}
		}
		// (a function of this shape that never consumes is still judged: what it selects cannot be
		// the offset of a message it read)
		out = append(out, f)
	}
	sort.Slice(out, func(i, j int) bool { return out[i].fn.Pos() < out[j].fn.Pos() })
	return out
}

// batchElem: v reads field `name` of a message of a Consume batch of f; returns the identity of the
// element (the local copy or the element address).
func (f *finder) batchElem(v ssa.Value, name string) ssa.Value {
	fld, base := loadedField(v)
	if fld == nil || fld.Name() != name {
		return nil
	}
	isBatch := func(x ssa.Value) bool {
		ia, ok := x.(*ssa.IndexAddr)
		if !ok {
			return false
		}
		ex, ok := ia.X.(*ssa.Extract)
		if !ok {
			return false
		}
		for _, c := range f.consumes {
			if ex.Tuple == ssa.Value(c) {
				return true
			}
		}
		return false
	}
	switch b := base.(type) {
	case *ssa.IndexAddr:
		if isBatch(b) {
			return f.canonElem(b)
		}
	case *ssa.Alloc:
		sts := allocStores(b)
		if len(sts) == 1 {
			if u, ok := sts[0].Val.(*ssa.UnOp); ok && u.Op == token.MUL && isBatch(u.X) {
				return f.canonElem(u.X.(*ssa.IndexAddr))
			}
		}
	case *ssa.UnOp:
		if b.Op == token.MUL && isBatch(b.X) {
			return f.canonElem(b.X.(*ssa.IndexAddr))
		}
	}
	return nil
}

func paramDerived(v ssa.Value, d int) *ssa.Parameter {
	if d > 4 {
		return nil
	}
	switch x := canon(v).(type) {
	case *ssa.Parameter:
		return x
	case *ssa.Phi:
		for _, e := range x.Edges {
			if pr := paramDerived(e, d+1); pr != nil {
				return pr
			}
		}
	}
	return nil
}

func ruleR37(p *Prog) []Ob {
	var obs []Ob
	fs := p.finders()
	if len(fs) == 0 {
		return []Ob{{Rule: "R37", Inst: "finders", Props: []string{"C15", "C16"}, Pos: "-", Status: Undecided, Msg: "no finder (func(ctx, Log, bound) (map[int64]struct{}, error) that consumes the log) found in the root package"}}
	}
	oldest := int64(-2)
	if pk := p.SSA.ImportedPackage(pkgRoot); pk != nil {
		if c, ok := pk.Pkg.Scope().Lookup("OffsetOldest").(*types.Const); ok {
			if v, ok := constant.Int64Val(c.Val()); ok {
				oldest = v
			}
		}
	}
	for _, f := range fs {
		fn := f.fn
		props := []string{"C15"}
		if f.keyed {
			props = []string{"C16"}
		}
		mk := func(inst string, pos string) Ob {
			return Ob{Rule: "R37", Inst: inst + ":" + funcLabel(fn), Props: props, Pos: pos, Func: funcLabel(fn), Nontrivial: true}
		}
		// cursor
		for i, c := range f.consumes {
			ob := mk(fmt.Sprintf("cursor#%d", i+1), p.at(c))
			phi, ok := c.Call.Args[0].(*ssa.Phi)
			okc := ok
			if ok {
				for _, e := range phi.Edges {
					if k, isK := constInt(e); isK && k == oldest {
						continue
					}
					if ex, isEx := e.(*ssa.Extract); isEx && ex.Tuple == ssa.Value(c) && ex.Index == 0 {
						continue
					}
					okc = false
				}
			}
			if okc {
				ob.Status, ob.Msg = Discharged, "the scan starts at OffsetOldest and every further batch starts at the offset the previous Consume returned"
			} else {
				ob.Status, ob.Msg = Violated, "the scan cursor is not (OffsetOldest, then what Consume returned): batches can be skipped or repeated, so what is selected is not a prefix of the live sequence"
			}
			obs = append(obs, ob)
		}
		if f.result == nil {
			ob := mk("selection", p.posStr(fn.Pos()))
			ob.Status, ob.Msg = Undecided, "the result set is not a single make(map[int64]struct{})"
			obs = append(obs, ob)
			continue
		}
		// the cut-off parameters
		var timeParam, offParam *ssa.Parameter
		for _, pr := range fn.Params {
			if typeIs(pr.Type(), "time", "Time") {
				timeParam = pr
			}
		}
		// an int64 parameter compared with an offset quantity (a message's Offset, what NextOffset or
		// Consume returned, the scan cursor) is an offset bound
		var isOffQ func(v ssa.Value, d int) bool
		isOffQ = func(v ssa.Value, d int) bool {
			if d > 4 {
				return false
			}
			v = canon(v)
			if f.batchElem(v, "Offset") != nil {
				return true
			}
			switch x := v.(type) {
			case *ssa.Extract:
				if c, ok := x.Tuple.(*ssa.Call); ok && x.Index == 0 && c.Common().IsInvoke() && c.Common().Value == ssa.Value(f.logParam) {
					nm := c.Common().Method.Name()
					return nm == "NextOffset" || nm == "Consume"
				}
			case *ssa.Phi:
				for _, e := range x.Edges {
					if _, isParam := canon(e).(*ssa.Parameter); !isParam && isOffQ(e, d+1) {
						return true
					}
				}
			}
			return false
		}
		for _, b := range fn.Blocks {
			if iff, ok := terminator(b).(*ssa.If); ok {
				if x, y, _, ok := relCond(iff.Cond); ok {
					for _, pair := range [][2]ssa.Value{{x, y}, {y, x}} {
						if isOffQ(pair[0], 0) {
							if pr := paramDerived(pair[1], 0); pr != nil {
								if bt, ok := pr.Type().Underlying().(*types.Basic); ok && bt.Kind() == types.Int64 {
									offParam = pr
								}
							}
						}
					}
				}
			}
		}
		var guards []string
		notAfter := func(e ssa.Value, b *ssa.BasicBlock) bool {
			for _, hb := range fn.Blocks {
				iff, ok := terminator(hb).(*ssa.If)
				if !ok {
					continue
				}
				cond, pos := iff.Cond, true
				for {
					u, ok := cond.(*ssa.UnOp)
					if !ok || u.Op != token.NOT {
						break
					}
					pos, cond = !pos, u.X
				}
				c, ok := cond.(*ssa.Call)
				if !ok || len(c.Call.Args) != 2 {
					continue
				}
				nm := calleeName(c.Common())
				if f.batchElem(canon(c.Call.Args[0]), "Time") != e || canon(c.Call.Args[1]) != ssa.Value(timeParam) {
					continue
				}
				var edge int
				switch nm {
				case "(time.Time).After": // not After: the false edge
					edge = 1
				case "(time.Time).Before": // Before: the true edge
					edge = 0
				default:
					continue
				}
				if !pos {
					edge = 1 - edge
				}
				if edgeDominates(hb, edge, b) {
					guards = append(guards, p.at(iff))
					return true
				}
			}
			return false
		}
		below := func(e ssa.Value, b *ssa.BasicBlock) bool {
			for _, hb := range fn.Blocks {
				iff, ok := terminator(hb).(*ssa.If)
				if !ok {
					continue
				}
				x, y, op, ok := relCond(iff.Cond)
				if !ok {
					continue
				}
				if f.batchElem(canon(y), "Offset") == e && paramDerived(x, 0) == offParam {
					x, y = y, x
					switch op {
					case token.LSS:
						op = token.GTR
					case token.GTR:
						op = token.LSS
					case token.LEQ:
						op = token.GEQ
					case token.GEQ:
						op = token.LEQ
					}
				}
				if f.batchElem(canon(x), "Offset") != e || paramDerived(y, 0) != offParam {
					continue
				}
				// offset < before holds on: true edge of <, false edge of >=
				if (op == token.LSS && edgeDominates(hb, 0, b)) || (op == token.GEQ && edgeDominates(hb, 1, b)) {
					guards = append(guards, p.at(iff))
					return true
				}
			}
			return false
		}
		// what a finder returns with success is the set it built under its own bound (or nothing)
		{
			ob := mk("returns-own-set", p.posStr(fn.Pos()))
			var bad []string
			for _, rt := range returnsOf(fn) {
				if len(rt.Results) != 2 || p.ErrAtomsCached().isFailureReturn(fn, rt) {
					continue
				}
				v := canon(returnOperand(rt, 0))
				switch x := v.(type) {
				case *ssa.MakeMap:
					if x != f.result {
						// an empty set made on the spot is "nothing"
						filled := false
						for _, ref := range *x.Referrers() {
							if _, ok := ref.(*ssa.MapUpdate); ok {
								filled = true
							}
						}
						if filled {
							bad = append(bad, p.at(rt)+": a set other than the one built by the scan is returned")
						}
					}
				case *ssa.Const:
				case *ssa.Extract:
					if c, ok := x.Tuple.(*ssa.Call); ok {
						bad = append(bad, p.at(rt)+": the result of "+calleeName(c.Common())+" is returned: what it selected was not tested against this finder's bound")
					}
				default:
					bad = append(bad, p.at(rt)+": returns "+v.String())
				}
			}
			// ... nor because a batch came back short (Consume never reads across a segment boundary)
			for _, hb := range fn.Blocks {
				if iff, ok := terminator(hb).(*ssa.If); ok {
					if x, y, _, ok := relCond(iff.Cond); ok {
						for _, pair := range [][2]ssa.Value{{x, y}, {y, x}} {
							lc, ok := stripConv(pair[0]).(*ssa.Call)
							if !ok || !isBuiltinCall(lc.Common(), "len") {
								continue
							}
							ex, ok := canon(lc.Call.Args[0]).(*ssa.Extract)
							if !ok {
								continue
							}
							isBatch := false
							for _, cc := range f.consumes {
								if ex.Tuple == ssa.Value(cc) {
									isBatch = true
								}
							}
							if _, isK := constInt(pair[1]); isBatch && isK {
								bad = append(bad, p.at(iff)+": a branch compares the length of a Consume batch with a constant: a short batch only means the end of a segment")
							}
						}
					}
				}
			}
			// the scan does not end because of how much it has selected already
			for _, hb := range fn.Blocks {
				if iff, ok := terminator(hb).(*ssa.If); ok {
					if x, y, _, ok := relCond(iff.Cond); ok {
						for _, sde := range []ssa.Value{x, y} {
							if lc, ok := stripConv(sde).(*ssa.Call); ok && isBuiltinCall(lc.Common(), "len") && canon(lc.Call.Args[0]) == ssa.Value(f.result) {
								bad = append(bad, p.at(iff)+": a branch depends on the size of the set selected so far: the scan stops short of its bound on a big log")
							}
						}
					}
				}
			}
			if len(bad) > 0 {
				ob.Status, ob.Msg, ob.Path = Violated, "the finder hands on a selection it did not make under its own bound", bad
			} else {
				ob.Status, ob.Msg = Discharged, "every success return hands back the set built by the scan (or nothing)"
			}
			obs = append(obs, ob)
		}
		// cut-off ends the scan: once a message newer than the cut-off is met nothing further is looked
		// at (what is selected is a prefix, and no later message of a skipped key is taken for its first)
		if timeParam != nil {
			k := 0
			for _, hb := range fn.Blocks {
				iff, ok := terminator(hb).(*ssa.If)
				if !ok {
					continue
				}
				cond, pos := iff.Cond, true
				for {
					u, ok := cond.(*ssa.UnOp)
					if !ok || u.Op != token.NOT {
						break
					}
					pos, cond = !pos, u.X
				}
				c, ok := cond.(*ssa.Call)
				if !ok || calleeName(c.Common()) != "(time.Time).After" || len(c.Call.Args) != 2 {
					continue
				}
				if f.batchElem(canon(c.Call.Args[0]), "Time") == nil || canon(c.Call.Args[1]) != ssa.Value(timeParam) {
					continue
				}
				newer := 0
				if !pos {
					newer = 1
				}
				k++
				ob := mk(fmt.Sprintf("cutoff-ends-scan#%d", k), p.at(iff))
				// can the newer edge get back to a Consume or to another message of the batch?
				// (boolean flags set on the way - `done = true; break` with `!done` in the loop
				// condition - are followed as constants through the phis)
				again := false
				seenSt := map[string]bool{}
				var walkF func(pred, x *ssa.BasicBlock, env map[ssa.Value]bool)
				walkF = func(pred, x *ssa.BasicBlock, env map[ssa.Value]bool) {
					env2 := map[ssa.Value]bool{}
					for k, v := range env {
						env2[k] = v
					}
					pi := -1
					for i, pr := range x.Preds {
						if pr == pred {
							pi = i
						}
					}
					for _, ins := range x.Instrs {
						phi, ok := ins.(*ssa.Phi)
						if !ok {
							break
						}
						delete(env2, phi)
						if pi >= 0 && pi < len(phi.Edges) {
							e := phi.Edges[pi]
							if c, ok := e.(*ssa.Const); ok && c.Value != nil && c.Value.Kind() == constant.Bool {
								env2[phi] = constant.BoolVal(c.Value)
							} else if v, ok := env[e]; ok {
								env2[phi] = v
							}
						}
					}
					var keys []string
					for k, v := range env2 {
						keys = append(keys, fmt.Sprintf("%s=%v", k.Name(), v))
					}
					sort.Strings(keys)
					sig := fmt.Sprintf("%d|%s", x.Index, strings.Join(keys, ","))
					if seenSt[sig] {
						return
					}
					seenSt[sig] = true
					if x == hb {
						again = true
					}
					for _, cc := range f.consumes {
						if cc.Block() == x {
							again = true
						}
					}
					succs := x.Succs
					if i2, ok := terminator(x).(*ssa.If); ok {
						c2, pos2 := i2.Cond, true
						for {
							u, ok := c2.(*ssa.UnOp)
							if !ok || u.Op != token.NOT {
								break
							}
							pos2, c2 = !pos2, u.X
						}
						if v, known := env2[c2]; known {
							if v == pos2 {
								succs = x.Succs[:1]
							} else {
								succs = x.Succs[1:2]
							}
						}
					}
					for _, sx := range succs {
						walkF(x, sx, env2)
					}
				}
				walkF(hb, hb.Succs[newer], map[ssa.Value]bool{})
				if again {
					ob.Status, ob.Msg = Violated, "after a message newer than the cut-off the scan goes on: what is selected is no longer a prefix, and a later message of a skipped key is taken for the first of its key"
				} else {
					ob.Status, ob.Msg = Discharged, "the first message newer than the cut-off ends the scan"
				}
				obs = append(obs, ob)
			}
		}
		// tree operations
		type treeOp struct {
			call *ssa.Call
			elem ssa.Value // the message whose Key is the key
			val  ssa.Value // Insert: the message whose Offset is stored
		}
		var inserts, searches []treeOp
		for _, b := range fn.Blocks {
			for _, ins := range b.Instrs {
				c, ok := ins.(*ssa.Call)
				if !ok || !c.Common().IsInvoke() || c.Common().Method.Pkg() == nil || inModulePath(c.Common().Method.Pkg().Path()) {
					continue
				}
				switch c.Common().Method.Name() {
				case "Insert":
					op := treeOp{call: c}
					if len(c.Call.Args) == 2 {
						op.elem = f.batchElem(canon(stripConv(c.Call.Args[0])), "Key")
						if mi, ok := c.Call.Args[1].(*ssa.MakeInterface); ok {
							op.val = f.batchElem(canon(mi.X), "Offset")
						}
					}
					inserts = append(inserts, op)
				case "Search":
					op := treeOp{call: c}
					if len(c.Call.Args) == 1 {
						op.elem = f.batchElem(canon(stripConv(c.Call.Args[0])), "Key")
					}
					searches = append(searches, op)
				}
			}
		}
		// the tree lives for the whole scan: what was seen is never forgotten half way
		if len(inserts)+len(searches) > 0 {
			ob := mk("key-tree-lifetime", p.at(append(inserts, searches...)[0].call))
			var bad []string
			for _, op := range append(append([]treeOp{}, inserts...), searches...) {
				recv := canon(op.call.Common().Value)
				c, isCall := recv.(*ssa.Call)
				switch {
				case !isCall:
					bad = append(bad, p.at(op.call)+": the key tree used here is not one tree created before the scan (it is "+recv.String()+")")
				default:
					if _, loop := innermostLoop(c.Block()); loop != nil {
						bad = append(bad, p.at(c)+": the key tree is created inside the scan")
					}
				}
			}
			if len(bad) > 0 {
				ob.Status, ob.Msg, ob.Path = Violated, "the set of keys seen so far is replaced during the scan: a later message of a forgotten key is taken for the first of its key", uniqSorted(bad)
			} else {
				ob.Status, ob.Msg = Discharged, "one key tree, created before the scan, is used throughout"
			}
			obs = append(obs, ob)
		}
		for i, op := range inserts {
			ob := mk(fmt.Sprintf("key#%d", i+1), p.at(op.call))
			guards = nil
			switch {
			case op.elem == nil || op.val == nil || op.elem != op.val:
				ob.Status, ob.Msg = Violated, "the key tree is not keyed by a message's own Key bytes with that message's own Offset as the value: 'a later message with the same key' is decided on something else"
			case timeParam != nil && !notAfter(op.elem, op.call.Block()):
				ob.Status, ob.Msg = Violated, "a message newer than the cut-off can enter the key tree: an older message of its key is then selected although its successor is not yet eligible"
			default:
				ob.Status, ob.Msg = Discharged, "the tree maps the message's Key to its Offset, and only messages not newer than the cut-off enter it"
				ob.Guards = uniqStrings(guards)
			}
			obs = append(obs, ob)
		}
		for i, op := range searches {
			ob := mk(fmt.Sprintf("key-search#%d", i+1), p.at(op.call))
			if op.elem == nil {
				ob.Status, ob.Msg = Violated, "the key tree is searched with something other than a message's own Key bytes"
			} else {
				ob.Status, ob.Msg = Discharged, "the tree is searched with the message's Key"
			}
			obs = append(obs, ob)
		}
		// selection
		n := 0
		for _, b := range fn.Blocks {
			for _, ins := range b.Instrs {
				mu, ok := ins.(*ssa.MapUpdate)
				if !ok || mu.Map != ssa.Value(f.result) {
					continue
				}
				n++
				ob := mk(fmt.Sprintf("selection#%d", n), p.at(mu))
				guards = nil
				key := canon(mu.Key)
				var bad []string
				if e := f.batchElem(key, "Offset"); e != nil {
					// the current message is selected
					if timeParam != nil && !notAfter(e, b) {
						bad = append(bad, "the message is selected without having been tested as not newer than the cut-off")
					}
					if offParam != nil && !below(e, b) {
						bad = append(bad, "the message is selected without its offset having been tested as below the bound")
					}
					if f.keyed {
						// tombstone rule: Value == nil and key not seen before
						valueNil, unseen := false, false
						for _, hb := range fn.Blocks {
							iff, ok := terminator(hb).(*ssa.If)
							if !ok {
								continue
							}
							if x, y, op, ok := relCond(iff.Cond); ok && (op == token.EQL || op == token.NEQ) {
								for _, pair := range [][2]ssa.Value{{x, y}, {y, x}} {
									isLenOfValue := false
									if lc, ok := pair[0].(*ssa.Call); ok && isBuiltinCall(lc.Common(), "len") && f.batchElem(canon(lc.Call.Args[0]), "Value") == e {
										if k, isK := constInt(pair[1]); isK && k == 0 {
											isLenOfValue = true
										}
									}
									if (f.batchElem(canon(pair[0]), "Value") == e && isNilConst(pair[1])) || isLenOfValue {
										edge := 0
										if op == token.NEQ {
											edge = 1
										}
										if edgeDominates(hb, edge, b) {
											valueNil = true
											guards = append(guards, p.at(iff))
										}
									}
								}
							}
							if ex, ok := iff.Cond.(*ssa.Extract); ok && ex.Index == 1 {
								for _, s := range searches {
									if ex.Tuple == ssa.Value(s.call) && s.elem == e && edgeDominates(hb, 1, b) {
										unseen = true
										guards = append(guards, p.at(iff))
									}
								}
							}
						}
						if !valueNil {
							bad = append(bad, "the current message of a keyed scan is selected without its Value having been tested nil")
						}
						if !unseen {
							bad = append(bad, "the current message of a keyed scan is selected although its key may have been seen before (it is then not the oldest message of its key)")
						}
					}
				} else if ta, ok := key.(*ssa.TypeAssert); ok {
					// the previous holder of the same key
					okPrev := false
					if ex, ok := ta.X.(*ssa.Extract); ok && ex.Index == 0 {
						for _, op := range inserts {
							if ex.Tuple == ssa.Value(op.call) {
								okPrev = true
							}
						}
					}
					if !okPrev {
						bad = append(bad, "the selected offset is a value of unknown origin")
					}
				} else {
					bad = append(bad, "the selected offset ("+key.String()+") is neither the Offset of a message of the current batch nor what the key tree gave back for one")
				}
				if len(bad) > 0 {
					ob.Status, ob.Msg, ob.Path = Violated, "an offset can be selected for deletion that the helper's contract does not cover", bad
				} else {
					ob.Status, ob.Msg = Discharged, "only messages of the consumed batch (or earlier holders of such a message's key) are selected, inside the helper's bound"
					ob.Guards = uniqStrings(guards)
				}
				obs = append(obs, ob)
			}
		}
		if n == 0 {
			ob := mk("selection", p.posStr(fn.Pos()))
			ob.Status, ob.Msg = Undecided, "no insertion into the result set found"
			obs = append(obs, ob)
		}
	}
	return obs
}

// R38 TRIM-PLUMBING: a wrapper hands the finder's set, unchanged, to the delete driver, and only where
// the finder succeeded.
func ruleR38(p *Prog) []Ob {
	var obs []Ob
	isFinder := map[*ssa.Function]*finder{}
	for _, f := range p.finders() {
		isFinder[f.fn] = f
	}
	ea := p.ErrAtomsCached()
	for _, fn := range p.Funcs {
		if !srcFunc(fn) || funcPkgPath(fn) != pkgRoot || isFinder[fn] != nil {
			continue
		}
		for _, b := range fn.Blocks {
			for _, ins := range b.Instrs {
				c, ok := ins.(*ssa.Call)
				if !ok {
					continue
				}
				f := isFinder[c.Common().StaticCallee()]
				if f == nil {
					continue
				}
				props := []string{"C15"}
				if f.keyed {
					props = []string{"C16"}
				}
				ob := Ob{Rule: "R38", Inst: "plumbing:" + funcLabel(fn), Props: props, Pos: p.at(c), Func: funcLabel(fn), Nontrivial: true}
				var set, errV ssa.Value
				for _, ref := range *c.Referrers() {
					if ex, ok := ref.(*ssa.Extract); ok {
						if ex.Index == 0 {
							set = ex
						} else {
							errV = ex
						}
					}
				}
				var bad []string
				sinks := 0
				for _, b2 := range fn.Blocks {
					for _, ins2 := range b2.Instrs {
						switch x := ins2.(type) {
						case *ssa.MapUpdate:
							if set != nil && x.Map == set {
								bad = append(bad, p.at(x)+": the set is modified after the finder returned it")
							}
						case *ssa.Call:
							if isBuiltinCall(x.Common(), "delete") && set != nil && len(x.Call.Args) > 0 && x.Call.Args[0] == set {
								bad = append(bad, p.at(x)+": the set is modified after the finder returned it")
							}
							if x == c {
								continue
							}
							for _, a := range x.Common().Args {
								if !isOffsetSet(a.Type()) {
									continue
								}
								sinks++
								if a != set {
									bad = append(bad, p.at(x)+": a set other than the finder's result is handed to the delete")
								}
								if errV == nil || !p.dominatedByNilErr(ea, errV, x.Block()) {
									bad = append(bad, p.at(x)+": the delete runs although the finder may have failed")
								}
							}
						}
					}
				}
				if sinks == 0 {
					bad = append(bad, "the finder's result is not handed to any delete")
				}
				// no answer of the wrapper's own: every success return lies behind the finder
				for _, rt := range returnsOf(fn) {
					if !ea.isFailureReturn(fn, rt) && !c.Block().Dominates(rt.Block()) {
						bad = append(bad, p.at(rt)+": the wrapper reports success without having asked its finder (for some arguments nothing is trimmed although the finder would select messages)")
					}
				}
				if sinks > 1 {
					bad = append(bad, "the same set is handed to more than one delete: the later one meets offsets that are already gone, and Delete picks its segment from the lowest of them")
				}
				if len(bad) > 0 {
					ob.Status, ob.Msg, ob.Path = Violated, "what the wrapper deletes is not exactly what its finder selected", uniqStrings(bad)
				} else {
					ob.Status, ob.Msg = Discharged, "the finder's set reaches the delete unchanged, on the finder's success edge only"
				}
				obs = append(obs, ob)
			}
		}
	}
	if len(obs) == 0 {
		obs = append(obs, Ob{Rule: "R38", Inst: "plumbing", Props: []string{"C15", "C16"}, Pos: "-", Status: Undecided, Msg: "no wrapper calling a finder found"})
	}
	// the multi-segment drivers only ever ask for offsets of the set they were given
	for _, fn := range p.Funcs {
		if !srcFunc(fn) || funcPkgPath(fn) != pkgRoot || fn.Parent() != nil {
			continue
		}
		var setParam, logParam *ssa.Parameter
		for _, pr := range fn.Params {
			if isOffsetSet(pr.Type()) {
				setParam = pr
			}
			if namedOf(pr.Type()) == p.R.LogIface {
				logParam = pr
			}
		}
		if setParam == nil || logParam == nil {
			continue
		}
		for _, b := range fn.Blocks {
			for _, ins := range b.Instrs {
				c, ok := ins.(*ssa.Call)
				if !ok || !c.Common().IsInvoke() || c.Common().Value != ssa.Value(logParam) || c.Common().Method.Name() != "Delete" {
					continue
				}
				ob := Ob{Rule: "R38", Inst: "driver-subset:" + funcLabel(fn), Props: []string{"C15", "C16", "C12"}, Pos: p.at(c), Func: funcLabel(fn), Nontrivial: true}
				arg := canon(c.Call.Args[0])
				origin := ""
				if arg == ssa.Value(setParam) {
					origin = "the caller's set"
				} else if cl, ok := arg.(*ssa.Call); ok && strings.HasPrefix(calleeName(cl.Common()), "maps.Clone") && len(cl.Call.Args) == 1 && canon(cl.Call.Args[0]) == ssa.Value(setParam) {
					origin = "a clone of the caller's set"
				}
				grows := false
				for _, b2 := range fn.Blocks {
					for _, ins2 := range b2.Instrs {
						if mu, ok := ins2.(*ssa.MapUpdate); ok && canon(mu.Map) == arg {
							grows = true
						}
					}
				}
				switch {
				case origin == "":
					ob.Status, ob.Msg = Violated, "the driver asks the log to delete a set that is neither the caller's set nor a clone of it"
				case grows:
					ob.Status, ob.Msg = Violated, "the driver adds offsets to the set it asks the log to delete: messages the caller did not select can be removed"
				default:
					ob.Status, ob.Msg = Discharged, "every round asks for "+origin+", which only ever shrinks"
				}
				obs = append(obs, ob)
			}
		}
	}
	return obs
}

// dominatedByNilErr: block b only runs where errV == nil.
func (p *Prog) dominatedByNilErr(ea *ErrAtoms, errV ssa.Value, b *ssa.BasicBlock) bool {
	for _, hb := range b.Parent().Blocks {
		iff, ok := terminator(hb).(*ssa.If)
		if !ok {
			continue
		}
		t, ok := classifyErrCond(iff.Cond, errV)
		if !ok || t.kind != "nil" {
			continue
		}
		edge := 1
		if t.trueMeans {
			edge = 0
		}
		if edgeDominates(hb, edge, b) {
			return true
		}
	}
	return false
}

// dominatedByNilReturn: placeholder for returns whose error operand is not a literal nil; such returns
// are failure returns for the purpose of the finder rules.
func (p *Prog) dominatedByNilReturn(rt *ssa.Return) bool { return false }
