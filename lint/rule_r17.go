package main

import (
	"fmt"
	"go/token"
	"go/types"
	"strings"

	"golang.org/x/tools/go/ssa"
)

// R17 OFFSET-ASSIGNMENT (C02)

func atomicOpOn(c *ssa.CallCommon, f *types.Var) string {
	nm := calleeName(c)
	const pre = "(*sync/atomic.Int64)."
	if !strings.HasPrefix(nm, pre) || len(c.Args) == 0 {
		return ""
	}
	fa, ok := c.Args[0].(*ssa.FieldAddr)
	if !ok || fieldVarOfAddr(fa) != f {
		return ""
	}
	return strings.TrimPrefix(nm, pre)
}

// lastOffsetPlusOne: v == S[len(S)-1].Offset + 1 (or the equivalent S[0].Offset + len(S) for a
// dense batch) for a slice S of index.Item; returns S.
func (p *Prog) lastOffsetPlusOne(v ssa.Value) ssa.Value {
	bo, ok := v.(*ssa.BinOp)
	if !ok || bo.Op != token.ADD {
		return nil
	}
	if k, isK := constInt(bo.Y); !isK || k != 1 {
		// S[0].Offset + len(S)
		for _, pair := range [][2]ssa.Value{{bo.X, bo.Y}, {bo.Y, bo.X}} {
			f, base := loadedField(pair[0])
			if f == nil || f.Name() != "Offset" || namedOf(base.Type()) != p.R.Item {
				continue
			}
			ia, ok := base.(*ssa.IndexAddr)
			if !ok {
				continue
			}
			if k0, isK0 := constInt(ia.Index); !isK0 || k0 != 0 {
				continue
			}
			ln := pair[1]
			for {
				if cv, ok := ln.(*ssa.Convert); ok {
					ln = cv.X
					continue
				}
				break
			}
			if lc, ok := ln.(*ssa.Call); ok && isBuiltinCall(lc.Common(), "len") && canon(lc.Call.Args[0]) == canon(ia.X) {
				return canon(ia.X)
			}
		}
		return nil
	}
	f, base := loadedField(bo.X)
	if f == nil || f.Name() != "Offset" || namedOf(base.Type()) != p.R.Item {
		return nil
	}
	ia, ok := base.(*ssa.IndexAddr)
	if !ok {
		return nil
	}
	// index == len(S) - 1
	ib, ok := ia.Index.(*ssa.BinOp)
	if !ok || ib.Op != token.SUB {
		return nil
	}
	if k, isK := constInt(ib.Y); !isK || k != 1 {
		return nil
	}
	lc, ok := ib.X.(*ssa.Call)
	if !ok || !isBuiltinCall(lc.Common(), "len") || canon(lc.Call.Args[0]) != canon(ia.X) {
		return nil
	}
	return canon(ia.X)
}

// nextOffsetSummary: (function, result index) pairs whose value is always a load of the head's
// atomic next offset (directly or through other such functions).
func (p *Prog) nextOffsetSummary() map[*ssa.Function]map[int]bool {
	sum := map[*ssa.Function]map[int]bool{}
	isNext := func(v ssa.Value) bool {
		v = canon(v)
		switch x := v.(type) {
		case *ssa.Call:
			if atomicOpOn(x.Common(), p.R.HINextOffset) == "Load" {
				return true
			}
			if g := x.Common().StaticCallee(); g != nil && sum[g][0] && g.Signature.Results().Len() == 1 {
				return true
			}
		case *ssa.Extract:
			if c, ok := x.Tuple.(*ssa.Call); ok {
				cs := p.callees(c)
				if len(cs) == 0 {
					return false
				}
				for _, g := range cs {
					if !sum[g][x.Index] {
						return false
					}
				}
				return true
			}
		}
		return false
	}
	for iter := 0; iter < 8; iter++ {
		changed := false
		for _, fn := range p.Funcs {
			if !srcFunc(fn) {
				continue
			}
			res := fn.Signature.Results()
			for j := 0; j < res.Len(); j++ {
				if b, ok := res.At(j).Type().Underlying().(*types.Basic); !ok || b.Kind() != types.Int64 {
					continue
				}
				if sum[fn][j] {
					continue
				}
				rets := returnsOf(fn)
				all := len(rets) > 0
				for _, rt := range rets {
					if !isNext(returnOperand(rt, j)) {
						all = false
					}
				}
				if all {
					if sum[fn] == nil {
						sum[fn] = map[int]bool{}
					}
					sum[fn][j] = true
					changed = true
				}
			}
		}
		if !changed {
			break
		}
	}
	return sum
}

func (p *Prog) isNextOffsetValue(v ssa.Value, sum map[*ssa.Function]map[int]bool) bool {
	v = canon(v)
	switch x := v.(type) {
	case *ssa.Call:
		if atomicOpOn(x.Common(), p.R.HINextOffset) == "Load" {
			return true
		}
		if g := x.Common().StaticCallee(); g != nil && g.Signature.Results().Len() == 1 && sum[g][0] {
			return true
		}
	case *ssa.Extract:
		if c, ok := x.Tuple.(*ssa.Call); ok {
			cs := p.callees(c)
			ok := len(cs) > 0
			for _, g := range cs {
				if !sum[g][x.Index] {
					ok = false
				}
			}
			return ok
		}
	}
	return false
}

func ruleR17(p *Prog) []Ob {
	var obs []Ob
	r := p.R
	props := []string{"C02"}
	sum := p.nextOffsetSummary()

	// (a) who stores the next offset, and what
	nStores := 0
	for _, fn := range p.Funcs {
		if !srcFunc(fn) {
			continue
		}
		for _, b := range fn.Blocks {
			for _, ins := range b.Instrs {
				c, ok := ins.(*ssa.Call)
				if !ok {
					continue
				}
				op := atomicOpOn(c.Common(), r.HINextOffset)
				if op == "" || op == "Load" {
					continue
				}
				nStores++
				ob := Ob{Rule: "R17", Inst: fmt.Sprintf("a:next-offset-store:%s", funcLabel(fn)), Props: props, Pos: p.at(c), Func: funcLabel(fn), Nontrivial: true}
				construct := underConstruction(c.Call.Args[0])
				switch {
				case op != "Store":
					ob.Status, ob.Msg = Violated, fmt.Sprintf("the head's next offset is modified with %s; it may only be stored from the last appended item's offset + 1", op)
				default:
					v := c.Call.Args[1]
					okVal := func(v ssa.Value) bool { return p.lastOffsetPlusOne(v) != nil }
					good := okVal(v)
					if !good {
						if phi, isPhi := v.(*ssa.Phi); isPhi && construct {
							good = true
							sawLast := false
							for _, e := range phi.Edges {
								if okVal(e) {
									sawLast = true
								} else if _, isParam := e.(*ssa.Parameter); !isParam {
									good = false
								}
							}
							good = good && sawLast
						}
					}
					if good && !construct {
						// the items whose last offset is stored are the ones appended in this function
						src := p.lastOffsetPlusOne(v)
						appended := false
						for _, b2 := range fn.Blocks {
							for _, i2 := range b2.Instrs {
								if st, ok := i2.(*ssa.Store); ok {
									if fa, ok := st.Addr.(*ssa.FieldAddr); ok && fieldVarOfAddr(fa) == r.HIItems {
										if app := appendedSlice(st.Val); app != nil && canon(app) == src {
											appended = true
										}
									}
								}
							}
						}
						if !appended {
							good = false
						}
					}
					if good {
						ob.Status, ob.Msg = Discharged, "stored from the offset of the last item (appended here / the index is constructed with) + 1"
					} else {
						ob.Status, ob.Msg = Violated, "the head's next offset is stored from something other than the last appended item's offset + 1: offsets can repeat or skip"
					}
				}
				obs = append(obs, ob)
			}
		}
	}
	if nStores == 0 {
		obs = append(obs, Ob{Rule: "R17", Inst: "a:next-offset-store", Props: props, Pos: "-", Status: Undecided, Msg: "no store to the head's next-offset atomic found"})
	}

	// (b)+(c) the publish loop
	nLoops := 0
	ls := p.LocksetCached()
	for _, fn := range p.Funcs {
		if !srcFunc(fn) || recvNamed(fn) != r.HeadWriter {
			continue
		}
		for _, b := range fn.Blocks {
			for _, ins := range b.Instrs {
				w, ok := ins.(*ssa.Call)
				if !ok || calleeName(w.Common()) != "(*"+pkgMessage+".Writer).Write" {
					continue
				}
				if _, lp := innermostLoop(b); lp == nil {
					continue
				}
				nLoops++
				ob := Ob{Rule: "R17", Inst: "b:assigned-offset-is-encoded:" + funcLabel(fn), Props: props, Pos: p.at(w), Func: funcLabel(fn), Nontrivial: true}
				var bad []string
				// the written message is msgs[i]
				u, ok := w.Call.Args[1].(*ssa.UnOp)
				var ia *ssa.IndexAddr
				if ok && u.Op == token.MUL {
					ia, _ = u.X.(*ssa.IndexAddr)
				}
				if ia == nil {
					bad = append(bad, "the message written is not an element of the caller's batch")
				} else {
					found := false
					for _, b2 := range fn.Blocks {
						for _, i2 := range b2.Instrs {
							st, ok := i2.(*ssa.Store)
							if !ok {
								continue
							}
							fa, ok := st.Addr.(*ssa.FieldAddr)
							if !ok || fieldVarOfAddr(fa) == nil || fieldVarOfAddr(fa).Name() != "Offset" || namedOf(fa.X.Type()) != r.Message {
								continue
							}
							ia2, ok := fa.X.(*ssa.IndexAddr)
							if !ok || canon(ia2.X) != canon(ia.X) || ia2.Index != ia.Index {
								continue
							}
							// value = base + i
							bo, ok := st.Val.(*ssa.BinOp)
							if !ok || bo.Op != token.ADD {
								bad = append(bad, p.at(st)+": the offset written into the message is not base + i")
								continue
							}
							base, idx := bo.X, bo.Y
							if !convOf(idx, ia.Index) {
								base, idx = bo.Y, bo.X
							}
							if !convOf(idx, ia.Index) {
								bad = append(bad, p.at(st)+": the offset written into the message does not advance with the position in the batch")
								continue
							}
							if !p.isNextOffsetValue(base, sum) {
								bad = append(bad, p.at(st)+": the base of the assigned offsets is not loaded from the head's next-offset atomic in this call")
								continue
							}
							if !instrDominates(st, w) {
								bad = append(bad, p.at(st)+": the offset is assigned after (or not on every path before) the message is encoded")
								continue
							}
							found = true
						}
					}
					if !found && len(bad) == 0 {
						bad = append(bad, "the message is encoded without its Offset field being assigned from the next offset first: the caller's offset would be written")
					}
				}
				if held := ls.at[w]; held[r.WriterMu] != modeW {
					bad = append(bad, "the append does not run with the writer lock held exclusively (two publishers could be assigned the same offsets)")
				}
				if len(bad) > 0 {
					ob.Status, ob.Msg, ob.Path = Violated, "the offset encoded into a published record is not the assigned one", bad
				} else {
					ob.Status, ob.Msg = Discharged, "msgs[i].Offset = next offset (loaded in this call) + i dominates the encoding of msgs[i]; the writer lock is held"
				}
				obs = append(obs, ob)
			}
		}
	}
	if nLoops == 0 {
		obs = append(obs, Ob{Rule: "R17", Inst: "b:assigned-offset-is-encoded", Props: props, Pos: "-", Status: Undecided, Msg: "no publish loop (message.Writer.Write in a loop of a HeadWriter method) found"})
	}

	// (e) a new segment is only ever named 0 or after the next offset
	newFn := p.pkgFunc(pkgSegment, "New")
	nNames := 0
	ord := map[string]int{}
	for _, fn := range p.Funcs {
		if !srcFunc(fn) || funcPkgPath(fn) != pkgRoot {
			continue
		}
		for _, b := range fn.Blocks {
			for _, ins := range b.Instrs {
				c, ok := ins.(*ssa.Call)
				if !ok {
					continue
				}
				var x ssa.Value
				switch {
				case newFn != nil && c.Common().StaticCallee() == newFn:
					x = c.Call.Args[1]
				case calleeName(c.Common()) == "("+pkgSegment+".Segment).NewAt":
					x = c.Call.Args[1]
				default:
					continue
				}
				// does the new segment flow into a call that creates a log file?
				creates := false
				if c.Referrers() != nil {
					for _, rf := range *c.Referrers() {
						if c2, ok := rf.(*ssa.Call); ok && p.callReaches(c2, isFunc(pkgMessage+".OpenWriter")) {
							creates = true
						}
					}
				}
				if !creates {
					continue
				}
				nNames++
				ord[funcLabel(fn)]++
				ob := Ob{Rule: "R17", Inst: fmt.Sprintf("e:new-segment-name:%s#%d", funcLabel(fn), ord[funcLabel(fn)]), Props: props, Pos: p.at(c), Func: funcLabel(fn), Nontrivial: true}
				k, isK := constInt(x)
				switch {
				case isK && k == 0:
					if fn == r.Open && p.dominatedByNoSegments(b) {
						ob.Status, ob.Msg = Discharged, "named 0, in Open, on the path where the directory holds no segment"
					} else {
						ob.Status, ob.Msg = Violated, "a segment named 0 is created where the directory may already hold segments: offsets start again from 0"
					}
				case p.isNextOffsetValue(x, sum):
					ob.Status, ob.Msg = Discharged, "named after the head's next offset (data-derived from its atomic through returns only)"
				default:
					ob.Status, ob.Msg = Violated, "a new segment is created under a base offset that is not the head's next offset: after a reopen the next publish reuses or skips offsets"
				}
				obs = append(obs, ob)
			}
		}
	}
	if nNames == 0 {
		obs = append(obs, Ob{Rule: "R17", Inst: "e:new-segment-name", Props: props, Pos: "-", Status: Undecided, Msg: "no creation of a newly named segment found in the root package"})
	}
	return obs
}

// dominatedByNoSegments: block b (in Open) is dominated by the edge on which len(segment.Find(...)) == 0.
func (p *Prog) dominatedByNoSegments(b *ssa.BasicBlock) bool {
	for d := b.Idom(); d != nil; d = d.Idom() {
		iff, ok := terminator(d).(*ssa.If)
		if !ok {
			continue
		}
		x, y, op, ok := relCond(iff.Cond)
		if !ok {
			continue
		}
		lc, isC := x.(*ssa.Call)
		k, isK := constInt(y)
		if !isC || !isK || k != 0 || !isBuiltinCall(lc.Common(), "len") {
			continue
		}
		ex, ok := canon(lc.Call.Args[0]).(*ssa.Extract)
		if !ok {
			continue
		}
		fc, ok := ex.Tuple.(*ssa.Call)
		if !ok || calleeName(fc.Common()) != pkgSegment+".Find" {
			continue
		}
		edge := -1
		switch op {
		case token.EQL:
			edge = 0
		case token.NEQ, token.GTR:
			edge = 1
		}
		if edge >= 0 && edgeDominates(d, edge, b) {
			return true
		}
	}
	return false
}
