package main

import (
	"fmt"
	"go/token"
	"go/types"
	"sort"
	"strings"

	"golang.org/x/tools/go/ssa"
)

// Rules added after the first rounds of seeded changes (DESIGN.md section 9).

// ---------------------------------------------------------------------------
// R10e RAW-READ CONFINEMENT (C14): the bytes of a log file reach callers only through the record
// decoders (whose CRC/trailer dominance R10b checks).  Any other function that reads through the
// file handles of a message.Reader returns unverified bytes.
func (p *Prog) rawReadObligations() []Ob {
	var obs []Ob
	r := p.R
	isDecoder := map[*ssa.Function]bool{}
	for _, d := range r.RecDecoders {
		isDecoder[d] = true
	}
	s := structOf(r.MsgReader)
	handle := map[*types.Var]bool{}
	for i := 0; i < s.NumFields(); i++ {
		f := s.Field(i)
		if typeIs(f.Type(), "os", "File") || typeIs(f.Type(), "golang.org/x/exp/mmap", "ReaderAt") {
			handle[f] = true
		}
	}
	n := 0
	var bad []string
	for _, fn := range p.Funcs {
		if !srcFunc(fn) {
			continue
		}
		for _, b := range fn.Blocks {
			for _, ins := range b.Instrs {
				c, ok := ins.(ssa.CallInstruction)
				if !ok || len(c.Common().Args) == 0 {
					continue
				}
				f, _ := loadedField(c.Common().Args[0])
				if f == nil || !handle[f] {
					continue
				}
				nm := calleeName(c.Common())
				if strings.HasSuffix(nm, ").Close") || strings.HasSuffix(nm, ").Len") || strings.HasSuffix(nm, ").Stat") || strings.HasSuffix(nm, ").Name") || strings.HasSuffix(nm, ").Fd") {
					continue
				}
				n++
				if !isDecoder[fn] {
					bad = append(bad, fmt.Sprintf("%s: %s reads the log file through %s outside the CRC-checked record decoders", p.at(c), funcLabel(fn), nm))
				}
			}
		}
	}
	ob := Ob{Rule: "R10", Inst: "e:raw-read-confinement", Props: []string{"C14"}, Pos: "-", Nontrivial: true}
	sort.Strings(bad)
	switch {
	case len(handle) == 0 || n == 0:
		ob.Status, ob.Msg = Undecided, "no read through the file handles of message.Reader found (reader not recognised)"
	case len(bad) > 0:
		ob.Pos = strings.SplitN(bad[0], ": ", 2)[0]
		ob.Status, ob.Msg, ob.Path = Violated, "bytes of a log file are read without passing the record decoder's CRC/trailer checks: a damaged record can influence an answer without an error", bad
	default:
		ob.Status, ob.Msg = Discharged, fmt.Sprintf("all %d reads through the file handles of message.Reader are inside the record decoders", n)
	}
	return append(obs, ob)
}

// ---------------------------------------------------------------------------
// R8 K4/K5/K6

// keyHashObligation (K6): KeyHash is FNV-1a/64 of the key bytes on every path (nil and empty keys
// are the same key).
func (p *Prog) keyHashObligation() Ob {
	ob := Ob{Rule: "R8", Inst: "K6:index.KeyHash", Props: []string{"C09", "C13", "C11"}, Pos: "-", Nontrivial: true}
	fn := p.pkgFunc(pkgIndex, "KeyHash")
	if fn == nil || len(fn.Params) != 1 {
		ob.Status, ob.Msg = Undecided, "index.KeyHash(key) not found"
		return ob
	}
	ob.Pos, ob.Func = p.posStr(fn.Pos()), funcLabel(fn)
	var bad []string
	for _, rt := range returnsOf(fn) {
		v := canon(rt.Results[0])
		ok := false
		if c, isC := v.(*ssa.Call); isC && c.Common().IsInvoke() && c.Common().Method.Name() == "Sum64" {
			h := canon(c.Common().Value)
			if nc, isN := h.(*ssa.Call); isN && calleeName(nc.Common()) == "hash/fnv.New64a" {
				// the key was written into this hasher, unconditionally, before Sum64
				for _, rf := range *nc.Referrers() {
					w, isW := rf.(*ssa.Call)
					if !isW || !w.Common().IsInvoke() || w.Common().Method.Name() != "Write" {
						continue
					}
					if canon(w.Call.Args[0]) == fn.Params[0] && instrDominates(w, c) {
						ok = true
					}
				}
			}
		}
		if !ok {
			bad = append(bad, p.at(rt)+": returns something other than fnv.New64a() + Write(key) + Sum64()")
		}
	}
	if len(bad) > 0 {
		ob.Status, ob.Msg, ob.Path = Violated, "the key hash is not FNV-1a/64 of the key bytes on every path (e.g. nil and empty keys, or stored hashes and recomputed ones, stop agreeing)", bad
	} else {
		ob.Status, ob.Msg = Discharged, "every return is Sum64() of an fnv.New64a hasher the key was written to"
	}
	return ob
}

// lookupExtraObligations: K4 (one identity for "not in this segment") and K5 (every candidate is
// read through the checked decoder before it is skipped).
func (p *Prog) lookupExtraObligations(lookups []*keyLookup) []Ob {
	var obs []Ob
	ea := p.ErrAtomsCached()
	notFound := "G:" + pkgMessage + ".ErrNotFound"
	isLookup := map[*ssa.Function]bool{}
	for _, kl := range lookups {
		isLookup[kl.fn] = true
	}
	// K4: at an identity comparison of the error of a key-lookup call with sentinel S, every other
	// not-found-class error that can reach the comparison would abort the newest-to-oldest walk.
	for _, fn := range p.Funcs {
		if !srcFunc(fn) {
			continue
		}
		for _, b := range fn.Blocks {
			for _, ins := range b.Instrs {
				bo, ok := ins.(*ssa.BinOp)
				if !ok || (bo.Op != token.EQL && bo.Op != token.NEQ) || !isErrType(bo.X.Type()) {
					continue
				}
				sent, other := sentinelOperand(bo.X), bo.Y
				if !strings.HasPrefix(sent, "G:") {
					sent, other = sentinelOperand(bo.Y), bo.X
				}
				if !strings.HasPrefix(sent, "G:") || !ea.closure(sent)[notFound] {
					continue
				}
				// the compared error comes from a key lookup call
				ex, ok := other.(*ssa.Extract)
				if !ok {
					continue
				}
				call, ok := ex.Tuple.(*ssa.Call)
				if !ok {
					continue
				}
				fromLookup := false
				for _, g := range p.callees(call) {
					if isLookup[g] {
						fromLookup = true
					}
				}
				if !fromLookup {
					continue
				}
				ob := Ob{Rule: "R8", Inst: "K4:" + funcLabel(fn) + ":walk-sentinel", Props: []string{"C09"}, Pos: p.at(bo), Func: funcLabel(fn), Nontrivial: true}
				var strays []string
				for a := range ea.atomsAt(other, b) {
					base := baseAtom(a)
					if !strings.HasPrefix(base, "G:") || a == sent {
						continue
					}
					if ea.closure(base)[notFound] {
						strays = append(strays, shortAtom(a))
					}
				}
				sort.Strings(strays)
				if len(strays) > 0 {
					ob.Status = Violated
					ob.Msg = fmt.Sprintf("the segment walk recognises 'not in this segment' only as %s, but the per-segment lookup can also fail with the not-found error(s) %v: the walk then stops at a newer segment although an older one may hold the key", shortAtom(sent), strays)
				} else {
					ob.Status, ob.Msg = Discharged, fmt.Sprintf("%s is the only not-found-class error the per-segment lookup can produce", shortAtom(sent))
				}
				obs = append(obs, ob)
			}
		}
	}
	// K5: in a candidate loop every iteration reads the candidate with (*message.Reader).Get
	for _, kl := range lookups {
		for gi, get := range kl.gets {
			h, loop := innermostLoop(get.Block())
			if loop == nil {
				continue
			}
			ob := Ob{Rule: "R8", Inst: fmt.Sprintf("K5:%s:get#%d-every-candidate", funcLabel(kl.fn), gi+1), Props: []string{"C09", "C14"}, Pos: p.at(get), Func: funcLabel(kl.fn), Nontrivial: true}
			// a path from the loop header round to the header again that avoids the Get block
			skip := false
			seen := map[*ssa.BasicBlock]bool{}
			var walk func(b *ssa.BasicBlock, first bool)
			walk = func(b *ssa.BasicBlock, first bool) {
				if skip || !loop[b] || b == get.Block() {
					return
				}
				if b == h && !first {
					skip = true
					return
				}
				if seen[b] {
					return
				}
				seen[b] = true
				for _, s := range b.Succs {
					walk(s, false)
				}
			}
			walk(h, true)
			if skip {
				ob.Status, ob.Msg = Violated, "an iteration over the hash candidates can move on to the next candidate without reading this one through the checked decoder: a damaged (or wrongly skipped) record silently drops out of the answer"
			} else {
				ob.Status, ob.Msg = Discharged, "every iteration of the candidate loop reads the candidate through (*message.Reader).Get before deciding anything"
			}
			obs = append(obs, ob)
		}
	}
	return obs
}

// ---------------------------------------------------------------------------
// R22 SEGMENT-TYPESTATE (C12, C01): no use of a segment's files after they were removed.
func ruleR22(p *Prog) []Ob {
	var obs []Ob
	r := p.R
	segRemove := "(" + pkgSegment + ".Segment).Remove"
	segRename := "(" + pkgSegment + ".Segment).Rename"
	segOverride := "(" + pkgSegment + ".Segment).Override"
	// functions that open / touch the files of a segment passed as a Segment value
	opensFiles := func(g *ssa.Function) bool {
		return p.reaches(g, func(h *ssa.Function) bool {
			nm := fullName(h)
			return nm == pkgMessage+".OpenReader" || nm == pkgMessage+".OpenReaderMem" || nm == pkgMessage+".OpenWriter" || nm == pkgIndex+".OpenWriter" || nm == pkgIndex+".Read" || nm == "os.Stat"
		})
	}
	n := 0
	for _, fn := range p.Funcs {
		if !srcFunc(fn) || funcPkgPath(fn) != pkgRoot {
			continue
		}
		var removes []*ssa.Call
		for _, b := range fn.Blocks {
			for _, ins := range b.Instrs {
				if c, ok := ins.(*ssa.Call); ok && calleeName(c.Common()) == segRemove {
					if f, _ := loadedField(c.Call.Args[0]); f != nil && (f == r.SRSegment || f == r.HWSegment) {
						removes = append(removes, c)
					}
				}
			}
		}
		for i, rm := range removes {
			n++
			removed := descr(segAddrOf(rm.Call.Args[0]))
			ob := Ob{Rule: "R22", Inst: fmt.Sprintf("use-after-remove:%s:remove#%d", funcLabel(fn), i+1), Props: []string{"C12", "C01", "C03", "C04", "C10"}, Pos: p.at(rm), Func: funcLabel(fn), Nontrivial: true}
			var bad []string
			for _, b := range fn.Blocks {
				for _, ins := range b.Instrs {
					var uses []ssa.Value
					var what string
					switch x := ins.(type) {
					case *ssa.Call:
						if x == rm || !canReach(rm, x) {
							continue
						}
						nm := calleeName(x.Common())
						if nm == segRemove {
							continue
						}
						// re-creation: a rewrite product renamed / overridden onto this segment
						if nm == segRename || nm == segOverride {
							continue
						}
						g := x.Common().StaticCallee()
						if g == nil || !inModule(g) {
							continue
						}
						// NewAt / GetOffset style methods only read the Dir / Offset
						if recvNamed(g) == r.Segment && !opensFiles(g) {
							continue
						}
						if !opensFiles(g) && !p.storesSegmentInReader(g) {
							continue
						}
						for _, a := range x.Call.Args {
							if namedOf(a.Type()) == r.Segment {
								uses = append(uses, a)
							}
						}
						what = "passed to " + funcLabel(g)
					case *ssa.Store:
						// &reader{segment: X}
						if fa, ok := x.Addr.(*ssa.FieldAddr); ok && (fieldVarOfAddr(fa) == r.SRSegment || fieldVarOfAddr(fa) == r.HWSegment) && canReach(rm, x) {
							uses = append(uses, x.Val)
							what = "stored as the segment of a new reader/writer"
						}
					}
					for _, u := range uses {
						if descr(segAddrOf(u)) == removed {
							bad = append(bad, fmt.Sprintf("%s: the segment whose files were removed at %s is %s", p.at(ins), p.at(rm), what))
						}
					}
				}
			}
			sort.Strings(bad)
			if len(bad) > 0 {
				ob.Status, ob.Msg, ob.Path = Violated, "a segment is used after its files were removed (the surviving messages were moved to another segment): every read through it fails until the log is reopened", uniqStrings(bad)
			} else {
				ob.Status, ob.Msg = Discharged, "after the removal the segment value is only used to derive new segment names"
			}
			obs = append(obs, ob)
		}
	}
	if n == 0 {
		obs = append(obs, Ob{Rule: "R22", Inst: "use-after-remove", Props: []string{"C12", "C01"}, Pos: "-", Status: Undecided, Msg: "no removal of a reader's / writer's segment found in the root package"})
	}
	return obs
}

// segAddrOf: the address a Segment struct value was loaded from (or the value itself).
func segAddrOf(v ssa.Value) ssa.Value {
	if u, ok := v.(*ssa.UnOp); ok && u.Op == token.MUL {
		return u.X
	}
	return v
}

// storesSegmentInReader: g constructs a reader/writer around the Segment it is given.
func (p *Prog) storesSegmentInReader(g *ssa.Function) bool {
	for _, b := range g.Blocks {
		for _, ins := range b.Instrs {
			if st, ok := ins.(*ssa.Store); ok {
				if fa, ok := st.Addr.(*ssa.FieldAddr); ok {
					if f := fieldVarOfAddr(fa); f == p.R.SRSegment || f == p.R.HWSegment {
						return true
					}
				}
			}
		}
	}
	return false
}

// ---------------------------------------------------------------------------
// R23 MULTI-DRIVER ACCOUNTING (C12): what a round of Log.Delete removed is accounted for before
// the driver can return.
func ruleR23(p *Prog) []Ob {
	var obs []Ob
	ea := p.ErrAtomsCached()
	n := 0
	for _, fn := range p.Funcs {
		if !srcFunc(fn) || funcPkgPath(fn) != pkgRoot || fn.Parent() != nil {
			continue
		}
		for _, b := range fn.Blocks {
			for _, ins := range b.Instrs {
				c, ok := ins.(*ssa.Call)
				if !ok || !c.Common().IsInvoke() || c.Common().Method.Name() != "Delete" || namedOf(c.Common().Value.Type()) != p.R.LogIface {
					continue
				}
				if _, isParam := canon(c.Common().Value).(*ssa.Parameter); !isParam {
					continue
				}
				if _, lp := innermostLoop(b); lp == nil {
					continue
				}
				var deleted, size ssa.Value
				for _, rf := range *c.Referrers() {
					if ex, ok := rf.(*ssa.Extract); ok {
						switch ex.Index {
						case 0:
							deleted = ex
						case 1:
							size = ex
						}
					}
				}
				n++
				ob := Ob{Rule: "R23", Inst: "accounting:" + funcLabel(fn), Props: []string{"C12"}, Pos: p.at(c), Func: funcLabel(fn), Nontrivial: true}
				if deleted == nil {
					ob.Status, ob.Msg = Violated, "the messages a round of Log.Delete removed are discarded by the driver"
					obs = append(obs, ob)
					continue
				}
				// where does control continue when the round deleted something? after the err == nil edge
				// and the len(deleted) != 0 edge.  From there, every return must be preceded by a consumption
				// of `deleted` (append(..., deleted...) or a loop over it) and, if size is used at all, by its addition.
				consumes := func(ins ssa.Instruction) (bool, bool) {
					switch x := ins.(type) {
					case *ssa.Call:
						if isBuiltinCall(x.Common(), "append") && len(x.Call.Args) == 2 && x.Call.Args[1] == deleted {
							return true, false
						}
						if isBuiltinCall(x.Common(), "len") && x.Call.Args[0] == deleted {
							// the length feeding a range loop over deleted
							for _, rf := range *x.Referrers() {
								if bo, ok := rf.(*ssa.BinOp); ok && bo.Op == token.LSS {
									return true, false
								}
							}
						}
					case *ssa.Range:
						if x.X == deleted {
							return true, false
						}
					case *ssa.BinOp:
						if x.Op == token.ADD && size != nil && (x.X == size || x.Y == size) {
							return false, true
						}
					}
					return false, false
				}
				// start blocks: successors on which the round is known to have deleted something
				start := p.nonEmptySuccess(c, deleted, ea)
				if start == nil {
					ob.Status, ob.Msg = Undecided, "cannot find where the driver continues after a round that deleted something"
					obs = append(obs, ob)
					continue
				}
				sizeUsed := size != nil && size.Referrers() != nil && len(*size.Referrers()) > 0
				var bad []string
				type st struct{ d, s bool }
				seen := map[*ssa.BasicBlock]map[st]bool{}
				var walk func(b *ssa.BasicBlock, s st)
				walk = func(b *ssa.BasicBlock, s st) {
					if seen[b] == nil {
						seen[b] = map[st]bool{}
					}
					if seen[b][s] {
						return
					}
					seen[b][s] = true
					for _, ins := range b.Instrs {
						if ins == ssa.Instruction(c) {
							return // next round
						}
						d, sz := consumes(ins)
						s.d = s.d || d
						s.s = s.s || sz
						if rt, ok := ins.(*ssa.Return); ok && b != fn.Recover {
							if !s.d {
								bad = append(bad, p.at(rt)+": returns after a round that deleted messages without adding them to what the driver reports")
							} else if sizeUsed && !s.s {
								bad = append(bad, p.at(rt)+": returns after a round that deleted messages without adding their size to what the driver reports")
							}
						}
					}
					for _, sc := range b.Succs {
						walk(sc, s)
					}
				}
				walk(start, st{})
				sort.Strings(bad)
				if len(bad) > 0 {
					ob.Status, ob.Msg, ob.Path = Violated, "messages removed by a round of Log.Delete can be missing from what the multi-round driver returns", uniqStrings(bad)
				} else {
					ob.Status, ob.Msg = Discharged, "after a round that deleted something every return is preceded by adding its messages (and size) to the driver's result"
				}
				obs = append(obs, ob)
				// (b) and nothing more: what the driver reports is never made from the set it was asked
				// to delete (an offset in it may have been gone before the call)
				{
					ob := Ob{Rule: "R23", Inst: "b:reports-only-what-rounds-reported:" + funcLabel(fn), Props: []string{"C12"}, Pos: p.at(c), Func: funcLabel(fn), Nontrivial: true}
					var asked []ssa.Value
					for _, pr := range fn.Params {
						if isOffsetSet(pr.Type()) {
							asked = append(asked, pr)
						}
					}
					var bad []string
					for _, rt := range returnsOf(fn) {
						v := returnOperand(rt, 0)
						seen := map[ssa.Value]bool{}
						var from func(v ssa.Value, d int) bool
						from = func(v ssa.Value, d int) bool {
							if v == nil || seen[v] || d > 6 {
								return false
							}
							seen[v] = true
							for _, a := range asked {
								if v == a {
									return true
								}
							}
							switch x := v.(type) {
							case *ssa.Phi:
								for _, e := range x.Edges {
									if from(e, d+1) {
										return true
									}
								}
							case *ssa.Call:
								for _, a := range x.Call.Args {
									if from(a, d+1) {
										return true
									}
								}
							case *ssa.ChangeType:
								return from(x.X, d+1)
							case *ssa.MakeInterface:
								return from(x.X, d+1)
							}
							return false
						}
						if from(v, 0) {
							bad = append(bad, p.at(rt)+": the driver reports (a copy of) the set it was asked to delete")
						}
					}
					if len(bad) > 0 {
						ob.Status, ob.Msg, ob.Path = Violated, "the multi-round driver can report offsets as deleted that no round of Log.Delete reported (they were gone before the call)", uniqStrings(bad)
					} else {
						ob.Status, ob.Msg = Discharged, "no return hands back the caller's own set or something computed from it"
					}
					obs = append(obs, ob)
				}
			}
		}
	}
	if n == 0 {
		obs = append(obs, Ob{Rule: "R23", Inst: "accounting", Props: []string{"C12"}, Pos: "-", Status: Undecided, Msg: "no loop around Log.Delete found in the root package"})
	}
	return obs
}

// nonEmptySuccess: the block where control continues after call c returned a nil error and a non-empty result.
func (p *Prog) nonEmptySuccess(c *ssa.Call, deleted ssa.Value, ea *ErrAtoms) *ssa.BasicBlock {
	errv := errResultOfCall(c)
	cur := c.Block()
	for hops := 0; hops < 6; hops++ {
		iff, ok := terminator(cur).(*ssa.If)
		if !ok {
			return nil
		}
		if errv != nil {
			if t, ok := classifyErrCond(iff.Cond, errv); ok && t.kind == "nil" {
				if t.trueMeans {
					cur = cur.Succs[0]
				} else {
					cur = cur.Succs[1]
				}
				continue
			}
		}
		if x, y, op, ok := relCond(iff.Cond); ok {
			if lc, isC := x.(*ssa.Call); isC && isBuiltinCall(lc.Common(), "len") && lc.Call.Args[0] == deleted {
				if k, isK := constInt(y); isK && k == 0 {
					switch op {
					case token.EQL:
						return cur.Succs[1]
					case token.NEQ, token.GTR:
						return cur.Succs[0]
					}
				}
			}
		}
		return nil
	}
	return nil
}
