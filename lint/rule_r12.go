package main

import (
	"fmt"
	"go/types"
	"os"
	"sort"
	"strings"

	"golang.org/x/tools/go/ssa"
)

// R12 EFFECT-CONFINEMENT — who can change a log file (C19, C20)

var mutatorFuncs = map[string]bool{
	"os.Rename": true, "os.Remove": true, "os.RemoveAll": true, "os.Truncate": true, "os.WriteFile": true,
	"os.Create": true, "os.Chtimes": true, "os.Chmod": true, "os.Link": true, "os.Symlink": true,
	"(*os.File).Write": true, "(*os.File).WriteAt": true, "(*os.File).WriteString": true,
	"(*os.File).Truncate": true, "(*os.File).ReadFrom": true,
}

const osWriteFlags = 0x1 | 0x2 | 0x40 | 0x200 | 0x400 // O_WRONLY|O_RDWR|O_CREATE|O_TRUNC|O_APPEND (linux)

// isMutatorCall: does the call change a file (not a directory)?
func isMutatorCall(c *ssa.CallCommon) (bool, string) {
	nm := calleeName(c)
	if mutatorFuncs[nm] {
		return true, nm
	}
	if nm == "os.OpenFile" && len(c.Args) >= 2 {
		if k, ok := constInt(c.Args[1]); !ok || k&osWriteFlags != 0 {
			return true, nm + "(write)"
		}
	}
	if nm == "io.Copy" || nm == "io.CopyN" || nm == "io.CopyBuffer" {
		// writes into its first argument if that is a file
		if len(c.Args) > 0 && typeIs(stripConv(c.Args[0]).Type(), "os", "File") {
			return true, nm
		}
	}
	return false, ""
}

// paramIndexOf: if v derives (directly, or as the first element of filepath.Join /
// string concatenation prefix) from a parameter of fn, its index.
func paramRoot(fn *ssa.Function, v ssa.Value, depth int) int {
	if depth > 8 {
		return -1
	}
	v = canon(v)
	for i, pr := range fn.Params {
		if pr == v {
			return i
		}
	}
	switch x := v.(type) {
	case *ssa.Call:
		if calleeName(x.Common()) == "path/filepath.Join" && len(x.Call.Args) == 1 {
			if el := variadicArgs(x.Call.Args[0]); len(el) > 0 && el[0] != nil {
				return paramRoot(fn, el[0], depth+1)
			}
		}
	case *ssa.BinOp:
		return paramRoot(fn, x.X, depth+1)
	}
	return -1
}

// fileOrigins: for a *os.File operand, the path operands of the open calls that may have
// produced it (nil if any origin is unknown).
func fileOrigins(v ssa.Value, depth int) []ssa.Value {
	if depth > 6 {
		return nil
	}
	switch x := v.(type) {
	case *ssa.Extract:
		if c, ok := x.Tuple.(*ssa.Call); ok {
			switch calleeName(c.Common()) {
			case "os.OpenFile", "os.Create", "os.Open":
				return []ssa.Value{c.Call.Args[0]}
			}
		}
	case *ssa.Phi:
		var out []ssa.Value
		for _, e := range x.Edges {
			o := fileOrigins(e, depth+1)
			if o == nil {
				return nil
			}
			out = append(out, o...)
		}
		return out
	case *ssa.UnOp:
		if al, ok := x.X.(*ssa.Alloc); ok {
			var out []ssa.Value
			for _, st := range allocStores(al) {
				o := fileOrigins(st.Val, depth+1)
				if o == nil {
					return nil
				}
				out = append(out, o...)
			}
			return out
		}
	case *ssa.MakeInterface:
		return fileOrigins(x.X, depth+1)
	case *ssa.ChangeInterface:
		return fileOrigins(x.X, depth+1)
	}
	return nil
}

type mutSite struct {
	fn    *ssa.Function
	call  ssa.CallInstruction
	what  string
	paths []ssa.Value // path operand(s) (nil if unknown)
	chain []string
}

// targetParams computes which (function, parameter) pairs are only ever bound to values
// derived from the target-directory parameter of the backup API.
func (p *Prog) targetParams() map[*ssa.Function]map[int]bool {
	tp := map[*ssa.Function]map[int]bool{}
	mark := func(fn *ssa.Function, i int) {
		if fn == nil {
			return
		}
		if tp[fn] == nil {
			tp[fn] = map[int]bool{}
		}
		tp[fn][i] = true
	}
	// seeds: Log.Backup(dir) -> parameter 1 (after the receiver); klevdb.Backup(src, dst) -> parameter 1
	mark(p.R.ImplMethods["Backup"], 1)
	mark(p.pkgFunc(pkgRoot, "Backup"), 1)
	for iter := 0; iter < 10; iter++ {
		changed := false
		// candidate callee params: all call sites must pass target-derived values
		type key struct {
			g *ssa.Function
			i int
		}
		okAll := map[key]bool{}
		seen := map[key]bool{}
		for _, fn := range p.Funcs {
			if !srcFunc(fn) {
				continue // promoted-method / bound wrappers without callers of their own
			}
			for _, b := range fn.Blocks {
				for _, ins := range b.Instrs {
					c, ok := ins.(ssa.CallInstruction)
					if !ok {
						continue
					}
					for _, g := range p.callees(c) {
						if !inModule(g) || g.Blocks == nil {
							continue
						}
						for i, a := range c.Common().Args {
							if i >= len(g.Params) {
								break
							}
							if b, ok := g.Params[i].Type().Underlying().(*types.Basic); !ok || b.Kind() != types.String {
								continue
							}
							k := key{g, i}
							pi := paramRoot(fn, a, 0)
							derived := pi >= 0 && tp[fn][pi]
							if !seen[k] {
								seen[k] = true
								okAll[k] = derived
							} else if !derived {
								okAll[k] = false
							}
						}
					}
				}
			}
		}
		for k, ok := range okAll {
			if ok && !tp[k.g][k.i] {
				mark(k.g, k.i)
				changed = true
			}
		}
		if !changed {
			break
		}
	}
	return tp
}

func (p *Prog) reachMutators(root *ssa.Function, assume Assume) []mutSite {
	var out []mutSite
	seen := map[*ssa.Function]bool{}
	var walk func(fn *ssa.Function, chain []string)
	walk = func(fn *ssa.Function, chain []string) {
		if fn == nil || seen[fn] || fn.Blocks == nil || !inModule(fn) {
			return
		}
		seen[fn] = true
		chain = append(append([]string{}, chain...), funcLabel(fn))
		reach := reachableBlocks(fn, func(b *ssa.BasicBlock) []*ssa.BasicBlock { return p.prunedSuccs(b, assume) })
		for _, b := range fn.Blocks {
			if !reach[b] {
				continue
			}
			for _, ins := range b.Instrs {
				if mc, ok := ins.(*ssa.MakeClosure); ok {
					walk(mc.Fn.(*ssa.Function), chain)
				}
				c, ok := ins.(ssa.CallInstruction)
				if !ok {
					continue
				}
				if is, what := isMutatorCall(c.Common()); is {
					ms := mutSite{fn: fn, call: c, what: what, chain: chain}
					args := c.Common().Args
					if len(args) > 0 {
						if strings.HasPrefix(what, "(*os.File)") || strings.HasPrefix(what, "io.Copy") {
							ms.paths = fileOrigins(args[0], 0)
						} else if what == "os.Rename" || what == "os.Link" || what == "os.Symlink" {
							ms.paths = []ssa.Value{args[0], args[1]}
						} else {
							ms.paths = []ssa.Value{args[0]}
						}
					}
					out = append(out, ms)
				}
				for _, g := range p.callees(c) {
					walk(g, chain)
				}
			}
		}
	}
	walk(root, nil)
	return out
}

func ruleR12(p *Prog) []Ob {
	var obs []Ob
	tp := p.targetParams()
	if os.Getenv("KLDBG") != "" {
		dbgTarget(p)
	}
	stored := p.optionsStored("Readonly")

	// the index package only ever gets Index paths
	{
		ob := Ob{Rule: "R12", Inst: "index-paths", Props: []string{"C19", "C20"}, Pos: "-", Nontrivial: true}
		var bad []string
		n := 0
		for _, fn := range p.Funcs {
			if !srcFunc(fn) || funcPkgPath(fn) == pkgIndex {
				continue
			}
			for _, b := range fn.Blocks {
				for _, ins := range b.Instrs {
					c, ok := ins.(*ssa.Call)
					if !ok {
						continue
					}
					g := c.Common().StaticCallee()
					if g == nil || funcPkgPath(g) != pkgIndex || len(g.Params) == 0 || g.Signature.Recv() != nil {
						continue
					}
					if bt, ok := g.Params[0].Type().Underlying().(*types.Basic); !ok || bt.Kind() != types.String {
						continue
					}
					if !p.reaches(g, func(h *ssa.Function) bool { nm := fullName(h); return nm == "os.OpenFile" || nm == "os.Open" }) {
						continue
					}
					n++
					pc := p.classifyPath(c.Call.Args[0])
					if !(pc.kind == "seg" && pc.fld == "Index") {
						bad = append(bad, fmt.Sprintf("%s: %s is handed a path that is not a Segment's Index field (%s)", p.at(c), funcLabel(g), pc))
					}
				}
			}
		}
		if len(bad) > 0 {
			ob.Status, ob.Msg, ob.Path = Violated, "pkg/index writes files, and is exempt from the confinement rule only because it is handed index paths", bad
		} else {
			ob.Status, ob.Msg = Discharged, fmt.Sprintf("all %d call sites of path-taking pkg/index functions pass a Segment's Index field", n)
		}
		obs = append(obs, ob)
	}

	judge := func(inst string, props []string, root *ssa.Function, assume Assume, allowTarget bool) {
		ob := Ob{Rule: "R12", Inst: inst, Props: props, Nontrivial: true, Func: funcLabel(root)}
		if root == nil {
			ob.Pos, ob.Status, ob.Msg = "-", Undecided, "root function not found"
			obs = append(obs, ob)
			return
		}
		ob.Pos = p.posStr(root.Pos())
		if len(assume) > 0 && len(stored) > 0 {
			ob.Status, ob.Msg = Undecided, "Options.Readonly is assigned inside the module; option pruning is not sound"
			obs = append(obs, ob)
			return
		}
		var bad []string
		sites := p.reachMutators(root, assume)
		allowed := 0
		for _, ms := range sites {
			if funcPkgPath(ms.fn) == pkgIndex && !allowTarget {
				allowed++ // index files are derived data (paths checked above)
				continue
			}
			// a backup leaves the source unchanged: not even a missing index is built there
			if allowTarget && len(ms.paths) > 0 {
				all := true
				for _, pv := range ms.paths {
					if pi := paramRoot(ms.fn, pv, 0); pi < 0 || !tp[ms.fn][pi] {
						all = false
					}
				}
				if all {
					allowed++
					continue
				}
			}
			bad = append(bad, fmt.Sprintf("%s: %s reachable via %s", p.at(ms.call), ms.what, strings.Join(ms.chain, " → ")))
		}
		sort.Strings(bad)
		bad = uniqStrings(bad)
		if len(bad) > 0 {
			ob.Status = Violated
			ob.Msg = fmt.Sprintf("under [%s] a call that changes a log file is reachable", assume)
			if len(bad) > 8 {
				bad = append(bad[:8], fmt.Sprintf("... %d more", len(bad)-8))
			}
			ob.Path = bad
		} else {
			ob.Status = Discharged
			ob.Msg = fmt.Sprintf("under [%s] no log-file mutator is reachable (%d reachable mutating calls, all on index files or the backup target)", assume, allowed)
		}
		obs = append(obs, ob)
	}

	ro := Assume{"Readonly": true}
	judge("readonly:Open", []string{"C19"}, p.R.Open, ro, false)
	for _, name := range sortedKeys(p.R.ImplMethods) {
		judge("readonly:Log."+name, []string{"C19"}, p.R.ImplMethods[name], ro, name == "Backup")
	}
	for _, name := range []string{"Consume", "ConsumeByKey", "Get", "GetByKey", "OffsetByKey", "GetByTime", "OffsetByTime", "NextOffset", "Stat", "GC", "Size"} {
		judge("query:Log."+name, []string{"C19", "C08", "C11"}, p.R.ImplMethods[name], nil, false)
	}
	judge("backup:Log.Backup", []string{"C20", "C19"}, p.R.ImplMethods["Backup"], nil, true)
	judge("backup:klevdb.Backup", []string{"C20"}, p.pkgFunc(pkgRoot, "Backup"), nil, true)
	judge("query:klevdb.Stat", []string{"C19"}, p.pkgFunc(pkgRoot, "Stat"), nil, false)
	judge("query:klevdb.Check", []string{"C19"}, p.pkgFunc(pkgRoot, "Check"), nil, false)

	// non-vacuity: in read-write mode the write path does reach mutators
	{
		ob := Ob{Rule: "R12", Inst: "control:readwrite-reaches-mutators", Props: []string{"C19", "C20"}, Pos: "-"}
		n := len(p.reachMutators(p.R.ImplMethods["Publish"], Assume{"Readonly": false})) + len(p.reachMutators(p.R.Open, Assume{"Readonly": false}))
		if n == 0 {
			ob.Status, ob.Msg = Undecided, "no mutating call is reachable from Open/Publish even in read-write mode: the effect table no longer sees the writers"
		} else {
			ob.Status, ob.Msg = Discharged, fmt.Sprintf("control: %d mutating calls reachable from Open/Publish in read-write mode", n)
		}
		obs = append(obs, ob)
	}
	return obs
}
