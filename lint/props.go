package main

// What each property's check decides and does not decide (DESIGN.md §5); copied
// verbatim into the evidence so that a pass is never read as "the behavioural
// property holds".
func init() {
	propInfo = map[string]propText{
		"C01": {
			"every record a rewrite/recover/migrate loop reads is written unchanged or (delete only) reported, never dropped or altered in between, and its index item is derived from the same record and the right position (R11); the bytes that carry key, value and time are laid out and read back per the documented layout (R9); segment file names sort numerically and temp files are never mistaken for segments (R13); a replacement segment is in place before the original is removed (R2 O3). On the publish path a message's time is stored as given, the only replacement being time.Now() for a zero time (R33); Segment values, which are compared with == to decide whether a rewrite replaces its source in place, are always built from a verbatim directory string (R34); each record of a batch is followed by its index item before the next record is written (R11 L4).",
			"equality with a reference list after arbitrary histories; roll-over/reopen bookkeeping; anything value-level."},
		"C02": {
			"the encoded offset is always the assigned one (base+i, base read from the head's atomic next-offset under the writer lock), never the caller's; the atomic is stored only at construction and at append, from last.Offset+1 (R17, R3); an emptied head is replaced by an empty successor named after the next offset before it is removed (R2 O4); a newly created segment is only ever named 0 or after the live next offset (R17e); zero-padded names (R13). Check/Recover accept a stored index only if it equals the whole index derived from the log, so the next offset taken from it never lags the log (R11 L7).",
			"non-reuse over delete/reopen histories in general (which head-delete branch applies is value-level)."},
		"C03": {
			"the identity-compared sentinels that implement 'after the end of a closed segment continue in the next one' and 'an empty/exhausted head means caught up' arrive unwrapped and are still produced (R6).",
			"the binary searches, contiguity, maxCount, next-offset arithmetic: all quantify over offsets and hole patterns."},
		"C04": {
			"every sentinel that Get can return classifies under ErrNotFound/ErrInvalidOffset as documented (R7a); nothing outside the public taxonomy escapes from any Log method (R7b); the after-end to not-found mapping for non-head segments still sees its sentinel (R6). Log.Get asks the picked segment for exactly the offset it was asked for (R28) and classifies that segment's empty outcome before returning, so an empty head does not answer for the whole log (R35); no branch depends on the wall clock (R30).",
			"'iff live'; agreement with Consume; which message a relative offset resolves to beyond the empty-head case."},
		"C05": {
			"the order of the file-system steps inside Override, Migrate, the rebase and empty-head paths, and stale deterministic temp files (R2 O1-O5); Recover's scan leaves its loop only on EOF / corruption / hard error (R11 L3); a torn record header is corruption, not EOF (R10c); temp logs are fsynced before rename (R1 I4-I6). The live log name is never removed or renamed away before its replacement is renamed onto it (R2 O8); once Recover's scan ended at corruption every success return is preceded by that rename (R2 O9); an index whose size is not a whole number of items is rejected, not rounded (R10g).",
			"that the directory after every crash point reopens consistently, in particular the window between Rename and Remove of a rebased segment (a protocol gap this technique cannot judge)."},
		"C06": {
			"R1 I1-I7: on every path, under the relevant options, the head log is fsynced after its last write before Sync / Publish(AutoSync) / Close acknowledge; the old head's log and index are fsynced before a new head exists; rewritten, recovered and migrated logs and every whole-index write are fsynced before they are renamed in / returned; only rewrite products are renamed in.",
			"that the fsynced bytes are the right ones (C13), directory durability (excluded by the property's own fault model), the recovery side (C05/C07)."},
		"C07": {
			"decoders reject before they return (CRC, trailer, bounded sizes) and classify a torn header as corruption (R10a-c); the Recover/Check/reindex scans derive each index item from the record they just read at the position they read it, and compare/write exactly that slice (R11 L2, L3); a missing index is tolerated by Check/Recover (R16). Check/Recover report success only behind the scan of the log (R11 L8); a decoder returns io.EOF only where the file read reported it (R10h); an index file's bytes are only ever produced by the index package (R12c).",
			"'precisely the longest valid prefix', byte-for-byte no-op, the iff of Check."},
		"C08": {
			"common-guard discipline for every shared mutable field of the module (R3 lockset); acyclic lock order and no recursive read lock (R4); the unload refcount protocol (R5); re-validation of a head rewrite snapshot under the writer lock (R18); readers cannot hold a segment across its close (R20); a scan of the head segment's file outside the writer lock is bounded by a size captured under it (R21). A batch becomes visible in the in-memory index once, after all of its records are written (R11 L4); in every reading context the next-offset atomic is loaded before the state it bounds (call-level R3c); the lazy rebuild of a segment's index file runs under the reader's index lock (R16c); find-rewrite-swap of a delete is one critical section of the delete lock (R18b).",
			"linearizability of results; Stat's allowed anomaly; races in dependencies."},
		"C09": {
			"a hash candidate is returned only after a byte comparison with the caller's key (R8 K1); key tree and item list grow together (R8 K2); the first-hit loops over segments and over candidates run newest-first (R8 K3); the segment walk still sees ErrKeyNotFound (R6); ErrNoIndex guard (R7c). The key cursor loads the next offset before looking the key up, so a concurrent publish is never skipped (call-level R3c); every outcome of the per-segment key lookup is classified by the loop over the segments (R35). The Message a record is decoded into is fresh for every record, so a record without key never keeps the previous record's (R10i); the index objects hand on what the shared lookup computed (R36b).",
			"that the lists are in fact ascending by offset (C01/C02); behaviour after deletes; ConsumeByKey's cursor arithmetic."},
		"C10": {
			"the before-start/after-end sentinels that drive the segment walk arrive unwrapped and alive, and never escape to the caller (R6, R7b); ErrNoIndex guard (R7c). Every outcome sentinel the pure time lookup can report (before start, after end, index empty) is classified inside the loop over the segments, so an empty head does not end the search (R35); no branch of the lookup depends on the wall clock (R30); the index timestamp is max(UnixMicro(time), previous) on every path (R29); message times are stored as given (R33).",
			"everything about which message is found (the binary search, equal timestamps across a segment boundary, what each classified outcome then does: value-level, invisible here)."},
		"C11": {
			"every consumer of an index file tolerates its absence or runs where it is ensured (R16); every path that replaces a log file removes/rewrites the index in a safe order and derives it from the new file's positions (R2 O1/O2, R11 L2); writer and reader of the four item layouts agree (R9); whole-index writes are fsynced (R1 I7). In the publish loop every record's index item is written in the same iteration (R11 L4); every index-deriving loop seeds the carried timestamp like its siblings (R11 L6); stored and derived index are compared whole (R11 L7); the lazy rebuild is serialised by the index lock (R16c); a torn trailing item makes the index invalid instead of being ignored (R10g).",
			"item-by-item equality after arbitrary histories."},
		"C12": {
			"in the rewrite loop 'deleted' and 'kept' partition the records read, with 'deleted' only under membership in the caller's set (R11 L1); relative offsets rejected, empty set is a no-op before any lock (R7c); a head snapshot is re-validated before it replaces the head (R18); errSegmentChanged still reaches its comparison (R6). A Segment built for a rewrite has the directory of its source verbatim, so 'same base offset' is recognised (R34); deletes are serialised by the delete lock across find, rewrite and swap (R18b); Segment.Remove removes the log on every success path (R2 O7).",
			"deletedSize arithmetic; the multi-pass driver; idempotence."},
		"C13": {
			"R9: encoder = decoder = documented layout for V1/V2 records, file headers and the four index item layouts; CRC table and coverage; Size(); key hash; R19: every version switch is exhaustive. Params.Times/Keys are Options.TimeIndex/KeyIndex wherever an index.Params is built (R39); a segment reader answers Stat from the files, in this call (R36c); index bytes are produced by the index package alone (R12c).",
			"Stat over histories; mmap vs file reader equivalence beyond 'same decoder function'; that library codecs invert each other."},
		"C14": {
			"R10 (a)-(d): bounded allocation, CRC and trailer dominate every success return of a decoder, a torn header is corruption, an empty read result is never indexed.",
			"that other segments keep answering; panics in dependencies; index-file damage (excluded by the property)."},
		"C15": {
			"every trim finder scans from OffsetOldest and continues where the previous Consume ended (R37 cursor); every offset it selects is the Offset of a message of the batch just consumed (R37 selection); FindByOffset selects a message only where its offset was compared as below the bound, FindByAge only where it was tested as not after the cut-off, on that same message (R37 bound); every Trim* wrapper hands its finder's set unchanged to the delete, only where the finder succeeded (R38 plumbing); the multi-segment drivers only ever ask the log for a shrinking clone of the set they were given (R38 driver).",
			"the bound itself: how many messages the count and size finders select (arithmetic over Stat and Size values), 'exactly min(count, max) left', 'size below the target', 'none older left'; that the selected set is a prefix when a scan ends early; everything Delete does with the set (C12)."},
		"C16": {
			"both compaction finders scan from OffsetOldest without gaps (R37 cursor); the key tree is keyed by a message's own Key bytes and stores that message's own Offset, and only messages tested as not after the cut-off enter it (R37 key); FindUpdates selects only what the tree gave back as the replaced holder of the same key, where the tree said a value was replaced; FindDeletes selects the current message only where its Value was tested nil (or empty) and the tree said its key was not seen before (R37 selection); wrappers and drivers as for C15 (R38).",
			"that the latest value per key is unchanged (a statement about all keys and offsets); behaviour of the radix tree for keys that are prefixes of each other; cut-off arithmetic in Compact (time.Now() - age); everything Delete does with the set (C12)."},
		"C17": {
			"each version has an encoder and a decoder that agree with the layout (R9), every version switch is exhaustive (R19), the migrate loop copies every record and indexes destination positions (R11), migrates in a safe order with the temp file fsynced (R2 O2, R1 I5). The version kept for what is created next is the configured one handed down unchanged (R19c); whether a segment is migrated at Open depends on the options only (R19d).",
			"which version a segment ends up in; idempotence; mixed-version behavioural equivalence."},
		"C18": {
			"R14: wrappers publish-then-set and wait-before-consume; the notifier's token discipline; probe under the token; broadcast closes the received channel and installs a fresh one; monotone store. The parking select has only the broadcast channel and the caller's context as cases (R14d).",
			"that a waiter stays parked when nothing happens; what a woken call returns; fairness."},
		"C19": {
			"lock mode per Readonly, release on failed Open and in Close (R15); Publish/Delete reject before any effect (R7c); no log-file mutator is reachable in read-only mode or from any query method (R12). Every failing return of Open behind the deferred release hands back the variable that release tests (R15).",
			"flock(2) semantics across handles; that a read-only handle answers like a read-write one."},
		"C20": {
			"'leaving the source unchanged': no source-side log-file mutator is reachable from Log.Backup / klevdb.Backup (R12). No level of the backup chain returns success without handing every segment to the copy (R25 b); the copy creates its target (R25 a) and skips an existing one only where the sizes were compared equal (R25 a2); a missing index does not fail the backup, and the test for it sees through the copy's error wrapping (R16).",
			"that the copy opens to the same log (run-time)."},
	}
}
