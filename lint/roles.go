package main

import (
	"fmt"
	"go/token"
	"go/types"
	"sort"
	"strings"

	"golang.org/x/tools/go/ssa"
)

const (
	pkgRoot    = modPath
	pkgMessage = modPath + "/pkg/message"
	pkgIndex   = modPath + "/pkg/index"
	pkgSegment = modPath + "/pkg/segment"
	pkgNotify  = modPath + "/pkg/notify"
	pkgKdir    = modPath + "/pkg/kdir"
)

// Roles are the internal constructs of klevdb, found by what they are (types
// of their fields, what they are converted to, what calls them), never by
// their unexported names.  Exported API names are used as anchors.
type Roles struct {
	Missing []string

	Open     *ssa.Function
	LogIface *types.Named
	Options  *types.Named

	Impl        *types.Named
	HeadWriter  *types.Named
	SegReader   *types.Named
	HeadIndex   *types.Named
	ReaderIndex *types.Named
	Wrappers    []*types.Named

	MsgWriter, MsgReader, IdxWriter *types.Named
	Segment, RewriteSegment         *types.Named
	NotifyOffset, Params, Item      *types.Named
	Message                         *types.Named

	MsgWriterFile, IdxWriterFile *types.Var // the *os.File field
	MsgWriterPath, MsgReaderPath *types.Var // exported Path fields

	ImplWriter, ImplReaders, ImplOpts, ImplFlock *types.Var
	WriterMu, ReadersMu, DeleteMu                *types.Var

	HWMessages, HWItems, HWIndex, HWReader, HWSegment *types.Var

	SRMessages, SRMessagesMu, SRIndex, SRIndexMu, SRInuse, SRSegment *types.Var

	HIItems, HIMu, HINextOffset *types.Var

	ImplMethods map[string]*ssa.Function // methods of interface Log on Impl

	RecEncoders, RecDecoders []*ssa.Function
	ItemEncoders             []*ssa.Function
}

func (r *Roles) miss(what string) {
	r.Missing = append(r.Missing, what)
}

func fieldsOfType(s *types.Struct, pred func(types.Type) bool) []*types.Var {
	var out []*types.Var
	for i := 0; i < s.NumFields(); i++ {
		if pred(s.Field(i).Type()) {
			out = append(out, s.Field(i))
		}
	}
	return out
}

func isPtrTo(pkg, name string) func(types.Type) bool {
	return func(t types.Type) bool {
		_, ok := t.(*types.Pointer)
		return ok && typeIs(t, pkg, name)
	}
}

func isVal(pkg, name string) func(types.Type) bool {
	return func(t types.Type) bool {
		_, ptr := t.(*types.Pointer)
		return !ptr && typeIs(t, pkg, name)
	}
}

func one(r *Roles, what string, fs []*types.Var) *types.Var {
	if len(fs) != 1 {
		r.miss(fmt.Sprintf("%s (found %d candidates)", what, len(fs)))
		return nil
	}
	return fs[0]
}

func (p *Prog) resolveRoles() *Roles {
	r := &Roles{ImplMethods: map[string]*ssa.Function{}}
	p.R = r

	need := func(pkg, name string) *types.Named {
		n := p.pkgType(pkg, name)
		if n == nil {
			r.miss("type " + pkg + "." + name)
		}
		return n
	}
	r.LogIface = need(pkgRoot, "Log")
	r.Options = need(pkgRoot, "Options")
	r.MsgWriter = need(pkgMessage, "Writer")
	r.MsgReader = need(pkgMessage, "Reader")
	r.Message = need(pkgMessage, "Message")
	r.IdxWriter = need(pkgIndex, "Writer")
	r.Params = need(pkgIndex, "Params")
	r.Item = need(pkgIndex, "Item")
	r.Segment = need(pkgSegment, "Segment")
	r.RewriteSegment = need(pkgSegment, "RewriteSegment")
	r.NotifyOffset = need(pkgNotify, "Offset")
	r.Open = p.pkgFunc(pkgRoot, "Open")
	if r.Open == nil {
		r.miss("func klevdb.Open")
	}
	if len(r.Missing) > 0 {
		return r
	}

	isOSFile := isPtrTo("os", "File")
	if s := structOf(r.MsgWriter); s != nil {
		r.MsgWriterFile = one(r, "*os.File field of message.Writer", fieldsOfType(s, isOSFile))
		for i := 0; i < s.NumFields(); i++ {
			if s.Field(i).Name() == "Path" {
				r.MsgWriterPath = s.Field(i)
			}
		}
	}
	if s := structOf(r.MsgReader); s != nil {
		for i := 0; i < s.NumFields(); i++ {
			if s.Field(i).Name() == "Path" {
				r.MsgReaderPath = s.Field(i)
			}
		}
	}
	if s := structOf(r.IdxWriter); s != nil {
		r.IdxWriterFile = one(r, "*os.File field of index.Writer", fieldsOfType(s, isOSFile))
	}

	// Impl: the concrete type converted to Log in Open.
	for _, b := range r.Open.Blocks {
		for _, ins := range b.Instrs {
			mi, ok := ins.(*ssa.MakeInterface)
			if !ok || namedOf(mi.Type()) != r.LogIface {
				continue
			}
			if n := namedOf(mi.X.Type()); n != nil && n.Obj().Pkg() != nil && n.Obj().Pkg().Path() == pkgRoot {
				if r.Impl != nil && r.Impl != n {
					r.miss("Impl: Open converts more than one type to Log")
				}
				r.Impl = n
			}
		}
	}
	if r.Impl == nil {
		r.miss("Impl (the type Open converts to Log)")
		return r
	}

	// struct roles in the root package
	rootScope := p.ByPath[pkgRoot].Types.Scope()
	for _, nm := range rootScope.Names() {
		tn, ok := rootScope.Lookup(nm).(*types.TypeName)
		if !ok || tn.IsAlias() {
			continue
		}
		n, ok := tn.Type().(*types.Named)
		if !ok {
			continue
		}
		s, ok := n.Underlying().(*types.Struct)
		if !ok {
			continue
		}
		mw := fieldsOfType(s, isPtrTo(pkgMessage, "Writer"))
		iw := fieldsOfType(s, isPtrTo(pkgIndex, "Writer"))
		mr := fieldsOfType(s, isPtrTo(pkgMessage, "Reader"))
		rw := fieldsOfType(s, isVal("sync", "RWMutex"))
		items := fieldsOfType(s, func(t types.Type) bool {
			sl, ok := t.(*types.Slice)
			return ok && typeIs(sl.Elem(), pkgIndex, "Item")
		})
		nf := fieldsOfType(s, isPtrTo(pkgNotify, "Offset"))
		switch {
		case len(mw) == 1 && len(iw) == 1:
			if r.HeadWriter != nil {
				r.miss("HeadWriter: more than one struct owns a message.Writer and an index.Writer")
			}
			r.HeadWriter = n
			r.HWMessages, r.HWItems = mw[0], iw[0]
		case len(mr) == 1 && len(rw) >= 1:
			if r.SegReader != nil {
				r.miss("SegReader: more than one struct owns a message.Reader and an RWMutex")
			}
			r.SegReader = n
			r.SRMessages = mr[0]
		case len(items) == 1 && len(rw) >= 1:
			r.HeadIndex = n
			r.HIItems, r.HIMu = items[0], rw[0]
			if len(rw) > 1 {
				// several locks: the one that guards the items is the one locked in the function that
				// stores the items field
				for _, fn := range p.Funcs {
					stores := false
					var locked *types.Var
					for _, b := range fn.Blocks {
						for _, ins := range b.Instrs {
							switch x := ins.(type) {
							case *ssa.Store:
								if fa, ok := x.Addr.(*ssa.FieldAddr); ok && fieldVarOfAddr(fa) == items[0] && !underConstruction(fa) {
									stores = true
								}
							case *ssa.Call:
								if calleeName(x.Common()) == "(*sync.RWMutex).Lock" && len(x.Call.Args) == 1 {
									if fa, ok := x.Call.Args[0].(*ssa.FieldAddr); ok {
										for _, cand := range rw {
											if fieldVarOfAddr(fa) == cand {
												locked = cand
											}
										}
									}
								}
							}
						}
					}
					if stores && locked != nil {
						r.HIMu = locked
					}
				}
			}
		case len(items) == 1 && len(rw) == 0 && n != r.Impl:
			r.ReaderIndex = n
		case len(nf) == 1:
			r.Wrappers = append(r.Wrappers, n)
		}
	}
	if r.HeadWriter == nil {
		r.miss("HeadWriter struct")
	}
	if r.SegReader == nil {
		r.miss("SegReader struct")
	}
	if r.HeadIndex == nil {
		r.miss("HeadIndex struct")
	}
	if len(r.Missing) > 0 {
		return r
	}

	// Impl fields
	is := structOf(r.Impl)
	r.ImplWriter = one(r, "Impl field of type *HeadWriter", fieldsOfType(is, func(t types.Type) bool {
		_, ptr := t.(*types.Pointer)
		return ptr && namedOf(t) == r.HeadWriter
	}))
	r.ImplReaders = one(r, "Impl field of type []*SegReader", fieldsOfType(is, func(t types.Type) bool {
		sl, ok := t.(*types.Slice)
		return ok && namedOf(sl.Elem()) == r.SegReader
	}))
	r.ImplOpts = one(r, "Impl field of type Options", fieldsOfType(is, func(t types.Type) bool { return namedOf(t) == r.Options }))
	r.ImplFlock = one(r, "Impl field of type *flock.Flock", fieldsOfType(is, isPtrTo("github.com/gofrs/flock", "Flock")))
	r.ReadersMu = one(r, "Impl RWMutex (segment list lock)", fieldsOfType(is, isVal("sync", "RWMutex")))

	// HeadWriter fields
	hs := structOf(r.HeadWriter)
	r.HWIndex = one(r, "HeadWriter field of type *HeadIndex", fieldsOfType(hs, func(t types.Type) bool { return namedOf(t) == r.HeadIndex }))
	r.HWReader = one(r, "HeadWriter field of type *SegReader", fieldsOfType(hs, func(t types.Type) bool { return namedOf(t) == r.SegReader }))
	r.HWSegment = one(r, "HeadWriter field of type segment.Segment", fieldsOfType(hs, isVal(pkgSegment, "Segment")))

	// SegReader fields
	ss := structOf(r.SegReader)
	r.SRSegment = one(r, "SegReader field of type segment.Segment", fieldsOfType(ss, isVal(pkgSegment, "Segment")))
	r.SRIndex = one(r, "SegReader interface-typed index field", fieldsOfType(ss, func(t types.Type) bool {
		n := namedOf(t)
		return n != nil && types.IsInterface(n) && n.Obj().Pkg() != nil && n.Obj().Pkg().Path() == pkgRoot
	}))

	// HeadIndex atomic next offset: the atomic.Int64 stored in the function that appends to HIItems.
	p.resolveMethods(r)
	p.resolveLocks(r)
	p.resolveCodecs(r)
	return r
}

func (p *Prog) resolveMethods(r *Roles) {
	it := r.LogIface.Underlying().(*types.Interface)
	for i := 0; i < it.NumMethods(); i++ {
		m := it.Method(i)
		fn := p.methodOf(r.Impl, m.Name())
		if fn == nil {
			r.miss("Impl method " + m.Name())
			continue
		}
		r.ImplMethods[m.Name()] = fn
	}
}

// mutexFieldOfCall returns the mutex struct field a sync lock call operates on.
func mutexFieldOfCall(c *ssa.CallCommon) (*types.Var, string) {
	name := calleeName(c)
	var op string
	switch name {
	case "(*sync.Mutex).Lock", "(*sync.RWMutex).Lock":
		op = "L"
	case "(*sync.Mutex).Unlock", "(*sync.RWMutex).Unlock":
		op = "U"
	case "(*sync.RWMutex).RLock":
		op = "RL"
	case "(*sync.RWMutex).RUnlock":
		op = "RU"
	case "(*sync.Mutex).TryLock", "(*sync.RWMutex).TryLock", "(*sync.RWMutex).TryRLock":
		op = "TRY"
	default:
		return nil, ""
	}
	if len(c.Args) == 0 {
		return nil, op
	}
	if fa, ok := c.Args[0].(*ssa.FieldAddr); ok {
		return fieldVarOfAddr(fa), op
	}
	return nil, op
}

// resolveLocks finds which of Impl's sync.Mutex fields serialises publishes
// (held at the append to the head log in Publish) and which serialises deletes.
func (p *Prog) resolveLocks(r *Roles) {
	is := structOf(r.Impl)
	mus := fieldsOfType(is, isVal("sync", "Mutex"))
	pub := r.ImplMethods["Publish"]
	del := r.ImplMethods["Delete"]
	firstLock := func(fn *ssa.Function) *types.Var {
		if fn == nil {
			return nil
		}
		for _, b := range fn.DomPreorder() {
			for _, ins := range b.Instrs {
				if c, ok := ins.(*ssa.Call); ok {
					if f, op := mutexFieldOfCall(c.Common()); op == "L" && f != nil {
						for _, m := range mus {
							if m == f {
								return f
							}
						}
					}
				}
			}
		}
		return nil
	}
	// writer mutex: the sync.Mutex of Impl that is held wherever the head log is appended to
	// (decided from the lockset analysis, so it survives moving the Lock call into a helper);
	// the first-lock heuristic is only a fallback.
	ls := p.lockset()
	p.ls = ls
	cnt := map[*types.Var]int{}
	nWrites := 0
	for _, fn := range p.Funcs {
		if recvNamed(fn) != r.HeadWriter {
			continue
		}
		for _, b := range fn.Blocks {
			for _, ins := range b.Instrs {
				if c, ok := ins.(*ssa.Call); ok && calleeName(c.Common()) == "(*"+pkgMessage+".Writer).Write" {
					nWrites++
					for _, m := range mus {
						if ls.at[c][m] == modeW {
							cnt[m]++
						}
					}
				}
			}
		}
	}
	for _, m := range mus {
		if nWrites > 0 && cnt[m] == nWrites {
			if r.WriterMu == nil || m == firstLock(pub) {
				r.WriterMu = m
			}
		}
	}
	if r.WriterMu == nil {
		r.WriterMu = firstLock(pub)
	}
	if r.WriterMu == nil {
		r.miss("writer mutex (the sync.Mutex of Impl held at every append to the head log)")
	}
	// delete mutex: the other sync.Mutex of Impl (if there is exactly one other)
	for _, m := range mus {
		if m != r.WriterMu {
			if r.DeleteMu != nil {
				r.DeleteMu = firstLock(del)
				break
			}
			r.DeleteMu = m
		}
	}
	_ = del
	// SegReader mutexes: the RWMutex held around loads/stores of the messages
	// field and of the index field.
	ss := structOf(r.SegReader)
	rws := fieldsOfType(ss, isVal("sync", "RWMutex"))
	guard := map[*types.Var]map[*types.Var]int{} // data field -> mutex -> count
	for _, fn := range p.Funcs {
		if recvNamed(fn) != r.SegReader {
			continue
		}
		held := map[*types.Var]bool{}
		_ = held
		// cheap association: in a method that locks exactly one of the RWMutexes
		// and stores to exactly one of the two data fields, associate them.
		var locked, stored []*types.Var
		for _, b := range fn.Blocks {
			for _, ins := range b.Instrs {
				switch x := ins.(type) {
				case *ssa.Call:
					if f, op := mutexFieldOfCall(x.Common()); op == "L" && f != nil {
						locked = append(locked, f)
					}
				case *ssa.Store:
					if fa, ok := x.Addr.(*ssa.FieldAddr); ok {
						if f := fieldVarOfAddr(fa); f == r.SRMessages || f == r.SRIndex {
							stored = append(stored, f)
						}
					}
				}
			}
		}
		if len(locked) >= 1 && len(stored) >= 1 {
			uniq := func(v []*types.Var) []*types.Var {
				m := map[*types.Var]bool{}
				var o []*types.Var
				for _, x := range v {
					if !m[x] {
						m[x] = true
						o = append(o, x)
					}
				}
				return o
			}
			l, s := uniq(locked), uniq(stored)
			if len(l) == 1 && len(s) == 1 {
				if guard[s[0]] == nil {
					guard[s[0]] = map[*types.Var]int{}
				}
				guard[s[0]][l[0]]++
			}
		}
	}
	pick := func(data *types.Var, what string) *types.Var {
		var best *types.Var
		n := 0
		for m, c := range guard[data] {
			if c > n || (c == n && best != nil && m.Name() < best.Name()) {
				best, n = m, c
			}
		}
		if best == nil {
			r.miss(what)
		}
		return best
	}
	_ = rws
	r.SRMessagesMu = pick(r.SRMessages, "SegReader mutex guarding the messages field")
	r.SRIndexMu = pick(r.SRIndex, "SegReader mutex guarding the index field")
	if r.SRMessagesMu != nil && r.SRMessagesMu == r.SRIndexMu {
		r.miss("SegReader: one mutex guards both messages and index (expected two)")
	}

	// in-use counter: the atomic.Int64 field of SegReader that is Add-ed in the
	// function returning the messages field.
	for _, fn := range p.Funcs {
		if recvNamed(fn) != r.SegReader || !srcFunc(fn) {
			continue
		}
		res := fn.Signature.Results()
		if res.Len() == 0 || !typeIs(res.At(0).Type(), pkgMessage, "Reader") {
			continue
		}
		for _, b := range fn.Blocks {
			for _, ins := range b.Instrs {
				c, ok := ins.(*ssa.Call)
				if !ok || calleeName(c.Common()) != "(*sync/atomic.Int64).Add" {
					continue
				}
				if fa, ok := c.Call.Args[0].(*ssa.FieldAddr); ok {
					r.SRInuse = fieldVarOfAddr(fa)
				}
			}
		}
	}
	if r.SRInuse == nil {
		r.miss("SegReader in-use counter")
	}

	// HeadIndex next-offset atomic: the atomic.Int64 field of HeadIndex whose Load is what the
	// API method Log.NextOffset returns (through any chain of module functions).
	hs := structOf(r.HeadIndex)
	for _, cand := range fieldsOfType(hs, isVal("sync/atomic", "Int64")) {
		r.HINextOffset = cand
		sum := p.nextOffsetSummary()
		found := false
		if no := r.ImplMethods["NextOffset"]; no != nil {
			for _, rt := range returnsOf(no) {
				if len(rt.Results) > 0 && p.isNextOffsetValue(returnOperand(rt, 0), sum) {
					found = true
				}
			}
		}
		if found {
			break
		}
		r.HINextOffset = nil
	}
	if r.HINextOffset == nil {
		r.miss("HeadIndex next-offset atomic (the atomic whose Load Log.NextOffset returns)")
	}
}

// unwrapSynthetic maps bound-method wrappers and thunks to the method they call.
func unwrapSynthetic(fn *ssa.Function) *ssa.Function {
	for i := 0; i < 4 && fn != nil && fn.Synthetic != "" && !strings.HasPrefix(fn.Synthetic, "instance of"); i++ {
		var target *ssa.Function
		n := 0
		for _, b := range fn.Blocks {
			for _, ins := range b.Instrs {
				if c, ok := ins.(ssa.CallInstruction); ok {
					if f := c.Common().StaticCallee(); f != nil {
						target = f
						n++
					}
				}
			}
		}
		if n != 1 {
			return fn
		}
		fn = target
	}
	return fn
}

// dynamicCallees returns the (unwrapped) callees of the dynamic call(s) through
// a func-valued field inside fn.
func (p *Prog) dynamicCallees(fn *ssa.Function) []*ssa.Function {
	seen := map[*ssa.Function]bool{}
	var out []*ssa.Function
	if fn == nil {
		return nil
	}
	for _, b := range fn.Blocks {
		for _, ins := range b.Instrs {
			c, ok := ins.(ssa.CallInstruction)
			if !ok || c.Common().StaticCallee() != nil || c.Common().IsInvoke() {
				continue
			}
			if _, isB := c.Common().Value.(*ssa.Builtin); isB {
				continue
			}
			for _, g := range p.callees(c) {
				g = unwrapSynthetic(g)
				if !seen[g] {
					seen[g] = true
					out = append(out, g)
				}
			}
		}
	}
	sort.Slice(out, func(i, j int) bool { return out[i].String() < out[j].String() })
	return out
}

func (p *Prog) resolveCodecs(r *Roles) {
	r.RecEncoders = p.dynamicCallees(p.methodOf(r.MsgWriter, "Write"))
	r.RecDecoders = p.dynamicCallees(p.methodOf(r.MsgReader, "Read"))
	r.ItemEncoders = p.dynamicCallees(p.methodOf(r.IdxWriter, "Write"))
	if len(r.RecEncoders) == 0 {
		r.miss("record encoders (callees of the dynamic call in message.Writer.Write)")
	}
	if len(r.RecDecoders) == 0 {
		r.miss("record decoders (callees of the dynamic call in message.Reader.Read)")
	}
	if len(r.ItemEncoders) == 0 {
		r.miss("index item encoders (callees of the dynamic call in index.Writer.Write)")
	}
}

// optionField: if v is (a negation of) a load of a field of klevdb.Options
// (possibly nested, e.g. Version.KeepRewriteVersion), return its dotted name.
func (p *Prog) optionField(v ssa.Value) (name string, negated bool) {
	for {
		u, ok := v.(*ssa.UnOp)
		if ok && u.Op == token.NOT {
			negated = !negated
			v = u.X
			continue
		}
		break
	}
	var parts []string
	cur := v
	switch x := cur.(type) {
	case *ssa.UnOp:
		if x.Op != token.MUL {
			return "", false
		}
		addr := x.X
		for {
			fa, ok := addr.(*ssa.FieldAddr)
			if !ok {
				break
			}
			f := fieldVarOfAddr(fa)
			if f == nil {
				return "", false
			}
			parts = append([]string{f.Name()}, parts...)
			if namedOf(fa.X.Type()) == p.R.Options {
				return strings.Join(parts, "."), negated
			}
			addr = fa.X
		}
	case *ssa.Field:
		for {
			f := fieldVarOfField(x)
			if f == nil {
				return "", false
			}
			parts = append([]string{f.Name()}, parts...)
			if namedOf(x.X.Type()) == p.R.Options {
				return strings.Join(parts, "."), negated
			}
			nx, ok := x.X.(*ssa.Field)
			if !ok {
				// a struct value loaded from an address chain
				if u, ok := x.X.(*ssa.UnOp); ok && u.Op == token.MUL {
					addr := u.X
					for {
						fa, ok := addr.(*ssa.FieldAddr)
						if !ok {
							return "", false
						}
						ff := fieldVarOfAddr(fa)
						parts = append([]string{ff.Name()}, parts...)
						if namedOf(fa.X.Type()) == p.R.Options {
							return strings.Join(parts, "."), negated
						}
						addr = fa.X
					}
				}
				return "", false
			}
			x = nx
		}
	}
	return "", false
}

// Assume is an assumption on exported Options fields used for option pruning.
type Assume map[string]bool

func (a Assume) String() string {
	var ks []string
	for _, k := range sortedKeys(a) {
		ks = append(ks, fmt.Sprintf("%s=%v", k, a[k]))
	}
	return strings.Join(ks, ",")
}

// prunedSuccs returns the successors of b consistent with the assumption.
func (p *Prog) prunedSuccs(b *ssa.BasicBlock, assume Assume) []*ssa.BasicBlock {
	if len(assume) == 0 {
		return b.Succs
	}
	iff, ok := terminator(b).(*ssa.If)
	if !ok {
		return b.Succs
	}
	name, neg := p.optionField(iff.Cond)
	if name == "" {
		return b.Succs
	}
	val, ok := assume[name]
	if !ok {
		return b.Succs
	}
	if neg {
		val = !val
	}
	if val {
		return b.Succs[:1]
	}
	return b.Succs[1:2]
}
