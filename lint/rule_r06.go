package main

import (
	"fmt"
	"go/token"
	"sort"
	"strings"

	"golang.org/x/tools/go/ssa"
)

// R6 SENTINEL-IDENTITY — what is compared by == arrives unwrapped and alive
// (C03, C04, C09, C10, C12)

// apiReach: for every module function, the Log methods that reach it.
func (p *Prog) apiReach() map[*ssa.Function]map[string]bool {
	if p.apiReachMemo != nil {
		return p.apiReachMemo
	}
	out := map[*ssa.Function]map[string]bool{}
	for name, m := range p.R.ImplMethods {
		seen := map[*ssa.Function]bool{}
		var walk func(f *ssa.Function)
		walk = func(f *ssa.Function) {
			if f == nil || seen[f] || !inModule(f) || f.Blocks == nil {
				return
			}
			seen[f] = true
			if out[f] == nil {
				out[f] = map[string]bool{}
			}
			out[f][name] = true
			for _, b := range f.Blocks {
				for _, ins := range b.Instrs {
					if mc, ok := ins.(*ssa.MakeClosure); ok {
						walk(mc.Fn.(*ssa.Function))
					}
					if c, ok := ins.(ssa.CallInstruction); ok {
						for _, g := range p.callees(c) {
							walk(g)
						}
					}
				}
			}
		}
		walk(m)
	}
	p.apiReachMemo = out
	return out
}

var methodProps = map[string][]string{
	"Consume":      {"C03"},
	"Get":          {"C04"},
	"GetByKey":     {"C09"},
	"OffsetByKey":  {"C09"},
	"ConsumeByKey": {"C09"},
	"GetByTime":    {"C10"},
	"OffsetByTime": {"C10"},
	"Delete":       {"C12"},
}

func (p *Prog) propsForFunc(fn *ssa.Function) []string {
	set := map[string]bool{}
	for f := fn; f != nil; f = f.Parent() {
		for m := range p.apiReach()[f] {
			for _, pr := range methodProps[m] {
				set[pr] = true
			}
		}
	}
	return sortedKeys(set)
}

func ruleR6(p *Prog) []Ob {
	ea := p.ErrAtomsCached()
	var obs []Ob
	ord := map[string]int{}
	for _, fn := range p.Funcs {
		if !srcFunc(fn) {
			continue
		}
		for _, b := range fn.Blocks {
			for _, ins := range b.Instrs {
				var sent string
				var other ssa.Value
				kind := ""
				switch x := ins.(type) {
				case *ssa.BinOp:
					if (x.Op != token.EQL && x.Op != token.NEQ) || !isErrType(x.X.Type()) {
						continue
					}
					if s := sentinelOperand(x.X); strings.HasPrefix(s, "G:") {
						sent, other = s, x.Y
					} else if s := sentinelOperand(x.Y); strings.HasPrefix(s, "G:") {
						sent, other = s, x.X
					}
					kind = "=="
				case *ssa.Call:
					if calleeName(x.Common()) == "errors.Is" && len(x.Call.Args) == 2 {
						if s := sentinelOperand(x.Call.Args[1]); strings.HasPrefix(s, "G:") {
							sent, other = s, x.Call.Args[0]
							kind = "errors.Is"
						}
					}
				}
				if sent == "" || isNilConst(other) {
					continue
				}
				props := p.propsForFunc(fn)
				if len(props) == 0 {
					continue // not on the path of a Log method this rule serves
				}
				k := funcLabel(fn) + ":" + shortAtom(sent)
				ord[k]++
				inst := fmt.Sprintf("cmp:%s", k)
				if ord[k] > 1 {
					inst = fmt.Sprintf("cmp:%s#%d", k, ord[k])
				}
				at := ea.atomsAt(other, b)
				ob := Ob{Rule: "R6", Inst: inst, Props: props, Pos: p.at(ins), Func: funcLabel(fn), Nontrivial: true}
				var wrapped []string
				alive := false
				for a := range at {
					if kind == "==" {
						if a == sent {
							alive = true
						}
						if strings.HasPrefix(a, "W(") && ea.closure(baseAtom(a))[sent] {
							wrapped = append(wrapped, shortAtom(a))
						}
					} else if ea.matchesIs(a, sent) && a != "opaque" {
						alive = true
					}
				}
				sort.Strings(wrapped)
				switch {
				case len(wrapped) > 0:
					ob.Status = Violated
					ob.Msg = fmt.Sprintf("%s is compared by identity, but a wrapped copy %v can reach the comparison: the hand-off it implements is silently switched off for that path", shortAtom(sent), wrapped)
				case !alive:
					ob.Status = Violated
					ob.Msg = fmt.Sprintf("%s is compared (%s) but can no longer reach this comparison (atoms: %s): the branch it guards is dead", shortAtom(sent), kind, shortAtom(at.String()))
				default:
					ob.Status = Discharged
					ob.Msg = fmt.Sprintf("%s reaches the %s comparison unwrapped (atoms: %s)", shortAtom(sent), kind, shortAtom(at.String()))
				}
				obs = append(obs, ob)
			}
		}
	}
	return obs
}
