package main

import (
	"fmt"
	"go/ast"
	"go/constant"
	"go/token"
	"go/types"
	"sort"
	"strings"

	"golang.org/x/tools/go/ssa"
)

// Analysis F: affine byte-layout extraction.

type lin struct {
	c    int64
	syms map[string]int64
	bad  string
}

func linConst(c int64) lin { return lin{c: c} }
func linSym(s string) lin  { return lin{syms: map[string]int64{s: 1}} }

func (l lin) String() string {
	if l.bad != "" {
		return "?(" + l.bad + ")"
	}
	var ks []string
	for k, v := range l.syms {
		switch {
		case v == 1:
			ks = append(ks, k)
		case v == -1:
			ks = append(ks, "-"+k)
		case v != 0:
			ks = append(ks, fmt.Sprintf("%d*%s", v, k))
		}
	}
	sort.Strings(ks)
	if l.c != 0 || len(ks) == 0 {
		ks = append([]string{fmt.Sprint(l.c)}, ks...)
	}
	return strings.Join(ks, "+")
}

func linAdd(a, b lin, sign int64) lin {
	if a.bad != "" {
		return a
	}
	if b.bad != "" {
		return b
	}
	o := lin{c: a.c + sign*b.c, syms: map[string]int64{}}
	for k, v := range a.syms {
		o.syms[k] += v
	}
	for k, v := range b.syms {
		o.syms[k] += sign * v
	}
	for k, v := range o.syms {
		if v == 0 {
			delete(o.syms, k)
		}
	}
	return o
}

func (l lin) isConst() bool { return l.bad == "" && len(l.syms) == 0 }

func (l lin) rename(m map[string]string) lin {
	if l.bad != "" {
		return l
	}
	o := lin{c: l.c, syms: map[string]int64{}}
	for k, v := range l.syms {
		if n, ok := m[k]; ok {
			k = n
		}
		o.syms[k] += v
	}
	return o
}

type layoutRow struct {
	Op   string `json:"op"`            // put | get | copy | crc | equal | readat | store | total | next
	Buf  string `json:"buf,omitempty"` // buffer id (before mapping to record offsets)
	Off  string `json:"off"`           // offset (record-relative after mapping)
	W    int    `json:"w,omitempty"`   // width in bytes
	What string `json:"what"`          // meaning
	Pos  string `json:"pos,omitempty"`
	lo   lin
	aux  lin    // readat: file position; mklen: length
	src  string // copy from a buffer: source buffer id
	slo  lin    // copy from a buffer: source offset
	blk  *ssa.BasicBlock
}

type extractor struct {
	p      *Prog
	fn     *ssa.Function
	rows   []layoutRow
	notes  []string
	msgPar ssa.Value // the message parameter (encoder) or nil
}

// describeMsgField: v is a load of a field (path) of the function's message.Message parameter.
func (x *extractor) msgField(v ssa.Value) string {
	f, base := loadedField(v)
	if f == nil || namedOf(base.Type()) != x.p.R.Message {
		return ""
	}
	return f.Name()
}

func (x *extractor) eval(v ssa.Value) lin {
	switch u := v.(type) {
	case *ssa.Const:
		if i, ok := constInt(u); ok {
			return linConst(i)
		}
	case *ssa.BinOp:
		switch u.Op {
		case token.ADD:
			return linAdd(x.eval(u.X), x.eval(u.Y), 1)
		case token.SUB:
			return linAdd(x.eval(u.X), x.eval(u.Y), -1)
		case token.MUL:
			a, b := x.eval(u.X), x.eval(u.Y)
			if a.isConst() && b.bad == "" {
				o := lin{c: a.c * b.c, syms: map[string]int64{}}
				for k, vv := range b.syms {
					o.syms[k] = vv * a.c
				}
				return o
			}
			if b.isConst() && a.bad == "" {
				o := lin{c: a.c * b.c, syms: map[string]int64{}}
				for k, vv := range a.syms {
					o.syms[k] = vv * b.c
				}
				return o
			}
			return linSym("prod:" + u.Name())
		}
	case *ssa.Convert:
		return x.eval(u.X)
	case *ssa.ChangeType:
		return x.eval(u.X)
	case *ssa.Parameter:
		return linSym("param:" + u.Name())
	case *ssa.Phi:
		if strings.Contains(u.Comment, "rangeindex") {
			return linSym("i")
		}
		return linSym("phi:" + u.Name())
	case *ssa.Call:
		if isBuiltinCall(u.Common(), "len") {
			a := u.Call.Args[0]
			if fld := x.msgField(a); fld != "" {
				switch fld {
				case "Key":
					return linSym("klen")
				case "Value":
					return linSym("vlen")
				}
			}
			if mk, ok := canon(a).(*ssa.MakeSlice); ok {
				return x.eval(mk.Len)
			}
			if al, ok := a.(*ssa.Alloc); ok {
				if arr, ok := derefPtr(al.Type()).Underlying().(*types.Array); ok {
					return linConst(arr.Len())
				}
			}
			if sl, ok := canon(a).(*ssa.Slice); ok {
				// len(x[lo:hi]) = hi - lo when hi is known
				if sl.High != nil {
					lo := linConst(0)
					if sl.Low != nil {
						lo = x.eval(sl.Low)
					}
					return linAdd(x.eval(sl.High), lo, -1)
				}
			}
			if g := globalOf(a); g != nil {
				if n := x.p.globalByteLen(g); n >= 0 {
					return linConst(int64(n))
				}
			}
			return linSym("len:" + a.Name())
		}
		if isBigEndianGet(u.Common()) {
			buf, lo, _ := x.slice(u.Call.Args[1])
			return linSym(fmt.Sprintf("dec:%s@%s", buf, lo))
		}
		if g := u.Common().StaticCallee(); g != nil && g.Signature.Results().Len() == 1 && inModule(g) {
			// constant-valued helpers such as Params.Size() are evaluated elsewhere
			return linSym("call:" + g.Name())
		}
	case *ssa.UnOp:
		if u.Op == token.MUL {
			if al, ok := u.X.(*ssa.Alloc); ok {
				if sts := allocStores(al); len(sts) == 1 {
					return x.eval(sts[0].Val)
				}
			}
			if f, base := loadedField(u); f != nil {
				return linSym("field:" + typeName(base.Type()) + "." + f.Name())
			}
		}
	case *ssa.Extract:
		return linSym(fmt.Sprintf("ext:%s#%d", u.Tuple.Name(), u.Index))
	}
	return lin{bad: v.Name() + "=" + v.String()}
}

func globalOf(v ssa.Value) *ssa.Global {
	if u, ok := v.(*ssa.UnOp); ok && u.Op == token.MUL {
		if g, ok := u.X.(*ssa.Global); ok {
			return g
		}
	}
	if g, ok := v.(*ssa.Global); ok {
		return g
	}
	return nil
}

// slice resolves a slice expression to (buffer id, low offset, high offset or nil).
func (x *extractor) slice(v ssa.Value) (string, lin, *lin) {
	switch u := v.(type) {
	case *ssa.Slice:
		lo := linConst(0)
		if u.Low != nil {
			lo = x.eval(u.Low)
		}
		b, base, _ := x.slice(u.X)
		var hi *lin
		if u.High != nil {
			h := linAdd(base, x.eval(u.High), 1)
			hi = &h
		}
		return b, linAdd(base, lo, 1), hi
	case *ssa.Alloc:
		if u.Comment == "makeslice" {
			return "make:" + u.Name(), linConst(0), nil
		}
		if u.Comment != "" {
			return "local:" + u.Comment, linConst(0), nil
		}
		return "local:" + u.Name(), linConst(0), nil
	case *ssa.MakeSlice:
		return "make:" + u.Name(), linConst(0), nil
	case *ssa.UnOp:
		if u.Op == token.MUL {
			if fa, ok := u.X.(*ssa.FieldAddr); ok {
				return "field:" + x.p.fieldLabel(fieldVarOfAddr(fa)), linConst(0), nil
			}
			if g, ok := u.X.(*ssa.Global); ok {
				return "global:" + g.Name(), linConst(0), nil
			}
			if al, ok := u.X.(*ssa.Alloc); ok {
				if sts := allocStores(al); len(sts) == 1 {
					return x.slice(sts[0].Val)
				}
			}
		}
	case *ssa.Parameter:
		return "param:" + u.Name(), linConst(0), nil
	case *ssa.Phi:
		// buffers re-sliced on two branches (make vs. reslice) denote the same buffer
		var id string
		for _, e := range u.Edges {
			b, _, _ := x.slice(e)
			if id == "" {
				id = b
			}
		}
		return id, linConst(0), nil
	}
	return "?" + v.Name(), linConst(0), nil
}

// valueMeaning names what an encoded value is.
func (x *extractor) valueMeaning(v ssa.Value) string {
	for {
		switch u := v.(type) {
		case *ssa.Convert:
			v = u.X
			continue
		case *ssa.ChangeType:
			v = u.X
			continue
		case *ssa.Call:
			if isBuiltinCall(u.Common(), "len") {
				if fld := x.msgField(u.Call.Args[0]); fld != "" {
					return "len(" + fld + ")"
				}
				return "len(?)"
			}
			nm := calleeName(u.Common())
			switch nm {
			case "hash/crc32.Checksum":
				_, lo, _ := x.slice(u.Call.Args[0])
				return "CRC[" + lo.String() + ":]"
			case "(time.Time).UnixMicro":
				if fld := x.msgField(u.Call.Args[0]); fld != "" {
					return fld + ".UnixMicro"
				}
			}
			// a small module helper that hands one argument through (func microsOf(t time.Time) int64
			// { return t.UnixMicro() })
			if g := u.Common().StaticCallee(); g != nil && inModule(g) && g.Blocks != nil && len(g.Params) == 1 && len(u.Call.Args) == 1 {
				if suffix, ok := passesThroughMethod(g.Params[0], 0); ok {
					if fld := x.msgField(u.Call.Args[0]); fld != "" {
						return fld + suffix
					}
				}
			}
			return "call:" + nm
		case *ssa.UnOp:
			if f, base := loadedField(u); f != nil {
				if namedOf(base.Type()) == x.p.R.Message || namedOf(base.Type()) == x.p.R.Item {
					return f.Name()
				}
				return "field:" + f.Name()
			}
			if g := globalOf(u); g != nil {
				return "global:" + g.Name()
			}
		case *ssa.Field:
			if f := fieldVarOfField(u); f != nil {
				return f.Name()
			}
		case *ssa.Slice:
			if g, ok := u.X.(*ssa.Global); ok {
				return "global:" + g.Name()
			}
		case *ssa.Const:
			if i, ok := constInt(u); ok {
				return fmt.Sprintf("const:%d", i)
			}
		case *ssa.BinOp:
			if u.Op == token.OR {
				if k, ok := constInt(u.Y); ok {
					return fmt.Sprintf("or:%d", k)
				}
			}
		}
		return "?" + v.Name()
	}
}

// sinks names where a decoded value ends up.
func (x *extractor) sinks(v ssa.Value) []string {
	var out []string
	seen := map[ssa.Value]bool{}
	var walk func(v ssa.Value, via string)
	walk = func(v ssa.Value, via string) {
		if seen[v] || v.Referrers() == nil {
			return
		}
		seen[v] = true
		for _, r := range *v.Referrers() {
			switch u := r.(type) {
			case *ssa.Convert:
				walk(u, via)
			case *ssa.ChangeType:
				walk(u, via)
			case *ssa.Call:
				switch calleeName(u.Common()) {
				case "time.UnixMicro":
					walk(u, via+".UnixMicro")
				case "(time.Time).UTC":
					walk(u, via)
				default:
					// a small module helper that hands its argument through (for instance
					// func timeOf(micros int64) time.Time { return time.UnixMicro(micros).UTC() })
					if g := u.Common().StaticCallee(); g != nil && inModule(g) && g.Blocks != nil {
						for i, a := range u.Common().Args {
							if a == v && i < len(g.Params) {
								if suffix, ok := passesThrough(g.Params[i], 0); ok {
									walk(u, via+suffix)
								}
							}
						}
					}
				}
			case *ssa.Store:
				if u.Val == v {
					if fa, ok := u.Addr.(*ssa.FieldAddr); ok {
						out = append(out, fieldVarOfAddr(fa).Name()+via)
					}
				}
			case *ssa.BinOp:
				switch u.Op {
				case token.EQL, token.NEQ:
					other := u.X
					if other == v {
						other = u.Y
					}
					if c, ok := other.(*ssa.Call); ok && calleeName(c.Common()) == "hash/crc32.Checksum" {
						out = append(out, "CRC-compare")
					} else if _, ok := other.(*ssa.Parameter); ok {
						out = append(out, "compare-param")
					} else {
						out = append(out, "compare")
					}
				case token.LSS, token.GTR, token.LEQ, token.GEQ:
					out = append(out, "bound")
				case token.ADD, token.SUB:
					out = append(out, "size")
				}
			}
		}
	}
	walk(v, "")
	sort.Strings(out)
	return uniqStrings(out)
}

// extract collects the rows of a codec function.
func (p *Prog) extractLayout(fn *ssa.Function) *extractor {
	x := &extractor{p: p, fn: fn}
	add := func(r layoutRow, at ssa.Instruction) {
		r.Pos = p.at(at)
		r.blk = at.Block()
		if strings.HasPrefix(r.Buf, "local:varargs") {
			return
		}
		x.rows = append(x.rows, r)
	}
	for _, b := range fn.Blocks {
		for _, ins := range b.Instrs {
			switch c := ins.(type) {
			case *ssa.Call:
				if isBuiltinCall(c.Common(), "copy") {
					buf, lo, hi := x.slice(c.Call.Args[0])
					what := x.valueMeaning(c.Call.Args[1])
					if sb, slo, _ := x.slice(c.Call.Args[1]); strings.HasPrefix(sb, "local:") || strings.HasPrefix(sb, "make:") {
						what = fmt.Sprintf("buf:%s@%s", sb, slo)
					}
					r := layoutRow{Op: "copy", Buf: buf, Off: lo.String(), What: what, lo: lo}
					if sb, slo, _ := x.slice(c.Call.Args[1]); strings.HasPrefix(sb, "local:") || strings.HasPrefix(sb, "make:") {
						r.src, r.slo = sb, slo
					}
					if hi != nil {
						r.W = int(linAdd(*hi, lo, -1).c)
					}
					add(r, c)
					continue
				}
				nm := calleeName(c.Common())
				switch {
				case strings.HasPrefix(nm, "(encoding/binary.bigEndian).PutUint"), strings.HasPrefix(nm, "(encoding/binary.littleEndian).PutUint"):
					buf, lo, _ := x.slice(c.Call.Args[1])
					w := widthOf(nm)
					order := "BE"
					if strings.Contains(nm, "littleEndian") {
						order = "LE"
					}
					add(layoutRow{Op: "put" + order, Buf: buf, Off: lo.String(), W: w, What: x.valueMeaning(c.Call.Args[2]), lo: lo}, c)
				case isBigEndianGet(c.Common()):
					buf, lo, _ := x.slice(c.Call.Args[1])
					order := "BE"
					if strings.Contains(nm, "littleEndian") {
						order = "LE"
					}
					add(layoutRow{Op: "get" + order, Buf: buf, Off: lo.String(), W: widthOf(nm), What: strings.Join(x.sinks(c), ","), lo: lo}, c)
				case nm == "hash/crc32.Checksum":
					buf, lo, _ := x.slice(c.Call.Args[0])
					tbl := "?"
					if g := globalOf(c.Call.Args[1]); g != nil {
						tbl = p.crcTableOf(g)
					}
					add(layoutRow{Op: "crc", Buf: buf, Off: lo.String(), What: tbl, lo: lo}, c)
				case nm == "bytes.Equal":
					for i, a := range c.Call.Args {
						if g := globalOf(c.Call.Args[1-i]); g != nil {
							buf, lo, _ := x.slice(a)
							add(layoutRow{Op: "equal", Buf: buf, Off: lo.String(), What: "global:" + g.Name(), lo: lo}, c)
						}
					}
				case strings.HasSuffix(nm, ").ReadAt"):
					buf, lo, _ := x.slice(c.Call.Args[1])
					fp := x.eval(c.Call.Args[2])
					add(layoutRow{Op: "readat", Buf: buf, Off: lo.String(), What: fp.String(), lo: lo, aux: fp}, c)
				case nm == "(*os.File).Write":
					buf, lo, _ := x.slice(c.Call.Args[1])
					add(layoutRow{Op: "write", Buf: buf, Off: lo.String(), What: "file", lo: lo}, c)
				}
			case *ssa.MakeSlice:
				if isByteSlice(c.Type()) {
					l := x.eval(c.Len)
					add(layoutRow{Op: "mklen", Buf: "make:" + c.Name(), Off: "0", What: l.String(), aux: l}, c)
				}
			case *ssa.Alloc:
				// make([]byte, <constant>) is lowered to an array allocation
				if c.Comment == "makeslice" {
					if arr, ok := derefPtr(c.Type()).Underlying().(*types.Array); ok {
						l := linConst(arr.Len())
						add(layoutRow{Op: "mklen", Buf: "make:" + c.Name(), Off: "0", What: l.String(), aux: l}, c)
					}
				}
			case *ssa.Store:
				fa, ok := c.Addr.(*ssa.FieldAddr)
				if !ok {
					// h[6] = marker
					if ia, ok := c.Addr.(*ssa.IndexAddr); ok {
						buf, lo, _ := x.slice(ia.X)
						idx := x.eval(ia.Index)
						add(layoutRow{Op: "setbyte", Buf: buf, Off: linAdd(lo, idx, 1).String(), W: 1, What: x.valueMeaning(c.Val), lo: linAdd(lo, idx, 1)}, c)
					}
					continue
				}
				f := fieldVarOfAddr(fa)
				if sl, ok := c.Val.(*ssa.Slice); ok && namedOf(fa.X.Type()) == p.R.Message {
					buf, lo, hi := x.slice(sl)
					h := "end"
					if hi != nil {
						h = hi.String()
					}
					add(layoutRow{Op: "field", Buf: buf, Off: lo.String(), What: f.Name() + "[" + lo.String() + ":" + h + "]", lo: lo}, c)
				}
				// buffer (re)allocation: w.buff = make(n) / w.buff[:n]
				if isByteSlice(f.Type()) && namedOf(fa.X.Type()) != p.R.Message {
					switch v := c.Val.(type) {
					case *ssa.MakeSlice:
						add(layoutRow{Op: "buflen", Buf: "field:" + p.fieldLabel(f), Off: "0", What: x.eval(v.Len).String()}, c)
					case *ssa.Slice:
						if v.High != nil {
							add(layoutRow{Op: "buflen", Buf: "field:" + p.fieldLabel(f), Off: "0", What: x.eval(v.High).String()}, c)
						}
					}
				}
			}
		}
	}
	return x
}

func widthOf(nm string) int {
	switch {
	case strings.HasSuffix(nm, "64"):
		return 8
	case strings.HasSuffix(nm, "32"):
		return 4
	case strings.HasSuffix(nm, "16"):
		return 2
	}
	return 0
}

// crcTableOf: the polynomial of the crc32 table global ("Castagnoli", "IEEE", ...).
func (p *Prog) crcTableOf(g *ssa.Global) string {
	init := g.Pkg.Func("init")
	if init == nil {
		return "?"
	}
	for _, b := range init.Blocks {
		for _, ins := range b.Instrs {
			st, ok := ins.(*ssa.Store)
			if !ok || st.Addr != g {
				continue
			}
			if c, ok := st.Val.(*ssa.Call); ok && calleeName(c.Common()) == "hash/crc32.MakeTable" {
				if k, ok := constInt(c.Call.Args[0]); ok {
					switch uint32(k) {
					case 0x82f63b78:
						return "Castagnoli"
					case 0xedb88320:
						return "IEEE"
					case 0xeb31d82e:
						return "Koopman"
					}
					return fmt.Sprintf("poly:%#x", uint32(k))
				}
			}
			if u, ok := st.Val.(*ssa.UnOp); ok {
				if g2, ok := u.X.(*ssa.Global); ok {
					return g2.Pkg.Pkg.Name() + "." + g2.Name()
				}
			}
		}
	}
	return "?"
}

// ---- constants of package-level variables read from the syntax tree ----

func (p *Prog) varInit(pkgPath, name string) (ast.Expr, *types.Info) {
	pk := p.ByPath[pkgPath]
	if pk == nil {
		return nil, nil
	}
	for _, file := range pk.Syntax {
		for _, d := range file.Decls {
			gd, ok := d.(*ast.GenDecl)
			if !ok || (gd.Tok != token.VAR && gd.Tok != token.CONST) {
				continue
			}
			for _, sp := range gd.Specs {
				vs := sp.(*ast.ValueSpec)
				for i, nm := range vs.Names {
					if nm.Name == name && i < len(vs.Values) {
						return vs.Values[i], pk.TypesInfo
					}
				}
			}
		}
	}
	return nil, nil
}

// byteArrayVar: the bytes of a package-level [N]byte / []byte composite literal.
func (p *Prog) byteArrayVar(pkgPath, name string) []byte {
	e, info := p.varInit(pkgPath, name)
	cl, ok := e.(*ast.CompositeLit)
	if !ok {
		return nil
	}
	var out []byte
	for _, el := range cl.Elts {
		tv, ok := info.Types[el]
		if !ok || tv.Value == nil {
			return nil
		}
		i, ok := constant.Int64Val(constant.ToInt(tv.Value))
		if !ok {
			return nil
		}
		out = append(out, byte(i))
	}
	return out
}

// structFieldConst: the constant value of field fld in a package-level struct literal variable.
func (p *Prog) structFieldConst(pkgPath, name, fld string) (int64, bool) {
	e, info := p.varInit(pkgPath, name)
	cl, ok := e.(*ast.CompositeLit)
	if !ok {
		return 0, false
	}
	for _, el := range cl.Elts {
		kv, ok := el.(*ast.KeyValueExpr)
		if !ok {
			continue
		}
		if id, ok := kv.Key.(*ast.Ident); ok && (id.Name == fld || fld == "") {
			if tv, ok := info.Types[kv.Value]; ok && tv.Value != nil {
				return constant.Int64Val(constant.ToInt(tv.Value))
			}
		}
	}
	return 0, false
}

func (p *Prog) constValue(pkgPath, name string) (int64, bool) {
	pk := p.ByPath[pkgPath]
	if pk == nil {
		return 0, false
	}
	c, ok := pk.Types.Scope().Lookup(name).(*types.Const)
	if !ok {
		return 0, false
	}
	return constant.Int64Val(constant.ToInt(c.Val()))
}

// globalByteLen: length of a []byte global built by binary.BigEndian.AppendUintN(nil, const) or a literal.
func (p *Prog) globalByteLen(g *ssa.Global) int {
	if v := p.globalBytes(g); v != nil {
		return len(v)
	}
	return -1
}

// globalBytes: the constant bytes of a package-level []byte built in the package init by
// binary.BigEndian.AppendUintN(nil, const).
func (p *Prog) globalBytes(g *ssa.Global) []byte {
	init := g.Pkg.Func("init")
	if init == nil {
		return nil
	}
	for _, b := range init.Blocks {
		for _, ins := range b.Instrs {
			st, ok := ins.(*ssa.Store)
			if !ok || st.Addr != g {
				continue
			}
			c, ok := st.Val.(*ssa.Call)
			if !ok {
				continue
			}
			nm := calleeName(c.Common())
			if !strings.Contains(nm, "ndian).AppendUint") || len(c.Call.Args) < 3 {
				continue
			}
			if !isNilConst(c.Call.Args[1]) {
				continue
			}
			kc, ok := c.Call.Args[2].(*ssa.Const)
			if !ok || kc.Value == nil {
				continue
			}
			u, _ := constant.Uint64Val(constant.ToInt(kc.Value))
			w := widthOf(nm)
			out := make([]byte, w)
			for i := 0; i < w; i++ {
				if strings.Contains(nm, "bigEndian") {
					out[i] = byte(u >> (8 * uint(w-1-i)))
				} else {
					out[i] = byte(u >> (8 * uint(i)))
				}
			}
			return out
		}
	}
	return nil
}

// evalUnder evaluates result #idx of fn as a linear form, pruning branches with decide.
// decide(cond) returns (known, value).
func (p *Prog) evalUnder(fn *ssa.Function, idx int, decide func(cond ssa.Value) (bool, bool)) (lin, bool) {
	succ := func(b *ssa.BasicBlock) []*ssa.BasicBlock {
		if iff, ok := terminator(b).(*ssa.If); ok {
			if known, val := decide(iff.Cond); known {
				if val {
					return b.Succs[:1]
				}
				return b.Succs[1:2]
			}
		}
		return b.Succs
	}
	reach := reachableBlocks(fn, succ)
	// predecessor edges that are really taken
	taken := func(pred, b *ssa.BasicBlock) bool {
		if !reach[pred] {
			return false
		}
		for _, s := range succ(pred) {
			if s == b {
				return true
			}
		}
		return false
	}
	x := &extractor{p: p, fn: fn}
	var ev func(v ssa.Value, d int) lin
	ev = func(v ssa.Value, d int) lin {
		if d > 12 {
			return lin{bad: "depth"}
		}
		switch u := v.(type) {
		case *ssa.Phi:
			var res *lin
			for i, e := range u.Edges {
				if !taken(u.Block().Preds[i], u.Block()) {
					continue
				}
				l := ev(e, d+1)
				if res == nil {
					res = &l
				} else if res.String() != l.String() {
					return lin{bad: "phi disagrees"}
				}
			}
			if res == nil {
				return lin{bad: "phi without reachable edge"}
			}
			return *res
		case *ssa.BinOp:
			if u.Op == token.ADD {
				return linAdd(ev(u.X, d+1), ev(u.Y, d+1), 1)
			}
			if u.Op == token.SUB {
				return linAdd(ev(u.X, d+1), ev(u.Y, d+1), -1)
			}
		case *ssa.Convert:
			return ev(u.X, d+1)
		case *ssa.ChangeType:
			return ev(u.X, d+1)
		}
		return x.eval(v)
	}
	var res *lin
	for _, rt := range returnsOf(fn) {
		if !reach[rt.Block()] || idx >= len(rt.Results) {
			continue
		}
		l := ev(returnOperand(rt, idx), 0)
		if res == nil {
			res = &l
		} else if res.String() != l.String() {
			return lin{bad: "returns disagree: " + res.String() + " vs " + l.String()}, false
		}
	}
	if res == nil {
		return lin{bad: "no reachable return"}, false
	}
	return *res, res.bad == ""
}

// passesThrough: the value reaches a return of its function through conversions, time.UnixMicro and
// (time.Time).UTC only; the suffix names what was applied on the way.
func passesThrough(v ssa.Value, d int) (string, bool) {
	if d > 6 || v.Referrers() == nil {
		return "", false
	}
	for _, r := range *v.Referrers() {
		switch u := r.(type) {
		case *ssa.Return:
			return "", true
		case *ssa.Convert:
			if s, ok := passesThrough(u, d+1); ok {
				return s, true
			}
		case *ssa.ChangeType:
			if s, ok := passesThrough(u, d+1); ok {
				return s, true
			}
		case *ssa.Call:
			switch calleeName(u.Common()) {
			case "time.UnixMicro":
				if s, ok := passesThrough(u, d+1); ok {
					return ".UnixMicro" + s, true
				}
			case "(time.Time).UTC":
				if s, ok := passesThrough(u, d+1); ok {
					return s, true
				}
			}
		}
	}
	return "", false
}

// passesThroughMethod: like passesThrough, for a time.Time argument that is returned as UnixMicro().
func passesThroughMethod(v ssa.Value, d int) (string, bool) {
	if d > 6 || v.Referrers() == nil {
		return "", false
	}
	for _, r := range *v.Referrers() {
		switch u := r.(type) {
		case *ssa.Return:
			return "", true
		case *ssa.Convert:
			if s, ok := passesThroughMethod(u, d+1); ok {
				return s, true
			}
		case *ssa.Call:
			if calleeName(u.Common()) == "(time.Time).UnixMicro" {
				if s, ok := passesThroughMethod(u, d+1); ok {
					return ".UnixMicro" + s, true
				}
			}
		case *ssa.Store:
			// a by-value receiver is spilled before the method call
			if al, ok := u.Addr.(*ssa.Alloc); ok && u.Val == v {
				for _, r2 := range *al.Referrers() {
					if ld, ok := r2.(*ssa.UnOp); ok {
						if s, ok := passesThroughMethod(ld, d+1); ok {
							return s, true
						}
					}
				}
			}
		}
	}
	return "", false
}
