package main

import (
	"fmt"
	"go/constant"
	"go/token"
	"go/types"
	"os"
	"sort"
	"strings"

	"golang.org/x/tools/go/ssa"
)

// Rules from the third seeded round (DESIGN.md section 9).

// srHeadField: the bool field of SegReader (marks the reader of the segment being appended to).
func (p *Prog) srHeadField() *types.Var {
	s := structOf(p.R.SegReader)
	var out *types.Var
	for i := 0; i < s.NumFields(); i++ {
		if b, ok := s.Field(i).Type().Underlying().(*types.Basic); ok && b.Kind() == types.Bool {
			if out != nil {
				return nil
			}
			out = s.Field(i)
		}
	}
	return out
}

// ---------------------------------------------------------------------------
// R25 BACKUP-COMPLETENESS (C20): no level of the backup chain returns success without handing its
// file(s) to the level below; the copy function never succeeds without trying to create the target.
func ruleR25(p *Prog) []Ob {
	var obs []Ob
	ea := p.ErrAtomsCached()
	props := []string{"C20"}
	cp := p.copyFileFunc()
	if cp == nil {
		return []Ob{{Rule: "R25", Inst: "copy-function", Props: props, Pos: "-", Status: Undecided, Msg: "the file copy function (io.Copy between two paths in pkg/segment) was not found"}}
	}
	// (a) the copy function: every success return is dominated by an attempt to create the destination
	{
		ob := Ob{Rule: "R25", Inst: "a:copy-creates-target:" + funcLabel(cp), Props: props, Pos: p.posStr(cp.Pos()), Func: funcLabel(cp), Nontrivial: true}
		var creates []*ssa.Call
		for _, b := range cp.Blocks {
			for _, ins := range b.Instrs {
				if c, ok := ins.(*ssa.Call); ok {
					if is, what := isMutatorCall(c.Common()); is && (what == "os.OpenFile(write)" || what == "os.Create") {
						if pi := paramRoot(cp, c.Call.Args[0], 0); pi == 1 {
							creates = append(creates, c)
						}
					}
				}
			}
		}
		var bad []string
		for _, rt := range returnsOf(cp) {
			if ea.isFailureReturn(cp, rt) {
				continue
			}
			ok := false
			for _, c := range creates {
				if instrDominates(c, rt) {
					ok = true
				}
			}
			if !ok {
				bad = append(bad, p.at(rt)+": the copy returns success without having tried to create the destination file")
			}
		}
		if len(creates) == 0 {
			bad = append(bad, "the copy function never opens its destination for writing")
		}
		if len(bad) > 0 {
			ob.Status, ob.Msg, ob.Path = Violated, "a file can be left out of the backup although the copy reports success (an empty head segment, whose name is the only record of the next offset, is such a file)", bad
		} else {
			ob.Status, ob.Msg = Discharged, "every success return follows an attempt to create the destination (an existing identical copy is detected through that attempt)"
		}
		obs = append(obs, ob)
	}
	// (a2) the copy is skipped only where source and destination were compared equal in size
	{
		ob := Ob{Rule: "R25", Inst: "a2:skip-needs-equal-size:" + funcLabel(cp), Props: []string{"C20", "C11"}, Pos: p.posStr(cp.Pos()), Func: funcLabel(cp), Nontrivial: true}
		var copies []*ssa.Call
		for _, b := range cp.Blocks {
			for _, ins := range b.Instrs {
				if c, ok := ins.(*ssa.Call); ok {
					switch calleeName(c.Common()) {
					case "io.Copy", "io.CopyN", "io.CopyBuffer":
						copies = append(copies, c)
					default:
						// a copy loop of the module's own: f(io.Writer, io.Reader, ...)
						if g := c.Common().StaticCallee(); g != nil && inModule(g) && g.Signature.Params().Len() >= 2 &&
							typeIs(g.Signature.Params().At(0).Type(), "io", "Writer") && typeIs(g.Signature.Params().At(1).Type(), "io", "Reader") {
							copies = append(copies, c)
						}
					}
				}
			}
		}
		isSize := func(v ssa.Value) bool {
			c, ok := v.(*ssa.Call)
			return ok && c.Common().IsInvoke() && c.Common().Method.Name() == "Size"
		}
		var bad []string
		skips := 0
		for _, rt := range returnsOf(cp) {
			if ea.isFailureReturn(cp, rt) {
				continue
			}
			copied := false
			for _, c := range copies {
				if instrDominates(c, rt) {
					copied = true
				}
			}
			if copied {
				continue
			}
			skips++
			okEq := false
			for _, hb := range cp.Blocks {
				iff, isIf := terminator(hb).(*ssa.If)
				if !isIf {
					continue
				}
				if x, y, op, ok := relCond(iff.Cond); ok && isSize(x) && isSize(y) && x != y {
					if (op == token.EQL && edgeDominates(hb, 0, rt.Block())) || (op == token.NEQ && edgeDominates(hb, 1, rt.Block())) {
						okEq = true
						ob.Guards = append(ob.Guards, p.at(iff))
					}
				}
			}
			if !okEq {
				bad = append(bad, p.at(rt)+": the copy is skipped without the two sizes having been compared equal")
			}
			// where the copy carries the source's modification time over to its destination (so that
			// the next run can recognise an up-to-date copy) the skip also compares the two times: a
			// segment rewritten in place, and any index file, can change content at the same size
			carries := false
			for _, b := range cp.Blocks {
				for _, ins := range b.Instrs {
					if c, ok := ins.(*ssa.Call); ok && calleeName(c.Common()) == "os.Chtimes" {
						carries = true
					}
				}
			}
			if carries {
				isModTime := func(v ssa.Value) bool {
					c, ok := canon(v).(*ssa.Call)
					return ok && c.Common().IsInvoke() && c.Common().Method.Name() == "ModTime"
				}
				okT := false
				for _, hb := range cp.Blocks {
					iff, isIf := terminator(hb).(*ssa.If)
					if !isIf {
						continue
					}
					neg := false
					cond := iff.Cond
					for {
						u, ok := cond.(*ssa.UnOp)
						if !ok || u.Op != token.NOT {
							break
						}
						neg, cond = !neg, u.X
					}
					c, ok := cond.(*ssa.Call)
					if !ok || calleeName(c.Common()) != "(time.Time).Equal" || len(c.Call.Args) != 2 || !isModTime(c.Call.Args[0]) || !isModTime(c.Call.Args[1]) {
						continue
					}
					e := 0
					if neg {
						e = 1
					}
					if edgeDominates(hb, e, rt.Block()) {
						okT = true
					}
				}
				if !okT {
					bad = append(bad, p.at(rt)+": the copy is skipped without the two modification times having been compared equal, although the copy carries the source's time over for exactly that comparison")
				}
			}
		}
		switch {
		case len(copies) == 0:
			ob.Status, ob.Msg = Undecided, "no io.Copy in the copy function"
		case len(bad) > 0:
			ob.Status, ob.Msg, ob.Path = Violated, "an existing destination can be taken for up to date although it differs from the source (a head segment appended to since the previous backup, or an index / a rewritten segment of unchanged size, stays stale)", bad
		default:
			ob.Status, ob.Msg = Discharged, fmt.Sprintf("%d skip return(s), each only where source and destination have the same size", skips)
		}
		obs = append(obs, ob)
	}
	// (a3) an existing destination is truncated only behind the comparison that found it different
	{
		ob := Ob{Rule: "R25", Inst: "a3:truncate-only-after-compare:" + funcLabel(cp), Props: []string{"C20", "C19"}, Pos: p.posStr(cp.Pos()), Func: funcLabel(cp), Nontrivial: true}
		isSize := func(v ssa.Value) bool {
			c, ok := v.(*ssa.Call)
			return ok && c.Common().IsInvoke() && c.Common().Method.Name() == "Size"
		}
		n := 0
		var bad []string
		for _, b := range cp.Blocks {
			for _, ins := range b.Instrs {
				c, ok := ins.(*ssa.Call)
				if !ok || calleeName(c.Common()) != "os.OpenFile" || len(c.Call.Args) < 2 {
					continue
				}
				fl, isK := constInt(c.Call.Args[1])
				if !isK || fl&p.osConst("O_TRUNC", int64(os.O_TRUNC)) == 0 {
					continue
				}
				n++
				compared := false
				for _, hb := range cp.Blocks {
					iff, isIf := terminator(hb).(*ssa.If)
					if !isIf {
						continue
					}
					if x, y, op, ok := relCond(iff.Cond); ok && isSize(x) && isSize(y) && x != y && (op == token.EQL || op == token.NEQ) {
						if hb.Dominates(b) {
							compared = true
						}
					}
				}
				if !compared {
					bad = append(bad, p.at(c)+": the destination is opened with O_TRUNC without source and destination having been compared first")
				}
			}
		}
		if len(bad) > 0 {
			ob.Status, ob.Msg, ob.Path = Violated, "an existing destination is truncated unconditionally: a backup whose target resolves to the source itself (a symlink, a read-only handle backing up 'onto itself') empties the log it is copying, and an up-to-date copy is rewritten every time", bad
		} else {
			ob.Status, ob.Msg = Discharged, fmt.Sprintf("%d truncating open(s) of the destination, each behind the comparison of the two files", n)
		}
		obs = append(obs, ob)
	}
	// (b) every level above hands on: functions between Log.Backup / klevdb.Backup and the copy function
	reachesCopy := func(g *ssa.Function) bool { return p.reaches(g, func(h *ssa.Function) bool { return h == cp }) }
	callReachesCopy := func(c ssa.CallInstruction) bool {
		for _, g := range p.callees(c) {
			if reachesCopy(g) {
				return true
			}
		}
		return false
	}
	roots := []*ssa.Function{p.R.ImplMethods["Backup"], p.pkgFunc(pkgRoot, "Backup")}
	chain := map[*ssa.Function]bool{}
	var walk func(f *ssa.Function)
	walk = func(f *ssa.Function) {
		if f == nil || chain[f] || f == cp || !inModule(f) || f.Blocks == nil || !reachesCopy(f) {
			return
		}
		chain[f] = true
		for _, b := range f.Blocks {
			for _, ins := range b.Instrs {
				if c, ok := ins.(ssa.CallInstruction); ok {
					for _, g := range p.callees(c) {
						walk(g)
					}
				}
			}
		}
	}
	for _, r := range roots {
		walk(r)
	}
	var fns []*ssa.Function
	for f := range chain {
		fns = append(fns, f)
	}
	sort.Slice(fns, func(i, j int) bool { return fns[i].String() < fns[j].String() })
	for _, fn := range fns {
		ob := Ob{Rule: "R25", Inst: "b:hands-on:" + funcLabel(fn), Props: props, Pos: p.posStr(fn.Pos()), Func: funcLabel(fn), Nontrivial: true}
		var bad []string
		// loops that contain the hand-on call: every iteration makes it
		inLoop := map[*ssa.Call]bool{}
		var calls []*ssa.Call
		for _, b := range fn.Blocks {
			for _, ins := range b.Instrs {
				if c, ok := ins.(*ssa.Call); ok && callReachesCopy(c) {
					calls = append(calls, c)
					if h, loop := innermostLoop(b); loop != nil {
						inLoop[c] = true
						skip := false
						seen := map[*ssa.BasicBlock]bool{}
						var w func(x *ssa.BasicBlock, first bool)
						w = func(x *ssa.BasicBlock, first bool) {
							if skip || !loop[x] || x == c.Block() {
								return
							}
							if x == h && !first {
								skip = true
								return
							}
							if seen[x] {
								return
							}
							seen[x] = true
							for _, s := range x.Succs {
								w(s, false)
							}
						}
						w(h, true)
						if skip {
							bad = append(bad, p.at(c)+": an iteration over the segments can continue without backing this segment up")
						}
					}
				}
			}
		}
		allLoop := len(calls) > 0
		for _, c := range calls {
			if !inLoop[c] {
				allLoop = false
			}
		}
		if !allLoop || len(calls) == 0 {
			// straight-line level: every success return has passed a hand-on call
			fl := &bitFlow{p: p, ea: ea, name: "backup-hand-on"}
			fl.effect = func(call ssa.CallInstruction) (bool, bool) { return false, callReachesCopy(call) }
			fl.sums = map[*ssa.Function]bitSumm{}
			for _, g := range p.Funcs {
				fl.sums[g] = bitSumm{false, true} // identity: only direct hand-on calls count
			}
			// success returns inside or after a loop that hands on are fine if the loop part was judged above
			if isBad, rets := fl.run(fn, true, nil, nil); isBad {
				for _, rt := range rets {
					if len(calls) > 0 && allLoopBefore(rt, calls) {
						continue
					}
					if p.dominatedByNotExist(rt.Block()) {
						continue // the source does not exist: there is nothing to back up
					}
					bad = append(bad, p.at(rt)+": returns success without handing the segment's files to the copy")
				}
			}
		}
		// a level of the chain fails only because something it called failed: it does not refuse a
		// source on grounds of its own (a directory a backup wrote, or one restored from elsewhere,
		// has segment files and nothing else)
		for _, rt := range returnsOf(fn) {
			ei := errResultIndex(fn)
			if ei < 0 || ei >= len(rt.Results) {
				continue
			}
			if c, ok := returnOperand(rt, ei).(*ssa.Call); ok {
				own := false
				switch calleeName(c.Common()) {
				case "errors.New":
					own = true
				case "fmt.Errorf":
					if f, ok := constString(c.Call.Args[0]); ok && !strings.Contains(f, "%w") {
						own = true
					}
				}
				if own {
					bad = append(bad, p.at(rt)+": the backup is refused with an error of this function's own making")
				}
			}
		}
		sort.Strings(bad)
		if len(bad) > 0 {
			ob.Status, ob.Msg, ob.Path = Violated, "a segment can be skipped by the backup although the backup reports success (only the copy function may decide, by size and modification time, that a file is already there)", uniqStrings(bad)
		} else {
			ob.Status, ob.Msg = Discharged, "every success path hands every segment on to the level below"
		}
		obs = append(obs, ob)
	}
	return obs
}

// allLoopBefore: the return comes after loops that hand on (zero iterations are legitimate there).
func allLoopBefore(rt *ssa.Return, calls []*ssa.Call) bool {
	for _, c := range calls {
		if _, loop := innermostLoop(c.Block()); loop != nil {
			h, _ := innermostLoop(c.Block())
			if h.Dominates(rt.Block()) {
				return true
			}
		}
	}
	return false
}

// ---------------------------------------------------------------------------
// R26 HEAD-INDEX-LIVENESS (C03): unloading (Log.GC) never drops the index of the head reader, which
// shares the writer's live index; a reloaded copy is a snapshot that later publishes never reach.
func ruleR26(p *Prog) []Ob {
	var obs []Ob
	r := p.R
	props := []string{"C03", "C08"}
	head := p.srHeadField()
	gc := r.ImplMethods["GC"]
	if head == nil || gc == nil {
		return []Ob{{Rule: "R26", Inst: "head-index", Props: props, Pos: "-", Status: Undecided, Msg: "the head flag of the segment reader or Log.GC was not found"}}
	}
	// functions that clear the index field
	clears := map[*ssa.Function]bool{}
	for _, fn := range p.Funcs {
		for _, b := range fn.Blocks {
			for _, ins := range b.Instrs {
				if st, ok := ins.(*ssa.Store); ok {
					if fa, ok := st.Addr.(*ssa.FieldAddr); ok && fieldVarOfAddr(fa) == r.SRIndex && !underConstruction(fa) && isNilConst(st.Val) {
						clears[fn] = true
					}
				}
			}
		}
	}
	n := 0
	for _, fn := range p.Funcs {
		if !srcFunc(fn) || recvNamed(fn) != r.SegReader {
			continue
		}
		if !p.reaches(gc, func(g *ssa.Function) bool { return g == fn }) {
			continue
		}
		for _, b := range fn.Blocks {
			for _, ins := range b.Instrs {
				isClear := false
				switch x := ins.(type) {
				case *ssa.Call:
					if g := x.Common().StaticCallee(); g != nil && clears[g] && g != fn {
						isClear = true
					}
				case *ssa.Store:
					if fa, ok := x.Addr.(*ssa.FieldAddr); ok && fieldVarOfAddr(fa) == r.SRIndex && isNilConst(x.Val) {
						isClear = true
					}
				}
				if !isClear {
					continue
				}
				// is this function itself only a helper (clears unconditionally, called from elsewhere)?
				if clears[fn] && fn != gc {
					if _, isStore := ins.(*ssa.Store); isStore {
						continue // judged at its call sites
					}
				}
				n++
				ob := Ob{Rule: "R26", Inst: fmt.Sprintf("gc-keeps-head-index:%s", funcLabel(fn)), Props: props, Pos: p.at(ins), Func: funcLabel(fn), Nontrivial: true}
				ok := false
				for d := b.Idom(); d != nil; d = d.Idom() {
					iff, isIf := terminator(d).(*ssa.If)
					if !isIf {
						continue
					}
					cond, pos := iff.Cond, true
					for {
						u, isU := cond.(*ssa.UnOp)
						if isU && u.Op == token.NOT {
							pos, cond = !pos, u.X
							continue
						}
						break
					}
					if f, _ := loadedField(cond); f != head {
						continue
					}
					edge := 1 // head false
					if !pos {
						edge = 0
					}
					if edgeDominates(d, edge, b) {
						ok = true
					}
				}
				if ok {
					ob.Status, ob.Msg = Discharged, "the index is dropped only on the edge where the reader is not the head"
				} else {
					ob.Status, ob.Msg = Violated, "Log.GC can drop the index of the head reader: it is the writer's live index, and the copy reloaded from disk on the next access is a snapshot that later publishes into the segment never reach (Consume stops below NextOffset)"
				}
				obs = append(obs, ob)
			}
		}
	}
	if n == 0 {
		obs = append(obs, Ob{Rule: "R26", Inst: "gc-keeps-head-index", Props: props, Pos: "-", Status: Undecided, Msg: "Log.GC does not reach anything that drops a segment reader's index"})
	}
	return obs
}

// ---------------------------------------------------------------------------
// R27 KEPT-READER-NOT-HEAD (C03): a reader a head-writer method hands back next to a new head is
// created with the head flag false (only the last reader of the list may answer 'caught up').
func ruleR27(p *Prog) []Ob {
	var obs []Ob
	r := p.R
	props := []string{"C03"}
	head := p.srHeadField()
	if head == nil {
		return []Ob{{Rule: "R27", Inst: "kept-reader", Props: props, Pos: "-", Status: Undecided, Msg: "the head flag of the segment reader was not found"}}
	}
	// constructors: functions returning *SegReader that store a bool parameter into the head flag
	headParam := map[*ssa.Function]int{}
	for _, fn := range p.Funcs {
		if !srcFunc(fn) || fn.Signature.Results().Len() == 0 || namedOf(fn.Signature.Results().At(0).Type()) != r.SegReader {
			continue
		}
		for _, b := range fn.Blocks {
			for _, ins := range b.Instrs {
				if st, ok := ins.(*ssa.Store); ok {
					if fa, ok := st.Addr.(*ssa.FieldAddr); ok && fieldVarOfAddr(fa) == head {
						if pr, ok := canon(st.Val).(*ssa.Parameter); ok {
							headParam[fn] = paramIdx(fn, pr)
						}
					}
				}
			}
		}
	}
	n := 0
	for _, fn := range p.Funcs {
		if !srcFunc(fn) || recvNamed(fn) != r.HeadWriter {
			continue
		}
		for _, b := range fn.Blocks {
			for _, ins := range b.Instrs {
				c, ok := ins.(*ssa.Call)
				if !ok {
					continue
				}
				g := c.Common().StaticCallee()
				hi, isCtor := headParam[g]
				if g == nil || !isCtor || hi >= len(c.Call.Args) {
					continue
				}
				n++
				ob := Ob{Rule: "R27", Inst: fmt.Sprintf("kept-reader-not-head:%s#%d", funcLabel(fn), n), Props: props, Pos: p.at(c), Func: funcLabel(fn), Nontrivial: true}
				if k, ok := c.Call.Args[hi].(*ssa.Const); ok && k.Value != nil && k.Value.String() == "false" {
					ob.Status, ob.Msg = Discharged, "the reader kept next to the new head is created with the head flag false"
				} else {
					ob.Status, ob.Msg = Violated, "a reader that stays in the list in front of a new head is created with a head flag that is not constant false: it answers 'caught up' at its own end instead of after-end, so Consume never moves on to the new head"
				}
				obs = append(obs, ob)
			}
		}
	}
	if n == 0 {
		obs = append(obs, Ob{Rule: "R27", Inst: "kept-reader-not-head", Props: props, Pos: "-", Status: Undecided, Msg: "no head-writer method creates a reader through a constructor with a head flag"})
	}
	return obs
}

// ---------------------------------------------------------------------------
// R28 GET-EXACT (C04): Log.Get asks a segment only for the offset it was asked for (or for a relative
// constant on the edge where that constant was what the caller asked).
func ruleR28(p *Prog) []Ob {
	var obs []Ob
	r := p.R
	props := []string{"C04"}
	get := r.ImplMethods["Get"]
	if get == nil || len(get.Params) < 2 {
		return []Ob{{Rule: "R28", Inst: "get-exact", Props: props, Pos: "-", Status: Undecided, Msg: "Log.Get not found"}}
	}
	offset := get.Params[1]
	n := 0
	for _, b := range get.Blocks {
		for _, ins := range b.Instrs {
			c, ok := ins.(*ssa.Call)
			if !ok {
				continue
			}
			g := c.Common().StaticCallee()
			if g == nil || recvNamed(g) != r.SegReader || g.Signature.Results().Len() == 0 || namedOf(g.Signature.Results().At(0).Type()) != r.Message {
				continue
			}
			// the int64 argument
			var arg ssa.Value
			for _, a := range c.Call.Args[1:] {
				if bt, ok := a.Type().Underlying().(*types.Basic); ok && bt.Kind() == types.Int64 {
					arg = a
				}
			}
			if arg == nil {
				continue
			}
			n++
			ob := Ob{Rule: "R28", Inst: fmt.Sprintf("get-exact:%s#%d", funcLabel(g), n), Props: props, Pos: p.at(c), Func: funcLabel(get), Nontrivial: true}
			switch {
			case canon(arg) == ssa.Value(offset):
				ob.Status, ob.Msg = Discharged, "the segment is asked for the caller's offset"
			default:
				k, isK := constInt(arg)
				ok := false
				if isK {
					for d := b.Idom(); d != nil; d = d.Idom() {
						iff, isIf := terminator(d).(*ssa.If)
						if !isIf {
							continue
						}
						bo, isB := iff.Cond.(*ssa.BinOp)
						if !isB || (bo.Op != token.EQL && bo.Op != token.NEQ) {
							continue
						}
						var other ssa.Value
						if canon(bo.X) == ssa.Value(offset) {
							other = bo.Y
						} else if canon(bo.Y) == ssa.Value(offset) {
							other = bo.X
						}
						if other == nil {
							continue
						}
						if k2, isK2 := constInt(other); isK2 && k2 == k {
							edge := 0
							if bo.Op == token.NEQ {
								edge = 1
							}
							if edgeDominates(d, edge, b) {
								ok = true
							}
						}
					}
				}
				if ok {
					ob.Status, ob.Msg = Discharged, "a relative offset is substituted only on the edge where the caller asked for exactly that relative offset"
				} else {
					ob.Status, ob.Msg = Violated, "Log.Get asks a segment for an offset other than the one it was asked for: an absolute request can then be answered with a message of a different offset"
				}
			}
			obs = append(obs, ob)
		}
	}
	if n == 0 {
		obs = append(obs, Ob{Rule: "R28", Inst: "get-exact", Props: props, Pos: "-", Status: Undecided, Msg: "Log.Get does not call a per-segment Get"})
	}
	return obs
}

// dominatedByNotExist: the block is dominated by the edge on which some error matched os.ErrNotExist.
func (p *Prog) dominatedByNotExist(b *ssa.BasicBlock) bool {
	for d := b.Idom(); d != nil; d = d.Idom() {
		iff, ok := terminator(d).(*ssa.If)
		if !ok {
			continue
		}
		for _, cand := range condOperands(iff.Cond) {
			if !isErrType(cand.Type()) {
				continue
			}
			if t, ok := classifyErrCond(iff.Cond, cand); ok && t.kind == "is" && isNotExistTarget(t.target) {
				edge := 0
				if !t.trueMeans {
					edge = 1
				}
				if edgeDominates(d, edge, b) {
					return true
				}
			}
		}
	}
	return false
}

// ---------------------------------------------------------------------------
// R29 ITEM-DERIVATION (C10, C11): Params.NewItem derives the index timestamp as
// max(message time, previous timestamp) – equal to the message time whenever times never decrease.
func ruleR29(p *Prog) []Ob {
	ob := Ob{Rule: "R29", Inst: "item-timestamp", Props: []string{"C10", "C11"}, Pos: "-", Nontrivial: true}
	var fn *ssa.Function
	for _, f := range p.Funcs {
		if srcFunc(f) && recvNamed(f) == p.R.Params && f.Signature.Results().Len() == 1 && namedOf(f.Signature.Results().At(0).Type()) == p.R.Item {
			fn = f
		}
	}
	if fn == nil {
		ob.Status, ob.Msg = Undecided, "the function deriving an index.Item from a message (method of index.Params returning index.Item) was not found"
		return []Ob{ob}
	}
	ob.Pos, ob.Func = p.posStr(fn.Pos()), funcLabel(fn)
	var prev *ssa.Parameter
	for _, pr := range fn.Params {
		if bt, ok := pr.Type().Underlying().(*types.Basic); ok && bt.Kind() == types.Int64 {
			prev = pr // the last int64 parameter: the previous timestamp
		}
	}
	isMsgTime := func(v ssa.Value) bool {
		c, ok := v.(*ssa.Call)
		if !ok || calleeName(c.Common()) != "(time.Time).UnixMicro" {
			return false
		}
		f, base := loadedField(c.Call.Args[0])
		return f != nil && f.Name() == "Time" && namedOf(base.Type()) == p.R.Message
	}
	found := false
	for _, b := range fn.Blocks {
		for _, ins := range b.Instrs {
			st, ok := ins.(*ssa.Store)
			if !ok {
				continue
			}
			fa, ok := st.Addr.(*ssa.FieldAddr)
			if !ok || namedOf(fa.X.Type()) != p.R.Item || fieldVarOfAddr(fa).Name() != "Timestamp" {
				continue
			}
			found = true
			c, ok := st.Val.(*ssa.Call)
			if !ok || !isBuiltinCall(c.Common(), "max") || len(c.Call.Args) != 2 {
				ob.Status, ob.Msg = Undecided, "the index timestamp is not computed with max(message time, previous timestamp); the shape is not recognised"
				return []Ob{ob}
			}
			a, bb := c.Call.Args[0], c.Call.Args[1]
			switch {
			case (isMsgTime(a) && bb == ssa.Value(prev)) || (isMsgTime(bb) && a == ssa.Value(prev)):
				ob.Status, ob.Msg = Discharged, "Timestamp = max(m.Time.UnixMicro(), previous timestamp): the message's own time whenever times never decrease"
			case isMsgTime(a) || isMsgTime(bb):
				ob.Status, ob.Msg = Violated, "the index timestamp is max(message time, something other than the previous timestamp): for messages with equal times the indexed time is no longer the message time, and time lookups return messages that are earlier than asked"
			default:
				ob.Status, ob.Msg = Violated, "the index timestamp is not derived from the message's time"
			}
		}
	}
	if !found {
		ob.Status, ob.Msg = Undecided, "no store to Item.Timestamp in "+funcLabel(fn)
	}
	return []Ob{ob}
}

// ---------------------------------------------------------------------------
// R30 CLOCK-INDEPENDENCE: no branch of a query depends on the wall clock.
func ruleR30(p *Prog) []Ob {
	var obs []Ob
	tainted := map[ssa.Value]bool{}
	paramTaint := map[*ssa.Parameter]bool{}
	isNow := func(c *ssa.CallCommon) bool {
		nm := calleeName(c)
		return nm == "time.Now" || nm == "time.Since" || nm == "time.Until"
	}
	for iter := 0; iter < 10; iter++ {
		changed := false
		mark := func(v ssa.Value) {
			if !tainted[v] {
				tainted[v] = true
				changed = true
			}
		}
		for _, fn := range p.Funcs {
			for _, pr := range fn.Params {
				if paramTaint[pr] {
					mark(pr)
				}
			}
			for _, b := range fn.Blocks {
				for _, ins := range b.Instrs {
					v, isVal := ins.(ssa.Value)
					switch x := ins.(type) {
					case *ssa.Call:
						if isNow(x.Common()) {
							mark(x)
							continue
						}
						anyT := false
						for _, a := range x.Common().Args {
							if tainted[a] {
								anyT = true
							}
						}
						if !anyT {
							continue
						}
						g := x.Common().StaticCallee()
						if g != nil && inModule(g) && g.Blocks != nil {
							for i, a := range x.Common().Args {
								if tainted[a] && i < len(g.Params) && !paramTaint[g.Params[i]] {
									paramTaint[g.Params[i]] = true
									changed = true
								}
							}
						} else if g != nil && funcPkgPath(g) == "time" {
							mark(x) // methods of time.Time / Duration keep the dependence
						}
					case *ssa.BinOp:
						if tainted[x.X] || tainted[x.Y] {
							mark(x)
						}
					case *ssa.UnOp:
						if tainted[x.X] {
							mark(x)
						}
					case *ssa.Convert:
						if tainted[x.X] {
							mark(x)
						}
					case *ssa.ChangeType:
						if tainted[x.X] {
							mark(x)
						}
					case *ssa.Phi:
						for _, e := range x.Edges {
							if tainted[e] {
								mark(x)
							}
						}
					case *ssa.Extract:
						if tainted[x.Tuple] {
							mark(x)
						}
					case *ssa.Store:
						if tainted[x.Val] {
							if al, ok := x.Addr.(*ssa.Alloc); ok {
								mark(al)
							}
						}
					}
					_ = v
					_ = isVal
				}
			}
		}
		if !changed {
			break
		}
	}
	queries := []string{"Consume", "ConsumeByKey", "Get", "GetByKey", "OffsetByKey", "GetByTime", "OffsetByTime", "NextOffset", "Stat"}
	for _, q := range queries {
		m := p.R.ImplMethods[q]
		props := methodPropsAll[q]
		ob := Ob{Rule: "R30", Inst: "clock-independent:Log." + q, Props: props, Func: funcLabel(m), Nontrivial: true}
		if m == nil {
			ob.Pos, ob.Status, ob.Msg = "-", Undecided, "method not found"
			obs = append(obs, ob)
			continue
		}
		ob.Pos = p.posStr(m.Pos())
		var bad []string
		seen := map[*ssa.Function]bool{}
		var walk func(f *ssa.Function)
		walk = func(f *ssa.Function) {
			if f == nil || seen[f] || !inModule(f) || f.Blocks == nil {
				return
			}
			seen[f] = true
			for _, b := range f.Blocks {
				for _, ins := range b.Instrs {
					switch x := ins.(type) {
					case *ssa.If:
						if tainted[x.Cond] {
							bad = append(bad, fmt.Sprintf("%s: a branch in %s depends on the wall clock", p.at(x), funcLabel(f)))
						}
					case ssa.CallInstruction:
						for _, g := range p.callees(x) {
							walk(g)
						}
					}
				}
			}
		}
		walk(m)
		sort.Strings(bad)
		if len(bad) > 0 {
			ob.Status, ob.Msg, ob.Path = Violated, "the answer of a query depends on the host's clock (message times are supplied by the publisher and may lie in the future)", uniqStrings(bad)
		} else {
			ob.Status, ob.Msg = Discharged, fmt.Sprintf("no branch in the %d functions reachable from Log.%s depends on time.Now()", len(seen), q)
		}
		obs = append(obs, ob)
	}
	return obs
}

// ---------------------------------------------------------------------------
// R1 I8: the fsync that discharges I1–I3 runs with the writer lock held, and the offset Sync returns
// is read in that same critical section (otherwise a publish that lands in between is acknowledged
// as durable without being covered by the fsync).
func (p *Prog) syncUnderWriterLock(logF *bitFlow) []Ob {
	var obs []Ob
	r := p.R
	ls := p.LocksetCached()
	sum := p.nextOffsetSummary()
	for _, name := range []string{"Sync", "Publish", "Close"} {
		fn := r.ImplMethods[name]
		if fn == nil {
			continue
		}
		ob := Ob{Rule: "R1", Inst: "I8:Log." + name + ":fsync-under-writer-lock", Props: []string{"C06", "C08"}, Pos: p.posStr(fn.Pos()), Func: funcLabel(fn), Nontrivial: true}
		var bad []string
		n := 0
		for _, b := range fn.Blocks {
			for _, ins := range b.Instrs {
				c, ok := ins.(*ssa.Call)
				if !ok {
					continue
				}
				clean := false
				if _, kill := logF.effect(c); kill {
					clean = true
				}
				for _, g := range p.callees(c) {
					if s, ok := logF.sums[g]; ok && !s.onBad && inModule(g) {
						clean = true
					}
				}
				if clean {
					n++
					if ls.at[c][r.WriterMu] != modeW {
						bad = append(bad, p.at(c)+": the head log is fsynced without holding the writer lock: a concurrent publish can append after the fsync started and still be covered by the acknowledged offset")
					}
				}
				// the acknowledged offset
				if name == "Sync" {
					isNext := false
					for _, g := range p.callees(c) {
						if sum[g][0] {
							isNext = true
						}
					}
					if isNext && ls.at[c][r.WriterMu] != modeW && ls.at[c][r.ReadersMu] == 0 {
						bad = append(bad, p.at(c)+": the offset Sync acknowledges is read without holding the writer lock")
					}
				}
			}
		}
		if n == 0 {
			continue
		}
		if len(bad) > 0 {
			ob.Status, ob.Msg, ob.Path = Violated, "the fsync and the acknowledged offset are not one critical section of the writer lock", bad
		} else {
			ob.Status, ob.Msg = Discharged, fmt.Sprintf("%d fsync call(s), all with the writer lock held exclusively", n)
		}
		obs = append(obs, ob)
	}
	return obs
}

// ---------------------------------------------------------------------------
// R18b: find -> rewrite -> swap of a delete is one critical section of the delete lock.
func (p *Prog) deleteSerialised() []Ob {
	r := p.R
	ls := p.LocksetCached()
	ob := Ob{Rule: "R18", Inst: "delete-serialised", Props: []string{"C12", "C08"}, Pos: "-", Nontrivial: true}
	if r.DeleteMu == nil {
		ob.Status, ob.Msg = Undecided, "the log implementation has no second mutex serialising deletes"
		return []Ob{ob}
	}
	isRewrite := func(g *ssa.Function) bool {
		return recvNamed(g) == r.Segment && g.Signature.Results().Len() > 0 && namedOf(g.Signature.Results().At(0).Type()) == r.RewriteSegment
	}
	takesRewrite := func(g *ssa.Function) bool {
		for _, pr := range g.Params {
			if _, ptr := pr.Type().(*types.Pointer); ptr && namedOf(pr.Type()) == r.RewriteSegment {
				return true
			}
		}
		return false
	}
	var bad []string
	n := 0
	for _, fn := range p.Funcs {
		if !srcFunc(fn) || recvNamed(fn) != r.Impl {
			continue
		}
		for _, b := range fn.Blocks {
			for _, ins := range b.Instrs {
				c, ok := ins.(*ssa.Call)
				if !ok {
					continue
				}
				g := c.Common().StaticCallee()
				if g == nil {
					continue
				}
				what := ""
				switch {
				case isRewrite(g):
					what = "the rewrite of the segment"
				case takesRewrite(g) && (recvNamed(g) == r.SegReader || recvNamed(g) == r.HeadWriter):
					what = "the swap that applies the rewrite"
				default:
					continue
				}
				n++
				ob.Pos = p.at(c)
				if ls.at[c][r.DeleteMu] != modeW {
					bad = append(bad, fmt.Sprintf("%s: %s runs without the delete lock: two overlapping deletes of one segment both rewrite the original file, and the second swap brings back what the first removed and reported", p.at(c), what))
				}
			}
		}
	}
	sort.Strings(bad)
	switch {
	case n == 0:
		ob.Status, ob.Msg = Undecided, "no rewrite / swap call found in the log implementation"
	case len(bad) > 0:
		ob.Status, ob.Msg, ob.Path = Violated, "choosing the segment, rewriting it and swapping the result in are not one critical section of the delete lock", bad
	default:
		ob.Status, ob.Msg = Discharged, fmt.Sprintf("all %d rewrite/swap calls hold the delete lock exclusively", n)
	}
	return []Ob{ob}
}

// ---------------------------------------------------------------------------
// R11 L5: the size reported for a deleted record is its size in the format it was stored in.
func (p *Prog) deletedSizeVersion() []Ob {
	var obs []Ob
	size := p.pkgFunc(pkgMessage, "Size")
	for _, cl := range p.copyLoops() {
		fn := cl.fn
		for lb := range cl.loop {
			for _, ins := range lb.Instrs {
				c, ok := ins.(*ssa.Call)
				if !ok || size == nil || c.Common().StaticCallee() != size || !cl.isMsg(c.Call.Args[0]) {
					continue
				}
				ob := Ob{Rule: "R11", Inst: "L5:" + funcLabel(fn) + ":deleted-size-version", Props: []string{"C12"}, Pos: p.at(c), Func: funcLabel(fn), Nontrivial: true}
				v := canon(c.Call.Args[1])
				okV := false
				if vc, isC := v.(*ssa.Call); isC && calleeName(vc.Common()) == "(*"+pkgMessage+".Reader).Version" {
					// of the reader this loop scans
					if canon(vc.Call.Args[0]) == canon(cl.read.Call.Args[0]) {
						okV = true
					}
				}
				if okV {
					ob.Status, ob.Msg = Discharged, "message.Size is asked for the version of the file the record was read from"
				} else {
					ob.Status, ob.Msg = Violated, "the storage size of a record read from this segment is computed for a version other than the one its file is stored in (the reported deleted size is then wrong for mixed-version logs)"
				}
				obs = append(obs, ob)
			}
		}
	}
	return obs
}

// ---------------------------------------------------------------------------
// R2 O7: Segment.Remove removes the log file on every success path.
func (p *Prog) removeRemovesLog() Ob {
	ob := Ob{Rule: "R2", Inst: "O7:Segment.Remove:removes-log", Props: []string{"C12", "C01"}, Pos: "-", Nontrivial: true}
	fn := p.methodOf(p.R.Segment, "Remove")
	if fn == nil {
		ob.Status, ob.Msg = Undecided, "segment.Segment.Remove not found"
		return ob
	}
	ob.Pos, ob.Func = p.posStr(fn.Pos()), funcLabel(fn)
	ea := p.ErrAtomsCached()
	fl := &bitFlow{p: p, ea: ea, name: "remove(log)"}
	fl.effect = func(call ssa.CallInstruction) (bool, bool) {
		c := call.Common()
		if calleeName(c) != "os.Remove" || len(c.Args) == 0 {
			// a helper that removes its string parameter
			if g := c.StaticCallee(); g != nil && inModule(g) && len(c.Args) > 0 {
				pc := p.classifyPath(c.Args[0])
				if pc.kind == "seg" && pc.fld == "Log" && p.reaches(g, isFunc("os.Remove")) {
					return false, true
				}
			}
			return false, false
		}
		pc := p.classifyPath(c.Args[0])
		return false, pc.kind == "seg" && pc.fld == "Log"
	}
	fl.sums = map[*ssa.Function]bitSumm{}
	for _, g := range p.Funcs {
		fl.sums[g] = bitSumm{false, true}
	}
	if bad, rets := fl.run(fn, true, nil, nil); bad {
		ob.Status, ob.Msg = Violated, "Segment.Remove can return success without removing the log file: the segment is found again on the next open, and messages a Delete reported come back"
		for _, rt := range rets {
			ob.Path = append(ob.Path, "success return at "+p.at(rt))
		}
	} else {
		ob.Status, ob.Msg = Discharged, "every success return is preceded by os.Remove of the segment's log file"
	}
	return ob
}

// ---------------------------------------------------------------------------
// R10f: an error of the record decoder other than io.EOF always fails the call that met it
// (a damaged record in the middle of a range read must not turn into a shorter, successful answer).
func (p *Prog) decoderErrorsPropagate() []Ob {
	var obs []Ob
	ea := p.ErrAtomsCached()
	isDecoder := map[*ssa.Function]bool{}
	for _, d := range p.R.RecDecoders {
		isDecoder[d] = true
	}
	n := 0
	for _, fn := range p.Funcs {
		if !srcFunc(fn) || isDecoder[fn] {
			continue
		}
		for _, b := range fn.Blocks {
			for _, ins := range b.Instrs {
				c, ok := ins.(*ssa.Call)
				if !ok {
					continue
				}
				calls := false
				for _, g := range p.callees(c) {
					if isDecoder[unwrapSynthetic(g)] {
						calls = true
					}
				}
				if !calls {
					continue
				}
				errv := errResultOfCall(c)
				if errv == nil {
					continue
				}
				n++
				ob := Ob{Rule: "R10", Inst: "f:decoder-error-propagates:" + funcLabel(fn), Props: []string{"C14"}, Pos: p.at(c), Func: funcLabel(fn), Nontrivial: true}
				// blocks reached with err known non-nil and not (yet) known to be io.EOF
				var starts []*ssa.BasicBlock
				for _, tb := range fn.Blocks {
					iff, ok := terminator(tb).(*ssa.If)
					if !ok {
						continue
					}
					if t, ok := classifyErrCond(iff.Cond, errv); ok && t.kind == "nil" {
						if t.trueMeans {
							starts = append(starts, tb.Succs[1])
						} else {
							starts = append(starts, tb.Succs[0])
						}
					}
				}
				var bad []string
				seen := map[*ssa.BasicBlock]bool{}
				var walk func(x *ssa.BasicBlock)
				walk = func(x *ssa.BasicBlock) {
					if seen[x] || x == c.Block() {
						return
					}
					seen[x] = true
					if rt, ok := terminator(x).(*ssa.Return); ok && x != fn.Recover {
						if !ea.isFailureReturn(fn, rt) {
							ei := errResultIndex(fn)
							if !(ei >= 0 && derivesFromErr(returnOperand(rt, ei), errv, 0)) {
								bad = append(bad, p.at(rt)+": returns success although the decoder reported an error that is not io.EOF")
							}
						}
						return
					}
					if iff, ok := terminator(x).(*ssa.If); ok {
						if t, ok := classifyErrCond(iff.Cond, errv); ok && (t.kind == "is" || t.kind == "eq") && t.target == "X:io.EOF" {
							// only follow the not-EOF edge
							if t.trueMeans {
								walk(x.Succs[1])
							} else {
								walk(x.Succs[0])
							}
							return
						}
					}
					for _, s := range x.Succs {
						walk(s)
					}
				}
				for _, s := range starts {
					walk(s)
				}
				sort.Strings(bad)
				if len(bad) > 0 {
					ob.Status, ob.Msg, ob.Path = Violated, "a decoder failure is swallowed: a read whose answer would include a damaged record succeeds with less", uniqStrings(bad)
				} else {
					ob.Status, ob.Msg = Discharged, "on a decoder error other than io.EOF every path ends in a failure return"
				}
				obs = append(obs, ob)
			}
		}
	}
	if n == 0 {
		obs = append(obs, Ob{Rule: "R10", Inst: "f:decoder-error-propagates", Props: []string{"C14"}, Pos: "-", Status: Undecided, Msg: "no caller of the record decoders found"})
	}
	return dedupObs(obs)
}

// ---------------------------------------------------------------------------
// R32 LAZY-LOG (C14): a segment's log file is opened only after its index said the answer may be in it.
func ruleR32(p *Prog) []Ob {
	var obs []Ob
	r := p.R
	ea := p.ErrAtomsCached()
	getter := p.inuseGetter()
	if getter == nil {
		return []Ob{{Rule: "R32", Inst: "lazy-log", Props: []string{"C14"}, Pos: "-", Status: Undecided, Msg: "the message-reader getter was not found"}}
	}
	idxIface := namedOf(r.SRIndex.Type())
	n := 0
	for _, fn := range p.Funcs {
		if !srcFunc(fn) {
			continue
		}
		for _, b := range fn.Blocks {
			for _, ins := range b.Instrs {
				c, ok := ins.(*ssa.Call)
				if !ok || c.Common().StaticCallee() != getter {
					continue
				}
				n++
				ob := Ob{Rule: "R32", Inst: "lazy-log:" + funcLabel(fn), Props: []string{"C14"}, Pos: p.at(c), Func: funcLabel(fn), Nontrivial: true}
				okDom := false
				for _, b2 := range fn.Blocks {
					for _, i2 := range b2.Instrs {
						lk, ok := i2.(*ssa.Call)
						if !ok || !lk.Common().IsInvoke() || namedOf(lk.Common().Value.Type()) != idxIface {
							continue
						}
						// a lookup: returns a position / positions (not merely the next offset)
						res := lk.Common().Method.Type().(*types.Signature).Results()
						if res.Len() < 2 || lk.Common().Method.Type().(*types.Signature).Params().Len() == 0 {
							continue
						}
						if instrDominates(lk, c) && p.failureEdgeLeaves(ea, lk, c) {
							okDom = true
						}
					}
				}
				if okDom {
					ob.Status, ob.Msg = Discharged, "the log file is opened only after a successful lookup in the segment's index"
				} else {
					ob.Status, ob.Msg = Violated, "a segment's log file is opened before (or without) its index being consulted: damage to that file then fails lookups whose answer lies entirely in other segments"
				}
				obs = append(obs, ob)
			}
		}
	}
	if n == 0 {
		obs = append(obs, Ob{Rule: "R32", Inst: "lazy-log", Props: []string{"C14"}, Pos: "-", Status: Undecided, Msg: "the message-reader getter has no callers"})
	}
	return obs
}

// ---------------------------------------------------------------------------
// R11 L4 / L6 and R16c

// publishLoopObligations (L4): in the head writer's publish loop every record's index item is written
// to the index file in the same iteration as the record, and the batch is appended to the in-memory
// index once, after the loop (so that readers see a batch entirely or not at all).
func (p *Prog) publishLoopObligations() []Ob {
	var obs []Ob
	r := p.R
	// the in-memory append: the HeadIndex method that stores the items field
	appendFn := map[*ssa.Function]bool{}
	for _, fn := range p.Funcs {
		if recvNamed(fn) != r.HeadIndex {
			continue
		}
		for _, b := range fn.Blocks {
			for _, ins := range b.Instrs {
				if st, ok := ins.(*ssa.Store); ok {
					if fa, ok := st.Addr.(*ssa.FieldAddr); ok && fieldVarOfAddr(fa) == r.HIItems && !underConstruction(fa) {
						appendFn[fn] = true
					}
				}
			}
		}
	}
	for _, fn := range p.Funcs {
		if !srcFunc(fn) || recvNamed(fn) != r.HeadWriter {
			continue
		}
		for _, b := range fn.Blocks {
			for _, ins := range b.Instrs {
				w, ok := ins.(*ssa.Call)
				if !ok || calleeName(w.Common()) != "(*"+pkgMessage+".Writer).Write" {
					continue
				}
				h, loop := innermostLoop(b)
				if loop == nil {
					continue
				}
				ob := Ob{Rule: "R11", Inst: "L4:" + funcLabel(fn) + ":publish-loop", Props: []string{"C08", "C11", "C01"}, Pos: p.at(w), Func: funcLabel(fn), Nontrivial: true}
				var bad []string
				// (i) the index item is written in the same iteration: every path from the record write
				// back to the loop header passes (*index.Writer).Write
				idxWrite := isFunc("(*" + pkgIndex + ".Writer).Write")
				isIdxWrite := func(i ssa.Instruction) bool {
					c, ok := i.(*ssa.Call)
					return ok && (calleeName(c.Common()) == "(*"+pkgIndex+".Writer).Write" || p.callReaches(c, idxWrite))
				}
				skip := false
				seen := map[*ssa.BasicBlock]bool{}
				var walk func(x *ssa.BasicBlock, from int)
				walk = func(x *ssa.BasicBlock, from int) {
					if skip {
						return
					}
					for i := from; i < len(x.Instrs); i++ {
						if isIdxWrite(x.Instrs[i]) {
							return
						}
					}
					for _, s := range x.Succs {
						if s == h {
							skip = true
							return
						}
						if !loop[s] || seen[s] {
							continue
						}
						seen[s] = true
						walk(s, 0)
					}
				}
				for i, bi := range b.Instrs {
					if bi == ssa.Instruction(w) {
						walk(b, i+1)
					}
				}
				if skip {
					bad = append(bad, "the next record of a batch can be written to the log before the index item of this one is written to the index file: a failure in the middle of a batch leaves records in the log that the index file never learns about")
				}
				// (ii) the in-memory append is outside the loop
				for lb := range loop {
					for _, li := range lb.Instrs {
						if c, ok := li.(*ssa.Call); ok {
							for _, g := range p.callees(c) {
								if appendFn[g] {
									bad = append(bad, p.at(c)+": the in-memory index is extended inside the batch loop: concurrent readers see a batch that is still being published partially")
								}
							}
						}
					}
				}
				if len(bad) > 0 {
					ob.Status, ob.Msg, ob.Path = Violated, "a published batch is not indexed record by record on disk and all at once in memory", bad
				} else {
					ob.Status, ob.Msg = Discharged, "each iteration writes the record and then its index item; the in-memory index is extended once, after the loop"
				}
				obs = append(obs, ob)
			}
		}
	}
	return obs
}

// indexTimeSeed (L6): every loop that derives index items from a log starts the carried index
// timestamp at 0, as its siblings and the appending writer of a fresh log do.
func (p *Prog) indexTimeSeed() []Ob {
	var obs []Ob
	for _, cl := range p.copyLoops() {
		if cl.loop == nil {
			continue
		}
		for _, it := range cl.items {
			if len(it.Call.Args) != 4 {
				continue
			}
			phi, ok := canon(it.Call.Args[3]).(*ssa.Phi)
			if !ok || phi.Block() != cl.header {
				continue
			}
			ob := Ob{Rule: "R11", Inst: "L6:" + funcLabel(cl.fn) + ":index-time-seed", Props: []string{"C11", "C07"}, Pos: p.at(it), Func: funcLabel(cl.fn), Nontrivial: true}
			if cl.fn.Name() == "Migrate" {
				ob.Props = []string{"C11", "C17"}
			}
			okSeed := true
			seed := ""
			for i, e := range phi.Edges {
				if cl.header.Dominates(cl.header.Preds[i]) {
					continue // back edge
				}
				k, isK := constInt(e)
				if !isK || k != 0 {
					okSeed = false
					seed = e.String()
				}
			}
			// (L6b) what is carried into the next iteration is the timestamp of an item just built
			// (the running maximum), not the time of the message
			tsField := -1
			if st, ok := it.Type().Underlying().(*types.Struct); ok {
				for i := 0; i < st.NumFields(); i++ {
					if st.Field(i).Name() == "Timestamp" {
						tsField = i
					}
				}
			}
			var carriedOK func(v ssa.Value, d int) bool
			carriedOK = func(v ssa.Value, d int) bool {
				v = canon(v)
				if v == ssa.Value(phi) {
					return true
				}
				if d > 6 {
					return false
				}
				switch x := v.(type) {
				case *ssa.Phi:
					for _, e := range x.Edges {
						if !carriedOK(e, d+1) {
							return false
						}
					}
					return true
				case *ssa.Field:
					if c, ok := canon(x.X).(*ssa.Call); ok && x.Field == tsField {
						return calleeName(c.Common()) == calleeName(it.Common())
					}
					if u, ok := x.X.(*ssa.UnOp); ok && x.Field == tsField {
						if al, ok := u.X.(*ssa.Alloc); ok {
							for _, st := range allocStores(al) {
								if c, ok := canon(st.Val).(*ssa.Call); !ok || calleeName(c.Common()) != calleeName(it.Common()) {
									return false
								}
							}
							return true
						}
					}
				case *ssa.UnOp:
					if fa, ok := x.X.(*ssa.FieldAddr); ok && x.Op == token.MUL && fa.Field == tsField {
						if al, ok := fa.X.(*ssa.Alloc); ok {
							sts := allocStores(al)
							for _, st := range sts {
								if c, ok := canon(st.Val).(*ssa.Call); !ok || calleeName(c.Common()) != calleeName(it.Common()) {
									return false
								}
							}
							return len(sts) > 0
						}
					}
				case *ssa.Call:
					// max(carried, ...) keeps the running maximum too
					if isBuiltinCall(x.Common(), "max") {
						for _, a := range x.Call.Args {
							if canon(a) == ssa.Value(phi) {
								return true
							}
						}
					}
				}
				return false
			}
			carried := ""
			for i, e := range phi.Edges {
				if !cl.header.Dominates(cl.header.Preds[i]) {
					continue
				}
				if tsField >= 0 && !carriedOK(e, 0) {
					carried = e.String()
				}
			}
			if okSeed && carried != "" {
				ob.Status, ob.Msg = Violated, "what this loop carries into the next index item is "+carried+", not the timestamp of the item it just built: where message times go backwards for more than one message the derived time index is no longer monotonic, and differs from the one that was published"
			} else if okSeed {
				ob.Status, ob.Msg = Discharged, "the carried index timestamp starts at 0 and continues with the timestamp of the item just built"
			} else {
				ob.Status, ob.Msg = Violated, "the carried index timestamp of this loop starts at "+seed+" while every sibling loop and the appending writer of a fresh log start at 0: for times before the epoch the index rebuilt here differs from the one that was published"
			}
			obs = append(obs, ob)
		}
	}
	return obs
}

// rebuildUnderIndexLock (R16c): a segment reader rebuilds / loads its index file only while holding
// its index lock exclusively (two concurrent first accesses would both append to the same file).
func (p *Prog) rebuildUnderIndexLock() []Ob {
	var obs []Ob
	r := p.R
	ls := p.LocksetCached()
	idxWrite := isFunc(pkgIndex + ".Write")
	n := 0
	for _, fn := range p.Funcs {
		if !srcFunc(fn) || recvNamed(fn) != r.SegReader {
			continue
		}
		for _, b := range fn.Blocks {
			for _, ins := range b.Instrs {
				c, ok := ins.(*ssa.Call)
				if !ok || !p.callReaches(c, idxWrite) {
					continue
				}
				if g := c.Common().StaticCallee(); g != nil && recvNamed(g) == r.SegReader {
					continue // judged inside
				}
				n++
				ob := Ob{Rule: "R16", Inst: "c:rebuild-under-index-lock:" + funcLabel(fn), Props: []string{"C11", "C08"}, Pos: p.at(c), Func: funcLabel(fn), Nontrivial: true}
				if ls.at[c][r.SRIndexMu] == modeW {
					ob.Status, ob.Msg = Discharged, "the index file is (re)built with the reader's index lock held exclusively"
				} else {
					ob.Status, ob.Msg = Violated, "a call that can rebuild the segment's index file runs without the reader's index lock: concurrent first accesses each append a full copy to the same file"
				}
				obs = append(obs, ob)
			}
		}
	}
	if n == 0 {
		obs = append(obs, Ob{Rule: "R16", Inst: "c:rebuild-under-index-lock", Props: []string{"C11", "C08"}, Pos: "-", Status: Undecided, Msg: "no segment reader method reaches index.Write"})
	}
	return obs
}

// osConst: the value of os.<name> in the analysed program (the open flags differ between operating
// systems, and the thorough tier analyses other GOOS configurations than the checker's own).
func (p *Prog) osConst(name string, dflt int64) int64 {
	if p.SSA != nil {
		if pkg := p.SSA.ImportedPackage("os"); pkg != nil {
			if c := pkg.Const(name); c != nil && c.Value != nil && c.Value.Value != nil {
				if v, ok := constant.Int64Val(constant.ToInt(c.Value.Value)); ok {
					return v
				}
			}
		}
	}
	return dflt
}
