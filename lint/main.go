package main

import (
	"encoding/json"
	"flag"
	"fmt"
	"os"
	"path/filepath"
	"runtime/debug"
	"sort"
	"strings"
	"time"
)

var rules = []*Rule{
	{ID: "R1", Title: "MUST-FSYNC: durable before acknowledged", Props: []string{"C06", "C05", "C08", "C11", "C17"}, Run: ruleR1},
	{ID: "R2", Title: "FS-ORDER: multi-step file protocols keep a recoverable order", Props: []string{"C05", "C11", "C02", "C01", "C17", "C12", "C07", "C06"}, Run: func(p *Prog) []Ob {
		return append(append(append(append(ruleR2(p), p.overrideTargetObligations()...), p.removeRemovesLog()), p.atomicReplace()...), append(append(append(p.recoverReplaces(), append(p.recoverBeforeMigrate(), p.recoverOnOpen()...)...), p.whoMayRemoveSegment()...), p.migrateBeforeOpen()...)...)
	}},
	{ID: "R3", Title: "LOCKSET: every shared mutable field has a common guard", Props: []string{"C08", "C09", "C03", "C04", "C02", "C12", "C20"}, Run: func(p *Prog) []Ob {
		return append(append(append(ruleR3(p), ruleR3c(p)...), p.publishOrder()...), append(p.headIsLast(), p.noSharedScratch()...)...)
	}},
	{ID: "R6", Title: "SENTINEL-IDENTITY: compared sentinels arrive unwrapped and alive", Props: []string{"C03", "C04", "C09", "C10", "C12"}, Run: ruleR6},
	{ID: "R7", Title: "TAXONOMY and GUARDS", Props: []string{"C04", "C03", "C07", "C09", "C10", "C11", "C12", "C14", "C19"}, Run: ruleR7},
	{ID: "R8", Title: "KEY-EQUALITY: a hash hit is only a candidate", Props: []string{"C09", "C13", "C14", "C11"}, Run: func(p *Prog) []Ob {
		return append(append(ruleR8(p), p.collectLoopAscends()...), p.ownBackingArray()...)
	}},
	{ID: "R10", Title: "DECODER-VALIDATION: nothing is returned before it is checked", Props: []string{"C14", "C07", "C05", "C11", "C09", "C01", "C17", "C13", "C02", "C06"}, Run: func(p *Prog) []Ob {
		return append(append(append(append(ruleR10(p), p.wholeItems()...), p.eofOrigin()...), p.freshMessage()...), p.wholeHeaderAndMappedAccess()...)
	}},
	{ID: "R11", Title: "COPY-LOOP: every record read is accounted for", Props: []string{"C01", "C02", "C03", "C05", "C07", "C08", "C11", "C12", "C17", "C10", "C06"}, Run: func(p *Prog) []Ob {
		return append(append(append(ruleR11(p), p.deletedSizeVersion()...), p.publishLoopObligations()...), append(append(append(append(p.indexTimeSeed(), p.recoverLooksAtTheIndex()...), p.wholeIndexCompare()...), p.scanBeforeVerdict()...), append(append(p.checkAndRecoverVerdicts(), p.publishedPositionIsWritten()...), p.recoverWritesKnownVersion()...)...)...)
	}},
	{ID: "R12", Title: "EFFECT-CONFINEMENT: who can change a log file", Props: []string{"C19", "C20", "C07", "C11", "C13", "C08"}, Run: func(p *Prog) []Ob { return append(ruleR12(p), p.indexConfinement()...) }},
	{ID: "R15", Title: "FLOCK-PAIRING", Props: []string{"C19", "C02"}, Run: func(p *Prog) []Ob {
		return append(append(ruleR15(p), p.openWrappersRelease()...), p.nothingBeforeTheLock()...)
	}},
	{ID: "R14", Title: "NOTIFY: publish-then-set, probe-under-token", Props: []string{"C18"}, Run: ruleR14},
	{ID: "R13", Title: "SEGMENT-NAMES: what New prints, Find parses, and sorts", Props: []string{"C01", "C02", "C20", "C05", "C12", "C19", "C06", "C03"}, Run: func(p *Prog) []Ob {
		return append(append(ruleR13(p), p.findAdoptsAll()), p.everyFoundSegmentIsOpened()...)
	}},
	{ID: "R16", Title: "INDEX-OPTIONAL: an index file may always be missing", Props: []string{"C11", "C07", "C08", "C20"}, Run: func(p *Prog) []Ob {
		return append(append(ruleR16(p), p.reindexThresholdObligation()), p.rebuildUnderIndexLock()...)
	}},
	{ID: "R19", Title: "VERSION-DISPATCH exhaustive", Props: []string{"C17", "C13", "C15"}, Run: func(p *Prog) []Ob {
		return append(append(append(ruleR19(p), p.keepRewriteVersionObligations()...), p.configuredVersionVerbatim()...), append(append(append(append(p.eagerMigrationByOption(), p.everySegment()...), p.sizeInConfiguredVersion()...), p.migrationReachableWithRecoverOrCheck()...), p.keepVersionCoversEveryFormat()...)...)
	}},
	{ID: "R22", Title: "SEGMENT-TYPESTATE: no use of a segment after its files were removed", Props: []string{"C12", "C01", "C03", "C04", "C10"}, Run: ruleR22},
	{ID: "R23", Title: "MULTI-DRIVER ACCOUNTING: a round's deletions are reported", Props: []string{"C12"}, Run: ruleR23},
	{ID: "R17", Title: "OFFSET-ASSIGNMENT", Props: []string{"C02", "C01", "C03", "C19"}, Run: func(p *Prog) []Ob {
		return append(append(append(ruleR17(p), p.tailSurvivedObligations()...), p.rolloverFromNonEmpty()...), append(p.nextOffsetFromTheHead(), p.nextOffsetIsNotACount()...)...)
	}},
	{ID: "R5", Title: "INUSE: the unload refcount protocol", Props: []string{"C08", "C19", "C04", "C03"}, Run: ruleR5},
	{ID: "R18", Title: "SNAPSHOT-REVALIDATION", Props: []string{"C08", "C12", "C03", "C15"}, Run: func(p *Prog) []Ob {
		return append(append(append(ruleR18(p), p.deleteSerialised()...), p.staleReader()...), append(p.lostRaceIsNotAnAnswer(), append(p.nothingDeletedMeansNothingToDelete(), p.deleteAnswersNothingOnlyForNothing()...)...)...)
	}},
	{ID: "R20", Title: "READER-LIFETIME: destructive segment operations exclude readers", Props: []string{"C08", "C03", "C12", "C04", "C09", "C10", "C15", "C20"}, Run: func(p *Prog) []Ob {
		return append(append(append(ruleR20(p), p.closeBeforeReplace()...), p.filesUnderALogLock()...), append(p.queriesKeepNoState(), p.queryStateIsLifecycleState()...)...)
	}},
	{ID: "R21", Title: "HEAD-SCAN-BOUND", Props: []string{"C08"}, Run: ruleR21},
	{ID: "R9", Title: "FORMAT-TABLES: encoder = decoder = documented layout", Props: []string{"C13", "C17", "C11", "C09", "C04", "C01", "C10", "C07"}, Run: func(p *Prog) []Ob { return append(ruleR9(p), p.headerFlagsExact()...) }},
	{ID: "R24", Title: "USE-AFTER-ERROR: placeholder results of failed calls never reach a success", Props: []string{"C01", "C02", "C03", "C04", "C06", "C07", "C08", "C09", "C10", "C12", "C13", "C20"}, Run: ruleR24},
	{ID: "R25", Title: "BACKUP-COMPLETENESS", Props: []string{"C20", "C11", "C19"}, Run: func(p *Prog) []Ob { return append(ruleR25(p), p.staleTargetIndexRemoved()...) }},
	{ID: "R26", Title: "HEAD-INDEX-LIVENESS", Props: []string{"C03", "C08", "C19"}, Run: func(p *Prog) []Ob { return append(ruleR26(p), p.prebuiltIndexStays()...) }},
	{ID: "R27", Title: "KEPT-READER-NOT-HEAD", Props: []string{"C03", "C12"}, Run: func(p *Prog) []Ob { return append(ruleR27(p), p.rewriteDropsOldIndex()...) }},
	{ID: "R28", Title: "GET-EXACT and CONSUME-BOUND", Props: []string{"C04", "C03", "C14"}, Run: func(p *Prog) []Ob {
		return append(append(append(ruleR28(p), p.consumeBound()...), p.newestByEquality()...), append(p.getPicksCoveringSegment(), p.batchEndsAtTheEnd()...)...)
	}},
	{ID: "R29", Title: "ITEM-DERIVATION", Props: []string{"C10", "C11"}, Run: ruleR29},
	{ID: "R30", Title: "CLOCK-INDEPENDENCE", Props: []string{"C03", "C04", "C09", "C10", "C13", "C02"}, Run: func(p *Prog) []Ob { return append(ruleR30(p), p.timeIdentity()...) }},
	{ID: "R32", Title: "LAZY-LOG", Props: []string{"C14"}, Run: func(p *Prog) []Ob { return append(ruleR32(p), p.openIsLazy()...) }},
	{ID: "R33", Title: "TIME-VERBATIM", Props: []string{"C01", "C10"}, Run: ruleR33},
	{ID: "R34", Title: "SEGMENT-IDENTITY", Props: []string{"C01", "C12", "C20"}, Run: func(p *Prog) []Ob { return append(ruleR34(p), p.dirIsNotAPrefix()...) }},
	{ID: "R35", Title: "LOOKUP-OUTCOMES", Props: []string{"C04", "C09", "C10", "C03", "C08", "C14"}, Run: func(p *Prog) []Ob {
		return append(append(ruleR35(p), p.queryDecisionBasis()...), p.unclassifiedFailureIsNotAnAnswer()...)
	}},
	{ID: "R36", Title: "BOUNDARY-HAND-OFF and INDEX-WRAPPERS", Props: []string{"C10", "C09", "C04", "C03", "C13", "C15"}, Run: func(p *Prog) []Ob {
		return append(append(append(ruleR36(p), p.indexWrappers()...), p.statFresh()...), append(p.siblingOutcomes(), p.cursorSiblings()...)...)
	}},
	{ID: "R39", Title: "PARAMS-FROM-OPTIONS", Props: []string{"C13", "C11", "C17"}, Run: ruleR39},
	{ID: "R40", Title: "ERROR-DISCIPLINE: no error is dropped outside the clean-up idioms", Props: []string{"C06", "C05", "C01", "C14", "C11", "C12", "C17", "C20"}, Run: ruleR40},
	{ID: "R37", Title: "FINDER-SHAPE: cursor, selection, bound and key discipline of the trim/compaction finders", Props: []string{"C15", "C16"}, Run: ruleR37},
	{ID: "R38", Title: "TRIM-PLUMBING: a wrapper deletes exactly what its finder selected", Props: []string{"C15", "C16", "C12"}, Run: ruleR38},
	{ID: "R4", Title: "LOCK-ORDER: acyclic acquisition graph, no re-acquisition", Props: []string{"C08"}, Run: ruleR4},
}

func (p *Prog) ErrAtomsCached() *ErrAtoms {
	if p.ea == nil {
		p.ea = p.errAtoms()
	}
	return p.ea
}

// The trim and compaction helpers (C15, C16) remove messages through Log.Delete and nothing else: every
// clause that is necessary for "Delete removes exactly what it was asked to and keeps the rest
// readable" (C12) is necessary for them too.
func withDependants(props []string) []string {
	has := map[string]bool{}
	for _, pr := range props {
		has[pr] = true
	}
	if has["C12"] {
		for _, d := range []string{"C15", "C16"} {
			if !has[d] {
				props = append(append([]string{}, props...), d)
				has[d] = true
			}
		}
	}
	return props
}

func init() {
	for i := range rules {
		rules[i].Props = withDependants(rules[i].Props)
	}
}

func main() {
	var (
		repo     = flag.String("repo", "/repo", "repository root")
		prop     = flag.String("p", "", "property id (C01...), or 'all'")
		tier     = flag.String("tier", "quick", "quick | thorough")
		outDir   = flag.String("out", "", "evidence directory (default: <verif>/evidence)")
		verifDir = flag.String("verif", "", "verif directory (default: parent of the executable's directory)")
		list     = flag.Bool("list", false, "print every obligation")
		replay   = flag.String("replay", "", "print the violation record(s) in a replay file")
		onlyRule = flag.String("rule", "", "run only this rule (debug)")
		describe = flag.Bool("describe", false, "print property -> rules as JSON")
	)
	flag.Parse()
	code := 0
	func() {
		defer func() {
			if r := recover(); r != nil {
				if fe, ok := r.(fatalError); ok {
					fmt.Fprintf(os.Stderr, "klevlint: fatal: %s\n", fe.msg)
				} else {
					fmt.Fprintf(os.Stderr, "klevlint: panic: %v\n%s\n", r, debug.Stack())
				}
				code = 2
			}
		}()
		if *verifDir == "" {
			exe, _ := os.Executable()
			*verifDir = filepath.Dir(filepath.Dir(exe))
		}
		if *outDir == "" {
			*outDir = filepath.Join(*verifDir, "evidence")
		}
		if *describe {
			m := map[string][]string{}
			for _, r := range rules {
				for _, pr := range r.Props {
					m[pr] = append(m[pr], r.ID)
				}
			}
			for k := range m {
				sort.Slice(m[k], func(i, j int) bool { return ruleNum(m[k][i]) < ruleNum(m[k][j]) })
			}
			out := map[string]any{}
			for k, v := range m {
				out[k] = v
			}
			texts := map[string]map[string]string{}
			for pid, t := range propInfo {
				texts[pid] = map[string]string{"decided": t.Decided, "not_decided": t.NotDecided}
			}
			out["_texts"] = texts
			data, _ := json.MarshalIndent(out, "", " ")
			fmt.Println(string(data))
			return
		}
		if *replay != "" {
			code = doReplayFile(*replay)
			return
		}
		code = run(*repo, *prop, *tier, *outDir, *verifDir, *list, *onlyRule)
	}()
	os.Exit(code)
}

func run(repo, prop, tier, outDir, verifDir string, list bool, onlyRule string) int {
	start := time.Now()
	p := Load(LoadConfig{Root: repo, Tags: "verif"})
	p.SpecDir = filepath.Join(verifDir, "lint", "spec")
	p.resolveRoles()
	if len(p.R.Missing) > 0 {
		for _, m := range p.R.Missing {
			fmt.Fprintf(os.Stderr, "klevlint: unresolved role: %s\n", m)
		}
	}
	if os.Getenv("KLDBG") == "layout" {
		dbgLayout(p)
		return 0
	}
	var obs []Ob
	ran := []string{}
	for _, r := range rules {
		if onlyRule != "" && r.ID != onlyRule {
			continue
		}
		if prop != "" && prop != "all" && onlyRule == "" {
			serves := false
			for _, pr := range r.Props {
				if pr == prop {
					serves = true
				}
			}
			if !serves {
				continue
			}
		}
		if len(p.R.Missing) > 0 {
			obs = append(obs, Ob{Rule: r.ID, Inst: "roles", Props: r.Props, Status: Undecided, Pos: "-",
				Msg: "unresolved roles: " + strings.Join(p.R.Missing, "; ")})
			continue
		}
		ran = append(ran, r.ID)
		obs = append(obs, r.Run(p)...)
	}
	for i := range obs {
		obs[i].Props = withDependants(obs[i].Props)
	}
	sortObs(obs)
	// known findings (recorded, unrepaired defects) are shown as such, not as new violations
	knownKeys := map[string]bool{}
	for _, f := range loadFindings(filepath.Join(verifDir, "known_findings.json")).Findings {
		if f.State == "known" {
			knownKeys[f.Instance] = true
		}
	}
	if list {
		for _, o := range obs {
			if o.Status != Discharged && knownKeys[o.key()] {
				fmt.Printf("%s: %s[%s] known-finding: %s\n", o.Pos, o.Rule, o.Inst, o.Msg)
				continue
			}
			fmt.Println(diag(o))
		}
		counts := map[string]int{}
		for _, o := range obs {
			for _, pr := range o.Props {
				counts[o.Rule+"@"+pr]++
			}
		}
		for _, k := range sortedKeys(counts) {
			fmt.Printf("   count %s = %d\n", k, counts[k])
		}
		fmt.Printf("-- %d obligations, %d packages, %d functions, %d call sites, %.2fs\n", len(obs), p.Stats.Packages, p.Stats.Functions, p.Stats.CallSites, time.Since(start).Seconds())
	}
	if prop == "" || prop == "all" {
		n := 0
		for _, o := range obs {
			if o.Status != Discharged && !knownKeys[o.key()] {
				n++
			}
		}
		if n > 0 {
			return 1
		}
		return 0
	}
	var extra map[string]any
	if tier == "thorough" {
		extra = runThorough(p, prop, ran, obs, p.SpecDir)
	}
	return conclude(p, prop, tier, outDir, verifDir, obs, ran, start, extra)
}

var _ = sort.Strings
