package main

import (
	"go/token"

	"golang.org/x/tools/go/ssa"
)

// Analysis A: success-path must-effect summaries on a two-point state.
//
// The state is one bit, "bad" (Dirty / not-yet-passed).  A call can set it
// (gen), clear it (kill) or apply the summary of its callee(s).  Join is OR
// (may be bad).  The summary of a function is what the bit may be at its
// success returns given it was good / bad at entry.

type bitSumm struct{ onGood, onBad bool } // exit may-bad given entry good / bad

func (s bitSumm) String() string {
	switch s {
	case bitSumm{false, true}:
		return "Id"
	case bitSumm{false, false}:
		return "ToGood"
	case bitSumm{true, true}:
		return "ToBad"
	}
	return "Flip"
}

type bitFlow struct {
	p      *Prog
	ea     *ErrAtoms
	name   string
	effect func(call ssa.CallInstruction) (gen, kill bool)
	sums   map[*ssa.Function]bitSumm
	Rounds int
}

// run flows the bit through fn.  visit (optional) is called before every
// instruction of every reachable block with the state before it.  Returns
// the may-bad state over success returns and the list of success returns that
// are bad.
func (a *bitFlow) run(fn *ssa.Function, entryBad bool, assume Assume, visit func(ssa.Instruction, bool)) (bool, []*ssa.Return) {
	n := len(fn.Blocks)
	if n == 0 {
		return entryBad, nil
	}
	in := make([]int, n) // 0 unreached, 1 good, 2 bad
	set := func(i int, bad bool) bool {
		v := 1
		if bad {
			v = 2
		}
		if in[i] < v {
			in[i] = v
			return true
		}
		return false
	}
	set(0, entryBad)
	step := func(b *ssa.BasicBlock, vis bool) bool {
		st := in[b.Index] == 2
		for _, ins := range b.Instrs {
			if vis && visit != nil {
				visit(ins, st)
			}
			call, ok := ins.(ssa.CallInstruction)
			if !ok {
				continue
			}
			if _, isCall := ins.(*ssa.Call); !isCall {
				// defer / go: the effect happens elsewhere; a deferred or spawned
				// call that could set the bit makes the state bad from here on.
				if gen, _ := a.effect(call); gen {
					st = true
					continue
				}
				for _, g := range a.p.callees(call) {
					if s, ok := a.sums[g]; ok && s.onGood {
						st = true
					}
				}
				continue
			}
			gen, kill := a.effect(call)
			if gen {
				st = true
				continue
			}
			if kill {
				st = false
				continue
			}
			any, res := false, false
			for _, g := range a.p.callees(call) {
				if !inModule(g) || g.Blocks == nil {
					continue
				}
				s, ok := a.sums[g]
				if !ok {
					s = bitSumm{true, true}
				}
				any = true
				if st {
					res = res || s.onBad
				} else {
					res = res || s.onGood
				}
			}
			if any {
				st = res
			}
		}
		return st
	}
	work := []*ssa.BasicBlock{fn.Blocks[0]}
	for len(work) > 0 {
		b := work[0]
		work = work[1:]
		st := step(b, false)
		for _, s := range a.p.prunedSuccs(b, assume) {
			if failureEdgeToReturn(fn, b, s) {
				continue // this edge only carries the failure case of a shared `return err`
			}
			if set(s.Index, st) {
				work = append(work, s)
			}
		}
	}
	exit := false
	var badReturns []*ssa.Return
	for _, b := range fn.Blocks {
		if in[b.Index] == 0 {
			continue
		}
		st := step(b, true)
		if rt, ok := terminator(b).(*ssa.Return); ok {
			if !a.ea.isFailureReturn(fn, rt) {
				if st {
					badReturns = append(badReturns, rt)
				}
				exit = exit || st
			}
		}
	}
	return exit, badReturns
}

// solve computes summaries for every module function (no option assumptions).
func (a *bitFlow) solve() {
	a.sums = map[*ssa.Function]bitSumm{}
	for _, fn := range a.p.Funcs {
		a.sums[fn] = bitSumm{true, true} // pessimistic start, only improves
	}
	for iter := 0; iter < 60; iter++ {
		changed := false
		for _, fn := range a.p.Funcs {
			g, _ := a.run(fn, false, nil, nil)
			b, _ := a.run(fn, true, nil, nil)
			s := bitSumm{g, b}
			if s != a.sums[fn] {
				a.sums[fn] = s
				changed = true
			}
		}
		a.Rounds = iter + 1
		if !changed {
			return
		}
	}
	fatal("bitFlow %s: no fixpoint", a.name)
}

// reaches reports whether target is reachable from fn through the call graph
// (module functions only are expanded).
func (p *Prog) reaches(fn *ssa.Function, target func(*ssa.Function) bool) bool {
	seen := map[*ssa.Function]bool{}
	var walk func(f *ssa.Function) bool
	walk = func(f *ssa.Function) bool {
		if f == nil || seen[f] {
			return false
		}
		seen[f] = true
		if target(f) {
			return true
		}
		if !inModule(f) || f.Blocks == nil {
			return false
		}
		for _, b := range f.Blocks {
			for _, ins := range b.Instrs {
				if mc, ok := ins.(*ssa.MakeClosure); ok {
					if walk(mc.Fn.(*ssa.Function)) {
						return true
					}
				}
				if c, ok := ins.(ssa.CallInstruction); ok {
					for _, g := range p.callees(c) {
						if walk(g) {
							return true
						}
					}
				}
			}
		}
		return false
	}
	return walk(fn)
}

// callReaches: does the call site reach a function satisfying target?
func (p *Prog) callReaches(site ssa.CallInstruction, target func(*ssa.Function) bool) bool {
	for _, g := range p.callees(site) {
		if p.reaches(g, target) {
			return true
		}
	}
	return false
}

// failureEdgeToReturn: s is nothing but `return ..., phi` and on the edge from b the error operand is a
// value that b's branch just established to be non-nil (the idiom `err := f(); if err == nil { err =
// g() }; return err`): along this edge the shared return is a failure return.
func failureEdgeToReturn(fn *ssa.Function, b, s *ssa.BasicBlock) bool {
	rt, ok := terminator(s).(*ssa.Return)
	if !ok {
		return false
	}
	for _, ins := range s.Instrs[:len(s.Instrs)-1] {
		switch ins.(type) {
		case *ssa.Phi, *ssa.DebugRef:
		default:
			return false
		}
	}
	ei := errResultIndex(fn)
	if ei < 0 || ei >= len(rt.Results) {
		return false
	}
	phi, ok := rt.Results[ei].(*ssa.Phi)
	if !ok || phi.Block() != s {
		return false
	}
	iff, ok := terminator(b).(*ssa.If)
	if !ok || len(b.Succs) != 2 || b.Succs[0] == b.Succs[1] {
		return false
	}
	bo, ok := iff.Cond.(*ssa.BinOp)
	if !ok || (bo.Op != token.NEQ && bo.Op != token.EQL) {
		return false
	}
	var tested ssa.Value
	switch {
	case isNilConst(bo.Y):
		tested = bo.X
	case isNilConst(bo.X):
		tested = bo.Y
	default:
		return false
	}
	if !isErrType(tested.Type()) {
		return false
	}
	nonNilSucc := b.Succs[0]
	if bo.Op == token.EQL {
		nonNilSucc = b.Succs[1]
	}
	if nonNilSucc != s {
		return false
	}
	for i, pr := range s.Preds {
		if pr == b && i < len(phi.Edges) && phi.Edges[i] == tested {
			return true
		}
	}
	return false
}
