package main

import (
	"encoding/json"
	"fmt"
	"go/token"
	"go/types"
	"os"
	"path/filepath"
	"sort"
	"strings"

	"golang.org/x/tools/go/ssa"
)

// R7 TAXONOMY and GUARDS (C04, C09, C10, C12, C19; C07 for decoder failures)

type taxonomySpec struct {
	MustWrap            map[string]string `json:"must_wrap"`
	PublicRoots         []string          `json:"public_roots"`
	DecoderFailuresWrap map[string]string `json:"decoder_failures_wrap"`
}

func (p *Prog) loadSpec(name string, v any) {
	path := filepath.Join(p.SpecDir, name)
	data, err := os.ReadFile(path)
	if err != nil {
		fatal("read spec %s: %v", path, err)
	}
	if err := json.Unmarshal(data, v); err != nil {
		fatal("parse spec %s: %v", path, err)
	}
}

func ruleR7(p *Prog) []Ob {
	var obs []Ob
	ea := p.ErrAtomsCached()
	var spec taxonomySpec
	p.loadSpec("taxonomy.json", &spec)

	// (a) taxonomy table
	for _, s := range sortedKeys(spec.MustWrap) {
		base := spec.MustWrap[s]
		ob := Ob{Rule: "R7", Inst: "a:taxonomy:" + shortAtom(s), Props: []string{"C04"}, Pos: "-"}
		switch {
		case strings.Contains(s, "Key"):
			ob.Props = []string{"C09", "C04"}
		case strings.Contains(s, "Time"):
			ob.Props = []string{"C10", "C04"}
		case strings.Contains(s, "Relative"):
			ob.Props = []string{"C12", "C04"}
		case strings.Contains(s, "IndexEmpty") || strings.Contains(s, "AfterEnd"):
			ob.Props = []string{"C03", "C04"}
		}
		g := ea.globals["G:"+s]
		if g == nil {
			ob.Status, ob.Msg = Undecided, "exported sentinel "+s+" not found"
			obs = append(obs, ob)
			continue
		}
		ob.Pos = p.posStr(g.Pos())
		if ea.closure("G:" + s)["G:"+base] {
			ob.Status, ob.Msg = Discharged, fmt.Sprintf("errors.Is(%s, %s) holds by its initialiser", shortAtom(s), shortAtom(base))
		} else {
			ob.Status, ob.Msg = Violated, fmt.Sprintf("%s no longer wraps %s: callers that classify with errors.Is(err, %s) as documented stop matching", shortAtom(s), shortAtom(base), shortAtom(base))
		}
		obs = append(obs, ob)
	}

	// (a2) every sentinel a record decoder / the index reader can fail with is corruption
	checkDecoderFailures := func(kind string, fns []*ssa.Function, props []string) {
		base := "G:" + spec.DecoderFailuresWrap[kind]
		for _, fn := range fns {
			ei := errResultIndex(fn)
			if ei < 0 {
				continue
			}
			ob := Ob{Rule: "R7", Inst: "a2:" + kind + "-failures:" + funcLabel(fn), Props: props, Pos: p.posStr(fn.Pos()), Func: funcLabel(fn), Nontrivial: true}
			var bad []string
			n := 0
			for a := range ea.ret[fn][ei] {
				b := baseAtom(a)
				if !strings.HasPrefix(b, "G:") {
					continue
				}
				n++
				if !ea.closure(b)[base] {
					bad = append(bad, shortAtom(a))
				}
			}
			sort.Strings(bad)
			if len(bad) > 0 {
				ob.Status, ob.Msg = Violated, fmt.Sprintf("%s can fail with %v, which does not classify as %s: Recover/Check treat it as a hard error instead of damage", funcLabel(fn), bad, shortAtom(base))
			} else if n == 0 {
				ob.Status, ob.Msg = Undecided, "no module sentinel reaches the error result of "+funcLabel(fn)+" (decoder not recognised)"
			} else {
				ob.Status, ob.Msg = Discharged, fmt.Sprintf("all %d module sentinels it can return wrap %s", n, shortAtom(base))
			}
			obs = append(obs, ob)
		}
	}
	checkDecoderFailures("record", p.R.RecDecoders, []string{"C07", "C14"})
	if f := p.pkgFunc(pkgIndex, "Read"); f != nil {
		checkDecoderFailures("index", []*ssa.Function{f}, []string{"C07", "C11"})
	}

	// (b) closure: nothing outside the public taxonomy escapes from a Log method
	public := map[string]bool{}
	for _, r := range spec.PublicRoots {
		public["G:"+r] = true
	}
	for _, name := range sortedKeys(p.R.ImplMethods) {
		fn := p.R.ImplMethods[name]
		ei := errResultIndex(fn)
		if ei < 0 {
			continue
		}
		props := []string{"C04"}
		if mp, ok := methodProps[name]; ok {
			props = append([]string{}, mp...)
			if name != "Get" {
				props = append(props, "C04")
			}
		}
		ob := Ob{Rule: "R7", Inst: "b:closure:Log." + name, Props: props, Pos: p.posStr(fn.Pos()), Func: funcLabel(fn), Nontrivial: true}
		var bad []string
		n := 0
		for a := range ea.ret[fn][ei] {
			b := baseAtom(a)
			if !strings.HasPrefix(b, "G:") {
				continue
			}
			n++
			ok := false
			for c := range ea.closure(b) {
				if public[c] {
					ok = true
				}
			}
			if !ok {
				bad = append(bad, shortAtom(a))
			}
		}
		sort.Strings(bad)
		if len(bad) > 0 {
			ob.Status, ob.Msg = Violated, fmt.Sprintf("internal sentinel(s) %v can escape from Log.%s; they classify under none of the documented errors", bad, name)
		} else {
			ob.Status, ob.Msg = Discharged, fmt.Sprintf("%d module sentinels can reach the error result, all classify under the documented taxonomy", n)
		}
		obs = append(obs, ob)
	}

	// (c) guards
	obs = append(obs, p.guardObligations(ea)...)
	return obs
}

// rejectsUnder decides: under the assumption, does fn always fail with an
// error matching sentinel, before any effect?  allowed: callees already known
// to reject (their nil-error edge is pruned).
func (p *Prog) rejectsUnder(ea *ErrAtoms, fn *ssa.Function, assume Assume, sentinel string, rejecting map[*ssa.Function]bool) (bool, string) {
	ei := errResultIndex(fn)
	if ei < 0 {
		return false, "no error result"
	}
	// error values produced by calls to rejecting callees
	rejErr := map[ssa.Value]bool{}
	for _, b := range fn.Blocks {
		for _, ins := range b.Instrs {
			c, ok := ins.(*ssa.Call)
			if !ok {
				continue
			}
			cs := p.callees(c)
			all := len(cs) > 0
			for _, g := range cs {
				if !rejecting[g] {
					all = false
				}
			}
			if all {
				if ev := errResultOfCall(c); ev != nil {
					rejErr[ev] = true
				}
			}
		}
	}
	succs := func(b *ssa.BasicBlock) []*ssa.BasicBlock {
		ss := p.prunedSuccs(b, assume)
		if len(ss) < 2 {
			return ss
		}
		if iff, ok := terminator(b).(*ssa.If); ok {
			for ev := range rejErr {
				if t, ok := classifyErrCond(iff.Cond, ev); ok && t.kind == "nil" {
					if t.trueMeans { // cond true means err == nil: infeasible
						return b.Succs[1:2]
					}
					return b.Succs[:1]
				}
			}
		}
		return ss
	}
	reach := reachableBlocks(fn, succs)
	for _, b := range fn.Blocks {
		if !reach[b] {
			continue
		}
		for _, ins := range b.Instrs {
			switch x := ins.(type) {
			case ssa.CallInstruction:
				if _, isB := x.Common().Value.(*ssa.Builtin); isB {
					continue
				}
				nm := calleeName(x.Common())
				if nm == "fmt.Errorf" || nm == "errors.New" {
					continue
				}
				cs := p.callees(x)
				ok := len(cs) > 0
				for _, g := range cs {
					if !rejecting[g] {
						ok = false
					}
				}
				if !ok {
					return false, fmt.Sprintf("under [%s] a call at %s is reachable before the rejection", assume, p.at(ins))
				}
			case *ssa.Return:
				v := returnOperand(x, ei)
				if rejErr[v] {
					continue
				}
				at := ea.atomsAt(v, b)
				if len(at) == 0 {
					return false, fmt.Sprintf("under [%s] the return at %s has no known error", assume, p.at(ins))
				}
				for a := range at {
					if a == "opaque" || !ea.matchesIs(a, sentinel) {
						return false, fmt.Sprintf("under [%s] the return at %s can yield %s, which does not match %s", assume, p.at(ins), shortAtom(a), shortAtom(sentinel))
					}
				}
			case *ssa.Store, *ssa.MapUpdate, *ssa.Send, *ssa.Go, *ssa.Defer:
				if st, ok := x.(*ssa.Store); ok {
					if _, isAlloc := rootValue(st.Addr).(*ssa.Alloc); isAlloc {
						continue
					}
				}
				return false, fmt.Sprintf("under [%s] an effect at %s is reachable before the rejection", assume, p.at(ins))
			}
		}
	}
	return true, ""
}

func (p *Prog) guardObligations(ea *ErrAtoms) []Ob {
	var obs []Ob
	type guard struct {
		opt      string
		val      bool
		methods  []string
		sentinel string
		props    []string
	}
	guards := []guard{
		{"Readonly", true, []string{"Publish", "Delete"}, "G:" + pkgRoot + ".ErrReadonly", []string{"C19"}},
		{"KeyIndex", false, []string{"GetByKey", "ConsumeByKey", "OffsetByKey"}, "G:" + pkgRoot + ".ErrNoIndex", []string{"C09"}},
		{"TimeIndex", false, []string{"GetByTime", "OffsetByTime"}, "G:" + pkgRoot + ".ErrNoIndex", []string{"C10"}},
	}
	for _, g := range guards {
		assume := Assume{g.opt: g.val}
		rejecting := map[*ssa.Function]bool{}
		why := map[string]string{}
		for round := 0; round < 3; round++ {
			for _, m := range g.methods {
				fn := p.R.ImplMethods[m]
				if fn == nil || rejecting[fn] {
					continue
				}
				ok, reason := p.rejectsUnder(ea, fn, assume, g.sentinel, rejecting)
				if ok {
					rejecting[fn] = true
				} else {
					why[m] = reason
				}
			}
		}
		stored := p.optionsStored(g.opt)
		for _, m := range g.methods {
			fn := p.R.ImplMethods[m]
			ob := Ob{Rule: "R7", Inst: fmt.Sprintf("c:guard:%s=%v:Log.%s", g.opt, g.val, m), Props: g.props, Func: funcLabel(fn), Nontrivial: true}
			switch {
			case fn == nil:
				ob.Pos, ob.Status, ob.Msg = "-", Undecided, "method not found"
			case len(stored) > 0:
				ob.Pos, ob.Status, ob.Msg = p.posStr(fn.Pos()), Undecided, "Options."+g.opt+" is assigned inside the module; option pruning is not sound"
			case rejecting[fn]:
				ob.Pos, ob.Status = p.posStr(fn.Pos()), Discharged
				ob.Msg = fmt.Sprintf("with Options.%s=%v every path fails with %s before any call or store", g.opt, g.val, shortAtom(g.sentinel))
			default:
				ob.Pos, ob.Status = p.posStr(fn.Pos()), Violated
				ob.Msg = fmt.Sprintf("with Options.%s=%v Log.%s does not reject with %s before any effect: %s", g.opt, g.val, m, shortAtom(g.sentinel), why[m])
			}
			obs = append(obs, ob)
		}
	}
	obs = append(obs, p.deleteGuards(ea)...)
	return obs
}

// deleteGuards: relative offsets are rejected before any rewrite; the empty set
// is a no-op before any lock.
func (p *Prog) deleteGuards(ea *ErrAtoms) []Ob {
	var obs []Ob
	del := p.R.ImplMethods["Delete"]
	invalid := "G:" + pkgMessage + ".ErrInvalidOffset"
	minOffset := p.pkgFunc(pkgMessage, "MinOffset")
	isRewrite := func(f *ssa.Function) bool {
		if f.Signature.Recv() == nil || namedOf(f.Signature.Recv().Type()) != p.R.Segment {
			return false
		}
		res := f.Signature.Results()
		return res.Len() > 0 && namedOf(res.At(0).Type()) == p.R.RewriteSegment && p.reaches(f, isFunc(pkgMessage+".OpenWriter"))
	}

	// guard functions: contain `MinOffset(param) < 0` whose true edge only fails with ErrInvalidOffset
	// and whose false edge dominates every success return.
	guardFn := map[*ssa.Function]int{} // fn -> index of the map parameter guarded
	for _, fn := range p.Funcs {
		if !srcFunc(fn) || minOffset == nil {
			continue
		}
		for _, b := range fn.Blocks {
			iff, ok := terminator(b).(*ssa.If)
			if !ok {
				continue
			}
			bo, ok := iff.Cond.(*ssa.BinOp)
			if !ok || bo.Op != token.LSS {
				continue
			}
			k, isK := constInt(bo.Y)
			call, isCall := bo.X.(*ssa.Call)
			if !isK || k != 0 || !isCall || call.Common().StaticCallee() != minOffset {
				continue
			}
			pi := -1
			for i, pr := range fn.Params {
				if canon(call.Call.Args[0]) == pr {
					pi = i
				}
			}
			if pi < 0 {
				continue
			}
			// true edge: only failure returns matching ErrInvalidOffset
			okTrue := true
			tr := reachableFrom(b.Succs[0])
			for bb := range tr {
				if bb == b {
					okTrue = false
				}
				if rt, ok := terminator(bb).(*ssa.Return); ok && bb != fn.Recover {
					ei := errResultIndex(fn)
					if ei < 0 {
						okTrue = false
						continue
					}
					for a := range ea.atomsAt(returnOperand(rt, ei), bb) {
						if !ea.matchesIs(a, invalid) || a == "opaque" {
							okTrue = false
						}
					}
				}
			}
			okFalse := true
			for _, rt := range returnsOf(fn) {
				if !ea.isFailureReturn(fn, rt) && !edgeDominates(b, 1, rt.Block()) {
					okFalse = false
				}
			}
			if okTrue && okFalse {
				guardFn[fn] = pi
			}
		}
	}
	// every call reaching a rewrite, in a function reachable from Delete, is preceded
	// (dominance, success edge) by a call to a guard function on the same map, or
	// the function itself is only reached after such a call.
	n := 0
	if del != nil {
		var visit func(fn *ssa.Function, guarded bool, seen map[*ssa.Function]bool)
		visit = func(fn *ssa.Function, guarded bool, seen map[*ssa.Function]bool) {
			if seen[fn] || !inModule(fn) || fn.Blocks == nil {
				return
			}
			seen[fn] = true
			// guard calls in this function
			var gcalls []*ssa.Call
			for _, b := range fn.Blocks {
				for _, ins := range b.Instrs {
					if c, ok := ins.(*ssa.Call); ok {
						for _, g := range p.callees(c) {
							if pi, ok := guardFn[g]; ok && pi < len(c.Call.Args) {
								if _, isParam := canon(c.Call.Args[pi]).(*ssa.Parameter); isParam {
									gcalls = append(gcalls, c)
								}
							}
						}
					}
				}
			}
			isGuarded := func(at ssa.Instruction) bool {
				if guarded {
					return true
				}
				for _, gc := range gcalls {
					if instrDominates(gc, at) && p.failureEdgeLeaves(ea, gc, at) {
						return true
					}
				}
				return false
			}
			for _, b := range fn.Blocks {
				for _, ins := range b.Instrs {
					c, ok := ins.(*ssa.Call)
					if !ok {
						continue
					}
					for _, g := range p.callees(c) {
						if isRewrite(g) && !isRewrite(fn) {
							n++
							ob := Ob{Rule: "R7", Inst: fmt.Sprintf("c:guard:relative-offsets:%s", funcLabel(fn)), Props: []string{"C12"}, Pos: p.at(ins), Func: funcLabel(fn), Nontrivial: true}
							if isGuarded(ins) {
								ob.Status, ob.Msg = Discharged, "the rewrite is only reached after MinOffset(offsets) < 0 was rejected with ErrInvalidOffset"
							} else {
								ob.Status, ob.Msg = Violated, "a segment rewrite is reachable from Log.Delete without rejecting relative (negative) offsets with ErrInvalidOffset first"
							}
							obs = append(obs, ob)
						} else if inModule(g) && g != fn && p.reaches(g, isRewrite) && !isRewrite(g) {
							visit(g, isGuarded(ins), seen)
						}
					}
				}
			}
		}
		visit(del, false, map[*ssa.Function]bool{})
	}
	if n == 0 {
		obs = append(obs, Ob{Rule: "R7", Inst: "c:guard:relative-offsets", Props: []string{"C12"}, Pos: "-", Status: Undecided, Msg: "no call reaching a segment rewrite found under Log.Delete"})
	}
	obs = dedupObs(obs)

	// empty set: no-op before any lock
	ob := Ob{Rule: "R7", Inst: "c:guard:empty-set:Log.Delete", Props: []string{"C12"}, Nontrivial: true}
	if del == nil {
		ob.Pos, ob.Status, ob.Msg = "-", Undecided, "Log.Delete not found"
		return append(obs, ob)
	}
	ob.Pos, ob.Func = p.posStr(del.Pos()), funcLabel(del)
	var guardBlock *ssa.BasicBlock
	guardEdge := 1
	for _, b := range del.Blocks {
		iff, ok := terminator(b).(*ssa.If)
		if !ok {
			continue
		}
		lv, emptyE, ok := lenZeroEdge(iff.Cond)
		if !ok {
			continue
		}
		if _, isParam := canon(lv).(*ssa.Parameter); !isParam {
			continue
		}
		if _, isMap := lv.Type().Underlying().(*types.Map); !isMap {
			continue
		}
		// true edge returns success (nil error) directly
		if rt, ok := terminator(b.Succs[emptyE]).(*ssa.Return); ok && !ea.isFailureReturn(del, rt) && pureBlock(b.Succs[emptyE]) {
			guardBlock, guardEdge = b, 1-emptyE
		}
	}
	if guardBlock == nil {
		ob.Status, ob.Msg = Violated, "Log.Delete has no `len(offsets) == 0` early success return: an empty set is not a no-op (it would be classified as a relative offset)"
		return append(obs, ob)
	}
	bad := ""
	for _, b := range del.Blocks {
		for _, ins := range b.Instrs {
			c, ok := ins.(ssa.CallInstruction)
			if !ok {
				continue
			}
			if _, isB := c.Common().Value.(*ssa.Builtin); isB {
				continue
			}
			nm := calleeName(c.Common())
			if nm == "fmt.Errorf" || nm == "errors.New" {
				continue
			}
			if !edgeDominates(guardBlock, guardEdge, b) && !(b == guardBlock) {
				// calls before the guard are fine only if they cannot have effects: none expected
				if b.Dominates(guardBlock) {
					bad = p.at(ins)
				}
			}
		}
	}
	if bad != "" {
		ob.Status, ob.Msg = Violated, "a call at "+bad+" runs before the empty-set test in Log.Delete"
	} else {
		ob.Status, ob.Msg = Discharged, "len(offsets) == 0 returns success before any call or lock"
	}
	return append(obs, ob)
}

func reachableFrom(b *ssa.BasicBlock) map[*ssa.BasicBlock]bool {
	seen := map[*ssa.BasicBlock]bool{b: true}
	work := []*ssa.BasicBlock{b}
	for len(work) > 0 {
		x := work[len(work)-1]
		work = work[:len(work)-1]
		for _, s := range x.Succs {
			if !seen[s] {
				seen[s] = true
				work = append(work, s)
			}
		}
	}
	return seen
}
