package main

import (
	"go/token"
	"go/types"
	"sort"
	"strings"

	"golang.org/x/tools/go/ssa"
)

// Analysis E: error-atom flow.
//
// Atoms:
//   nil                 the nil error
//   G:<pkgpath>.<Name>  load of a module package-level error variable
//   X:<pkgpath>.<Name>  load of a non-module package-level error variable (io.EOF, os.ErrNotExist)
//   fresh               a new error without %w (fmt.Errorf / errors.New at the site)
//   W(<atom>)           fmt.Errorf with %w (or errors.Join) applied to <atom>; nesting is flattened
//   concrete:<T>        a concrete value converted to error
//   opaque              anything else (results of non-module code, parameters, fields)

type atomset map[string]bool

func (a atomset) addAll(b atomset) bool {
	ch := false
	for k := range b {
		if !a[k] {
			a[k] = true
			ch = true
		}
	}
	return ch
}

func (a atomset) clone() atomset {
	o := atomset{}
	for k := range a {
		o[k] = true
	}
	return o
}

func (a atomset) String() string {
	ks := make([]string, 0, len(a))
	for k := range a {
		ks = append(ks, k)
	}
	sort.Strings(ks)
	return "{" + strings.Join(ks, ", ") + "}"
}

func wrapAtom(a string) string {
	if a == "nil" {
		return ""
	}
	if strings.HasPrefix(a, "W(") {
		return a
	}
	return "W(" + a + ")"
}

func baseAtom(a string) string {
	if strings.HasPrefix(a, "W(") && strings.HasSuffix(a, ")") {
		return a[2 : len(a)-1]
	}
	return a
}

type ErrAtoms struct {
	p      *Prog
	ret    map[*ssa.Function][]atomset
	memo   map[ssa.Value]atomset
	Rounds int
	// wraps[G] = atoms the initialiser of module global G wraps (empty for roots)
	wraps map[string]atomset
	// globals: all module error globals (atom name -> *ssa.Global)
	globals map[string]*ssa.Global
}

func globalAtom(g *ssa.Global) string {
	pre := "X:"
	if inModulePkg(g.Pkg) {
		pre = "G:"
	}
	return pre + g.Pkg.Pkg.Path() + "." + g.Name()
}

func shortAtom(a string) string {
	a = strings.ReplaceAll(a, modPath+"/pkg/", "")
	a = strings.ReplaceAll(a, modPath+".", "klevdb.")
	return a
}

func (p *Prog) errAtoms() *ErrAtoms {
	e := &ErrAtoms{p: p, ret: map[*ssa.Function][]atomset{}, wraps: map[string]atomset{}, globals: map[string]*ssa.Global{}}
	for iter := 0; iter < 40; iter++ {
		e.memo = map[ssa.Value]atomset{}
		changed := false
		for _, fn := range p.Funcs {
			res := fn.Signature.Results()
			if e.ret[fn] == nil {
				e.ret[fn] = make([]atomset, res.Len())
			}
			for _, rt := range returnsOf(fn) {
				for i := range rt.Results {
					if !isErrType(res.At(i).Type()) {
						continue
					}
					if e.ret[fn][i] == nil {
						e.ret[fn][i] = atomset{}
					}
					v := returnOperand(rt, i)
					if e.ret[fn][i].addAll(e.atomsAt(v, rt.Block())) {
						changed = true
					}
				}
			}
		}
		e.Rounds = iter + 1
		if !changed {
			break
		}
	}
	e.memo = map[ssa.Value]atomset{}
	// initialisers of module error globals
	for _, pk := range p.SSA.AllPackages() {
		if !inModulePkg(pk) {
			continue
		}
		for _, m := range pk.Members {
			g, ok := m.(*ssa.Global)
			if !ok {
				continue
			}
			if !isErrGlobal(g) {
				continue
			}
			e.globals[globalAtom(g)] = g
		}
		init := pk.Func("init")
		if init == nil {
			continue
		}
		for _, b := range init.Blocks {
			for _, ins := range b.Instrs {
				st, ok := ins.(*ssa.Store)
				if !ok {
					continue
				}
				g, ok := st.Addr.(*ssa.Global)
				if !ok || !isErrGlobal(g) {
					continue
				}
				name := globalAtom(g)
				if e.wraps[name] == nil {
					e.wraps[name] = atomset{}
				}
				for a := range e.atoms(st.Val, 0) {
					if strings.HasPrefix(a, "W(") {
						e.wraps[name][baseAtom(a)] = true
					} else if strings.HasPrefix(a, "G:") || strings.HasPrefix(a, "X:") {
						// alias: var ErrX = other.ErrX
						e.wraps[name]["="+a] = true
					}
				}
			}
		}
	}
	return e
}

func isErrGlobal(g *ssa.Global) bool {
	pt, ok := g.Type().(*types.Pointer)
	return ok && isErrType(pt.Elem())
}

// closure returns the set of global atoms that errors.Is(g, ·) matches for a value that is exactly g.
func (e *ErrAtoms) closure(g string) atomset {
	out := atomset{}
	var walk func(a string)
	walk = func(a string) {
		a = strings.TrimPrefix(a, "=")
		if out[a] {
			return
		}
		out[a] = true
		for w := range e.wraps[a] {
			walk(w)
		}
	}
	walk(g)
	return out
}

// matchesIs: can errors.Is(<value with atom a>, target) be true?
func (e *ErrAtoms) matchesIs(a, target string) bool {
	switch a {
	case "nil", "fresh":
		return false
	case "opaque":
		return true
	}
	if strings.HasPrefix(a, "W(opaque") || strings.HasPrefix(a, "concrete:") {
		return true
	}
	return e.closure(baseAtom(a))[target]
}

func (e *ErrAtoms) atoms(v ssa.Value, depth int) atomset {
	if v == nil || depth > 16 {
		return atomset{"opaque": true}
	}
	if m, ok := e.memo[v]; ok {
		return m
	}
	out := atomset{}
	e.memo[v] = out // cycle breaker; filled in place
	switch x := v.(type) {
	case *ssa.Const:
		if x.Value == nil {
			out["nil"] = true
		} else {
			out["opaque"] = true
		}
	case *ssa.UnOp:
		if x.Op != token.MUL {
			out["opaque"] = true
			break
		}
		switch src := x.X.(type) {
		case *ssa.Global:
			out[globalAtom(src)] = true
		case *ssa.Alloc:
			sts := allocStores(src)
			if len(sts) == 0 {
				out["nil"] = true // zero value
			}
			for _, st := range sts {
				out.addAll(e.atomsAt(st.Val, st.Block()))
			}
		default:
			out["opaque"] = true
		}
	case *ssa.Phi:
		for i, ed := range x.Edges {
			out.addAll(e.atomsAt(ed, x.Block().Preds[i]))
		}
	case *ssa.MakeInterface:
		out["concrete:"+x.X.Type().String()] = true
	case *ssa.ChangeInterface:
		out.addAll(e.atoms(x.X, depth+1))
	case *ssa.TypeAssert:
		out.addAll(e.atoms(x.X, depth+1))
	case *ssa.Extract:
		if call, ok := x.Tuple.(*ssa.Call); ok {
			out.addAll(e.callAtoms(call, x.Index, depth))
		} else {
			out["opaque"] = true
		}
	case *ssa.Call:
		out.addAll(e.callAtoms(x, 0, depth))
	default:
		out["opaque"] = true
	}
	return out
}

func (e *ErrAtoms) callAtoms(call *ssa.Call, idx int, depth int) atomset {
	out := atomset{}
	cs := e.p.callees(call)
	if len(cs) == 0 {
		out["opaque"] = true
		return out
	}
	for _, f := range cs {
		full := f.String()
		switch {
		case full == "fmt.Errorf":
			format, ok := constString(call.Call.Args[0])
			if !ok {
				out["W(opaque)"] = true
				out["fresh"] = true
				continue
			}
			ws := wrapVerbArgs(format)
			if len(ws) == 0 {
				out["fresh"] = true
				continue
			}
			var args []ssa.Value
			if len(call.Call.Args) > 1 {
				args = variadicArgs(call.Call.Args[1])
			}
			for _, wi := range ws {
				if wi >= len(args) || args[wi] == nil {
					out["W(opaque)"] = true
					continue
				}
				arg := args[wi]
				for {
					if ci, ok := arg.(*ssa.ChangeInterface); ok {
						arg = ci.X
						continue
					}
					if mi, ok := arg.(*ssa.MakeInterface); ok && isErrType(mi.X.Type()) {
						arg = mi.X
						continue
					}
					break
				}
				for a := range e.atomsAt(arg, call.Block()) {
					if w := wrapAtom(a); w != "" {
						out[w] = true
					}
				}
			}
		case full == "errors.New":
			out["fresh"] = true
		case full == "errors.Join":
			for _, arg := range variadicArgs(call.Call.Args[0]) {
				for a := range e.atomsAt(arg, call.Block()) {
					if w := wrapAtom(a); w != "" {
						out[w] = true
					}
				}
			}
		case inModule(f) && f.Blocks != nil:
			r := e.ret[f]
			if idx < len(r) && r[idx] != nil {
				out.addAll(r[idx])
			}
		default:
			out["opaque"] = true
		}
	}
	return out
}

// sentinelOperand: if v is a load of a package-level error variable, its atom.
func sentinelOperand(v ssa.Value) string {
	u, ok := v.(*ssa.UnOp)
	if !ok || u.Op != token.MUL {
		return ""
	}
	g, ok := u.X.(*ssa.Global)
	if !ok {
		return ""
	}
	return globalAtom(g)
}

// errTest describes a condition that tests error value v.
type errTest struct {
	kind   string // "nil", "eq" (identity with sentinel), "is" (errors.Is)
	target string // sentinel atom for eq / is
	// trueMeans: the condition being true means the test holds (v == nil, v == S, errors.Is(v,S))
	trueMeans bool
	// noUnwrap: the test does not look through fmt.Errorf("%w") wrapping (os.IsNotExist and friends)
	noUnwrap bool
}

// classifyErrCond decides whether cond is a test on the error value v.
func classifyErrCond(cond ssa.Value, v ssa.Value) (errTest, bool) {
	pos := true
	for {
		u, ok := cond.(*ssa.UnOp)
		if ok && u.Op == token.NOT {
			pos = !pos
			cond = u.X
			continue
		}
		break
	}
	same := func(a ssa.Value) bool {
		return a == v || stripLoadAlias(a) == stripLoadAlias(v)
	}
	switch c := cond.(type) {
	case *ssa.BinOp:
		if c.Op != token.EQL && c.Op != token.NEQ {
			return errTest{}, false
		}
		var other ssa.Value
		switch {
		case same(c.X):
			other = c.Y
		case same(c.Y):
			other = c.X
		default:
			return errTest{}, false
		}
		truth := pos == (c.Op == token.EQL)
		if isNilConst(other) {
			return errTest{kind: "nil", trueMeans: truth}, true
		}
		if s := sentinelOperand(other); s != "" {
			return errTest{kind: "eq", target: s, trueMeans: truth}, true
		}
	case *ssa.Call:
		switch calleeName(c.Common()) {
		case "errors.Is":
			if len(c.Call.Args) == 2 && same(c.Call.Args[0]) {
				if s := sentinelOperand(c.Call.Args[1]); s != "" {
					return errTest{kind: "is", target: s, trueMeans: pos}, true
				}
			}
		case "os.IsNotExist":
			if len(c.Call.Args) == 1 && same(c.Call.Args[0]) {
				return errTest{kind: "is", target: "X:io/fs.ErrNotExist", trueMeans: pos, noUnwrap: true}, true
			}
		}
	}
	return errTest{}, false
}

// stripLoadAlias canonicalises a load from a single-store local alloc to the stored value.
func stripLoadAlias(v ssa.Value) ssa.Value {
	if u, ok := v.(*ssa.UnOp); ok && u.Op == token.MUL {
		if al, ok := u.X.(*ssa.Alloc); ok {
			if sts := allocStores(al); len(sts) == 1 {
				return sts[0].Val
			}
		}
	}
	return v
}

// atomsAt: atoms of v refined by the tests on v that dominate block b.
func (e *ErrAtoms) atomsAt(v ssa.Value, b *ssa.BasicBlock) atomset {
	base := e.atoms(v, 0)
	if b == nil || v.Parent() == nil || b.Parent() != v.Parent() {
		return base
	}
	out := base
	cloned := false
	for d := b.Idom(); d != nil; d = d.Idom() {
		iff, ok := terminator(d).(*ssa.If)
		if !ok {
			continue
		}
		t, ok := classifyErrCond(iff.Cond, v)
		if !ok {
			continue
		}
		var holds, known bool
		if edgeDominates(d, 0, b) {
			holds, known = t.trueMeans, true
		} else if edgeDominates(d, 1, b) {
			holds, known = !t.trueMeans, true
		}
		if !known {
			continue
		}
		if !cloned {
			out = base.clone()
			cloned = true
		}
		for a := range out {
			keep := true
			switch t.kind {
			case "nil":
				if holds {
					keep = a == "nil" || a == "opaque"
				} else {
					keep = a != "nil"
				}
			case "eq":
				if holds {
					keep = a == t.target || a == "opaque"
				} else {
					keep = a != t.target
				}
			case "is":
				if holds {
					keep = e.matchesIs(a, t.target)
				} else {
					keep = a == "opaque" || strings.HasPrefix(a, "W(opaque") || strings.HasPrefix(a, "concrete:") || !e.matchesIs(a, t.target)
				}
			}
			if !keep {
				delete(out, a)
			}
		}
	}
	return out
}

// isFailureReturn: a return is a failure return iff its error operand cannot be nil.
func (e *ErrAtoms) isFailureReturn(fn *ssa.Function, rt *ssa.Return) bool {
	ei := errResultIndex(fn)
	if ei < 0 || ei >= len(rt.Results) {
		return false
	}
	v := returnOperand(rt, ei)
	at := e.atomsAt(v, rt.Block())
	return !at["nil"] && !at["opaque"] || (!at["nil"] && at["opaque"] && e.dominatedByNonNil(v, rt.Block()))
}

func (e *ErrAtoms) dominatedByNonNil(v ssa.Value, b *ssa.BasicBlock) bool {
	for d := b.Idom(); d != nil; d = d.Idom() {
		iff, ok := terminator(d).(*ssa.If)
		if !ok {
			continue
		}
		t, ok := classifyErrCond(iff.Cond, v)
		if !ok || t.kind != "nil" {
			continue
		}
		if edgeDominates(d, 0, b) && !t.trueMeans {
			return true
		}
		if edgeDominates(d, 1, b) && t.trueMeans {
			return true
		}
	}
	return false
}
