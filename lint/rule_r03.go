package main

import (
	"fmt"
	"go/token"
	"go/types"
	"sort"
	"strings"

	"golang.org/x/tools/go/ssa"
)

// R3 LOCKSET — every shared mutable field has a common guard (C08)
// R4 LOCK-ORDER — acquisition graph acyclic, no re-acquisition (C08)

// external interface methods whose effect on the receiver object the lockset needs.
// Anything not listed is ignored (and listed in the evidence as unmodelled): this
// can hide a race, it cannot invent one.
var externalEffects = map[string]string{
	"github.com/plar/go-adaptive-radix-tree/v2.Tree.Insert":        "write",
	"github.com/plar/go-adaptive-radix-tree/v2.Tree.Delete":        "write",
	"github.com/plar/go-adaptive-radix-tree/v2.Tree.Search":        "read",
	"github.com/plar/go-adaptive-radix-tree/v2.Tree.ForEach":       "read",
	"github.com/plar/go-adaptive-radix-tree/v2.Tree.ForEachPrefix": "read",
	"github.com/plar/go-adaptive-radix-tree/v2.Tree.Iterator":      "read",
	"github.com/plar/go-adaptive-radix-tree/v2.Tree.Minimum":       "read",
	"github.com/plar/go-adaptive-radix-tree/v2.Tree.Maximum":       "read",
	"github.com/plar/go-adaptive-radix-tree/v2.Tree.Size":          "read",
}

func (p *Prog) sharedStructField(f *types.Var) bool {
	return f != nil && f.Pkg() != nil && f.Pkg().Path() == pkgRoot
}

func skipLockFieldType(t types.Type) bool {
	n := namedOf(t)
	if n == nil || n.Obj().Pkg() == nil {
		return false
	}
	switch n.Obj().Pkg().Path() {
	case "sync", "sync/atomic":
		return true
	}
	return false
}

// trackedPointee: types outside the root package whose mutable state hangs off
// a shared field and is protected by the owner's lock.
func (p *Prog) trackedPointee(t types.Type) *types.Named {
	n := namedOf(t)
	if n == nil {
		return nil
	}
	if n == p.R.MsgWriter || n == p.R.IdxWriter {
		return n
	}
	return nil
}

func (a *Lockset) computeEffects() {
	p := a.p
	a.fieldFx = map[*ssa.Function]map[*types.Var]bool{}
	a.paramExt = map[*ssa.Function]map[int]bool{}
	paramIndex := func(fn *ssa.Function, v ssa.Value) int {
		v = canon(v)
		for i, pr := range fn.Params {
			if pr == v {
				return i
			}
		}
		return -1
	}
	// direct effects
	for _, fn := range p.Funcs {
		fx := map[*types.Var]bool{}
		px := map[int]bool{}
		for _, b := range fn.Blocks {
			for _, ins := range b.Instrs {
				switch x := ins.(type) {
				case *ssa.Store:
					if fa, ok := x.Addr.(*ssa.FieldAddr); ok && p.trackedPointee(fa.X.Type()) != nil && !underConstruction(fa) {
						fx[fieldVarOfAddr(fa)] = true
					}
					if ia, ok := x.Addr.(*ssa.IndexAddr); ok {
						if f, base := loadedField(ia.X); f != nil && p.trackedPointee(base.Type()) != nil && !underConstruction(base) {
							fx[f] = true
						}
					}
				case *ssa.UnOp:
					if fa, ok := x.X.(*ssa.FieldAddr); ok && x.Op == token.MUL && p.trackedPointee(fa.X.Type()) != nil && !underConstruction(fa) {
						f := fieldVarOfAddr(fa)
						if _, has := fx[f]; !has {
							fx[f] = false
						}
					}
				case ssa.CallInstruction:
					c := x.Common()
					if c.IsInvoke() {
						key := ifaceMethodKey(c)
						if eff, ok := externalEffects[key]; ok {
							if i := paramIndex(fn, c.Value); i >= 0 {
								px[i] = px[i] || eff == "write"
							}
						}
					}
				}
			}
		}
		a.fieldFx[fn] = fx
		a.paramExt[fn] = px
	}
	// transitive closure
	for iter := 0; iter < 30; iter++ {
		changed := false
		for _, fn := range p.Funcs {
			for _, b := range fn.Blocks {
				for _, ins := range b.Instrs {
					call, ok := ins.(ssa.CallInstruction)
					if !ok {
						continue
					}
					for _, g := range p.callees(call) {
						if !inModule(g) || g.Blocks == nil {
							continue
						}
						for f, w := range a.fieldFx[g] {
							if old, has := a.fieldFx[fn][f]; !has || (w && !old) {
								a.fieldFx[fn][f] = w
								changed = true
							}
						}
						args := call.Common().Args
						for i, w := range a.paramExt[g] {
							if i < len(args) {
								if j := paramIndex(fn, args[i]); j >= 0 {
									if old, has := a.paramExt[fn][j]; !has || (w && !old) {
										a.paramExt[fn][j] = w
										changed = true
									}
								}
							}
						}
					}
				}
			}
		}
		if !changed {
			break
		}
	}
}

func ifaceMethodKey(c *ssa.CallCommon) string {
	n := namedOf(c.Value.Type())
	if n == nil || n.Obj().Pkg() == nil || c.Method == nil {
		return ""
	}
	return n.Obj().Pkg().Path() + "." + n.Obj().Name() + "." + c.Method.Name()
}

func (a *Lockset) collectAccesses() {
	p := a.p
	a.computeEffects()
	add := func(loc string, write bool, ins ssa.Instruction, note string) {
		ls, ok := a.at[ins]
		if !ok {
			return
		}
		a.access = append(a.access, lsAccess{loc: loc, write: write, fn: ins.Parent(), ins: ins, ls: ls, note: note})
	}
	direct := func(fa *ssa.FieldAddr, write bool, ins ssa.Instruction) {
		f := fieldVarOfAddr(fa)
		if !p.sharedStructField(f) || skipLockFieldType(f.Type()) || underConstruction(fa) {
			return
		}
		add(p.fieldLabel(f), write, ins, "")
	}
	for _, fn := range p.Funcs {
		if _, ok := a.entry[fn]; !ok {
			continue
		}
		for _, b := range fn.Blocks {
			for _, ins := range b.Instrs {
				switch x := ins.(type) {
				case *ssa.Store:
					switch ad := x.Addr.(type) {
					case *ssa.FieldAddr:
						direct(ad, true, ins)
					case *ssa.IndexAddr:
						if u, ok := ad.X.(*ssa.UnOp); ok && u.Op == token.MUL {
							if fa, ok := u.X.(*ssa.FieldAddr); ok {
								direct(fa, true, ins)
							}
						}
					}
				case *ssa.MapUpdate:
					if u, ok := x.Map.(*ssa.UnOp); ok && u.Op == token.MUL {
						if fa, ok := u.X.(*ssa.FieldAddr); ok {
							direct(fa, true, ins)
						}
					}
				case *ssa.Slice:
					// slicing an array that lives in a shared object hands out a writable alias of it
					if fa, ok := x.X.(*ssa.FieldAddr); ok {
						if _, isArr := derefPtr(fa.Type()).Underlying().(*types.Array); isArr {
							direct(fa, true, ins)
						}
					}
				case *ssa.UnOp:
					if fa, ok := x.X.(*ssa.FieldAddr); ok && x.Op == token.MUL {
						direct(fa, false, ins)
					}
				case ssa.CallInstruction:
					c := x.Common()
					if c.IsInvoke() {
						// direct invoke on an external interface object loaded from a shared field
						if f, base := loadedField(c.Value); f != nil && p.sharedStructField(f) && !underConstruction(base) {
							key := ifaceMethodKey(c)
							if eff, ok := externalEffects[key]; ok {
								add(p.fieldLabel(f)+"→*", eff == "write", ins, key)
							} else if n := namedOf(c.Value.Type()); n != nil && n.Obj().Pkg() != nil && !inModulePath(n.Obj().Pkg().Path()) {
								a.Unmodelled[key] = true
							}
						}
						continue
					}
					for _, g := range p.callees(x) {
						if !inModule(g) || g.Blocks == nil {
							continue
						}
						for i, arg := range c.Args {
							f, base := loadedField(arg)
							if f == nil || !p.sharedStructField(f) || underConstruction(base) {
								continue
							}
							if t := p.trackedPointee(arg.Type()); t != nil {
								for tf, w := range a.fieldFx[g] {
									if namedOfField(p, tf) == t {
										add(p.fieldLabel(f)+"→"+tf.Name(), w, ins, "via "+funcLabel(g))
									}
								}
							}
							if w, ok := a.paramExt[g][i]; ok {
								add(p.fieldLabel(f)+"→*", w, ins, "via "+funcLabel(g))
							}
						}
					}
				}
			}
		}
	}
}

func namedOfField(p *Prog, f *types.Var) *types.Named {
	for _, n := range []*types.Named{p.R.MsgWriter, p.R.IdxWriter} {
		s := structOf(n)
		for i := 0; i < s.NumFields(); i++ {
			if s.Field(i) == f {
				return n
			}
		}
	}
	return nil
}

func (p *Prog) LocksetCached() *Lockset {
	if p.ls == nil {
		p.ls = p.lockset()
	}
	if !p.ls.collected {
		p.ls.collected = true
		p.ls.collectAccesses()
	}
	return p.ls
}

func ruleR3(p *Prog) []Ob {
	a := p.LocksetCached()
	var obs []Ob
	byLoc := map[string][]lsAccess{}
	for _, ac := range a.access {
		byLoc[ac.loc] = append(byLoc[ac.loc], ac)
	}
	for _, loc := range sortedKeys(byLoc) {
		acs := byLoc[loc]
		var writes []lsAccess
		for _, ac := range acs {
			if ac.write {
				writes = append(writes, ac)
			}
		}
		if len(writes) == 0 {
			continue // never written after construction: immutable
		}
		ob := Ob{Rule: "R3", Inst: "field:" + loc, Props: []string{"C08"}, Nontrivial: true, Pos: p.at(writes[0].ins), Func: funcLabel(writes[0].fn)}
		// common guards: locks held exclusively by every write and (any mode) by every access
		var bad []string
		guards := map[*types.Var]int{}
		for _, w := range writes {
			for _, x := range acs {
				ok := false
				for m, md := range w.ls {
					if md == modeW {
						if _, has := x.ls[m]; has {
							ok = true
							guards[m]++
						}
					}
				}
				if !ok {
					kind := "read"
					if x.write {
						kind = "write"
					}
					bad = append(bad, fmt.Sprintf("write at %s in %s holding %s  vs  %s at %s in %s holding %s", p.at(w.ins), funcLabel(w.fn), p.lsString(w.ls), kind, p.at(x.ins), funcLabel(x.fn), p.lsString(x.ls)))
				}
			}
		}
		if len(bad) > 0 {
			sort.Strings(bad)
			bad = uniqStrings(bad)
			ob.Status = Violated
			ob.Msg = fmt.Sprintf("%s is written after construction and %d access pair(s) share no lock held exclusively by the writer", loc, len(bad))
			if len(bad) > 12 {
				bad = append(bad[:12], fmt.Sprintf("... %d more", len(bad)-12))
			}
			ob.Path = bad
		} else {
			var gs []string
			for m := range guards {
				gs = append(gs, p.fieldLabel(m))
			}
			sort.Strings(gs)
			ob.Status = Discharged
			ob.Msg = fmt.Sprintf("%d accesses (%d writes), every write/access pair shares an exclusively held lock among {%s}", len(acs), len(writes), strings.Join(gs, ", "))
		}
		obs = append(obs, ob)
	}
	// sanity instance: the analysis saw the API roots and reached a fixpoint
	obs = append(obs, Ob{Rule: "R3", Inst: "entry-locksets", Props: []string{"C08"}, Pos: "-", Status: Discharged,
		Msg: fmt.Sprintf("%d API roots, entry locksets for %d functions, fixpoint in %d rounds, %d accesses collected", len(a.roots), len(a.entry), a.Rounds, len(a.access))})
	return obs
}

func uniqStrings(s []string) []string {
	var out []string
	for i, x := range s {
		if i == 0 || x != s[i-1] {
			out = append(out, x)
		}
	}
	return out
}

func ruleR4(p *Prog) []Ob {
	a := p.LocksetCached()
	var obs []Ob
	type ek struct{ h, q *types.Var }
	first := map[ek]lockEdge{}
	for _, e := range a.edges {
		k := ek{e.held, e.acquired}
		if _, ok := first[k]; !ok {
			first[k] = e
		}
	}
	adj := map[*types.Var][]*types.Var{}
	for k := range first {
		adj[k.h] = append(adj[k.h], k.q)
	}
	// cycle detection
	reach := func(from, to *types.Var) bool {
		seen := map[*types.Var]bool{}
		var walk func(x *types.Var) bool
		walk = func(x *types.Var) bool {
			if x == to {
				return true
			}
			if seen[x] {
				return false
			}
			seen[x] = true
			for _, y := range adj[x] {
				if walk(y) {
					return true
				}
			}
			return false
		}
		for _, y := range adj[from] {
			if walk(y) {
				return true
			}
		}
		return false
	}
	var keys []ek
	for k := range first {
		keys = append(keys, k)
	}
	sort.Slice(keys, func(i, j int) bool {
		return p.fieldLabel(keys[i].h)+p.fieldLabel(keys[i].q) < p.fieldLabel(keys[j].h)+p.fieldLabel(keys[j].q)
	})
	for _, k := range keys {
		e := first[k]
		ob := Ob{Rule: "R4", Inst: fmt.Sprintf("edge:%s->%s", p.fieldLabel(k.h), p.fieldLabel(k.q)), Props: []string{"C08"}, Pos: p.at(e.at), Func: funcLabel(e.at.Parent()), Nontrivial: true}
		if reach(k.q, k.h) {
			ob.Status = Violated
			ob.Msg = fmt.Sprintf("lock-order cycle: %s is acquired while %s is held, and %s is (transitively) acquired while %s is held", p.fieldLabel(k.q), p.fieldLabel(k.h), p.fieldLabel(k.h), p.fieldLabel(k.q))
		} else {
			ob.Status = Discharged
			ob.Msg = "no path back in the acquisition graph"
		}
		obs = append(obs, ob)
	}
	seenRe := map[string]bool{}
	for _, e := range a.reacq {
		inst := fmt.Sprintf("reacquire:%s:%s", p.fieldLabel(e.acquired), funcLabel(e.at.Parent()))
		if seenRe[inst] {
			continue
		}
		seenRe[inst] = true
		obs = append(obs, Ob{Rule: "R4", Inst: inst, Props: []string{"C08"}, Pos: p.at(e.at), Func: funcLabel(e.at.Parent()), Status: Violated, Nontrivial: true,
			Msg: fmt.Sprintf("%s is acquired while the same call chain already holds it (self-deadlock for a Mutex; a recursive read lock deadlocks against a waiting writer)", p.fieldLabel(e.acquired))})
	}
	obs = append(obs, Ob{Rule: "R4", Inst: "no-reacquisition", Props: []string{"C08"}, Pos: "-", Status: Discharged,
		Msg: fmt.Sprintf("%d acquisition sites examined with their entry locksets; %d distinct order edges", len(a.edges)+len(a.reacq), len(first))})
	if len(a.reacq) > 0 {
		obs = obs[:len(obs)-1]
	}
	return obs
}
