#!/bin/sh
# Builds the checker offline from /verif/lint (x/tools v0.50.0 from the module cache).
set -e
export PATH=/opt/veriftools/go1.26.8/bin:$PATH GOFLAGS=-mod=mod GOPROXY=off GOSUMDB=off GOTOOLCHAIN=local
unset GOWORK
cd "$(dirname "$0")"
mkdir -p bin evidence
(cd lint && go build -o ../bin/klevlint .)
echo "setup: built bin/klevlint with $(go version)"
