#!/bin/sh
# usage: ./check.sh <property id> [quick|thorough]     decide one property on /repo's working tree
#        ./check.sh replay <path>                       print the violation records of a replay file
export PATH=/opt/veriftools/go1.26.8/bin:$PATH GOFLAGS=-mod=mod GOPROXY=off GOSUMDB=off GOTOOLCHAIN=local
unset GOWORK
cd "$(dirname "$0")" || exit 2
REPO=${VERIF_REPO:-/repo}
# rebuild the checker when it is missing or older than its sources
if [ ! -x bin/klevlint ] || [ -n "$(find lint -name '*.go' -newer bin/klevlint -print -quit)" ] || [ -n "$(find lint/go.mod -newer bin/klevlint -print -quit)" ]; then
	./setup.sh >&2 || { echo "check: cannot build the checker" >&2; exit 2; }
fi
if [ "$1" = "replay" ]; then
	exec bin/klevlint -verif "$(pwd)" -replay "$2"
fi
TIER=${2:-${VERIF_TIER:-quick}}
exec bin/klevlint -verif "$(pwd)" -repo "$REPO" -p "$1" -tier "$TIER"
