#!/usr/bin/env python3
"""Regenerates MANIFEST.json from the table below (keeps the manifest valid while rules land)."""
import json, sys

CLAIMED = {
 # id: (rules, technique, text, note)
 "C06": ("R1", "interprocedural must-pass-through (fsync-after-last-write) dataflow on SSA with option pruning",
   "Decides, for every path of Log.Sync / Publish under AutoSync / Close, the roll-over, the rewrite, recover and migrate functions, that the log (and where nothing re-derives it, the index) file is fsynced after its last write before the call acknowledges or the file is renamed in. A necessary structural condition of C06 that no test can observe; not a proof of recovery.",
   "Type-level file tokens (one abstract message.Writer / index.Writer file); (*os.File).Sync is the durability point; directory fsync excluded as in the property's fault model."),
}

NOT_YET = "no sound structural rule built yet for this property in this revision of the checker (see DESIGN.md section 5); will be claimed when its rules land"
NA = {
 "C15": "the bound each trim helper enforces (count, size, age, offset) is arithmetic over run-time values returned by Stat/Consume; no clause of the statement is a fact about code shape that a sound static rule in reach decides",
 "C16": "'latest value per key is unchanged' quantifies over key/offset/time values; the two finder loops are pure value-level algorithms with no structural necessary condition to check soundly",
}

def main():
    props = [json.loads(l)["id"] for l in open("/verif/properties.jsonl")]
    checks, na = [], []
    for pid in props:
        if pid in CLAIMED:
            rules, tech, text, note = CLAIMED[pid]
            checks.append({
                "property_id": pid,
                "quick_cmd": "./check.sh %s quick" % pid,
                "thorough_cmd": "./check.sh %s thorough" % pid,
                "evidence_file": "/verif/evidence/%s.json" % pid,
                "replay_cmd_template": "./check.sh replay {path}",
                "engine": "klevlint",
                "level_claimed": {"category": "other", "text": text + " Rules: " + rules + ".", "design_ref": "DESIGN.md section 4 (" + rules + ") and section 5 (" + pid + ")"},
                "level_note": note + " Trusted base: go/types, go/ssa, VTA call graph (x/tools v0.50.0); the effect tables in /verif/lint.",
                "technique": "static analysis: " + tech,
            })
        else:
            na.append({"property_id": pid, "reason": NA.get(pid, NOT_YET)})
    m = {
        "version": 1,
        "setup_cmd": "./setup.sh",
        "hooks": {"guard": "verif", "enable": "the checker loads /repo with -tags verif; there are no hook commits (static analysis needs no instrumentation)",
                  "baseline_off_cmd": "cd /repo && PATH=/opt/veriftools/go1.26.8/bin:$PATH GOFLAGS=-mod=mod GOPROXY=off GOSUMDB=off GOTOOLCHAIN=local go test -json -vet=off -count=1 -timeout 25m ./...",
                  "source_commits": [], "add_only": True},
        "engines": [{"name": "klevlint", "path": "/verif/lint", "serves_properties": sorted(CLAIMED), "kind_free_text": "repository-specific static analyzer (go/packages, go/types, go/ssa, VTA call graph): role resolution, effect tokens, must-effect summaries, dominance/ordering, option pruning, lockset, error-atom flow, affine byte-layout extraction"}],
        "checks": checks,
        "not_applicable": na,
        "notes": "All claims are level 'other': each check decides structural clauses that are necessary for the behavioural property, on every path of the current source, and says in its evidence what it does not decide. /repo carries fix: commits for genuine defects (see known_findings.json and DESIGN.md section 6).",
    }
    json.dump(m, open("/verif/MANIFEST.json", "w"), indent=1)
    print("MANIFEST: %d checks, %d not applicable" % (len(checks), len(na)))

main()
