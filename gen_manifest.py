#!/usr/bin/env python3
"""Regenerates MANIFEST.json from the table below (keeps the manifest valid while rules land)."""
import json, sys

TECH = {
 "R1": "interprocedural must-pass-through (fsync after last write) dataflow on SSA with option pruning",
 "R2": "dominance/ordering queries over file-system effect tokens with path provenance",
 "R3": "flow-sensitive must-hold lockset with entry locksets propagated over the VTA call graph",
 "R4": "lock acquisition graph (held x may-acquire) cycle and re-acquisition check",
 "R5": "refcount protocol: lockset + dominance checks around the in-use counter",
 "R6": "interprocedural error-atom flow with branch refinement at identity comparisons",
 "R7": "error wrap-closure tables, escape analysis of sentinels, guard dominance under option pruning",
 "R8": "dominance of byte-equality tests over uses of hash candidates; loop direction; paired-growth path check",
 "R9": "affine byte-layout extraction from encoder/decoder SSA compared with a documented layout table",
 "R10": "taint/dominance checks in record decoders; path-sensitive short-read flow; may-return-empty summaries",
 "R11": "path enumeration over copy/scan loops in SSA (exactly-once accounting, index derivation, loop exits)",
 "R12": "call-graph reachability of file mutators under option pruning with path provenance",
 "R13": "constant analysis of segment/temp file name formats and their parser",
 "R14": "channel-token typestate dataflow and must-pass-through checks on the notifier and its wrappers",
 "R15": "pruned-CFG reachability around directory-lock acquisition and deferred release",
 "R16": "ErrNotExist tolerance / index-ensured dominance for every consumer of an index path",
 "R17": "data-flow provenance of assigned offsets and new segment names from the atomic next offset",
 "R18": "dominance of the snapshot re-validation over destructive calls, with lockset",
 "R19": "exhaustiveness of version switches over the syntax tree with type information",
 "R20": "lockset at reader-user and closer call sites (readers cannot hold a segment across its close)",
 "R21": "bounded-scan check: head segment file scans outside the writer lock are bounded by a size captured under it",
 "R22": "segment typestate: no use of a segment value after its files were removed",
 "R23": "must-pass-through accounting between a round of Log.Delete and every later return of the multi-round drivers",
 "R24": "use-after-error: placeholder results of failed module calls never flow into a success return",
 "R25": "backup completeness: must-pass-through of the hand-on call at every level of the backup chain",
 "R26": "head index liveness: dominance of the not-head test over index unloading reachable from GC",
 "R27": "constant propagation of the head flag at reader constructions in head-writer methods",
 "R28": "argument provenance of per-segment Get calls in Log.Get",
 "R29": "shape of the index timestamp derivation",
 "R30": "taint analysis from time.Now() to branch conditions reachable from query methods",
 "R32": "dominance of an index lookup over every opening of a segment's log file",
 "R33": "def-use classification of every value stored into Message.Time on the publish path",
 "R34": "def-use classification of the directory argument at every Segment constructor call site",
 "R40": "use analysis of the error result of every error-returning call site in the module against an enumerated list of accepted clean-up idioms",
 "R39": "def-use (through helper parameters to their callers) of every value stored into index.Params.Times / Params.Keys",
 "R37": "def-use and dominance over the finder loops: cursor phi of Consume, origin of every key inserted into the result set, dominance of each selection by the bound comparison on the same message, key/value arguments of the key tree",
 "R38": "def-use from each finder call to the delete sink (same value, unmodified, on the success edge) and origin of the set the multi-segment drivers pass to Log.Delete",
 "R36": "CFG reachability from the success edge of the per-segment time lookup to the loop header, or dominance of every success return of the lookup by a strict comparison with the first timestamp",
 "R35": "error-atom flow: every outcome sentinel of a pure per-segment lookup is classified inside the loop over the segments",
}

TEXT = {
 "C01": "Decides that every record a rewrite/recover/migrate loop reads is written unchanged or (delete only) reported, never dropped, duplicated or altered, that its index item is derived from the same record at the right position, that record bytes are laid out and read back per the documented layout, that segment names sort numerically and temp files are never adopted, and that a replacement segment is in place before the original is removed. Necessary structural conditions of content fidelity on every path; not an equality-with-reference proof.",
 "C02": "Decides that the encoded offset is always base+i with base loaded from the head's atomic next offset under the writer lock, that the atomic is only stored from last.Offset+1, that an emptied head's successor exists before the head is removed, and that a new segment is only ever named 0 or after the live next offset. Necessary for dense, never-reused offsets; the value-level histories are not decided.",
 "C03": "Decides that the identity-compared sentinels implementing the segment hand-off of Consume (after-end -> next segment, empty/exhausted head -> caught up) arrive unwrapped and are still produced. The searches and cursor arithmetic are value-level and not decided.",
 "C04": "Decides the error taxonomy: every sentinel classifies under ErrNotFound/ErrInvalidOffset as documented, nothing internal escapes from any Log method, and the after-end -> not-found mapping still sees its sentinel. Log.Get asks the picked segment for exactly the requested offset and classifies that segment's empty outcome before returning. 'iff live' and agreement with Consume are value-level and not decided.",
 "C05": "Decides the order of file-system steps in Override, Migrate, the rebase and empty-head paths, stale deterministic temp files, recover-loop exits, torn-header classification and fsync-before-rename. A necessary part of crash consistency; the protocol as a whole over all crash points is not decided.",
 "C06": "Decides, for every path of Log.Sync / Publish under AutoSync / Close, the roll-over, and the rewrite, recover and migrate functions, that the log (and where nothing re-derives it, the index) file is fsynced after its last write before the call acknowledges or the file is renamed in. A necessary structural condition that no test can observe; not a proof of recovery.",
 "C07": "Decides that decoders reject before returning (CRC, trailer, bounded sizes), classify a torn header and all their failure sentinels as corruption, that the Recover/Check/reindex scans derive each index item from the record just read and leave their loops only at EOF/corruption/error, and that a missing index is tolerated. 'Longest valid prefix' and byte-for-byte no-op are not decided.",
 "C08": "Decides race-freedom structurally (a common exclusively-held lock for every write/access pair of every shared mutable field, including the writers' file state), an acyclic lock order without re-acquisition, the unload refcount protocol, re-validation of a head rewrite snapshot, reader lifetime versus close, and bounded head scans. Linearizability of results is not decided.",
 "C09": "Decides that a hash hit is returned/collected only after a byte comparison with the caller's own key, that key tree and item list grow together, that first-hit loops run newest-first, that the hash is FNV-1a of the key on every path, and that the segment walk's sentinel and the ErrNoIndex guard are intact. Ascending-order facts and cursor arithmetic are not decided.",
 "C10": "Decides that the sentinels driving the time walk arrive unwrapped, are alive and never escape, that every outcome of the pure per-segment lookup (before start, after end, empty) is classified inside the loop over the segments, that a segment's exact first-item match hands off to the older segment, that no branch depends on the wall clock, that the index timestamp is max(time, previous) on every path and message times are stored as given, and the ErrNoIndex guard. Which message the searches find is value-level and not decided.",
 "C11": "Decides that every consumer of an index file tolerates its absence or runs where it is ensured, that log replacement removes/rewrites the index in a safe order from the new file's positions, that writer and reader of the item layouts agree, and that whole-index writes are fsynced. Item-by-item equality over histories is not decided.",
 "C12": "Decides that in the rewrite loop deleted and kept partition the records read (deleted only under membership in the caller's set), that relative offsets are rejected and the empty set is a no-op before any lock, that a head snapshot is re-validated before it replaces the head, and that errSegmentChanged still reaches its comparison. Size arithmetic and the multi-pass driver are not decided.",
 "C13": "Decides encoder = decoder = documented layout for V1/V2 records, file headers and the four index item layouts, CRC table and coverage, Size(), key hash, and exhaustive version switches. Stat over histories is not decided.",
 "C14": "Decides bounded allocation, CRC and trailer dominance over every success return of the decoders, torn-header classification, corruption classification of all decoder failures, and that a possibly-empty read result is never indexed. That other segments keep answering is not decided.",
 "C15": "Decides the shape of the trim finders and wrappers: gap-free scan from OffsetOldest, only messages of the consumed batch are selected, the offset and age finders select a message only where the bound comparison on that same message dominates, wrappers hand the finder's set unchanged to the delete on the success edge, drivers only ask for a shrinking clone of the given set. Necessary for 'a prefix and nothing else' and 'no message outside the bound is touched'; the count/size arithmetic and that the bound is reached are value-level and not decided.",
 "C16": "Decides the shape of the compaction finders: gap-free scan, key tree keyed by the message's own Key bytes storing its own Offset, only messages tested not after the cut-off enter it, FindUpdates selects only the replaced holder the tree returned, FindDeletes selects only value-less first-seen messages, wrappers/drivers as C15. Necessary for 'only messages with a later message of the same key / only value-less oldest messages are removed'; that the latest value of every key is unchanged is value-level and not decided.",
 "C17": "Decides that each version has an agreeing encoder/decoder, version switches are exhaustive, the migrate loop copies every record and indexes destination positions, and migration runs in a safe order with the temp file fsynced. Which version a segment ends up in is not decided.",
 "C18": "Decides publish-then-set and wait-before-consume in both blocking wrappers, the notifier's channel-token discipline, the probe under the token, and the broadcast (monotone store, close received channel, install a fresh one). That a waiter stays parked and what a woken call returns are not decided.",
 "C19": "Decides lock mode per Readonly with release on failed Open and in Close, that Publish/Delete reject with ErrReadonly before any effect, and that no log-file mutator is reachable in read-only mode or from any query method. flock(2) semantics and answer equivalence are not decided.",
 "C20": "Decides the clause 'leaving the source unchanged': no source-side log-file mutator is reachable from Log.Backup / klevdb.Backup. That the copy opens to the same log is run-time and not decided.",
}

NOTE = "Type-level tokens (one abstract instance per lock field / writer type); standard-library and third-party effects as tabulated in /verif/lint; objects under construction are not shared."

def claimed():
    import subprocess, json as _j
    out = subprocess.run(["/verif/bin/klevlint", "-verif", "/verif", "-describe"], capture_output=True, text=True, check=True).stdout
    m = _j.loads(out)
    global DECIDED
    DECIDED = m.get("_texts", {})
    return {pid: rules for pid, rules in m.items() if pid in TEXT}

DECIDED = {}
CLAIMED = {}
for pid, rules in claimed().items():
    tech = "; ".join(TECH[r] for r in rules)
    if len(tech) > 600:
        tech = "; ".join(TECH[r].split(":")[0].split(" (")[0] for r in rules)
    t = DECIDED.get(pid)
    text = TEXT[pid]
    if t:
        # the same wording as the evidence files: what the check decides and what it does not
        text = "Decides (structural clauses necessary for the property, on every path of the current source): " + t["decided"] + " Does not decide: " + t["not_decided"]
    CLAIMED[pid] = (", ".join(rules), tech, text, NOTE)

NOT_YET = "no sound structural rule built yet for this property in this revision of the checker (see DESIGN.md section 5); will be claimed when its rules land"
NA = {}

def main():
    props = [json.loads(l)["id"] for l in open("/verif/properties.jsonl")]
    checks, na = [], []
    for pid in props:
        if pid in CLAIMED:
            rules, tech, text, note = CLAIMED[pid]
            checks.append({
                "property_id": pid,
                "quick_cmd": "./check.sh %s quick" % pid,
                "thorough_cmd": "./check.sh %s thorough" % pid,
                "evidence_file": "/verif/evidence/%s.json" % pid,
                "replay_cmd_template": "./check.sh replay {path}",
                "engine": "klevlint",
                "level_claimed": {"category": "other", "text": text + " Rules: " + rules + ".", "design_ref": "DESIGN.md section 4 (" + rules + ") and section 5 (" + pid + ")"},
                "level_note": note + " Trusted base: go/types, go/ssa, VTA call graph (x/tools v0.50.0); the effect tables in /verif/lint.",
                "technique": "static analysis: " + tech,
            })
        else:
            na.append({"property_id": pid, "reason": NA.get(pid, NOT_YET)})
    m = {
        "version": 1,
        "setup_cmd": "./setup.sh",
        "hooks": {"guard": "verif", "enable": "the checker loads /repo with -tags verif; there are no hook commits (static analysis needs no instrumentation)",
                  "baseline_off_cmd": "cd /repo && PATH=/opt/veriftools/go1.26.8/bin:$PATH GOFLAGS=-mod=mod GOPROXY=off GOSUMDB=off GOTOOLCHAIN=local go test -json -vet=off -count=1 -timeout 25m ./...",
                  "source_commits": [], "add_only": True},
        "engines": [{"name": "klevlint", "path": "/verif/lint", "serves_properties": sorted(CLAIMED), "kind_free_text": "repository-specific static analyzer (go/packages, go/types, go/ssa, VTA call graph): role resolution, effect tokens, must-effect summaries, dominance/ordering, option pruning, lockset, error-atom flow, affine byte-layout extraction"}],
        "checks": checks,
        "not_applicable": na,
        "notes": "All claims are level 'other': each check decides structural clauses that are necessary for the behavioural property, on every path of the current source, and says in its evidence what it does not decide. /repo carries fix: commits for genuine defects (see known_findings.json and DESIGN.md section 6).",
    }
    json.dump(m, open("/verif/MANIFEST.json", "w"), indent=1)
    print("MANIFEST: %d checks, %d not applicable" % (len(checks), len(na)))

main()
