package klevdb_test

// F2 (C05): Segment.Recover appended to a stale <log>.recover left by an earlier crashed recovery.

import (
	"os"
	"path/filepath"
	"testing"

	"github.com/klev-dev/klevdb"
)

func TestVerifF2StaleRecoverTemp(t *testing.T) {
	dir := t.TempDir()
	l, err := klevdb.Open(dir, klevdb.Options{})
	if err != nil {
		t.Fatal(err)
	}
	msgs := make([]klevdb.Message, 4)
	for i := range msgs {
		msgs[i] = klevdb.Message{Key: []byte{byte('a' + i)}, Value: []byte("value")}
	}
	if _, err := l.Publish(msgs); err != nil {
		t.Fatal(err)
	}
	if err := l.Close(); err != nil {
		t.Fatal(err)
	}

	logPath := filepath.Join(dir, "00000000000000000000.log")
	data, err := os.ReadFile(logPath)
	if err != nil {
		t.Fatal(err)
	}
	recLen := (len(data) - 8) / 4
	// an earlier recovery crashed after copying two records into the temp file
	if err := os.WriteFile(logPath+".recover", data[:8+2*recLen], 0600); err != nil {
		t.Fatal(err)
	}
	// the tail of the log is damaged, so this recovery does rename its temp file in
	data[len(data)-1] ^= 0xFF
	if err := os.WriteFile(logPath, data, 0600); err != nil {
		t.Fatal(err)
	}
	_ = os.Remove(filepath.Join(dir, "00000000000000000000.index"))

	l, err = klevdb.Open(dir, klevdb.Options{Recover: true})
	if err != nil {
		t.Fatal(err)
	}
	defer l.Close()
	_, got, err := l.Consume(klevdb.OffsetOldest, 10)
	if err != nil {
		t.Fatal(err)
	}
	var offsets []int64
	for _, m := range got {
		offsets = append(offsets, m.Offset)
	}
	if len(offsets) != 3 || offsets[0] != 0 || offsets[1] != 1 || offsets[2] != 2 {
		t.Fatalf("recovered offsets %v, want [0 1 2]", offsets)
	}
}
