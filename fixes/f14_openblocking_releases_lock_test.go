package klevdb_test

// F14 (C19): OpenBlocking and OpenTBlocking open the log (which takes the directory lock) and then
// wrap it; when the wrapping fails (it asks for NextOffset, which on a read-only handle loads the head
// index and fails if that is damaged) they returned the error without closing the log: the caller has
// nothing to close, and the directory stays locked.

import (
	"os"
	"path/filepath"
	"testing"

	"github.com/klev-dev/klevdb"
)

func TestVerifF14FailedOpenBlockingReleasesTheLock(t *testing.T) {
	for _, typed := range []bool{false, true} {
		dir := t.TempDir()
		l, err := klevdb.Open(dir, klevdb.Options{})
		if err != nil {
			t.Fatal(err)
		}
		if _, err := l.Publish([]klevdb.Message{{Value: []byte("a")}, {Value: []byte("b")}}); err != nil {
			t.Fatal(err)
		}
		if err := l.Close(); err != nil {
			t.Fatal(err)
		}
		// damage the head index: a torn item
		idx, err := filepath.Glob(filepath.Join(dir, "*.index"))
		if err != nil || len(idx) != 1 {
			t.Fatal(idx, err)
		}
		f, err := os.OpenFile(idx[0], os.O_WRONLY|os.O_APPEND, 0)
		if err != nil {
			t.Fatal(err)
		}
		f.Write([]byte{1, 2, 3, 4, 5})
		f.Close()

		if typed {
			_, err = klevdb.OpenTBlocking(dir, klevdb.Options{Readonly: true}, klevdb.StringCodec, klevdb.StringCodec)
		} else {
			_, err = klevdb.OpenBlocking(dir, klevdb.Options{Readonly: true})
		}
		if err == nil {
			t.Fatalf("typed=%v: expected the blocking open to fail on the damaged head index", typed)
		}
		// the failed open must not keep the directory locked: the owner can open it for writing
		// (with Recover, which repairs the index)
		w, err := klevdb.Open(dir, klevdb.Options{Recover: true})
		if err != nil {
			t.Errorf("typed=%v: after the failed blocking open the directory is still locked: %v", typed, err)
			continue
		}
		w.Close()
	}
}
