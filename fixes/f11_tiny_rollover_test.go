package klevdb_test

// F11 (C01, C02): with Options.Rollover below the size of the V2 file header (1..7 bytes) the empty
// head segment was "rolled over": the successor is named after the next offset, which for an empty
// head is its own base offset, so a second writer was opened on the same file and the reader list
// held that segment twice. Consume and Get failed with "invalid offset: no offset items" and Stat
// counted messages twice.

import (
	"testing"

	"github.com/klev-dev/klevdb"
)

func TestVerifF11TinyRollover(t *testing.T) {
	for _, ro := range []int64{1, 7, 8, 9} {
		dir := t.TempDir()
		l, err := klevdb.Open(dir, klevdb.Options{Rollover: ro})
		if err != nil {
			t.Fatal(err)
		}
		for i := 0; i < 4; i++ {
			off, err := l.Publish([]klevdb.Message{{Value: []byte("v")}})
			if err != nil {
				t.Fatalf("rollover %d: publish %d: %v", ro, i, err)
			}
			if off != int64(i+1) {
				t.Errorf("rollover %d: publish %d returned next offset %d", ro, i, off)
			}
		}
		var seen []int64
		off := klevdb.OffsetOldest
		for i := 0; i < 10; i++ {
			next, msgs, err := l.Consume(off, 10)
			if err != nil {
				t.Errorf("rollover %d: consume: %v", ro, err)
				break
			}
			if len(msgs) == 0 {
				break
			}
			for _, m := range msgs {
				seen = append(seen, m.Offset)
			}
			off = next
		}
		if len(seen) != 4 {
			t.Errorf("rollover %d: consumed offsets %v, expected 0..3", ro, seen)
		}
		for i := int64(0); i < 4; i++ {
			if m, err := l.Get(i); err != nil || m.Offset != i {
				t.Errorf("rollover %d: Get(%d) = %d, %v", ro, i, m.Offset, err)
			}
		}
		st, err := l.Stat()
		if err != nil || st.Messages != 4 {
			t.Errorf("rollover %d: Stat = %+v, %v", ro, st, err)
		}
		if err := l.Close(); err != nil {
			t.Errorf("rollover %d: close: %v", ro, err)
		}
		l, err = klevdb.Open(dir, klevdb.Options{Rollover: ro})
		if err != nil {
			t.Errorf("rollover %d: reopen: %v", ro, err)
			continue
		}
		if n, _ := l.NextOffset(); n != 4 {
			t.Errorf("rollover %d: next offset after reopen %d", ro, n)
		}
		l.Close()
	}
}
