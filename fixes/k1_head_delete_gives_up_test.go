package klevdb_test

// K1 (C08) — known finding, not repaired: a Delete in the head segment that loses the race against a
// Publish (one lands between the delete's rewrite of the head and the swap) returns (nil, 0, nil):
// "nothing deleted", although the requested offset is live and stays in the log. No sequential order
// of the two calls produces that answer. The repository's own TestConcurrent/DeleteRollover fails on
// the same return now and then (log_test.go:1738); this demo makes the collision likely.

import (
	"sync"
	"testing"

	"github.com/klev-dev/klevdb"
)

func TestVerifK1HeadDeleteRacingPublish(t *testing.T) {
	l, err := klevdb.Open(t.TempDir(), klevdb.Options{Rollover: 1 << 20})
	if err != nil {
		t.Fatal(err)
	}
	defer l.Close()
	val := make([]byte, 64)
	var wg sync.WaitGroup
	stop := make(chan struct{})
	wg.Add(1)
	go func() {
		defer wg.Done()
		for {
			select {
			case <-stop:
				return
			default:
			}
			if _, err := l.Publish([]klevdb.Message{{Value: val}}); err != nil {
				t.Error(err)
				return
			}
		}
	}()
	gaveUp := 0
	for done := 0; done < 200 && !t.Failed(); {
		next, err := l.NextOffset()
		if err != nil {
			t.Fatal(err)
		}
		if next == 0 {
			continue
		}
		done++
		off := next - 1 // published, live, and nobody else deletes it
		msgs, _, err := l.Delete(map[int64]struct{}{off: {}})
		if err != nil {
			t.Fatal(err)
		}
		if len(msgs) == 0 {
			if _, gerr := l.Get(off); gerr == nil {
				gaveUp++
			}
		}
	}
	close(stop)
	wg.Wait()
	if gaveUp > 0 {
		t.Errorf("%d of 200 deletes of a live offset returned success with nothing deleted, and the message is still there", gaveUp)
	}
}
