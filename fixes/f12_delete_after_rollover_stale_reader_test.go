package klevdb_test

// F12 (C08, C03): (*log).delete looks up the reader of the segment first and takes the writer lock
// afterwards. When a Publish that rolls the head over holds the writer lock at that moment, the head's
// reader object has been replaced in the reader list by the time the delete goes on. The in-place
// path of the delete then put the stale object (still flagged as the head, with the head's index)
// back into the middle of the list: a cursor that reaches that segment is told it is caught up and
// never gets to the segments behind it.

import (
	"sync"
	"testing"

	"github.com/klev-dev/klevdb"
)

func TestVerifF12DeleteWhileHeadRollsOver(t *testing.T) {
	for round := 0; round < 20 && !t.Failed(); round++ {
		l, err := klevdb.Open(t.TempDir(), klevdb.Options{Rollover: 256})
		if err != nil {
			t.Fatal(err)
		}
		const total = 400
		val := make([]byte, 60)
		var wg sync.WaitGroup
		published := make(chan int64, total)
		wg.Add(2)
		go func() {
			defer wg.Done()
			defer close(published)
			for i := 0; i < total; i++ {
				next, err := l.Publish([]klevdb.Message{{Value: val}})
				if err != nil {
					t.Error(err)
					return
				}
				published <- next - 1
			}
		}()
		deleted := map[int64]bool{}
		go func() {
			defer wg.Done()
			for off := range published {
				// three messages fit a segment: the last one of each (the rewrite stays in place, and the next
				// Publish is the one that rolls the head over)
				if off%3 == 2 {
					msgs, _, err := l.Delete(map[int64]struct{}{off: {}})
					if err != nil {
						t.Error(err)
						return
					}
					for _, m := range msgs {
						deleted[m.Offset] = true
					}
				}
			}
		}()
		wg.Wait()
		// quiescent: a cursor from the oldest message reaches the end and sees every live message once
		next, err := l.NextOffset()
		if err != nil || next != total {
			t.Fatalf("next offset %d, %v", next, err)
		}
		seen := 0
		cursor := klevdb.OffsetOldest
		for steps := 0; ; steps++ {
			n, msgs, err := l.Consume(cursor, 32)
			if err != nil {
				t.Errorf("round %d: consume(%d): %v", round, cursor, err)
				break
			}
			for _, m := range msgs {
				if deleted[m.Offset] {
					t.Errorf("round %d: deleted offset %d is still visible", round, m.Offset)
				}
				seen++
			}
			if len(msgs) == 0 {
				if n != next {
					t.Errorf("round %d: the cursor stops at %d with nothing returned, but the log ends at %d (%d live messages not reachable)", round, n, next, total-len(deleted)-seen)
				}
				break
			}
			cursor = n
			if steps > total {
				t.Errorf("round %d: cursor does not advance", round)
				break
			}
		}
		if !t.Failed() && seen != total-len(deleted) {
			t.Errorf("round %d: saw %d messages, expected %d", round, seen, total-len(deleted))
		}
		l.Close()
	}
}
