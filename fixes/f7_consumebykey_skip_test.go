package klevdb_test

// F7 (C08, C09): reader.ConsumeByKey looked the key up first and loaded the next offset afterwards.
// A Publish of that key that landed between the two steps was passed over: the returned next offset
// was already beyond a message the call had not seen.

import (
	"sync"
	"testing"
	"time"

	"github.com/klev-dev/klevdb"
)

func TestVerifF7ConsumeByKeyNeverSkips(t *testing.T) {
	l, err := klevdb.Open(t.TempDir(), klevdb.Options{KeyIndex: true, Rollover: 64 * 1024})
	if err != nil {
		t.Fatal(err)
	}
	defer l.Close()
	key := []byte("the-key")
	stop := time.Now().Add(4 * time.Second)
	var wg sync.WaitGroup
	wg.Add(1)
	go func() {
		defer wg.Done()
		for time.Now().Before(stop) && !t.Failed() {
			if _, err := l.Publish([]klevdb.Message{{Key: key, Value: []byte("v")}}); err != nil {
				t.Error(err)
				return
			}
		}
	}()
	// every message has the key, so the key cursor must visit every offset exactly once
	for c := 0; c < 4; c++ {
		wg.Add(1)
		go func() {
			defer wg.Done()
			offset, expect := klevdb.OffsetOldest, int64(0)
			for time.Now().Before(stop) && !t.Failed() {
				next, msgs, err := l.ConsumeByKey(key, offset, 16)
				if err != nil {
					t.Error(err)
					return
				}
				for _, m := range msgs {
					if m.Offset != expect {
						t.Errorf("key cursor saw offset %d, expected %d (skipped %d message(s))", m.Offset, expect, m.Offset-expect)
						return
					}
					expect++
				}
				if len(msgs) == 0 && next > expect {
					t.Errorf("key cursor moved to %d without returning offsets %d..%d", next, expect, next-1)
					return
				}
				offset = next
			}
		}()
	}
	wg.Wait()
}
