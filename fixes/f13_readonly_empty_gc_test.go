package klevdb_test

// F13 (C19): a read-only handle on a directory without segments answers through a synthetic reader
// with a prebuilt empty index. The reader was not flagged as the head, so GC dropped that index, and
// every later query tried to load it from files that do not exist ("read log open: no such file").

import (
	"testing"

	"github.com/klev-dev/klevdb"
)

func TestVerifF13ReadonlyEmptyDirSurvivesGC(t *testing.T) {
	dir := t.TempDir()
	l, err := klevdb.Open(dir, klevdb.Options{Readonly: true, KeyIndex: true, TimeIndex: true})
	if err != nil {
		t.Fatal(err)
	}
	defer l.Close()
	check := func(when string) {
		t.Helper()
		if next, err := l.NextOffset(); err != nil || next != 0 {
			t.Errorf("%s: NextOffset = %d, %v; expected 0", when, next, err)
		}
		if next, msgs, err := l.Consume(klevdb.OffsetOldest, 10); err != nil || next != 0 || len(msgs) != 0 {
			t.Errorf("%s: Consume(oldest) = %d, %d messages, %v; expected 0, none", when, next, len(msgs), err)
		}
		if _, err := l.GetByKey([]byte("k")); err == nil {
			t.Errorf("%s: GetByKey found something in an empty log", when)
		} else if got := err.Error(); got != "key not found" {
			t.Errorf("%s: GetByKey: %v; expected key not found", when, err)
		}
	}
	check("before GC")
	if err := l.GC(0); err != nil {
		t.Fatal(err)
	}
	check("after GC")
}
