package klevdb_test

// F3 (C07, C14): a tail shorter than a record header was reported as io.EOF (a clean end),
// so Recover kept the fragment and the next Publish buried it.

import (
	"os"
	"path/filepath"
	"testing"

	"github.com/klev-dev/klevdb"
)

func TestVerifF3TornHeaderIsCorruption(t *testing.T) {
	for _, version := range []klevdb.Version{klevdb.V1, klevdb.V2} {
		dir := t.TempDir()
		vo := klevdb.VersionOptions{NewSegmentsVersion: version}
		l, err := klevdb.Open(dir, klevdb.Options{Version: vo})
		if err != nil {
			t.Fatal(err)
		}
		if _, err := l.Publish([]klevdb.Message{{Key: []byte("a"), Value: []byte("1")}, {Key: []byte("b"), Value: []byte("2")}}); err != nil {
			t.Fatal(err)
		}
		if err := l.Close(); err != nil {
			t.Fatal(err)
		}
		logPath := filepath.Join(dir, "00000000000000000000.log")
		f, err := os.OpenFile(logPath, os.O_WRONLY|os.O_APPEND, 0600)
		if err != nil {
			t.Fatal(err)
		}
		if _, err := f.Write([]byte{1, 2, 3, 4, 5}); err != nil { // torn record header
			t.Fatal(err)
		}
		f.Close()
		_ = os.Remove(filepath.Join(dir, "00000000000000000000.index"))

		if err := klevdb.Check(dir, klevdb.Options{}); err == nil {
			t.Fatalf("%v: Check accepted a log with a torn record header", version)
		}
		l, err = klevdb.Open(dir, klevdb.Options{Recover: true, Version: vo})
		if err != nil {
			t.Fatal(err)
		}
		if _, err := l.Publish([]klevdb.Message{{Key: []byte("c"), Value: []byte("3")}}); err != nil {
			t.Fatal(err)
		}
		if err := l.Close(); err != nil {
			t.Fatal(err)
		}
		if err := klevdb.Check(dir, klevdb.Options{}); err != nil {
			t.Fatalf("%v: after Recover + Publish: %v", version, err)
		}
	}
}
