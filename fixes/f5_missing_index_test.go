package klevdb_test

// F5 (C11): index files are derived data, but Stat, Delete (Override / Remove) and Backup
// failed when the index file of a closed segment was missing.

import (
	"os"
	"path/filepath"
	"testing"

	"github.com/klev-dev/klevdb"
)

func verifF5Log(t *testing.T) (string, klevdb.Log) {
	dir := t.TempDir()
	l, err := klevdb.Open(dir, klevdb.Options{Rollover: 300})
	if err != nil {
		t.Fatal(err)
	}
	for i := 0; i < 12; i++ {
		if _, err := l.Publish([]klevdb.Message{{Key: []byte{byte('a' + i)}, Value: make([]byte, 100)}}); err != nil {
			t.Fatal(err)
		}
	}
	if err := l.Close(); err != nil {
		t.Fatal(err)
	}
	idx, _ := filepath.Glob(filepath.Join(dir, "*.index"))
	if len(idx) < 3 {
		t.Fatalf("want at least 3 segments, have %d", len(idx))
	}
	// remove the index of the first two (closed) segments
	if err := os.Remove(idx[0]); err != nil {
		t.Fatal(err)
	}
	if err := os.Remove(idx[1]); err != nil {
		t.Fatal(err)
	}
	l, err = klevdb.Open(dir, klevdb.Options{Rollover: 300})
	if err != nil {
		t.Fatal(err)
	}
	return dir, l
}

func TestVerifF5Stat(t *testing.T) {
	dir, l := verifF5Log(t)
	defer l.Close()
	st, err := l.Stat()
	if err != nil {
		t.Fatal(err)
	}
	if st.Messages != 12 {
		t.Fatalf("Stat counted %d messages, want 12", st.Messages)
	}
	if _, err := klevdb.Stat(dir, klevdb.Options{}); err != nil {
		t.Fatal(err)
	}
}

func TestVerifF5Delete(t *testing.T) {
	dir, l := verifF5Log(t)
	defer l.Close()
	// offset 1 lives in the first segment: same base offset, Override path
	if _, _, err := l.Delete(map[int64]struct{}{1: {}}); err != nil {
		t.Fatal(err)
	}
	tmp, _ := filepath.Glob(filepath.Join(dir, "*.rewrite.*"))
	if len(tmp) != 0 {
		t.Fatalf("rewrite temp files left behind: %v", tmp)
	}
	_, msgs, err := l.Consume(klevdb.OffsetOldest, 100)
	if err != nil {
		t.Fatal(err)
	}
	for _, m := range msgs {
		if m.Offset == 1 {
			t.Fatal("offset 1 still live")
		}
	}
}

func TestVerifF5DeleteWholeSegment(t *testing.T) {
	_, l := verifF5Log(t)
	defer l.Close()
	// with Rollover 300 the first segment holds offsets 0, 1 and 2: emptying it takes the Remove path
	deleted, _, err := l.Delete(map[int64]struct{}{0: {}, 1: {}, 2: {}})
	if err != nil {
		t.Fatal(err)
	}
	if len(deleted) != 3 {
		t.Fatalf("deleted %d messages, want 3", len(deleted))
	}
}

func TestVerifF5Backup(t *testing.T) {
	_, l := verifF5Log(t)
	defer l.Close()
	if err := l.Backup(t.TempDir()); err != nil {
		t.Fatal(err)
	}
}
