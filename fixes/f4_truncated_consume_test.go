package klevdb_test

// F4 (C14): a log file cut at a record boundary (index intact) made Consume panic.

import (
	"os"
	"path/filepath"
	"testing"

	"github.com/klev-dev/klevdb"
)

func TestVerifF4TruncatedConsume(t *testing.T) {
	dir := t.TempDir()
	l, err := klevdb.Open(dir, klevdb.Options{})
	if err != nil {
		t.Fatal(err)
	}
	msgs := make([]klevdb.Message, 4)
	for i := range msgs {
		msgs[i] = klevdb.Message{Key: []byte{byte('a' + i)}, Value: []byte("value")}
	}
	if _, err := l.Publish(msgs); err != nil {
		t.Fatal(err)
	}
	if err := l.Close(); err != nil {
		t.Fatal(err)
	}
	logPath := filepath.Join(dir, "00000000000000000000.log")
	st, err := os.Stat(logPath)
	if err != nil {
		t.Fatal(err)
	}
	recLen := (st.Size() - 8) / 4
	if err := os.Truncate(logPath, 8+2*recLen); err != nil {
		t.Fatal(err)
	}
	l, err = klevdb.Open(dir, klevdb.Options{})
	if err != nil {
		t.Fatal(err)
	}
	defer l.Close()
	_, got, err := l.Consume(2, 10) // used to panic: index out of range [-1]
	if err == nil {
		t.Fatalf("Consume of a truncated record returned %d messages and no error", len(got))
	}
}
