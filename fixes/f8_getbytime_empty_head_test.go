package klevdb_test

// F8 (C10): Log.GetByTime asked the head segment first and gave up with "invalid offset: no time
// items" when the head was empty (every message of the head deleted, in this session or before a
// reopen), although earlier segments hold live messages at or after the requested time.

import (
	"errors"
	"testing"
	"time"

	"github.com/klev-dev/klevdb"
)

func TestVerifF8GetByTimeWithEmptyHead(t *testing.T) {
	dir := t.TempDir()
	l, err := klevdb.Open(dir, klevdb.Options{TimeIndex: true, Rollover: 200})
	if err != nil {
		t.Fatal(err)
	}
	base := time.Date(2024, 1, 1, 0, 0, 0, 0, time.UTC)
	val := make([]byte, 150)
	for i := 0; i < 3; i++ {
		if _, err := l.Publish([]klevdb.Message{{Time: base.Add(time.Duration(i) * time.Second), Value: val}}); err != nil {
			t.Fatal(err)
		}
	}
	st, err := l.Stat()
	if err != nil {
		t.Fatal(err)
	}
	if st.Segments < 2 {
		t.Fatalf("expected several segments, have %d", st.Segments)
	}
	// delete the only message of the head segment
	if _, _, err := l.Delete(map[int64]struct{}{2: {}}); err != nil {
		t.Fatal(err)
	}
	check := func(l klevdb.Log, when string) {
		t.Helper()
		for i := 0; i < 2; i++ {
			msg, err := l.GetByTime(base.Add(time.Duration(i) * time.Second))
			if err != nil {
				t.Errorf("%s: GetByTime(t%d): %v, expected the live message at offset %d", when, i, err, i)
				continue
			}
			if msg.Offset != int64(i) {
				t.Errorf("%s: GetByTime(t%d) = offset %d, expected %d", when, i, msg.Offset, i)
			}
		}
		// between two messages
		if msg, err := l.GetByTime(base.Add(500 * time.Millisecond)); err != nil || msg.Offset != 1 {
			t.Errorf("%s: GetByTime(t0+0.5s) = offset %d, %v; expected offset 1", when, msg.Offset, err)
		}
		// after every live message
		if _, err := l.GetByTime(base.Add(time.Hour)); !errors.Is(err, klevdb.ErrNotFound) {
			t.Errorf("%s: GetByTime(after the last live message): %v, expected ErrNotFound", when, err)
		}
	}
	check(l, "same session")
	if err := l.Close(); err != nil {
		t.Fatal(err)
	}
	l, err = klevdb.Open(dir, klevdb.Options{TimeIndex: true, Rollover: 200})
	if err != nil {
		t.Fatal(err)
	}
	defer l.Close()
	check(l, "after reopen")
}
