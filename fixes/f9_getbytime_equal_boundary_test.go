package klevdb_test

// F9 (C10): with equal timestamps on both sides of a segment boundary GetByTime answered with the
// first message of the newer segment: the per-segment lookup treated "time == first timestamp of
// this segment" as found, without looking at the older segment that ends with the same timestamp.

import (
	"testing"
	"time"

	"github.com/klev-dev/klevdb"
)

func TestVerifF9GetByTimeEqualTimestampsAcrossSegments(t *testing.T) {
	l, err := klevdb.Open(t.TempDir(), klevdb.Options{TimeIndex: true, Rollover: 200})
	if err != nil {
		t.Fatal(err)
	}
	defer l.Close()
	base := time.Date(2024, 1, 1, 0, 0, 0, 0, time.UTC)
	val := make([]byte, 150)
	times := []time.Time{base, base.Add(time.Second), base.Add(time.Second), base.Add(time.Second), base.Add(time.Second), base.Add(2 * time.Second)}
	for _, tm := range times {
		if _, err := l.Publish([]klevdb.Message{{Time: tm, Value: val}}); err != nil {
			t.Fatal(err)
		}
	}
	st, err := l.Stat()
	if err != nil {
		t.Fatal(err)
	}
	if st.Segments < 3 {
		t.Fatalf("expected the run of equal timestamps to straddle segments, have %d segments", st.Segments)
	}
	want := map[time.Time]int64{base: 0, base.Add(time.Second): 1, base.Add(2 * time.Second): 5, base.Add(1500 * time.Millisecond): 5, base.Add(-time.Second): 0}
	for tm, off := range want {
		msg, err := l.GetByTime(tm)
		if err != nil {
			t.Errorf("GetByTime(%v): %v", tm.Sub(base), err)
			continue
		}
		if msg.Offset != off {
			t.Errorf("GetByTime(base+%v) = offset %d, expected %d (the first message at or after that time)", tm.Sub(base), msg.Offset, off)
		}
	}
	// the same after the older half of the run is deleted
	if _, _, err := l.Delete(map[int64]struct{}{1: {}}); err != nil {
		t.Fatal(err)
	}
	if msg, err := l.GetByTime(base.Add(time.Second)); err != nil || msg.Offset != 2 {
		t.Errorf("after deleting offset 1: GetByTime(base+1s) = offset %d, %v; expected 2", msg.Offset, err)
	}
}
