package klevdb_test

// F10 (C04): Get(OffsetNewest) asked the head segment only; with an empty head (every message of the
// head deleted, same session or after a reopen) it failed with "invalid offset: no offset items"
// although the log is not empty.

import (
	"testing"

	"github.com/klev-dev/klevdb"
)

func TestVerifF10GetNewestWithEmptyHead(t *testing.T) {
	dir := t.TempDir()
	l, err := klevdb.Open(dir, klevdb.Options{Rollover: 200})
	if err != nil {
		t.Fatal(err)
	}
	val := make([]byte, 150)
	for i := 0; i < 3; i++ {
		if _, err := l.Publish([]klevdb.Message{{Value: val}}); err != nil {
			t.Fatal(err)
		}
	}
	if _, _, err := l.Delete(map[int64]struct{}{2: {}}); err != nil {
		t.Fatal(err)
	}
	check := func(l klevdb.Log, when string) {
		t.Helper()
		msg, err := l.Get(klevdb.OffsetNewest)
		if err != nil {
			t.Errorf("%s: Get(OffsetNewest): %v, expected the last live message (offset 1)", when, err)
		} else if msg.Offset != 1 {
			t.Errorf("%s: Get(OffsetNewest) = offset %d, expected 1", when, msg.Offset)
		}
		if msg, err := l.Get(klevdb.OffsetOldest); err != nil || msg.Offset != 0 {
			t.Errorf("%s: Get(OffsetOldest) = offset %d, %v; expected 0", when, msg.Offset, err)
		}
		if _, err := l.Get(2); err == nil {
			t.Errorf("%s: Get(2) found the deleted message", when)
		}
		if next, msgs, err := l.Consume(klevdb.OffsetNewest, 10); err != nil || next != 3 || len(msgs) != 0 {
			t.Errorf("%s: Consume(OffsetNewest) = %d, %d messages, %v; expected 3, none", when, next, len(msgs), err)
		}
	}
	check(l, "same session")
	if err := l.Close(); err != nil {
		t.Fatal(err)
	}
	l, err = klevdb.Open(dir, klevdb.Options{Rollover: 200})
	if err != nil {
		t.Fatal(err)
	}
	defer l.Close()
	check(l, "after reopen")
}
