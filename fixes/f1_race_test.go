package klevdb_test

// F1 (C08): (*log).delete read l.writer outside writerMu while Publish replaces it at roll-over.
// Run with: go test -race -run TestVerifF1 .   (copy this file into /repo first)

import (
	"sync"
	"testing"
	"time"

	"github.com/klev-dev/klevdb"
)

func TestVerifF1DeleteVersionRace(t *testing.T) {
	opts := klevdb.Options{Rollover: 300, Version: klevdb.VersionOptions{KeepRewriteVersion: true}}
	l, err := klevdb.Open(t.TempDir(), opts)
	if err != nil {
		t.Fatal(err)
	}
	defer l.Close()

	stop := time.Now().Add(8 * time.Second)
	var wg sync.WaitGroup
	wg.Add(2)
	go func() {
		defer wg.Done()
		for time.Now().Before(stop) {
			if _, err := l.Publish([]klevdb.Message{{Key: []byte("k"), Value: make([]byte, 100)}}); err != nil {
				t.Error(err)
				return
			}
		}
	}()
	go func() {
		defer wg.Done()
		for time.Now().Before(stop) {
			next, err := l.NextOffset()
			if err != nil {
				t.Error(err)
				return
			}
			if next == 0 {
				continue
			}
			if _, _, err := l.Delete(map[int64]struct{}{next - 1: {}}); err != nil {
				t.Error(err)
				return
			}
		}
	}()
	wg.Wait()
}
