#!/usr/bin/env python3
"""Developer regression over the confirmed seeds: applies every /verif/seeded/*/patch.diff to a scratch
worktree (REPO, default /tmp/devrepo, must be at /repo's HEAD) and runs the checker once with all rules.
Prints the seeds on which no rule reports anything.  Expected misses are listed in EXPECTED.
usage: seed_regress.py [id-substring]"""
import glob, os, subprocess, sys, json
from concurrent.futures import ThreadPoolExecutor
REPO = os.environ.get("REPO", "/tmp/devrepo")
BIN = os.environ.get("KLEVLINT", "/verif/bin/klevlint")
EXPECTED = {"C03c-m1", "C10b-m2", "C10c-m2", "C12d-m1", "C15-m1", "C15-m3", "C15e-m1"}
env = dict(os.environ, PATH="/opt/veriftools/go1.26.8/bin:" + os.environ["PATH"], GOFLAGS="-mod=mod", GOPROXY="off", GOSUMDB="off", GOTOOLCHAIN="local")
env.pop("GOWORK", None)
flt = sys.argv[1] if len(sys.argv) > 1 else ""
seeds = sorted(d for d in glob.glob("/verif/seeded/*/") if flt in d and os.path.exists(d + "patch.diff"))
head = subprocess.run(["git", "-C", REPO, "rev-parse", "HEAD"], capture_output=True, text=True).stdout.strip()

def one(args):
    i, d = args
    wt = "/tmp/sr_%d" % (i % 8)
    return d, wt

# eight private worktrees so that seeds run in parallel
wts = []
for i in range(8):
    wt = "/tmp/sr_%d" % i
    subprocess.run(["git", "-C", "/repo", "worktree", "remove", "--force", wt], capture_output=True)
    subprocess.run(["git", "-C", "/repo", "worktree", "add", "-q", "--detach", wt, head], check=True)
    wts.append(wt)

def run(chunk):
    wt, ds = chunk
    out = []
    for d in ds:
        sid = os.path.basename(d.rstrip("/"))
        subprocess.run(["git", "-C", wt, "checkout", "-q", "--", "."], check=True)
        subprocess.run(["git", "-C", wt, "clean", "-fdq"], check=True)
        r = subprocess.run(["git", "-C", wt, "apply", d + "patch.diff"], capture_output=True, text=True)
        if r.returncode != 0:
            out.append((sid, "NOAPPLY", [])); continue
        r = subprocess.run([BIN, "-verif", "/verif", "-repo", wt, "-list", "-p", "all"], env=env, capture_output=True, text=True)
        lines = [l for l in r.stdout.splitlines() if (" violated: " in l or " undecided: " in l) and not l.startswith("    ")]
        rules = sorted(set(l.split(": ", 2)[1].split("[")[0] for l in lines if ": " in l))
        out.append((sid, "caught" if lines else "MISSED", rules))
    return out

chunks = [(wts[i], seeds[i::8]) for i in range(8)]
bad = 0
with ThreadPoolExecutor(max_workers=8) as ex:
    for res in ex.map(run, chunks):
        for sid, st, rules in res:
            if st != "caught" and sid not in EXPECTED:
                print(st, sid); bad += 1
            if st == "caught" and sid in EXPECTED:
                print("NOW CAUGHT (update EXPECTED):", sid, rules)
for wt in wts:
    subprocess.run(["git", "-C", "/repo", "worktree", "remove", "--force", wt], capture_output=True)
print("%d seeds, %d unexpected" % (len(seeds), bad))
sys.exit(1 if bad else 0)
