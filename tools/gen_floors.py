#!/usr/bin/env python3
"""Regenerates lint/spec/floors.json from the instance counts on /repo's current tree.
Policy: a floor guards against a rule passing vacuously because its anchors disappeared.  Rules whose
instances are independent mechanisms keep (almost) their count; rules whose instance count is a
multiplicity of call sites (which a correct de-duplication refactor legitimately reduces) only keep a
non-vacuity floor."""
import json, re, subprocess
over = {"R1": -10, "R2": -3, "R3": -3, "R5": -2, "R7": -2, "R8": -1, "R12": -5, "R16": -3, "R19": -3, "R20": -2, "R25": -2, "R11": -2, "R37": -1}
fixed = {"R4": 5, "R21": 1, "R22": 1, "R23": 1, "R24": 1, "R26": 1, "R27": 1, "R28": 1, "R29": 1, "R33": 1, "R39": 1}
half = {"R17", "R34", "R38"}
out = subprocess.run(["/verif/bin/klevlint", "-verif", "/verif", "-repo", "/repo", "-list", "-p", "all"], capture_output=True, text=True).stdout
floors = {"_comment": "Per rule@property: minimal number of rule instances. Derived by tools/gen_floors.py from the counts on the pinned (repaired) tree: rules whose instances are independent mechanisms keep their count minus a small allowance; rules whose instance count is a multiplicity of call sites (which a correct de-duplication legitimately reduces) keep a non-vacuity floor only. Keyed by rule and property, never by line. A run that finds fewer instances reports undecided."}
for l in out.splitlines():
    m = re.search(r"count (R\d+)@(C\d+) = (\d+)", l)
    if not m:
        continue
    r, p, n = m.group(1), m.group(2), int(m.group(3))
    if r in fixed:
        n = min(n, fixed[r])
    elif r in half:
        n = max(1, n // 2)
    elif r in over:
        n = max(1, n + over[r])
    floors[r + "@" + p] = n
json.dump(floors, open("/verif/lint/spec/floors.json", "w"), indent=1, sort_keys=True)
print(len(floors) - 1, "floors")
