#!/usr/bin/env python3
"""Developer regression: hand-written property-breaking mutants of klevdb (textual), each with the rule that
must flag it.  usage: mutants.py [name-substring].  Needs REPO=/tmp/devrepo and KLEVLINT."""
import os, subprocess, sys, re
REPO = os.environ.get("REPO", "/tmp/devrepo")
BIN = os.environ.get("KLEVLINT", "/verif/bin/klevlint")
env = dict(os.environ, PATH="/opt/veriftools/go1.26.8/bin:" + os.environ["PATH"], GOFLAGS="-mod=mod", GOPROXY="off", GOSUMDB="off", GOTOOLCHAIN="local")
env.pop("GOWORK", None)

M = [
 ("R1", "delete the fsync at roll-over", [("log.go", """		if err := oldWriter.Sync(); err != nil {
			return OffsetInvalid, err
		}
""", "")]),
 ("R1", "SyncAndClose -> Close in Recover", [("pkg/segment/segment.go", "	if err := restore.SyncAndClose(); err != nil {", "	if err := restore.Close(); err != nil {")]),
 ("R1", "Sync returns early for a small head", [("log.go", """	if err := l.writer.Sync(); err != nil {
		return OffsetInvalid, err
	}
	return l.writer.GetNextOffset()""", """	if l.writer.messages.Size() > 64 {
		if err := l.writer.Sync(); err != nil {
			return OffsetInvalid, err
		}
	}
	return l.writer.GetNextOffset()""")]),
 ("R1", "AutoSync block moved above the publish", [("log.go", """	nextOffset, err := l.writer.Publish(msgs)
	if err != nil {
		return OffsetInvalid, err
	}

	if l.opts.AutoSync {
		if err := l.writer.Sync(); err != nil {
			return OffsetInvalid, err
		}
	}
""", """	if l.opts.AutoSync {
		if err := l.writer.Sync(); err != nil {
			return OffsetInvalid, err
		}
	}

	nextOffset, err := l.writer.Publish(msgs)
	if err != nil {
		return OffsetInvalid, err
	}
""")]),
 ("R2", "Override without removing the old index", [("pkg/segment/segment.go", """	if err := os.Remove(news.Index); err != nil && !errors.Is(err, os.ErrNotExist) {
		return fmt.Errorf("override index delete: %w", err)
	}
""", "")]),
 ("R2", "head removed before its successor exists", [("log_writer.go", """		nextOffset, nextTime := w.index.getNext()
		nwrt, err := openWriter(w.segment.NewAt(nextOffset), w.params, w.version, nextTime)
		if err != nil {
			return nil, nil, err
		}

		if err := w.segment.Remove(); err != nil {
			return nil, nil, err
		}
""", """		if err := w.segment.Remove(); err != nil {
			return nil, nil, err
		}

		nextOffset, nextTime := w.index.getNext()
		nwrt, err := openWriter(w.segment.NewAt(nextOffset), w.params, w.version, nextTime)
		if err != nil {
			return nil, nil, err
		}
""")]),
 ("R2", "reader segment removed before the replacement is renamed in", [("log_reader.go", """		if err := rs.Rename(nseg); err != nil {
			return nil, err
		}

		// then delete this segment
		if err := r.segment.Remove(); err != nil {
			return nil, err
		}
""", """		if err := r.segment.Remove(); err != nil {
			return nil, err
		}
		if err := rs.Rename(nseg); err != nil {
			return nil, err
		}
""")]),
 ("R2", "stale migrate temp not removed", [("pkg/segment/segment.go", """	if err := os.Remove(migratedPath); err != nil && !errors.Is(err, os.ErrNotExist) {
		return fmt.Errorf("migrate remove stale temp: %w", err)
	}
""", "")]),
 ("R3", "delete reads l.writer outside the lock", [("log.go", "detected = writerVersion", "_ = writerVersion; detected = l.writer.messages.Version()")]),
 ("R4", "OffsetByKey takes the read lock around GetByKey", [("log.go", """func (l *log) OffsetByKey(key []byte) (int64, error) {
	msg, err := l.GetByKey(key)""", """func (l *log) OffsetByKey(key []byte) (int64, error) {
	l.readersMu.RLock()
	defer l.readersMu.RUnlock()
	msg, err := l.GetByKey(key)""")]),
 ("R5", "in-use increment after the read unlock", [("log_reader.go", """	if msgs := r.messages; msgs != nil {
		r.messagesInuse.Add(1)
		r.messagesMu.RUnlock()
		return msgs, nil
	}""", """	if msgs := r.messages; msgs != nil {
		r.messagesMu.RUnlock()
		r.messagesInuse.Add(1)
		return msgs, nil
	}""")]),
 ("R5", "GC closes without the in-use test", [("log_reader.go", "	if r.messages == nil || r.messagesInuse.Load() > 0 {\n		return nil\n	}\n\n	if err := r.messages.Close(); err != nil {\n		return err\n	}\n	r.messages = nil\n	return nil\n}\n\nfunc (r *reader) Close() error {", "	if r.messages == nil {\n		return nil\n	}\n\n	if err := r.messages.Close(); err != nil {\n		return err\n	}\n	r.messages = nil\n	return nil\n}\n\nfunc (r *reader) Close() error {")]),
 ("R6", "reader.Consume wraps the index error", [("log_reader.go", """	position, maxPosition, nextOffset, err := index.Consume(offset)
	switch {
	case err != nil:
		return OffsetInvalid, nil, err""", """	position, maxPosition, nextOffset, err := index.Consume(offset)
	switch {
	case err != nil:
		return OffsetInvalid, nil, fmt.Errorf("consume: %w", err)""")]),
 ("R7", "ErrOffsetNotFound re-based on ErrInvalidOffset", [("pkg/index/offset.go", 'var ErrOffsetNotFound = fmt.Errorf("%w: offset not found", message.ErrNotFound)', 'var ErrOffsetNotFound = fmt.Errorf("%w: offset not found", message.ErrInvalidOffset)')]),
 ("R7", "relative-offset guard weakened", [("log.go", "	if lowestOffset < 0 {\n		return nil, errDeleteRelative", "	if lowestOffset < -3 {\n		return nil, errDeleteRelative")]),
 ("R7", "time walk sentinel escapes", [("log.go", """		case index.ErrTimeBeforeStart:
			// not in this segment, try the rest
			if i == 0 {
				return rdr.Get(message.OffsetOldest)
			}
""", "")]),
 ("R8", "byte comparison replaced by a length comparison", [("log_reader.go", "		if bytes.Equal(key, msg.Key) {\n			return msg, nil\n		}", "		if len(key) == len(msg.Key) {\n			return msg, nil\n		}")]),
 ("R8", "segments walked oldest-first", [("log.go", "	for i := len(l.readers) - 1; i >= 0; i-- {\n		rdr := l.readers[i]\n\n		switch msg, err := rdr.GetByKey", "	for i := 0; i < len(l.readers); i++ {\n		rdr := l.readers[i]\n\n		switch msg, err := rdr.GetByKey")]),
 ("R8", "key tree only updated for batches > 1", [("log_writer.go", "	if ix.keys != nil {\n		index.AppendKeys(ix.keys, items)\n	}", "	if ix.keys != nil && len(items) > 1 {\n		index.AppendKeys(ix.keys, items)\n	}")]),
 ("R9", "CRC coverage changed on both sides", [("pkg/message/format.go", "	crc := crc32.Checksum(w.buff[4:], crc32cTable)\n	binary.BigEndian.PutUint32(w.buff[0:], crc)", "	crc := crc32.Checksum(w.buff[28:], crc32cTable)\n	binary.BigEndian.PutUint32(w.buff[0:], crc)"), ("pkg/message/format.go", "	actualCRC := crc32.Checksum(payload, crc32cTable)", "	actualCRC := crc32.Checksum(payload[headerPayloadSize:], crc32cTable)")]),
 ("R9", "trailer constant changed", [("pkg/message/format.go", "const trailerMagic uint64 = 0xDEADBEEFFEEDFACE", "const trailerMagic uint64 = 0xDEADBEEFFEEDFACF")]),
 ("R9", "Size uses 32", [("pkg/message/format.go", "		return int64(fixedSize + len(m.Key) + len(m.Value))", "		return int64(32 + len(m.Key) + len(m.Value))")]),
 ("R9", "full item: timestamp and key hash swapped on both sides", [("pkg/index/format.go", "	binary.BigEndian.PutUint64(w.buff[16:], uint64(it.Timestamp))\n	binary.BigEndian.PutUint64(w.buff[24:], it.KeyHash)", "	binary.BigEndian.PutUint64(w.buff[24:], uint64(it.Timestamp))\n	binary.BigEndian.PutUint64(w.buff[16:], it.KeyHash)"), ("pkg/index/format.go", "			items[i].Timestamp = int64(binary.BigEndian.Uint64(data[pos+16:]))\n			items[i].KeyHash = binary.BigEndian.Uint64(data[pos+24:])", "			items[i].Timestamp = int64(binary.BigEndian.Uint64(data[pos+24:]))\n			items[i].KeyHash = binary.BigEndian.Uint64(data[pos+16:])")]),
 ("R9", "index magic changed", [("pkg/index/format.go", "var magic = [6]byte{0xFF, 'k', 'l', 'e', 'v', 'i'}", "var magic = [6]byte{0xFE, 'k', 'l', 'e', 'v', 'i'}")]),
 ("R10", "size bound removed in V1", [("pkg/message/format.go", "	if int(keySize)+int(valueSize) > maxMessageBodySize {\n		return -1, errInvalidHeader\n	}\n	position += v1HeaderSize", "	position += v1HeaderSize")]),
 ("R10", "trailer only checked for keyed messages", [("pkg/message/format.go", "	if !bytes.Equal(payload[trailerOff:], trailerMagicData) {", "	if !bytes.Equal(payload[trailerOff:], trailerMagicData) && keySize > 0 {")]),
 ("R10", "CRC mismatch tolerated for zero CRC", [("pkg/message/format.go", "	if expectedCRC != actualCRC {\n		return -1, errCrcFailed\n	}\n\n	// Verify trailer", "	if expectedCRC != actualCRC && expectedCRC != 0 {\n		return -1, errCrcFailed\n	}\n\n	// Verify trailer")]),
 ("R10", "empty consume result indexed", [("log_reader.go", "	if len(msgs) == 0 {\n		// the index points to a message, but the log ends before it\n		return OffsetInvalid, nil, fmt.Errorf(\"%w: indexed message is missing\", message.ErrCorrupted)\n	}\n", "")]),
 ("R11", "migrate skips empty messages", [("pkg/segment/segment.go", "		migratedPosition, err := migratedLog.Write(msg)", "		if len(msg.Value) == 0 && len(msg.Key) == 0 {\n			oldPosition = nextOldPosition\n			continue\n		}\n		migratedPosition, err := migratedLog.Write(msg)")]),
 ("R11", "rewrite indexes source positions", [("pkg/segment/segment.go", "			item := params.NewItem(msg, dstPosition, indexTime)", "			_ = dstPosition\n			item := params.NewItem(msg, srcPosition, indexTime)")]),
 ("R11", "rewrite truncates the time", [("pkg/segment/segment.go", "			dstPosition, err := dstLog.Write(msg)", "			msg.Time = msg.Time.Truncate(1000)\n			dstPosition, err := dstLog.Write(msg)")]),
 ("R12", "Backup cleans temp files in the source", [("pkg/segment/segment.go", "	if err := s.syncDir(); err != nil {\n		return fmt.Errorf(\"backup sync dir: %w\", err)\n	}", "	_ = os.Remove(s.Log + \".recover\")\n	if err := s.syncDir(); err != nil {\n		return fmt.Errorf(\"backup sync dir: %w\", err)\n	}")]),
 ("R13", "recover temp named *.log", [("pkg/segment/segment.go", 'restorePath := s.Log + ".recover"', 'restorePath := s.Log + ".recover.log"')]),
 ("R13", "unpadded segment names", [("pkg/segment/segment.go", '		Log:   filepath.Join(dir, fmt.Sprintf("%020d.log", offset)),', '		Log:   filepath.Join(dir, fmt.Sprintf("%d.log", offset)),')]),
 ("R14", "probe only before taking the token", [("pkg/notify/notify.go", "	// probe the current offset\n	updated := w.nextOffset.Load() > offset\n\n	// release current barrier\n	w.barrier <- b\n", "	// release current barrier\n	w.barrier <- b\n	updated := false\n")]),
 ("R14", "Set returns without giving the token back", [("pkg/notify/notify.go", "	// set the new offset\n	if w.nextOffset.Load() < nextOffset {\n		w.nextOffset.Store(nextOffset)\n	}\n", "	// set the new offset\n	if w.nextOffset.Load() >= nextOffset {\n		return\n	}\n	w.nextOffset.Store(nextOffset)\n")]),
 ("R15", "shared lock in both modes", [("log.go", "		switch ok, err := lock.TryLock(); {", "		switch ok, err := lock.TryRLock(); {")]),
 ("R16", "Segment.Remove intolerant again", [("pkg/segment/segment.go", "	if err := os.Remove(s.Index); err != nil && !errors.Is(err, os.ErrNotExist) {\n		return fmt.Errorf(\"remove index delete: %w\", err)", "	if err := os.Remove(s.Index); err != nil {\n		return fmt.Errorf(\"remove index delete: %w\", err)")]),
 ("R17", "empty successor named after the old base", [("log_writer.go", "		nwrt, err := openWriter(w.segment.NewAt(nextOffset), w.params, w.version, nextTime)", "		_ = nextOffset\n		nwrt, err := openWriter(w.segment.NewAt(w.segment.Offset), w.params, w.version, nextTime)")]),
 ("R17", "caller's offset kept when set", [("log_writer.go", "		msgs[i].Offset = nextOffset + int64(i)", "		if msgs[i].Offset <= 0 {\n			msgs[i].Offset = nextOffset + int64(i)\n		}")]),
 ("R18", "snapshot re-validation deleted", [("log_writer.go", "	if len(rs.SurviveOffsets)+len(rs.DeletedMessages) != w.index.Len() {\n		// the number of messages changed, nothing to drop\n		if err := rs.Remove(); err != nil {\n			return nil, nil, err\n		}\n		return nil, nil, errSegmentChanged\n	}\n", "")]),
 ("R20", "old head closed before the swap", [("log.go", "		l.readersMu.Lock()\n\n		l.readers[len(l.readers)-1] = oldReader\n		l.writer = newWriter\n		l.readers = append(l.readers, newWriter.reader)\n\n		l.readersMu.Unlock()\n\n		if err := oldWriter.Close(); err != nil {\n			return OffsetInvalid, err\n		}", "		if err := oldWriter.Close(); err != nil {\n			return OffsetInvalid, err\n		}\n\n		l.readersMu.Lock()\n\n		l.readers[len(l.readers)-1] = oldReader\n		l.writer = newWriter\n		l.readers = append(l.readers, newWriter.reader)\n\n		l.readersMu.Unlock()\n")]),
 ("R21", "unbounded rewrite of the head", [("log.go", "rs, err := rdr.segment.RewriteLimit(writerSize, offsets, l.params, mversion, iversion)", "_ = writerSize\n	rs, err := rdr.segment.Rewrite(offsets, l.params, mversion, iversion)")]),
 ("R37", "FindByOffset: > instead of >=", [("trim_offset.go", "			if msg.Offset >= before {", "			if msg.Offset > before {")]),
 ("R37", "FindByAge: cut-off test dropped", [("trim_age.go", """			if msg.Time.After(before) {
				break SEARCH
			}

			offsets[msg.Offset] = struct{}{}""", """			if msg.Time.IsZero() {
				break SEARCH
			}

			offsets[msg.Offset] = struct{}{}""")]),
 ("R37", "FindUpdates: tree keyed by a key prefix", [("compact_updates.go", "keyOffset.Insert(msg.Key, msg.Offset)", "keyOffset.Insert(msg.Key[:min(len(msg.Key), 8)], msg.Offset)")]),
 ("R37", "FindUpdates: newer messages enter the tree", [("compact_updates.go", """			if msg.Time.After(before) {
				break SEARCH
			}

			if prevMsgOffset, ok := keyOffset.Insert(msg.Key, msg.Offset); ok {
				offsets[prevMsgOffset.(int64)] = struct{}{}
			}""", """			if msg.Time.IsZero() {
				break SEARCH
			}

			if prevMsgOffset, ok := keyOffset.Insert(msg.Key, msg.Offset); ok && !msg.Time.After(before) {
				offsets[prevMsgOffset.(int64)] = struct{}{}
			}""")]),
 ("R37", "FindDeletes: seen-before test dropped", [("compact_deletes.go", """			if _, ok := keyOffset.Search(msg.Key); ok {
				continue
			}
""", "")]),
 ("R37", "FindDeletes: value test dropped", [("compact_deletes.go", """			if msg.Value == nil {
				offsets[msg.Offset] = struct{}{}
			}""", """			offsets[msg.Offset] = struct{}{}""")]),
 ("R37", "FindByCount: cursor skips one offset per batch", [("trim_count.go", "		offset = nextOffset\n", "		offset = nextOffset + 1\n")]),
 ("R38", "TrimByOffset ignores the finder's error", [("trim_offset.go", """func TrimByOffset(ctx context.Context, l Log, before int64) ([]Message, int64, error) {
	offsets, err := FindByOffset(ctx, l, before)
	if err != nil {
		return nil, 0, err
	}
	return l.Delete(offsets)""", """func TrimByOffset(ctx context.Context, l Log, before int64) ([]Message, int64, error) {
	offsets, _ := FindByOffset(ctx, l, before)
	return l.Delete(offsets)""")]),
 ("R38", "TrimBySize also drops the message after the selection", [("trim_size.go", """func TrimBySize(ctx context.Context, l Log, sz int64) ([]Message, int64, error) {
	offsets, err := FindBySize(ctx, l, sz)
	if err != nil {
		return nil, 0, err
	}""", """func TrimBySize(ctx context.Context, l Log, sz int64) ([]Message, int64, error) {
	offsets, err := FindBySize(ctx, l, sz)
	if err != nil {
		return nil, 0, err
	}
	offsets[int64(len(offsets))] = struct{}{}""")]),
 ("R38", "DeleteMulti widens the set", [("delete.go", """		for _, msg := range deleted {
			delete(remainingOffsets, msg.Offset)
		}
""", """		for _, msg := range deleted {
			delete(remainingOffsets, msg.Offset)
			remainingOffsets[msg.Offset+1] = struct{}{}
		}
""")]),
]

def main():
    flt = sys.argv[1] if len(sys.argv) > 1 else ""
    bad = 0
    for rule, name, edits in M:
        if flt not in name and flt != rule:
            continue
        subprocess.run(["git", "-C", REPO, "checkout", "-q", "--", "."], check=True)
        ok = True
        for f, old, new in edits:
            p = os.path.join(REPO, f)
            s = open(p).read()
            if old not in s:
                print("PATTERN NOT FOUND:", name, f); ok = False; break
            open(p, "w").write(s.replace(old, new, 1))
        if not ok:
            bad += 1; continue
        r = subprocess.run(["go", "build", "./..."], cwd=REPO, env=env, capture_output=True, text=True)
        if r.returncode != 0:
            print("DOES NOT COMPILE:", name, r.stderr[-300:]); bad += 1; continue
        r = subprocess.run([BIN, "-verif", "/verif", "-repo", REPO, "-list", "-p", "all"], env=env, capture_output=True, text=True)
        rules = sorted(set(re.findall(r": (R\d+)\[", "\n".join(l for l in r.stdout.splitlines() if (" violated: " in l or " undecided: " in l) and not l.startswith("    ")))))
        hit = rule in rules
        print(("flagged  " if hit else "MISSED   ") + "%-4s %-60s -> %s" % (rule, name, ",".join(rules)))
        bad += 0 if hit else 1
    subprocess.run(["git", "-C", REPO, "checkout", "-q", "--", "."], check=True)
    print("%d problem(s) of %d" % (bad, len(M)))
    return 1 if bad else 0
sys.exit(main())
