#!/usr/bin/env python3
"""Prints the prompt given to a fresh sub-agent that seeds a property-breaking change.
The agent gets the property text and a scratch worktree only — nothing from /verif."""
import json, sys
pid = sys.argv[1]
n = int(sys.argv[2]) if len(sys.argv) > 2 else 2
avoid = sys.argv[3:]  # titles of changes already collected, to be avoided
p = {json.loads(l)["id"]: json.loads(l) for l in open("/verif/properties.jsonl")}[pid]
print(f"""You are helping test a verification effort for the Go library klev-dev/klevdb (an embedded single-partition append-only message log: segment rollover, CRC-framed records, offset/time/key indexes, delete-by-rewrite, recovery, trim/compaction helpers).

Your scratch copy of the repository is the git worktree at /tmp/seed/{pid} (work ONLY there; never touch /repo or /verif, and do not read anything under /verif). Every shell command must start with:
  export PATH=/opt/veriftools/go1.26.8/bin:$PATH GOFLAGS=-mod=mod GOPROXY=off GOSUMDB=off GOTOOLCHAIN=local; unset GOWORK
(the sandbox has no network; the default `go` is too old for this module). The existing test suite runs with: cd /tmp/seed/{pid} && go test -vet=off -count=1 ./...   (about 10 s).

Here is a semantic property the library is supposed to satisfy:

  {pid} — {p['title']}
  Statement: {p['statement']}
  Quantified over: {p['quantifier']['text']}

TASK. Produce {n} independent, realistic changes ("seeded defects") to the library's non-test source, each of which BREAKS this property while the code STILL COMPILES and the EXISTING TEST SUITE STILL PASSES (all packages). Think of the kind of mistake a maintainer could plausibly make in a refactor, optimisation or well-meant "simplification" — a few lines, not sabotage. Prefer changes that need something specific to manifest: a particular interleaving, a crash or power loss at a particular point, a multi-step sequence of operations, an unusual input, or two cooperating sites that each look fine alone — NOT changes that ordinary use would expose at once. The {n} changes must use different mechanisms / different places in the code.

For each change i = 1..{n}:
 1. Start from a clean worktree (git -C /tmp/seed/{pid} checkout -- . && git -C /tmp/seed/{pid} clean -fdq).
 2. Make the change. Run the full existing suite at least twice; it must pass (if TestConcurrent is flaky on the unchanged tree too, say so, but do not rely on it).
 3. Write a demonstration: a Go test file (package klevdb_test or the relevant package; name it zz_demo_test.go) or small program that FAILS with your change and PASSES without it. For crash/power-loss properties you may simulate the crash in the demo (e.g. copy the directory at the chosen point, truncate files back to their last fsynced length as tracked by your demo, remove/keep files) — explain the simulation. For schedule-dependent ones the demo may use the race detector (go test -race) or a stress loop, but it must fail reliably (say how often) with the change and pass without it.
 4. Verify both directions yourself (with the change: demo fails, suite passes; without: demo passes).
 5. Save into /tmp/seedout/{pid}/m<i>/ : patch.diff (output of `git diff` for the non-test source change ONLY, applicable with `git apply` at the repository root), the demonstration file(s), and meta.json with keys: property ("{pid}"), title (one line), what_it_breaks, needs_to_manifest (what specific input/schedule/crash point/sequence is needed), demo_cmd (exact command run from the repository root after copying the demo file there), suite_passes (true/false), demo_fails_with_change (true/false), demo_passes_without_change (true/false), files_changed.
 6. Restore the worktree to clean.

{("ALREADY COLLECTED — do NOT produce these or close variants of them (same site or same mechanism); find different places and mechanisms:" + chr(10) + chr(10).join("  - " + a for a in avoid) + chr(10) + chr(10)) if avoid else ""}Do not modify or delete existing tests. Do not add build tags. Keep each patch small. When done, reply with a short summary: for each change, its title, files touched, and the verification results.""")
