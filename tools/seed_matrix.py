#!/usr/bin/env python3
"""Rebuilds the seeded-change matrix in DESIGN.md from /verif/seeded/*/meta.json and seeded/first_run.json."""
import json, glob, os, re
rows = []
first = {}
if os.path.exists("/verif/seeded/first_run.json"):
    first = json.load(open("/verif/seeded/first_run.json"))
for d in sorted(glob.glob("/verif/seeded/*/")):
    sid = os.path.basename(d.rstrip("/"))
    mp = os.path.join(d, "meta.json")
    if not os.path.exists(mp):
        continue
    m = json.load(open(mp))
    v = m.get("verified_by_me", {})
    fired = v.get("checks_fired", {})
    rules = set()
    for pid, info in fired.items():
        for dline in info.get("diagnostics", []):
            mm = re.search(r": (R\d+)\[([^\]:]+)", dline)
            if mm:
                rules.add(mm.group(1) + " " + mm.group(2))
    now = "caught by " + ", ".join(sorted(fired)) if fired else "**missed**"
    title = m.get("title", "").replace("|", "/")
    if len(title) > 110:
        title = title[:107] + "..."
    needs = m.get("needs_to_manifest", "").replace("|", "/").replace("\n", " ")
    if len(needs) > 140:
        needs = needs[:137] + "..."
    rows.append("| %s | %s | %s | %s | %s | %s |" % (sid, m.get("property"), title, needs, first.get(sid, "—"), now + (" (" + "; ".join(sorted(rules)) + ")" if rules else "")))
table = "| seed | property | change | needs to manifest | first run | now |\n|---|---|---|---|---|---|\n" + "\n".join(rows) + "\n"
caught = sum(1 for r in rows if "**missed**" not in r)
table += "\n%d of %d confirmed seeded changes are caught by at least one registered check.\n" % (caught, len(rows))
p = "/verif/DESIGN.md"
s = open(p).read()
a = s.index("<!-- SEED-MATRIX-BEGIN -->") + len("<!-- SEED-MATRIX-BEGIN -->")
b = s.index("<!-- SEED-MATRIX-END -->")
open(p, "w").write(s[:a] + "\n" + table + s[b:])
print(caught, "of", len(rows))
