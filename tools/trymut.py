#!/usr/bin/env python3
"""Developer helper: apply a textual mutation to /repo, run klevlint, restore.
usage: trymut.py <rule or prop> <file> <old> <new> [<file> <old> <new> ...]
Builds first (go build ./...) to make sure the mutant compiles."""
import subprocess, sys, os
REPO = os.environ.get("REPO", "/repo")
env = dict(os.environ, PATH="/opt/veriftools/go1.26.8/bin:" + os.environ["PATH"], GOFLAGS="-mod=mod", GOPROXY="off", GOSUMDB="off", GOTOOLCHAIN="local")
env.pop("GOWORK", None)
what = sys.argv[1]
args = sys.argv[2:]
try:
    for i in range(0, len(args), 3):
        f, old, new = args[i], args[i+1], args[i+2]
        p = os.path.join(REPO, f)
        s = open(p).read()
        if old not in s:
            print("PATTERN NOT FOUND in", f); sys.exit(3)
        open(p, "w").write(s.replace(old, new, 1))
    r = subprocess.run(["go", "build", "./..."], cwd=REPO, env=env, capture_output=True, text=True)
    if r.returncode != 0:
        print("MUTANT DOES NOT COMPILE\n", r.stderr); sys.exit(4)
    binp = os.environ.get("KLEVLINT", "/tmp/klevlint")
    flag = "-rule" if what.startswith("R") else "-p"
    r = subprocess.run([binp, "-verif", "/verif", "-repo", REPO, "-list", flag, what], env=env, capture_output=True, text=True)
    out = [l for l in r.stdout.splitlines() if "discharged" not in l and not l.startswith("    ") or "violated" in l or "undecided" in l]
    print("\n".join(out)); print(r.stderr[-2000:])
finally:
    subprocess.run(["git", "-C", REPO, "checkout", "--", "."])
