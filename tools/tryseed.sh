#!/bin/sh
# developer helper: apply a seeded patch to the dev worktree (/tmp/devrepo), run klevlint on all rules, restore
# usage: tryseed.sh <patch.diff>
R=${REPO:-/tmp/devrepo}
git -C $R checkout -q -- . && git -C $R apply "$1" || exit 3
${KLEVLINT:-/tmp/klevlint} -verif /verif -repo $R -list -p all | grep -E "violated|undecided" | grep -v "^    " | cut -c1-${W:-260}
git -C $R checkout -q -- .
