#!/usr/bin/env python3
"""Developer regression: behaviour-preserving refactorings of klevdb (hand-written, textual) applied to a
scratch worktree; the checker must stay silent on every one.  usage: benign.py [name-substring]
Needs REPO=/tmp/devrepo (a git worktree of /repo) and KLEVLINT (default /verif/bin/klevlint)."""
import os, subprocess, sys
REPO = os.environ.get("REPO", "/tmp/devrepo")
BIN = os.environ.get("KLEVLINT", "/verif/bin/klevlint")
env = dict(os.environ, PATH="/opt/veriftools/go1.26.8/bin:" + os.environ["PATH"], GOFLAGS="-mod=mod", GOPROXY="off", GOSUMDB="off", GOTOOLCHAIN="local")
env.pop("GOWORK", None)

CASES = [
 ("extract syncHead helper", [("log.go", """		oldWriter := l.writer
		if err := oldWriter.Sync(); err != nil {
			return OffsetInvalid, err
		}""", """		oldWriter := l.writer
		if err := l.syncHead(oldWriter); err != nil {
			return OffsetInvalid, err
		}"""), ("log.go", "func (l *log) NextOffset() (int64, error) {", """func (l *log) syncHead(w *writer) error {
	return w.Sync()
}

func (l *log) NextOffset() (int64, error) {""")]),
 ("TryLock switch to if", [("log.go", """		switch ok, err := lock.TryLock(); {
		case err != nil:
			return nil, fmt.Errorf("open lock: %w", err)
		case !ok:
			return nil, fmt.Errorf("open already locked")
		}""", """		ok, err := lock.TryLock()
		if err != nil {
			return nil, fmt.Errorf("open lock: %w", err)
		}
		if !ok {
			return nil, fmt.Errorf("open already locked")
		}""")]),
 ("GetByKey continue form, swapped Equal args", [("log_reader.go", """		if bytes.Equal(key, msg.Key) {
			return msg, nil
		}
	}

	return message.Invalid, index.ErrKeyNotFound""", """		if !bytes.Equal(msg.Key, key) {
			continue
		}
		return msg, nil
	}

	return message.Invalid, index.ErrKeyNotFound""")]),
 ("rewrite loop: inverted membership test", [("pkg/segment/segment.go", """		if _, ok := dropOffsets[msg.Offset]; ok {
			dst.DeletedMessages = append(dst.DeletedMessages, msg)
			dst.DeletedSize += message.Size(msg, srcVersion) + params.Size()
		} else {""", """		if _, drop := dropOffsets[msg.Offset]; !drop {"""), ("pkg/segment/segment.go", """			indexTime = item.Timestamp
		}

		srcPosition = nextSrcPosition""", """			indexTime = item.Timestamp
		} else {
			dst.DeletedMessages = append(dst.DeletedMessages, msg)
			dst.DeletedSize += message.Size(msg, srcVersion) + params.Size()
		}

		srcPosition = nextSrcPosition""")]),
 ("deferred closure release", [("log_reader.go", """	defer r.messagesInuse.Add(-1)

	return messages.Get(position)
}

func (r *reader) GetByKey""", """	defer func() { r.messagesInuse.Add(-1) }()

	return messages.Get(position)
}

func (r *reader) GetByKey""")]),
 ("fsync through a helper taking the file", [("pkg/message/format.go", """func (w *Writer) Sync() error {
	if err := w.f.Sync(); err != nil {""", """func fsyncFile(f *os.File) error { return f.Sync() }

func (w *Writer) Sync() error {
	if err := fsyncFile(w.f); err != nil {""")]),
 ("swapHead helper", [("log.go", """		l.readersMu.Lock()

		l.readers[len(l.readers)-1] = oldReader
		l.writer = newWriter
		l.readers = append(l.readers, newWriter.reader)

		l.readersMu.Unlock()
""", """		l.swapHead(oldReader, newWriter)
"""), ("log.go", "func (l *log) NextOffset() (int64, error) {", """func (l *log) swapHead(oldReader *reader, newWriter *writer) {
	l.readersMu.Lock()
	defer l.readersMu.Unlock()

	l.readers[len(l.readers)-1] = oldReader
	l.writer = newWriter
	l.readers = append(l.readers, newWriter.reader)
}

func (l *log) NextOffset() (int64, error) {""")]),
 ("GetByKey switch to errors.Is chain", [("log.go", """		switch msg, err := rdr.GetByKey(key, hash, tctx); err {
		case nil:
			return msg, nil
		case index.ErrKeyNotFound:
			// not in this segment, try the rest
		default:
			return message.Invalid, err
		}""", """		msg, err := rdr.GetByKey(key, hash, tctx)
		if err == nil {
			return msg, nil
		}
		if !errors.Is(err, index.ErrKeyNotFound) {
			return message.Invalid, err
		}""")]),
 ("Check loop nested-if form", [("pkg/segment/segment.go", """		msg, nextPosition, err := log.Read(position)
		if errors.Is(err, io.EOF) {
			break
		} else if err != nil {
			return err
		}

		item := params.NewItem(msg, position, indexTime)
		checkIndex = append(checkIndex, item)""", """		msg, nextPosition, err := log.Read(position)
		if err != nil {
			if errors.Is(err, io.EOF) {
				break
			}
			return err
		}

		item := params.NewItem(msg, position, indexTime)
		checkIndex = append(checkIndex, item)""")]),
 ("getMessages single-lock version", [("log_reader.go", """	r.messagesMu.RLock()
	if msgs := r.messages; msgs != nil {
		r.messagesInuse.Add(1)
		r.messagesMu.RUnlock()
		return msgs, nil
	}
	r.messagesMu.RUnlock()

	r.messagesMu.Lock()""", """	r.messagesMu.Lock()""")]),
 ("writer.Sync swapped order", [("log_writer.go", """	if err := w.messages.Sync(); err != nil {
		return err
	}
	if err := w.items.Sync(); err != nil {
		return err
	}
	return nil""", """	if err := w.items.Sync(); err != nil {
		return err
	}
	return w.messages.Sync()""")]),
 ("Publish AutoSync early return", [("log.go", """	if l.opts.AutoSync {
		if err := l.writer.Sync(); err != nil {
			return OffsetInvalid, err
		}
	}

	return nextOffset, nil""", """	if !l.opts.AutoSync {
		return nextOffset, nil
	}
	if err := l.writer.Sync(); err != nil {
		return OffsetInvalid, err
	}
	return nextOffset, nil""")]),
 ("removeIfExists helper", [("pkg/segment/segment.go", """func (s Segment) Remove() error {
	if err := os.Remove(s.Index); err != nil && !errors.Is(err, os.ErrNotExist) {
		return fmt.Errorf("remove index delete: %w", err)
	}""", """func removeIfExists(path string) error {
	if err := os.Remove(path); err != nil && !errors.Is(err, os.ErrNotExist) {
		return err
	}
	return nil
}

func (s Segment) Remove() error {
	if err := removeIfExists(s.Index); err != nil {
		return fmt.Errorf("remove index delete: %w", err)
	}""")]),
 ("notify.Set flipped comparison", [("pkg/notify/notify.go", "	if w.nextOffset.Load() < nextOffset {", "	if nextOffset > w.nextOffset.Load() {")]),
 ("notify.Wait without quick path", [("pkg/notify/notify.go", """	// quick path, just load and check
	if w.nextOffset.Load() > offset {
		return nil
	}
""", "")]),
 ("segment name by concatenation", [("pkg/segment/segment.go", """		Log:   filepath.Join(dir, fmt.Sprintf("%020d.log", offset)),
		Index: filepath.Join(dir, fmt.Sprintf("%020d.index", offset)),""", """		Log:   filepath.Join(dir, fmt.Sprintf("%020d", offset)+".log"),
		Index: filepath.Join(dir, fmt.Sprintf("%020d", offset)+".index"),""")]),
 ("Override via renameBoth helper", [("pkg/segment/segment.go", """	if err := os.Rename(olds.Log, news.Log); err != nil {
		return fmt.Errorf("override log rename: %w", err)
	}
	if err := os.Rename(olds.Index, news.Index); err != nil {
		return fmt.Errorf("override index rename: %w", err)
	}""", """	if err := olds.renameBoth(news); err != nil {
		return err
	}"""), ("pkg/segment/segment.go", "func (s Segment) Remove() error {", """func (olds Segment) renameBoth(news Segment) error {
	if err := os.Rename(olds.Log, news.Log); err != nil {
		return fmt.Errorf("override log rename: %w", err)
	}
	if err := os.Rename(olds.Index, news.Index); err != nil {
		return fmt.Errorf("override index rename: %w", err)
	}
	return nil
}

func (s Segment) Remove() error {""")]),
 ("reader.Consume guard as switch", [("log_reader.go", """	if len(msgs) == 0 {
		// the index points to a message, but the log ends before it
		return OffsetInvalid, nil, fmt.Errorf("%w: indexed message is missing", message.ErrCorrupted)
	}
	return msgs[len(msgs)-1].Offset + 1, msgs, nil""", """	switch n := len(msgs); n {
	case 0:
		return OffsetInvalid, nil, fmt.Errorf("%w: indexed message is missing", message.ErrCorrupted)
	default:
		return msgs[n-1].Offset + 1, msgs, nil
	}""")]),
 ("next-offset stored from first item + len", [("log_writer.go", "		ix.nextOffset.Store(items[ln-1].Offset + 1)", "		ix.nextOffset.Store(items[0].Offset + int64(ln))")]),
 ("blocking publish: Set only for non-empty batches", [("log_blocking.go", """	l.notify.Set(nextOffset)
	return nextOffset, nil""", """	if len(messages) > 0 {
		l.notify.Set(nextOffset)
	}
	return nextOffset, nil""")]),
 ("InitialPosition with default clause", [("pkg/message/format.go", """	switch r.v {
	case V1:
		return 0
	case V2:
		return int64(HeaderSize)
	default:
		panic(fmt.Sprintf("unknown version: %v", r.v))
	}""", """	switch r.v {
	case V2:
		return int64(HeaderSize)
	default:
		return 0
	}""")]),
 ("writer.Delete: duplicated tails merged correctly", [("log_writer.go", """	nseg := rs.GetNewSegment()
	if nseg != w.segment {
		// the starting offset of the new segment is different
		if err := rs.Rename(nseg); err != nil {
			return nil, nil, err
		}

		if err := w.segment.Remove(); err != nil {
			return nil, nil, err
		}

		// first move the replacement
		nextOffset, nextTime := w.index.getNext()
		if rs.DeletedMessages[len(rs.DeletedMessages)-1].Offset == w.index.getLastOffset() {
			rdr := openReader(nseg, w.params, w.version, false)
			wrt, err := openWriter(w.segment.NewAt(nextOffset), w.params, w.version, nextTime)
			return wrt, rdr, err
		} else {
			wrt, err := openWriter(nseg, w.params, w.version, nextTime)
			return wrt, nil, err
		}
	}

	if err := rs.Override(w.segment); err != nil {
		return nil, nil, err
	}

	nextOffset, nextTime := w.index.getNext()
	if rs.DeletedMessages[len(rs.DeletedMessages)-1].Offset == w.index.getLastOffset() {
		rdr := openReader(w.segment, w.params, w.version, false)
		wrt, err := openWriter(w.segment.NewAt(nextOffset), w.params, w.version, nextTime)
		return wrt, rdr, err
	} else {
		wrt, err := openWriter(w.segment, w.params, w.version, nextTime)
		return wrt, nil, err
	}
}""", """	nseg := rs.GetNewSegment()
	if nseg != w.segment {
		// the starting offset of the new segment is different, first move the replacement
		if err := rs.Rename(nseg); err != nil {
			return nil, nil, err
		}
		if err := w.segment.Remove(); err != nil {
			return nil, nil, err
		}
	} else if err := rs.Override(w.segment); err != nil {
		return nil, nil, err
	}

	nextOffset, nextTime := w.index.getNext()
	if rs.DeletedMessages[len(rs.DeletedMessages)-1].Offset == w.index.getLastOffset() {
		rdr := openReader(nseg, w.params, w.version, false)
		wrt, err := openWriter(w.segment.NewAt(nextOffset), w.params, w.version, nextTime)
		return wrt, rdr, err
	}
	wrt, err := openWriter(nseg, w.params, w.version, nextTime)
	return wrt, nil, err
}""")]),
 ("DeleteMultiOffsets implemented on top of DeleteMulti", [("delete.go", """	var remainingOffsets = maps.Clone(offsets)
	var deletedOffsets = map[int64]struct{}{}
	var deletedSize int64

	for len(remainingOffsets) > 0 {
		deleted, size, err := l.Delete(remainingOffsets)
		switch {
		case err != nil:
			return deletedOffsets, deletedSize, err
		case len(deleted) == 0:
			return deletedOffsets, deletedSize, nil
		}

		deletedSize += size
		for _, msg := range deleted {
			deletedOffsets[msg.Offset] = struct{}{}
			delete(remainingOffsets, msg.Offset)
		}

		if err := backoff(ctx); err != nil {
			return deletedOffsets, deletedSize, err
		}
	}

	return deletedOffsets, deletedSize, nil""", """	msgs, deletedSize, err := DeleteMulti(ctx, l, offsets, backoff)
	var deletedOffsets = map[int64]struct{}{}
	for _, msg := range msgs {
		deletedOffsets[msg.Offset] = struct{}{}
	}
	return deletedOffsets, deletedSize, err""")]),
 ("publish: time default through a local and a helper", [("log_writer.go", """		if msgs[i].Time.IsZero() {
			msgs[i].Time = time.Now().UTC()
		}
""", """		msgs[i].Time = defaultTime(msgs[i].Time)
"""), ("log_writer.go", "func (w *writer) ReopenReader() (*reader, int64, int64) {", """func defaultTime(t time.Time) time.Time {
	if t.IsZero() {
		return time.Now().UTC()
	}
	return t
}

func (w *writer) ReopenReader() (*reader, int64, int64) {""")]),
 ("publish: index item written through a helper, append through a local", [("log_writer.go", """		if err := w.items.Write(items[i]); err != nil {
			return OffsetInvalid, err
		}
		indexTime = items[i].Timestamp
	}

	return w.index.append(items), nil""", """		if err := w.writeItem(items[i]); err != nil {
			return OffsetInvalid, err
		}
		indexTime = items[i].Timestamp
	}

	next := w.index.append(items)
	return next, nil"""), ("log_writer.go", "func (w *writer) ReopenReader() (*reader, int64, int64) {", """func (w *writer) writeItem(it index.Item) error {
	return w.items.Write(it)
}

func (w *writer) ReopenReader() (*reader, int64, int64) {""")]),
 ("recover: early exit when the log is intact, != 0 remainder test", [("pkg/segment/segment.go", """	if corrupted {
		if err := os.Rename(restore.Path, log.Path); err != nil {
			return fmt.Errorf("restore log rename: %w", err)
		}
	} else {
		if err := os.Remove(restore.Path); err != nil {
			return fmt.Errorf("restore log delete: %w", err)
		}
	}
""", """	if !corrupted {
		if err := os.Remove(restore.Path); err != nil {
			return fmt.Errorf("restore log delete: %w", err)
		}
	} else if err := os.Rename(restore.Path, log.Path); err != nil {
		return fmt.Errorf("restore log rename: %w", err)
	}
"""), ("pkg/index/format.go", """	if dataSize%itemSize > 0 {
		return nil, errIndexSize
	}""", """	if rest := dataSize % itemSize; rest != 0 {
		return nil, errIndexSize
	}""")]),
 ("GetByTime: errors.Is chain instead of switch", [("log.go", """		switch msg, err := rdr.GetByTime(ts, tctx); err {
		case nil:
			if i == 0 || msg.Time.UnixMicro() != ts {
				return msg, nil
			}
			// exact match, but the segment before can end with messages of that same time
			found, exact = msg, true
		case index.ErrTimeIndexEmpty:
			// only the head can be empty, the segment before it is the last one with messages
			if i == 0 {
				return message.Invalid, err
			}
			readers = readers[:i]
		case index.ErrTimeBeforeStart:
			// not in this segment, try the rest
			if i == 0 {
				return rdr.Get(message.OffsetOldest)
			}
		case index.ErrTimeAfterEnd:
			if exact {
				return found, nil
			}
			// time is between end of this and begin next
			if i < len(readers)-1 {
				nextRdr := readers[i+1]
				return nextRdr.Get(message.OffsetOldest)
			}
			return message.Invalid, errTimeNotFound
		default:
			return message.Invalid, err
		}""", """		msg, err := rdr.GetByTime(ts, tctx)
		if err == nil {
			if i == 0 || msg.Time.UnixMicro() != ts {
				return msg, nil
			}
			found, exact = msg, true
		} else if errors.Is(err, index.ErrTimeIndexEmpty) {
			if i == 0 {
				return message.Invalid, err
			}
			readers = readers[:i]
		} else if errors.Is(err, index.ErrTimeBeforeStart) {
			if i == 0 {
				return rdr.Get(message.OffsetOldest)
			}
		} else if errors.Is(err, index.ErrTimeAfterEnd) {
			if exact {
				return found, nil
			}
			if i < len(readers)-1 {
				return readers[i+1].Get(message.OffsetOldest)
			}
			return message.Invalid, errTimeNotFound
		} else {
			return message.Invalid, err
		}""")]),
 ("getIndexMarked-independent: NewAt spelled out", [("pkg/segment/segment.go", """		Segment: s.NewAt(s.Offset),""", """		Segment: New(s.Dir, s.Offset, s.AutoSync),""")]),
 ("FindByOffset: positive form of the bound test, indexed range", [("trim_offset.go", """		for _, msg := range msgs {
			if msg.Offset >= before {
				break
			}
			offsets[msg.Offset] = struct{}{}
		}""", """		for i := range msgs {
			if before > msgs[i].Offset {
				offsets[msgs[i].Offset] = struct{}{}
			} else {
				break
			}
		}""")]),
 ("FindByAge: positive form of the cut-off test", [("trim_age.go", """			if msg.Time.After(before) {
				break SEARCH
			}

			offsets[msg.Offset] = struct{}{}""", """			if !msg.Time.After(before) {
				offsets[msg.Offset] = struct{}{}
				continue
			}
			break SEARCH""")]),
 ("TrimByCount: switch form of the wrapper", [("trim_count.go", """func TrimByCount(ctx context.Context, l Log, max int) ([]Message, int64, error) {
	offsets, err := FindByCount(ctx, l, max)
	if err != nil {
		return nil, 0, err
	}
	return l.Delete(offsets)""", """func TrimByCount(ctx context.Context, l Log, max int) ([]Message, int64, error) {
	switch offsets, err := FindByCount(ctx, l, max); {
	case err != nil:
		return nil, 0, err
	default:
		return l.Delete(offsets)
	}""")]),
 ("FindUpdates: previous holder tested against nil, FindDeletes: len(Value) == 0", [("compact_updates.go", """			if prevMsgOffset, ok := keyOffset.Insert(msg.Key, msg.Offset); ok {
				offsets[prevMsgOffset.(int64)] = struct{}{}
			}""", """			prevMsgOffset, _ := keyOffset.Insert(msg.Key, msg.Offset)
			if prevMsgOffset != nil {
				offsets[prevMsgOffset.(int64)] = struct{}{}
			}"""), ("compact_deletes.go", """			if _, ok := keyOffset.Search(msg.Key); ok {
				continue
			}

			// not seen it (first instance) without value (e.g. delete)
			if msg.Value == nil {
				offsets[msg.Offset] = struct{}{}
			}""", """			if _, seen := keyOffset.Search(msg.Key); !seen {
				// not seen it (first instance) without value (e.g. delete)
				if msg.Value == nil {
					offsets[msg.Offset] = struct{}{}
				}
			} else {
				continue
			}""")]),
 ("copyFile: skip decision in negative form", [("pkg/segment/utils.go", """		case stat.Size() == dstStat.Size() && stat.ModTime().Equal(dstStat.ModTime()):
			// TODO do we need a safer version of this?
			return nil
		}""", """		case stat.Size() != dstStat.Size() || !stat.ModTime().Equal(dstStat.ModTime()):
			// differs, copy it again
		default:
			return nil
		}""")]),
 ("writerIndex.Time through locals, index params through a helper taking Options", [("log_writer.go", """	return index.Time(ix.items, ts)
}

func (ix *writerIndex) Len() int {""", """	pos, err := index.Time(ix.items, ts)
	if err != nil {
		return 0, err
	}
	return pos, nil
}

func (ix *writerIndex) Len() int {"""), ("api.go", """	return segment.CheckDir(dir, index.Params{
		Times: opts.TimeIndex,
		Keys:  opts.KeyIndex,
	})""", """	return segment.CheckDir(dir, indexParamsOf(opts))"""), ("api.go", """	return segment.RecoverDir(dir, index.Params{
		Times: opts.TimeIndex,
		Keys:  opts.KeyIndex,
	})""", """	return segment.RecoverDir(dir, indexParamsOf(opts))"""), ("api.go", "// Check runs an integrity check", """func indexParamsOf(opts Options) index.Params {
	return index.Params{Keys: opts.KeyIndex, Times: opts.TimeIndex}
}

// Check runs an integrity check""")]),
 ("reader.Delete closes through a helper; batch reader with the bound test inside the loop", [("log_reader.go", """	// log already has reader lock exclusively, no need to sync here
	if err := r.Close(); err != nil {
		return nil, err
	}
""", """	// log already has reader lock exclusively, no need to sync here
	if err := r.closeAll(); err != nil {
		return nil, err
	}
"""), ("log_reader.go", "func (r *reader) Delete(rs *segment.RewriteSegment) (*reader, error) {", """func (r *reader) closeAll() error {
	return r.Close()
}

func (r *reader) Delete(rs *segment.RewriteSegment) (*reader, error) {"""), ("pkg/message/format.go", """	for ; i < maxCount && position <= maxPosition; i++ {
		next, err := r.reader(position, &msgs[i])""", """	for ; position <= maxPosition; i++ {
		if i >= maxCount {
			break
		}
		next, err := r.reader(position, &msgs[i])""")]),
 ("rollover test inlined in Publish; current reader found by index; header flags through locals", [("log.go", """	if l.writer.NeedsRollover(l.opts.Rollover) {
		oldWriter := l.writer""", """	if l.writer.index.Len() > 0 && l.writer.messages.Size() > l.opts.Rollover {
		oldWriter := l.writer"""), ("log.go", """	for _, r := range l.readers {
		if r.segment == rdr.segment {
			current = r
		}
	}
	if current == nil {""", """	for i := range l.readers {
		if l.readers[i].segment == rdr.segment {
			current = l.readers[i]
			break
		}
	}
	if current == nil {"""), ("pkg/index/format.go", """	case opts.Times != ((data[1] & timesBit) == timesBit):
		return VUnknown, errTimesMismatch
	case opts.Keys != ((data[1] & keysBit) == keysBit):
		return VUnknown, errKeysMismatch""", """	case opts.Times != (data[1]&timesBit != 0):
		return VUnknown, errTimesMismatch
	case (data[1]&keysBit != 0) != opts.Keys:
		return VUnknown, errKeysMismatch""")]),
 ("record codecs: time conversion through small helpers", [("pkg/message/format.go", "time.UnixMicro(int64(binary.BigEndian.Uint64(headerBytes[8:]))).UTC()", "timeOf(int64(binary.BigEndian.Uint64(headerBytes[8:])))"), ("pkg/message/format.go", "time.UnixMicro(int64(binary.BigEndian.Uint64(headerBytes[12:]))).UTC()", "timeOf(int64(binary.BigEndian.Uint64(headerBytes[12:])))"), ("pkg/message/format.go", "binary.BigEndian.PutUint64(w.buff[8:], uint64(m.Time.UnixMicro()))", "binary.BigEndian.PutUint64(w.buff[8:], uint64(microsOf(m.Time)))"), ("pkg/message/format.go", "binary.BigEndian.PutUint64(w.buff[12:], uint64(m.Time.UnixMicro()))", "binary.BigEndian.PutUint64(w.buff[12:], uint64(microsOf(m.Time)))"), ("pkg/message/format.go", "func (r *Reader) readV1(position int64, msg *Message) (nextPosition int64, err error) {", """func timeOf(micros int64) time.Time {
	return time.UnixMicro(micros).UTC()
}

func microsOf(t time.Time) int64 {
	return t.UnixMicro()
}

func (r *Reader) readV1(position int64, msg *Message) (nextPosition int64, err error) {""")]),
 ("batch reader: labelled break instead of return at EOF", [("pkg/message/format.go", """	for ; i < maxCount && position <= maxPosition; i++ {
		next, err := r.reader(position, &msgs[i])
		switch {
		case err == nil:
			position = next
		case errors.Is(err, io.EOF):
			return msgs[:i], nil
		default:""", """scan:
	for ; i < maxCount && position <= maxPosition; i++ {
		next, err := r.reader(position, &msgs[i])
		switch {
		case err == nil:
			position = next
		case errors.Is(err, io.EOF):
			break scan
		default:""")]),
 ("both cursors pick their segment through one small method", [("log.go", """	rdr, segmentIndex := segment.Consume(l.readers, offset)

	nextOffset, msgs, err := rdr.Consume(offset, maxCount)""", """	rdr, segmentIndex := l.pick(offset)

	nextOffset, msgs, err := rdr.Consume(offset, maxCount)"""), ("log.go", """	rdr, segmentIndex := segment.Consume(l.readers, offset)
	for {
		nextOffset, msgs, err := rdr.ConsumeByKey(key, hash, offset, maxCount)""", """	rdr, segmentIndex := l.pick(offset)
	for {
		nextOffset, msgs, err := rdr.ConsumeByKey(key, hash, offset, maxCount)"""), ("log.go", "func (l *log) Get(offset int64) (message.Message, error) {", """func (l *log) pick(offset int64) (*reader, int) {
	return segment.Consume(l.readers, offset)
}

func (l *log) Get(offset int64) (message.Message, error) {""")]),
 ("Stat sums into a local accumulator struct through a pointer", [("log.go", """		stats.Segments += segStats.Segments
		stats.Messages += segStats.Messages
		stats.Size += segStats.Size
	}
	return stats, nil""", """		acc := &stats
		acc.Segments += segStats.Segments
		acc.Messages += segStats.Messages
		acc.Size += segStats.Size
	}
	return stats, nil""")]),
 ("Recover: unknown-version test inverted", [("pkg/segment/segment.go", """		if indexVersion != index.VUnknown {
			if err := index.Write(s.Index, s.Offset, indexVersion, params, restoreIndex); err != nil {
				return fmt.Errorf("restore index write: %w", err)
			}
		}""", """		if indexVersion == index.VUnknown {
			// the probe failed: leave it to the lazy rebuild
		} else if err := index.Write(s.Index, s.Offset, indexVersion, params, restoreIndex); err != nil {
			return fmt.Errorf("restore index write: %w", err)
		}""")]),
 ("Open: eager migration loop in a helper", [("log.go", """		if opts.Version.EagerVersionMigrate {
			for _, seg := range segments {
				if err := seg.Migrate(opts.Version.NewSegmentsVersion.messages, opts.Version.NewSegmentsVersion.index, params); err != nil {
					return nil, fmt.Errorf("open migrate: %w", err)
				}
			}
		}""", """		if opts.Version.EagerVersionMigrate {
			if err := migrateAll(segments, opts.Version.NewSegmentsVersion, params); err != nil {
				return nil, err
			}
		}"""), ("log.go", "func (l *log) Get(offset int64) (message.Message, error) {", """func migrateAll(segments []segment.Segment, v Version, params index.Params) error {
	for _, seg := range segments {
		if err := seg.Migrate(v.messages, v.index, params); err != nil {
			return fmt.Errorf("open migrate: %w", err)
		}
	}
	return nil
}

func (l *log) Get(offset int64) (message.Message, error) {""")]),
 ("delete: kept version chosen with an if chain", [("log.go", """		switch detected {
		case message.V1:
			mversion, iversion = message.V1, index.V1
		case message.V2:
			mversion, iversion = message.V2, index.V2
		}""", """		if detected == message.V1 {
			mversion, iversion = message.V1, index.V1
		} else if detected == message.V2 {
			mversion, iversion = message.V2, index.V2
		}""")]),
 ("Backup: stale target index removed through a helper", [("pkg/segment/segment.go", """		if err := os.Remove(targetIndex); err != nil && !errors.Is(err, os.ErrNotExist) {
			return fmt.Errorf("backup index delete: %w", err)
		}
	case err != nil:
		return fmt.Errorf("backup index copy: %w", err)""", """		if err := removeIfThere(targetIndex); err != nil {
			return fmt.Errorf("backup index delete: %w", err)
		}
	case err != nil:
		return fmt.Errorf("backup index copy: %w", err)"""), ("pkg/segment/segment.go", "func (s Segment) NeedsReindex() (bool, error) {", """func removeIfThere(path string) error {
	if err := os.Remove(path); err != nil && !errors.Is(err, os.ErrNotExist) {
		return err
	}
	return nil
}

func (s Segment) NeedsReindex() (bool, error) {""")]),
 ("Open: head preparation (recover/check) in a helper", [("log.go", """		switch {
		case opts.Recover:
			head := segments[len(segments)-1]
			if err := head.Recover(params); err != nil {
				return nil, fmt.Errorf("open recover: %w", err)
			}
		case opts.Check:
			head := segments[len(segments)-1]
			if err := head.Check(params); err != nil {
				return nil, fmt.Errorf("open check: %w", err)
			}
		}

		if opts.Version.EagerVersionMigrate {""", """		if err := prepareHead(segments[len(segments)-1], opts, params); err != nil {
			return nil, err
		}

		if opts.Version.EagerVersionMigrate {"""), ("log.go", "func (l *log) Get(offset int64) (message.Message, error) {", """func prepareHead(head segment.Segment, opts Options, params index.Params) error {
	switch {
	case opts.Recover:
		if err := head.Recover(params); err != nil {
			return fmt.Errorf("open recover: %w", err)
		}
	case opts.Check:
		if err := head.Check(params); err != nil {
			return fmt.Errorf("open check: %w", err)
		}
	}
	return nil
}

func (l *log) Get(offset int64) (message.Message, error) {""")]),
 ("delete: version of a closed segment detected in a helper", [("log.go", """			mr, err := message.OpenReader(rdr.segment.Log, rdr.segment.Offset)
			if err != nil {
				return nil, 0, err
			}
			detected = mr.Version()
			if err := mr.Close(); err != nil {
				return nil, 0, err
			}""", """			v, err := storedVersion(rdr.segment)
			if err != nil {
				return nil, 0, err
			}
			detected = v"""), ("log.go", "func (l *log) Get(offset int64) (message.Message, error) {", """func storedVersion(seg segment.Segment) (message.Version, error) {
	mr, err := message.OpenReader(seg.Log, seg.Offset)
	if err != nil {
		return message.VUnknown, err
	}
	v := mr.Version()
	if err := mr.Close(); err != nil {
		return message.VUnknown, err
	}
	return v, nil
}

func (l *log) Get(offset int64) (message.Message, error) {""")]),
 ("Size: version through a local", [("log.go", """	return message.Size(m, l.opts.Version.NewSegmentsVersion.messages) + l.params.Size()""", """	v := l.opts.Version.NewSegmentsVersion
	recordSize := message.Size(m, v.messages)
	return recordSize + l.params.Size()""")]),
 ("GetByTime: exact hit remembered through a pointer instead of a flag", [("log.go", """	found, exact := message.Invalid, false""", """	var found *message.Message"""), ("log.go", """			found, exact = msg, true""", """			m := msg
			found = &m"""), ("log.go", """			if exact {
				return found, nil
			}""", """			if found != nil {
				return *found, nil
			}""")]),
 ("index.Get: bisect replaced by sort.Search with an equality test", [("pkg/index/offset.go", """	for beginIndex <= endIndex {
		midIndex := (beginIndex + endIndex) / 2
		midItem := items[midIndex]
		switch {
		case midItem.Offset < offset:
			beginIndex = midIndex + 1
		case midItem.Offset > offset:
			endIndex = midIndex - 1
		default:
			return midItem.Position, nil
		}
	}

	return 0, ErrOffsetNotFound""", """	at := sort.Search(len(items), func(i int) bool { return items[i].Offset >= offset })
	if at < len(items) && items[at].Offset == offset {
		return items[at].Position, nil
	}

	return 0, ErrOffsetNotFound"""), ("pkg/index/offset.go", """import (
	"fmt"
""", """import (
	"fmt"
	"sort"
""")]),
 ("index.Consume: relative offsets through an if chain", [("pkg/index/offset.go", """	switch offset {
	case message.OffsetOldest:
		return items[0].Position, items[len(items)-1].Position, nil
	case message.OffsetNewest:
		last := items[len(items)-1]
		return last.Position, last.Position, nil
	}

	beginIndex := 0
	beginItem := items[beginIndex]
	switch {
	case offset <= beginItem.Offset:""", """	last := items[len(items)-1]
	if offset == message.OffsetOldest {
		return items[0].Position, last.Position, nil
	} else if offset == message.OffsetNewest {
		return last.Position, last.Position, nil
	}

	beginIndex := 0
	beginItem := items[beginIndex]
	switch {
	case offset <= beginItem.Offset:""")]),
 ("index.Time: first-item equality left to the search", [("pkg/index/times.go", """	case ts < beginItem.Timestamp:
		return 0, ErrTimeBeforeStart
	case ts == beginItem.Timestamp:
		return beginItem.Position, nil
	}""", """	case ts < beginItem.Timestamp:
		return 0, ErrTimeBeforeStart
	}""")]),
 ("AppendKeys: first position through make and append", [("pkg/index/keys.go", """			keys.Insert(hash, &keyPositions{[]int64{item.Position}})""", """			first := make([]int64, 0, 2)
			first = append(first, item.Position)
			keys.Insert(hash, &keyPositions{positions: first})""")]),
 ("NextOffset: explicit unlock instead of defer in the read-only branch", [("log.go", """		l.readersMu.RLock()
		defer l.readersMu.RUnlock()

		rdr := l.readers[len(l.readers)-1]
		return rdr.GetNextOffset()
	}

	l.writerMu.Lock()
	defer l.writerMu.Unlock()

	return l.writer.GetNextOffset()""", """		l.readersMu.RLock()
		head := l.readers[len(l.readers)-1]
		next, err := head.GetNextOffset()
		l.readersMu.RUnlock()
		return next, err
	}

	l.writerMu.Lock()
	defer l.writerMu.Unlock()

	return l.writer.GetNextOffset()""")]),
 ("Consume: sentinel compared with errors.Is, next segment through an index variable", [("log.go", """	if err == index.ErrOffsetAfterEnd && segmentIndex < len(l.readers)-1 {
		// this is after the end, consume starting the next one
		next := l.readers[segmentIndex+1]
		return next.Consume(message.OffsetOldest, maxCount)
	}""", """	if errors.Is(err, index.ErrOffsetAfterEnd) && segmentIndex+1 < len(l.readers) {
		// this is after the end, consume starting the next one
		following := segmentIndex + 1
		return l.readers[following].Consume(message.OffsetOldest, maxCount)
	}""")]),
 ("Stat: loop by index", [("log.go", """	for _, reader := range l.readers {
		segStats, err := reader.Stat()
		if err != nil {
			return segment.Stats{}, err
		}
""", """	for i := 0; i < len(l.readers); i++ {
		segStats, err := l.readers[i].Stat()
		if err != nil {
			return segment.Stats{}, err
		}
""")]),
 ("Migrate: carried timestamp as an explicit running maximum", [("pkg/segment/segment.go", """		item := params.NewItem(msg, migratedPosition, indexTime)
		migratedIndex = append(migratedIndex, item)
		indexTime = item.Timestamp""", """		item := params.NewItem(msg, migratedPosition, indexTime)
		migratedIndex = append(migratedIndex, item)
		indexTime = max(indexTime, item.Timestamp)""")]),
 ("newReaderIndex: next offset through a helper over the last item", [("log_reader.go", """	nextOffset := offset
	if len(items) > 0 {
		nextOffset = items[len(items)-1].Offset + 1
	}
""", """	nextOffset := nextAfter(items, offset)
"""), ("log_reader.go", "func newReaderIndex(", """func nextAfter(items []index.Item, base int64) int64 {
	if n := len(items); n > 0 {
		return items[n-1].Offset + 1
	}
	return base
}

func newReaderIndex(""")]),
 ("TrimByOffset: argument check with an error before the finder", [("trim_offset.go", """func TrimByOffset(ctx context.Context, l Log, before int64) ([]Message, int64, error) {
""", """func TrimByOffset(ctx context.Context, l Log, before int64) ([]Message, int64, error) {
	if err := ctx.Err(); err != nil {
		return nil, 0, err
	}
""")]),
 ("delete: reader list rebuilt through a local, head appended last", [("log.go", """		l.writer = newWriter
		if newReader == nil {
			l.readers[len(l.readers)-1] = newWriter.reader
		} else {
			l.readers[len(l.readers)-1] = newReader
			l.readers = append(l.readers, newWriter.reader)
		}""", """		l.writer = newWriter
		closed := l.readers[:len(l.readers)-1]
		if newReader != nil {
			closed = append(closed, newReader)
		}
		l.readers = append(closed, newWriter.reader)""")]),
 ("reader: a load counter that closeIndex resets", [("log_reader.go", """	indexLastAccess atomic.Int64
}""", """	indexLastAccess atomic.Int64
	indexUses       atomic.Int64
}"""), ("log_reader.go", """func (r *reader) getIndexNow() (indexer, error) {
	r.indexLastAccess.Store(time.Now().UnixMicro())""", """func (r *reader) getIndexNow() (indexer, error) {
	r.indexUses.Add(1)
	r.indexLastAccess.Store(time.Now().UnixMicro())"""), ("log_reader.go", """	r.index = nil
}""", """	r.index = nil
	r.indexUses.Store(0)
}""")]),
 ("forRewrite: constructor spelled out with the source's own settings", [("pkg/segment/segment.go", """		Segment: s.NewAt(s.Offset),""", """		Segment: New(s.Dir, s.Offset, s.AutoSync),""")]),
 ("notify.Wait: probe and release folded into two branches", [("pkg/notify/notify.go", """	// probe the current offset
	updated := w.nextOffset.Load() > offset

	// release current barrier
	w.barrier <- b

	// already has a new value, return
	if updated {
		return nil
	}
""", """	// probe the current offset, release current barrier either way
	if w.nextOffset.Load() > offset {
		w.barrier <- b
		return nil
	}
	w.barrier <- b
""")]),
 ("notify.Set: the fresh barrier installed by a deferred closure", [("pkg/notify/notify.go", """	// set the new offset
	if w.nextOffset.Load() < nextOffset {
		w.nextOffset.Store(nextOffset)
	}

	// close the current barrier, e.g. broadcasting update
	close(b)

	// create new barrier
	w.barrier <- make(chan struct{})
}""", """	// create new barrier on the way out
	defer func() {
		w.barrier <- make(chan struct{})
	}()

	// set the new offset
	if w.nextOffset.Load() < nextOffset {
		w.nextOffset.Store(nextOffset)
	}

	// close the current barrier, e.g. broadcasting update
	close(b)
}""")]),
 ("blocking wrappers: positive form of the error tests", [("log_blocking.go", """	nextOffset, err := l.Log.Publish(messages)
	if err != nil {
		return OffsetInvalid, err
	}

	l.notify.Set(nextOffset)
	return nextOffset, nil""", """	nextOffset, err := l.Log.Publish(messages)
	if err == nil {
		l.notify.Set(nextOffset)
		return nextOffset, nil
	}
	return OffsetInvalid, err"""), ("log_blocking.go", """	if err := l.notify.Wait(ctx, offset); err != nil {
		return OffsetInvalid, nil, err
	}
	return l.Consume(offset, maxCount)""", """	err := l.notify.Wait(ctx, offset)
	if err == nil {
		return l.Consume(offset, maxCount)
	}
	return OffsetInvalid, nil, err""")]),
 ("Find: HasSuffix and TrimSuffix with an early continue", [("pkg/segment/segments.go", """		if offsetStr, ok := strings.CutSuffix(f.Name(), ".log"); ok {
			offset, err := strconv.ParseInt(offsetStr, 10, 64)
			if err != nil {
				return nil, fmt.Errorf("find parse offset: %w", err)
			}

			segments = append(segments, New(dir, offset, autoSync))
		}""", """		name := f.Name()
		if !strings.HasSuffix(name, ".log") {
			continue
		}
		offset, err := strconv.ParseInt(strings.TrimSuffix(name, ".log"), 10, 64)
		if err != nil {
			return nil, fmt.Errorf("find parse offset: %w", err)
		}
		segments = append(segments, New(dir, offset, autoSync))""")]),
 ("Compact: one cut-off base time", [("compact.go", """	updatesBefore := time.Now().Add(-age)
	if _, _, err := CompactUpdatesMultiOffsets(ctx, l, updatesBefore, boff); err != nil {
		return err
	}
	deletesBefore := time.Now().Add(-age * 2)""", """	now := time.Now()
	updatesBefore := now.Add(-age)
	if _, _, err := CompactUpdatesMultiOffsets(ctx, l, updatesBefore, boff); err != nil {
		return err
	}
	deletesBefore := now.Add(-2 * age)""")]),
 ("readV2: body size in a local, size checks merged, trailer offset reused", [("pkg/message/format.go", """	// Validate sizes
	if keySize < 0 || valueSize < 0 {
		return -1, errInvalidHeader
	}
	if int(keySize)+int(valueSize) > maxMessageBodySize {
		return -1, errInvalidHeader
	}
	position += v2HeaderSize
""", """	// Validate sizes
	bodySize := int(keySize) + int(valueSize)
	if keySize < 0 || valueSize < 0 || maxMessageBodySize < bodySize {
		return -1, errInvalidHeader
	}
	position += v2HeaderSize
"""), ("pkg/message/format.go", """	payloadSize := headerPayloadSize + int(keySize) + int(valueSize) + trailerSize
	payload := make([]byte, payloadSize)
	copy(payload[:headerPayloadSize], headerBytes[4:])
	if r.ra != nil {
		_, err = r.ra.ReadAt(payload[headerPayloadSize:], position)
	} else {
		_, err = r.r.ReadAt(payload[headerPayloadSize:], position)
	}""", """	payload := make([]byte, headerPayloadSize+bodySize+trailerSize)
	copy(payload[:headerPayloadSize], headerBytes[4:])
	if r.ra != nil {
		_, err = r.ra.ReadAt(payload[headerPayloadSize:], position)
	} else {
		_, err = r.r.ReadAt(payload[headerPayloadSize:], position)
	}"""), ("pkg/message/format.go", """	trailerOff := headerPayloadSize + int(keySize) + int(valueSize)
	if !bytes.Equal(payload[trailerOff:], trailerMagicData) {
		return -1, errBadTrailer
	}""", """	if trailerOff := headerPayloadSize + bodySize; !bytes.Equal(payload[trailerOff:], trailerMagicData) {
		return -1, errBadTrailer
	}"""), ("pkg/message/format.go", """	return position + int64(int(keySize)+int(valueSize)+trailerSize), nil
}

func (r *Reader) Close() error {""", """	return position + int64(bodySize+trailerSize), nil
}

func (r *Reader) Close() error {""")]),
 ("Close: early return form for the read-only branch, closed readers through a helper", [("log.go", """	if l.opts.Readonly {
		l.readersMu.Lock()
		defer l.readersMu.Unlock()

		for _, reader := range l.readers {
			if err := reader.Close(); err != nil {
				return err
			}
		}
	} else {
		l.writerMu.Lock()
		defer l.writerMu.Unlock()

		l.readersMu.Lock()
		defer l.readersMu.Unlock()

		if err := l.writer.Sync(); err != nil {
			return err
		}

		if err := l.writer.Close(); err != nil {
			return err
		}

		for _, reader := range l.readers[:len(l.readers)-1] {
			if err := reader.Close(); err != nil {
				return err
			}
		}
	}
""", """	if l.opts.Readonly {
		l.readersMu.Lock()
		defer l.readersMu.Unlock()

		if err := closeAll(l.readers); err != nil {
			return err
		}
	} else {
		l.writerMu.Lock()
		defer l.writerMu.Unlock()

		l.readersMu.Lock()
		defer l.readersMu.Unlock()

		if err := l.writer.Sync(); err != nil {
			return err
		}

		if err := l.writer.Close(); err != nil {
			return err
		}

		if err := closeAll(l.readers[:len(l.readers)-1]); err != nil {
			return err
		}
	}
"""), ("log.go", "func (l *log) GC(unusedFor time.Duration) error {", """func closeAll(readers []*reader) error {
	for _, reader := range readers {
		if err := reader.Close(); err != nil {
			return err
		}
	}
	return nil
}

func (l *log) GC(unusedFor time.Duration) error {""")]),
 ("Sync: read-write branch first", [("log.go", """func (l *log) Sync() (int64, error) {
	if l.opts.Readonly {
		l.readersMu.RLock()
		defer l.readersMu.RUnlock()

		rdr := l.readers[len(l.readers)-1]
		return rdr.GetNextOffset()
	}

	l.writerMu.Lock()
	defer l.writerMu.Unlock()

	if err := l.writer.Sync(); err != nil {
		return OffsetInvalid, err
	}
	return l.writer.GetNextOffset()
}""", """func (l *log) Sync() (int64, error) {
	if !l.opts.Readonly {
		l.writerMu.Lock()
		defer l.writerMu.Unlock()

		err := l.writer.Sync()
		if err != nil {
			return OffsetInvalid, err
		}
		return l.writer.GetNextOffset()
	}

	l.readersMu.RLock()
	defer l.readersMu.RUnlock()

	rdr := l.readers[len(l.readers)-1]
	return rdr.GetNextOffset()
}""")]),
 ("writer.Publish: range with value copy-back, offset counter", [("log_writer.go", """	items := make([]index.Item, len(msgs))
	for i := range msgs {
		msgs[i].Offset = nextOffset + int64(i)
		if msgs[i].Time.IsZero() {
			msgs[i].Time = time.Now().UTC()
		}

		position, err := w.messages.Write(msgs[i])
		if err != nil {
			return OffsetInvalid, err
		}

		items[i] = w.params.NewItem(msgs[i], position, indexTime)
		if err := w.items.Write(items[i]); err != nil {
			return OffsetInvalid, err
		}
		indexTime = items[i].Timestamp
	}
""", """	items := make([]index.Item, 0, len(msgs))
	for i := range msgs {
		msg := &msgs[i]
		msg.Offset = nextOffset + int64(i)
		if msg.Time.IsZero() {
			msg.Time = time.Now().UTC()
		}

		position, err := w.messages.Write(*msg)
		if err != nil {
			return OffsetInvalid, err
		}

		item := w.params.NewItem(*msg, position, indexTime)
		if err := w.items.Write(item); err != nil {
			return OffsetInvalid, err
		}
		items = append(items, item)
		indexTime = item.Timestamp
	}
""")]),
 ("writer.Sync and Close: errors joined at the end of each step", [("log_writer.go", """func (w *writer) Sync() error {
	if err := w.messages.Sync(); err != nil {
		return err
	}
	if err := w.items.Sync(); err != nil {
		return err
	}
	return nil
}""", """func (w *writer) Sync() error {
	err := w.messages.Sync()
	if err == nil {
		err = w.items.Sync()
	}
	return err
}""")]),
 ("writer.Close: first error carried to one return", [("log_writer.go", """func (w *writer) Close() error {
	if err := w.messages.Close(); err != nil {
		return err
	}
	if err := w.items.Close(); err != nil {
		return err
	}

	return w.reader.Close()
}""", """func (w *writer) Close() error {
	err := w.messages.Close()
	if err == nil {
		err = w.items.Close()
	}
	if err == nil {
		err = w.reader.Close()
	}
	return err
}""")]),
 ("Override: renames chained on one error variable", [("pkg/segment/segment.go", """	if err := os.Rename(olds.Log, news.Log); err != nil {
		return fmt.Errorf("override log rename: %w", err)
	}
	if err := os.Rename(olds.Index, news.Index); err != nil {
		return fmt.Errorf("override index rename: %w", err)
	}

	if err := news.syncDir(); err != nil {
		return fmt.Errorf("override sync dir: %w", err)
	}

	return nil
}""", """	err := os.Rename(olds.Log, news.Log)
	if err != nil {
		return fmt.Errorf("override log rename: %w", err)
	}
	err = os.Rename(olds.Index, news.Index)
	if err != nil {
		return fmt.Errorf("override index rename: %w", err)
	}
	err = news.syncDir()
	if err != nil {
		err = fmt.Errorf("override sync dir: %w", err)
	}
	return err
}""")]),
 ("OpenWriter: header slice through a local", [("pkg/message/format.go", """		v, err = headerParse(h[:], offset)
		if err != nil {
			return nil, fmt.Errorf("write log parse header: %w", err)
		}""", """		hdr := h[:]
		v, err = headerParse(hdr, offset)
		if err != nil {
			return nil, fmt.Errorf("write log parse header: %w", err)
		}""")]),
 ("Log.Delete: empty set tested with < 1", [("log.go", """	if len(offsets) == 0 {
		return nil, 0, nil
	}

	l.deleteMu.Lock()
	defer l.deleteMu.Unlock()

	return l.delete(offsets)""", """	if len(offsets) < 1 {
		return nil, 0, nil
	}

	l.deleteMu.Lock()
	defer l.deleteMu.Unlock()

	deleted, size, err := l.delete(offsets)
	return deleted, size, err""")]),
 ("Recover: stored index compared by hand, lengths first", [("pkg/segment/segment.go", """	case !slices.Equal(items, restoreIndex):
		indexVersion, _ = index.GetVersion(s.Index, s.Offset, params)
		corruptedIndex = true
	}""", """	default:
		same := len(items) == len(restoreIndex)
		for i := 0; same && i < len(items); i++ {
			same = items[i] == restoreIndex[i]
		}
		if !same {
			indexVersion, _ = index.GetVersion(s.Index, s.Offset, params)
			corruptedIndex = true
		}
	}""")]),
 ("copyFile: up-to-date test in an if with early exits", [("pkg/segment/utils.go", """		switch dstStat, err := os.Stat(dst); {
		case err != nil:
			return fmt.Errorf("copy dst stat: %w", err)
		case stat.Size() == dstStat.Size() && stat.ModTime().Equal(dstStat.ModTime()):
			// TODO do we need a safer version of this?
			return nil
		}""", """		dstStat, serr := os.Stat(dst)
		if serr != nil {
			return fmt.Errorf("copy dst stat: %w", serr)
		}
		if stat.Size() == dstStat.Size() {
			if stat.ModTime().Equal(dstStat.ModTime()) {
				return nil
			}
		}""")]),
 ("Open (read-only): readers built by index", [("log.go", """		for i, seg := range segments {
			rdr := openReader(seg, params, opts.Version.NewSegmentsVersion, i == len(segments)-1)
			l.readers = append(l.readers, rdr)
		}""", """		last := len(segments) - 1
		for i := 0; i <= last; i++ {
			rdr := openReader(segments[i], params, opts.Version.NewSegmentsVersion, i == last)
			l.readers = append(l.readers, rdr)
		}""")]),
 ("write-only statistics counters in the log and in the reader", [("log.go", """	deleteMu sync.Mutex
}""", """	deleteMu sync.Mutex

	consumes atomic.Int64
	gets     atomic.Int64
}"""), ("log.go", """func (l *log) Consume(offset int64, maxCount int64) (int64, []message.Message, error) {
	l.readersMu.RLock()""", """func (l *log) Consume(offset int64, maxCount int64) (int64, []message.Message, error) {
	l.consumes.Add(1)
	l.readersMu.RLock()"""), ("log.go", """func (l *log) Get(offset int64) (message.Message, error) {
	l.readersMu.RLock()""", """func (l *log) Get(offset int64) (message.Message, error) {
	l.gets.Add(1)
	l.readersMu.RLock()"""), ("log.go", """import (
""", """import (
	"sync/atomic"
"""), ("log_reader.go", """	indexLastAccess atomic.Int64
}""", """	indexLastAccess atomic.Int64
	lookups         atomic.Int64
}"""), ("log_reader.go", """func (r *reader) getIndexNow() (indexer, error) {
""", """func (r *reader) getIndexNow() (indexer, error) {
	r.lookups.Add(1)
""")]),
 ("reader.ConsumeByKey: key-not-found handled in an if chain before the error return", [("log_reader.go", """	positions, err := ix.Keys(keyHash)
	switch err {
	case nil:
		break
	case index.ErrKeyNotFound:
		return nextOffset, nil, nil
	default:
		return OffsetInvalid, nil, err
	}
""", """	positions, err := ix.Keys(keyHash)
	if err != nil {
		if errors.Is(err, index.ErrKeyNotFound) {
			return nextOffset, nil, nil
		}
		return OffsetInvalid, nil, err
	}
"""), ("log_reader.go", """import (
""", """import (
	"errors"
""")]),
 ("Log.GetByKey: loop continues explicitly on key-not-found", [("log.go", """		switch msg, err := rdr.GetByKey(key, hash, tctx); err {
		case nil:
			return msg, nil
		case index.ErrKeyNotFound:
			// not in this segment, try the rest
		default:
			return message.Invalid, err
		}
	}

	// not in any segment, so just return the error
	return message.Invalid, errKeyNotFound""", """		msg, err := rdr.GetByKey(key, hash, tctx)
		if err == index.ErrKeyNotFound {
			// not in this segment, try the rest
			continue
		}
		if err != nil {
			return message.Invalid, err
		}
		return msg, nil
	}

	// not in any segment, so just return the error
	return message.Invalid, errKeyNotFound""")]),
 ("Open: lock acquisition in a helper", [("log.go", """	lock := flock.New(filepath.Join(dir, ".lock"))
	if opts.Readonly {
		switch ok, err := lock.TryRLock(); {
		case err != nil:
			return nil, fmt.Errorf("open read lock: %w", err)
		case !ok:
			return nil, fmt.Errorf("open already writing locked")
		}
	} else {
		switch ok, err := lock.TryLock(); {
		case err != nil:
			return nil, fmt.Errorf("open lock: %w", err)
		case !ok:
			return nil, fmt.Errorf("open already locked")
		}
	}
	defer func() {""", """	lock := flock.New(filepath.Join(dir, ".lock"))
	if err := acquire(lock, opts.Readonly); err != nil {
		return nil, err
	}
	defer func() {"""), ("log.go", "func (l *log) Get(offset int64) (message.Message, error) {", """func acquire(lock *flock.Flock, readonly bool) error {
	if readonly {
		switch ok, err := lock.TryRLock(); {
		case err != nil:
			return fmt.Errorf("open read lock: %w", err)
		case !ok:
			return fmt.Errorf("open already writing locked")
		}
		return nil
	}
	switch ok, err := lock.TryLock(); {
	case err != nil:
		return fmt.Errorf("open lock: %w", err)
	case !ok:
		return fmt.Errorf("open already locked")
	}
	return nil
}

func (l *log) Get(offset int64) (message.Message, error) {""")]),
 ("index header: reserved bits tested with and-not", [("pkg/index/format.go", """	case (data[1] & unusedBits) > 0:
		return VUnknown, errReservedData""", """	case data[1]&^(timesBit|keysBit) != 0:
		return VUnknown, errReservedData"""), ("pkg/index/format.go", """const unusedBits byte = 0b11111100
""", """""")]),
 ("Recover: stored index compared through EqualFunc over all fields", [("pkg/segment/segment.go", """	case !slices.Equal(items, restoreIndex):
		indexVersion, _ = index.GetVersion(s.Index, s.Offset, params)
		corruptedIndex = true
	}""", """	case !slices.EqualFunc(items, restoreIndex, sameItem):
		indexVersion, _ = index.GetVersion(s.Index, s.Offset, params)
		corruptedIndex = true
	}"""), ("pkg/segment/segment.go", "func (s Segment) NeedsReindex() (bool, error) {", """func sameItem(a, b index.Item) bool {
	return a.Offset == b.Offset && a.Position == b.Position && a.Timestamp == b.Timestamp && a.KeyHash == b.KeyHash
}

func (s Segment) NeedsReindex() (bool, error) {""")]),
 ("reader.ConsumeByKey: empty answers through a closure over the early next offset", [("log_reader.go", """	positions, err := ix.Keys(keyHash)
	switch err {
	case nil:
		break
	case index.ErrKeyNotFound:
		return nextOffset, nil, nil
	default:
		return OffsetInvalid, nil, err
	}
""", """	atEnd := func() (int64, []message.Message, error) { return nextOffset, nil, nil }

	positions, err := ix.Keys(keyHash)
	switch err {
	case nil:
		break
	case index.ErrKeyNotFound:
		return atEnd()
	default:
		return OffsetInvalid, nil, err
	}
""")]),
 ("reader.Consume: if chain, release through a named cleanup, next offset in a local", [("log_reader.go", """	position, maxPosition, nextOffset, err := index.Consume(offset)
	switch {
	case err != nil:
		return OffsetInvalid, nil, err
	case position == -1:
		return nextOffset, nil, nil
	}

	messages, err := r.getMessages()
	if err != nil {
		return OffsetInvalid, nil, err
	}
	defer r.messagesInuse.Add(-1)

	msgs, err := messages.Consume(position, maxPosition, maxCount)
	if err != nil {
		return OffsetInvalid, nil, err
	}
	if len(msgs) == 0 {
		// the index points to a message, but the log ends before it
		return OffsetInvalid, nil, fmt.Errorf("%w: indexed message is missing", message.ErrCorrupted)
	}
	return msgs[len(msgs)-1].Offset + 1, msgs, nil""", """	position, maxPosition, nextOffset, err := index.Consume(offset)
	if err != nil {
		return OffsetInvalid, nil, err
	}
	if position == -1 {
		return nextOffset, nil, nil
	}

	messages, err := r.getMessages()
	if err != nil {
		return OffsetInvalid, nil, err
	}
	release := func() { r.messagesInuse.Add(-1) }
	defer release()

	msgs, err := messages.Consume(position, maxPosition, maxCount)
	if err != nil {
		return OffsetInvalid, nil, err
	}
	if n := len(msgs); n == 0 {
		// the index points to a message, but the log ends before it
		return OffsetInvalid, nil, fmt.Errorf("%w: indexed message is missing", message.ErrCorrupted)
	} else {
		after := msgs[n-1].Offset + 1
		return after, msgs, nil
	}""")]),
 ("ReindexReader: for with position in the clause, switch on the read error", [("pkg/segment/segment.go", """	var position = log.InitialPosition()
	var indexTime int64
	var newIndex []index.Item
	for {
		msg, nextPosition, err := log.Read(position)
		if errors.Is(err, io.EOF) {
			break
		} else if err != nil {
			return nil, err
		}

		item := params.NewItem(msg, position, indexTime)
		newIndex = append(newIndex, item)

		position = nextPosition
		indexTime = item.Timestamp
	}
""", """	var indexTime int64
	var newIndex []index.Item
scan:
	for position := log.InitialPosition(); ; {
		msg, nextPosition, err := log.Read(position)
		switch {
		case err == nil:
		case errors.Is(err, io.EOF):
			break scan
		default:
			return nil, err
		}

		item := params.NewItem(msg, position, indexTime)
		newIndex = append(newIndex, item)
		indexTime = item.Timestamp
		position = nextPosition
	}
""")]),
 ("FindByCount: countdown folded into the loop condition, batch size in a constant", [("trim_count.go", """	for offset := OffsetOldest; offset < maxOffset && toRemove > 0; {
		nextOffset, msgs, err := l.Consume(offset, 32)
		if err != nil {
			return nil, err
		}
		offset = nextOffset

		for _, msg := range msgs {
			offsets[msg.Offset] = struct{}{}
			toRemove--

			if toRemove <= 0 {
				break
			}
		}
""", """	const batch = 32
	for offset := OffsetOldest; offset < maxOffset && toRemove > 0; {
		nextOffset, msgs, err := l.Consume(offset, batch)
		if err != nil {
			return nil, err
		}
		offset = nextOffset

		for i := 0; i < len(msgs) && toRemove > 0; i++ {
			offsets[msgs[i].Offset] = struct{}{}
			toRemove--
		}
""")]),
 ("FindUpdates: cut-off ends the scan through a flag instead of a labelled break", [("compact_updates.go", """SEARCH:
	for offset := OffsetOldest; offset < maxOffset; {
		nextOffset, msgs, err := l.Consume(offset, 32)
		if err != nil {
			return nil, err
		}
		offset = nextOffset

		for _, msg := range msgs {
			if msg.Time.After(before) {
				break SEARCH
			}

			if prevMsgOffset, ok := keyOffset.Insert(msg.Key, msg.Offset); ok {
				offsets[prevMsgOffset.(int64)] = struct{}{}
			}
		}
""", """	done := false
	for offset := OffsetOldest; offset < maxOffset && !done; {
		nextOffset, msgs, err := l.Consume(offset, 32)
		if err != nil {
			return nil, err
		}
		offset = nextOffset

		for _, msg := range msgs {
			if msg.Time.After(before) {
				done = true
				break
			}

			prevMsgOffset, replaced := keyOffset.Insert(msg.Key, msg.Offset)
			if replaced {
				offsets[prevMsgOffset.(int64)] = struct{}{}
			}
		}
""")]),
]

def main():
    flt = sys.argv[1] if len(sys.argv) > 1 else ""
    bad = 0
    for name, edits in CASES:
        if flt not in name:
            continue
        subprocess.run(["git", "-C", REPO, "checkout", "-q", "--", "."], check=True)
        ok = True
        for f, old, new in edits:
            p = os.path.join(REPO, f)
            s = open(p).read()
            if old not in s:
                print("PATTERN NOT FOUND:", name, f); ok = False; break
            open(p, "w").write(s.replace(old, new, 1))
        if not ok:
            bad += 1; continue
        r = subprocess.run(["go", "build", "./..."], cwd=REPO, env=env, capture_output=True, text=True)
        if r.returncode != 0:
            print("DOES NOT COMPILE:", name, r.stderr[-300:]); bad += 1; continue
        r = subprocess.run([BIN, "-verif", "/verif", "-repo", REPO, "-list", "-p", "all"], env=env, capture_output=True, text=True)
        lines = [l for l in r.stdout.splitlines() if (" violated: " in l or " undecided: " in l) and not l.startswith("    ")]
        print(("FALSE ALARM  " if lines else "silent       ") + name)
        for l in lines:
            print("     " + l[:220])
        bad += 1 if lines else 0
    subprocess.run(["git", "-C", REPO, "checkout", "-q", "--", "."], check=True)
    print("%d problem(s)" % bad)
    return 1 if bad else 0
sys.exit(main())
