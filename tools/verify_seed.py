#!/usr/bin/env python3
"""Confirms a seeded change in a scratch worktree (outside /repo and /verif), then runs the
checks against it in /repo (git apply, run, git checkout) and files it under /verif/seeded/<id>/.

usage: verify_seed.py <srcdir with patch.diff, meta.json, demo files> <seed id, e.g. C09-m1> [--no-suite]
"""
import json, os, shutil, subprocess, sys, glob, time

ENV = dict(os.environ, PATH="/opt/veriftools/go1.26.8/bin:" + os.environ["PATH"], GOFLAGS="-mod=mod", GOPROXY="off", GOSUMDB="off", GOTOOLCHAIN="local")
ENV.pop("GOWORK", None)

def sh(cmd, cwd, timeout=900):
    r = subprocess.run(cmd, cwd=cwd, env=ENV, shell=True, capture_output=True, text=True, timeout=timeout)
    return r.returncode, (r.stdout + r.stderr)

def main():
    src, sid = sys.argv[1], sys.argv[2]
    nosuite = "--no-suite" in sys.argv
    checks_only = "--checks-only" in sys.argv
    meta = json.load(open(os.path.join(src, "meta.json")))
    prop = meta["property"]
    demo_files = [f for f in os.listdir(src) if f not in ("patch.diff", "meta.json") and not f.endswith(".md")]
    wt = "/tmp/sv_" + sid
    res = {}
    if checks_only:
        old = json.load(open("/verif/seeded/" + sid + "/meta.json"))["verified_by_me"]
        res = {k: old[k] for k in ("demo_passes_without_change", "compiles", "demo_fails_with_change", "suite_passes_with_change") if k in old}
    else:
        subprocess.run(["git", "-C", "/repo", "worktree", "remove", "--force", wt], capture_output=True)
        subprocess.run(["git", "-C", "/repo", "worktree", "add", "-q", "--detach", wt, "HEAD"], check=True)
    try:
        if checks_only:
            raise StopIteration
        demo_cmd = meta["demo_cmd"]
        # some agents put a `cp <demo> <dir> &&` step in front: drop it, the files are placed below
        import re
        demo_cmd = re.sub(r"^((cp|mv) \S+ \S+ && )+", "", demo_cmd)
        # where do the demo files go? by the package clause of the demo file
        PKGDIR = {"klevdb": "", "klevdb_test": "", "message": "pkg/message", "message_test": "pkg/message", "segment": "pkg/segment", "segment_test": "pkg/segment",
                  "index": "pkg/index", "index_test": "pkg/index", "notify": "pkg/notify", "notify_test": "pkg/notify"}
        dests = {}
        for f in demo_files:
            pk = ""
            if f.endswith(".go"):
                mm = re.search(r"^package (\w+)", open(os.path.join(src, f)).read(), re.M)
                pk = PKGDIR.get(mm.group(1), "") if mm else ""
            dests[f] = os.path.join(wt, meta.get("demo_dir", pk))
            shutil.copy(os.path.join(src, f), dests[f])
        dest = None
        rc, out = sh(demo_cmd, wt)
        res["demo_passes_without_change"] = rc == 0
        res["demo_without_tail"] = out[-600:]
        rc, out = sh("git apply " + os.path.join(os.path.abspath(src), "patch.diff"), wt)
        if rc != 0:
            res["apply_failed"] = out
            print(json.dumps(res, indent=1)); return 1
        # the bar is the baseline's: go build and the suite with -vet=off; go vet is recorded on the side
        rc, out = sh("go build ./... && go test -vet=off -count=1 -run '^$' ./...", wt)
        res["compiles"] = rc == 0
        rc, out = sh("go vet ./...", wt)
        res["vet_clean"] = rc == 0
        rc, out = sh(demo_cmd, wt)
        res["demo_fails_with_change"] = rc != 0
        res["demo_with_tail"] = out[-1200:]
        for f in demo_files:
            os.remove(os.path.join(dests[f], f))
        if not nosuite:
            ok = True
            for i in range(2):
                rc, out = sh("go test -vet=off -count=1 ./...", wt)
                ok = ok and rc == 0
                if rc != 0:
                    res["suite_tail"] = out[-1500:]
            res["suite_passes_with_change"] = ok
    except StopIteration:
        pass
    finally:
        if not checks_only:
            subprocess.run(["git", "-C", "/repo", "worktree", "remove", "--force", wt], capture_output=True)
            subprocess.run(["go", "clean", "-testcache"], env=ENV, capture_output=True)
    # run the checks against the change in /repo
    fired = {}
    st = subprocess.run(["git", "-C", "/repo", "status", "--porcelain"], capture_output=True, text=True).stdout.strip()
    if st:
        print("REFUSING: /repo is not clean:", st); return 2
    subprocess.run(["git", "-C", "/repo", "apply", os.path.join(os.path.abspath(src), "patch.diff")], check=True)
    try:
        man = json.load(open("/verif/MANIFEST.json"))
        from concurrent.futures import ThreadPoolExecutor
        def one(chk):
            r = subprocess.run(chk["quick_cmd"], cwd="/verif", env=ENV, shell=True, capture_output=True, text=True)
            lines = [l for l in r.stdout.splitlines() if ("violated" in l or "undecided" in l) and not l.startswith("    ")]
            return chk["property_id"], r.returncode, lines
        with ThreadPoolExecutor(max_workers=10) as ex:
            for pid, rc, lines in ex.map(one, man["checks"]):
                if rc != 0:
                    fired[pid] = {"exit": rc, "diagnostics": lines[:6]}
    finally:
        subprocess.run(["git", "-C", "/repo", "checkout", "--", "."], check=True)
        subprocess.run(["git", "-C", "/repo", "clean", "-fdq"], check=True)
    res["checks_fired"] = fired
    res["caught_by_claimed_property_check"] = prop in fired
    res["caught_by_any_check"] = bool(fired)
    confirmed = res.get("compiles") and res.get("demo_fails_with_change") and res.get("demo_passes_without_change") and (nosuite or res.get("suite_passes_with_change"))
    res["confirmed"] = bool(confirmed)
    print(json.dumps({k: v for k, v in res.items() if not k.endswith("_tail")}, indent=1))
    if not confirmed:
        print("NOT CONFIRMED; tails:\n", res.get("demo_without_tail", ""), "\n----\n", res.get("demo_with_tail", ""), "\n----\n", res.get("suite_tail", ""))
        return 1
    out = "/verif/seeded/" + sid
    os.makedirs(out, exist_ok=True)
    if os.path.realpath(src) != os.path.realpath(out):
        shutil.copy(os.path.join(src, "patch.diff"), out)
        for f in demo_files:
            shutil.copy(os.path.join(src, f), os.path.join(out, f + (".txt" if f.endswith(".go") else "")))
    meta["verified_by_me"] = {k: v for k, v in res.items() if not k.endswith("_tail")}
    meta["what_i_ran"] = ["scratch worktree of /repo HEAD: demo (pass), git apply patch.diff, go build+vet, demo (fail), full suite x2 (pass)" if not nosuite else "scratch worktree: demo pass / apply / build / demo fail (suite skipped)",
                          "in /repo: git apply patch.diff; every check's quick_cmd from MANIFEST.json; git checkout -- ."]
    meta["demo_files_note"] = "Go demo files are stored with a .txt suffix so they are not compiled as part of /verif; copy back without the suffix to run"
    json.dump(meta, open(os.path.join(out, "meta.json"), "w"), indent=1)
    return 0

sys.exit(main())
